---- MODULE PqStatsTrace ----
(***************************************************************************)
(* C18 trace validation: one line = one REAL multi-file Parquet table (two *)
(* nullable integer columns of one of int32 / int64 / date32) and what the *)
(* real ParquetTable::statistics() said about it:                          *)
(*   [id, panic,                                                           *)
(*    cols : <<[files, flags, foot]>>   truth read back from the files with*)
(*           the parquet crate (file -> row group -> rows) and the real    *)
(*           footers of the column's chunks,                               *)
(*    obs  : <<[some, row_count, reps : <<[present, has_nulls, null_count, *)
(*           has_min, min, has_max, max]>>]>>   every DISTINCT answer of   *)
(*           statistics() (same provider twice, fresh provider once)]      *)
(* Values are order-preserving rank codes (token of rank r -> 2r, anything *)
(* else the odd number between its neighbours), NULL == VerifIO!NULL.      *)
(*                                                                         *)
(* Judged: the CONTRACT only — no panic, row count exact, null count exact *)
(* when present, every non-NULL value within a reported min / max.  A line *)
(* that breaks it is printed as <<"BAD", [line, rows, nulls, bound, panic, *)
(* known]>> (known = 1: exactly the shape of C18/minmax-partial-stats: only*)
(* the bound is broken, only by values of chunks that carry no statistics) *)
(* and the run goes on; the POSTCONDITION certifies that EVERY line was    *)
(* evaluated.  Fidelity only (<<"DRIFT", ..>>): the real footers differ    *)
(* from the modelled writer, an answer differs from the modelled as-built  *)
(* fold of the real footers, statistics() is not stable, or says nothing.  *)
(***************************************************************************)
EXTENDS PqStatsOps, IOUtils

Rec == ndJsonDeserialize(IOEnv.TRACE)
VARIABLE l

B(x) == IF x THEN 1 ELSE 0
\* the rows an honest reader of the footers can know about: row groups whose chunk carries statistics
Visible(c) == [i \in DOMAIN c.files |-> [j \in DOMAIN c.files[i] |->
                 IF c.foot[i][j].has_stats = 1 THEN c.files[i][j] ELSE <<>>]]

BoundOk(vals, rep) == LowerOk(vals, rep.has_min, rep.min) /\ UpperOk(vals, rep.has_max, rep.max)

\* breaches of one answer `o` of statistics() on line r
RowsBad(r, o)  == \E k \in DOMAIN r.cols : ~RowCountOk(FlatVals(r.cols[k].files), o.row_count)
NullsBad(r, o) == \E k \in DOMAIN r.cols : o.reps[k].present = 1 /\
                     ~NullCountOk(FlatVals(r.cols[k].files), o.reps[k].has_nulls, o.reps[k].null_count)
BoundBad(r, o) == \E k \in DOMAIN r.cols : o.reps[k].present = 1 /\ ~BoundOk(FlatVals(r.cols[k].files), o.reps[k])
\* ... every broken bound is broken only by rows of statistics-less chunks of a partially covered column
BoundBadOnlyKnownShape(r, o) ==
   \A k \in DOMAIN r.cols : (o.reps[k].present = 1 /\ ~BoundOk(FlatVals(r.cols[k].files), o.reps[k])) =>
        /\ Partial(Chunks(r.cols[k].foot))
        /\ BoundOk(FlatVals(Visible(r.cols[k])), o.reps[k])

Live(r) == SelectSeq(r.obs, LAMBDA o : o.some = 1)
AnyObs(r, P(_, _)) == \E i \in DOMAIN Live(r) : P(r, Live(r)[i])
Verdict(r) ==
  LET rows == B(r.panic = 0 /\ AnyObs(r, RowsBad))
      nulls == B(r.panic = 0 /\ AnyObs(r, NullsBad))
      bound == B(r.panic = 0 /\ AnyObs(r, BoundBad))
      known == B(r.panic = 0 /\ rows = 0 /\ nulls = 0 /\ bound = 1 /\
                 \A i \in DOMAIN Live(r) : BoundBadOnlyKnownShape(r, Live(r)[i]))
  IN [rows |-> rows, nulls |-> nulls, bound |-> bound, panic |-> r.panic, known |-> known]
IsBad(v) == v.rows + v.nulls + v.bound + v.panic > 0

\* ---- fidelity ----------------------------------------------------------------
RepIs(o, rep, m) ==
  /\ o.row_count = m.row_count
  /\ rep.has_nulls = m.has_nulls /\ (m.has_nulls = 1 => rep.null_count = m.null_count)
  /\ rep.has_min = m.has_mm /\ rep.has_max = m.has_mm
  /\ m.has_mm = 1 => (rep.min = m.min /\ rep.max = m.max)
Drift(r) ==
  LET footer == B(\E k \in DOMAIN r.cols : r.cols[k].foot # FootersOf(r.cols[k].files, r.cols[k].flags))
      fold == B(\E i \in DOMAIN Live(r) : \E k \in DOMAIN r.cols :
                   \/ Live(r)[i].reps[k].present = 0
                   \/ ~RepIs(Live(r)[i], Live(r)[i].reps[k], Fold("asbuilt", Chunks(r.cols[k].foot), NoRep)))
      unstable == B(Len(r.obs) > 1)
      silent == B(r.panic = 0 /\ Len(Live(r)) < Len(r.obs))
  IN [footer |-> footer, fold |-> fold, unstable |-> unstable, silent |-> silent]
IsDrift(d) == d.footer + d.fold + d.unstable + d.silent > 0

TInit == l = 1
Line == /\ l <= Len(Rec)
        /\ LET r == Rec[l] v == Verdict(r) d == Drift(r) IN
             /\ IsBad(v) => EmitTag("BAD", [line |-> l] @@ v)
             /\ (r.panic = 0 /\ IsDrift(d)) => EmitTag("DRIFT", [line |-> l] @@ d)
        /\ l' = l + 1
TNext == Line
Accepted == LET d == TLCGet("stats").diameter - 1 IN
            IF d = Len(Rec) THEN EmitTag("ACCEPT", [n |-> d])
            ELSE EmitTag("REJECT", [line |-> d + 1]) /\ FALSE
====
