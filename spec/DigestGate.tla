---- MODULE DigestGate ----
(***************************************************************************)
(* C14 — nodes that disagree about the data refuse to answer.              *)
(*                                                                         *)
(* A HISTORY of fragment exchanges between one long-lived initiator and    *)
(* one long-lived worker context.  One exchange, one action per step of    *)
(* the implementation:                                                     *)
(*   InitiatorSend    the initiator enumerates ITS copy for n shards and   *)
(*                    sends (shard_index, shard_count, digest)             *)
(*   WorkerMalformed  a request without a usable shard index never runs    *)
(*   WorkerEnumerate  the worker enumerates ITS OWN copy, AS IT IS NOW,    *)
(*                    for shard_count                                      *)
(*   WorkerCompare    digest mismatch -> refused                           *)
(*   WorkerSlice      shard_index out of range -> refused, else the        *)
(*                    fragment runs over the worker's slice                *)
(* Between exchanges the environment may rewrite either copy IN PLACE      *)
(* (Evolve: same files, another row-group layout / row count / byte size,  *)
(* or bring one copy in line with the other) and the next exchange may use *)
(* another shard count.  Nothing the worker context remembers from earlier *)
(* exchanges may decide a later one: the invariant is about the files as   *)
(* they are when the fragment is answered.                                 *)
(*                                                                         *)
(* MaxEx = 1: TLC enumerates every base inventory in the bounds paired     *)
(* with every variant as the worker's copy (same content re-listed /       *)
(* re-mounted; every single-attribute mutation: file name, row-group       *)
(* layout, a row count, a byte size, an extra / a missing file), every     *)
(* shard count in Ns and shard indices -1 (absent), 0, n-1, n, n+1.        *)
(* MaxEx > 1 (InPlace = TRUE): every history of MaxEx exchanges with       *)
(* in-place rewrites of either side between them.                          *)
(* Memo = TRUE is a named DEVIATION (the worker context memoises its split *)
(* set per shard count): TLC must find the stale-answer counterexample,    *)
(* which shows the histories are long enough to expose such a defect.      *)
(***************************************************************************)
EXTENDS SplitsOps, LptOps

CONSTANTS MaxFiles, MaxRgs, MaxRows, ByteVals, Ns,
          MaxEx,      \* exchanges per history
          InPlace,    \* TRUE: only variants that keep the file set (what an in-place rewrite can do)
          IdxAll,     \* TRUE: shard indices -1, 0, n-1, n, n+1; FALSE: 0 and n
          Memo,       \* deviation: the worker memoises its digest per shard count
          EmitShapes  \* TRUE: emit only the histories in which, at one shard count and with valid indices, the
                      \* copies agree and later differ, or differ and later agree (FALSE: emit every history)

VARIABLES shape,   \* [F, lens] chosen first
          pair,    \* [init, work, kind, n, idx]: both copies as they are NOW + the current request parameters
          pc, req, wdig, out, rows,
          ex,      \* number of the current exchange
          memo,    \* what the worker context remembers: shard count -> digest (stays empty unless Memo)
          hist     \* finished exchanges: <<[init, work, kind, n, idx, expect, same]>>
vars == <<shape, pair, pc, req, wdig, out, rows, ex, memo, hist>>

RgVals == {[rows |-> 0, bytes |-> 0]} \cup [rows : 1..MaxRows, bytes : ByteVals]
RECURSIVE Chop(_, _, _)
Chop(flat, lens, k) == IF k > Len(lens) THEN <<>>
                       ELSE <<SubSeq(flat, 1, lens[k])>> \o Chop(SubSeq(flat, lens[k] + 1, Len(flat)), lens, k + 1)

Reverse(s) == [i \in DOMAIN s |-> s[Len(s) + 1 - i]]
Moved(files) == [i \in DOMAIN files |-> [files[i] EXCEPT !.dir = @ + 10]]
InPlaceKinds == {"rowplus", "bytesplus", "rgplus", "rgminus"}
InPlaceMutants(files) == {m \in Mutants(files) : m.kind \in InPlaceKinds}
\* the worker's copy: the same content differently listed/mounted, or one attribute changed
Variants(files) == IF InPlace THEN {[kind |-> "same", files |-> files]} \cup InPlaceMutants(files)
                   ELSE {[kind |-> "same", files |-> files],
                         [kind |-> "same-moved", files |-> Moved(files)],
                         [kind |-> "same-perm", files |-> Moved(Reverse(files))]}
                        \cup Mutants(files)
Indices(n) == IF IdxAll THEN {-1, 0, n - 1, n, n + 1} ELSE {0, n}

NoPair == [n |-> 0]
Init == /\ pc = "shape" /\ pair = NoPair /\ req = NoPair /\ wdig = <<>> /\ out = "none" /\ rows = {}
        /\ ex = 1 /\ memo = <<>> /\ hist = <<>>
        /\ \E F \in 1..MaxFiles, L \in 0..MaxRgs : \E lens \in [1..F -> 0..L] :
              /\ SumSeq(lens) = L
              /\ shape = [F |-> F, lens |-> lens]

Fill == /\ pc = "shape"
        /\ \E flat \in [1..SumSeq(shape.lens) -> RgVals] :
              LET parts == Chop(flat, shape.lens, 1)
                  base == [i \in 1..shape.F |-> [name |-> i, dir |-> i, rgs |-> parts[i]]]
              IN \E v \in Variants(base), n \in Ns : \E idx \in Indices(n) :
                    pair' = [init |-> base, work |-> v.files, kind |-> v.kind, n |-> n, idx |-> idx]
        /\ pc' = "init"
        /\ UNCHANGED <<shape, req, wdig, out, rows, ex, memo, hist>>

InitiatorSend == /\ pc = "init"
                 /\ req' = [digest |-> Digest(ImplEnumerate(pair.init, pair.n)), n |-> pair.n, idx |-> pair.idx]
                 /\ pc' = "sent"
                 /\ UNCHANGED <<shape, pair, wdig, out, rows, ex, memo, hist>>

Finished(o) == Append(hist, [init |-> pair.init, work |-> pair.work, kind |-> pair.kind, n |-> pair.n, idx |-> pair.idx,
                             expect |-> o, same |-> IF SameContent(pair.init, pair.work) THEN 1 ELSE 0])

WorkerMalformed == /\ pc = "sent" /\ req.idx < 0
                   /\ out' = "refused" /\ pc' = "done" /\ hist' = Finished("refused")
                   /\ UNCHANGED <<shape, pair, req, wdig, rows, ex, memo>>

\* the worker's digest comes from its files as they are now; under the deviation Memo it is whatever
\* this context computed the first time it was asked for that shard count
WorkerEnumerate == /\ pc = "sent" /\ req.idx >= 0
                   /\ LET fresh == Digest(ImplEnumerate(pair.work, req.n))
                          known == {i \in DOMAIN memo : memo[i].n = req.n}
                      IN IF Memo /\ known # {}
                         THEN wdig' = memo[CHOOSE i \in known : TRUE].digest /\ memo' = memo
                         ELSE wdig' = fresh /\ memo' = IF Memo THEN Append(memo, [n |-> req.n, digest |-> fresh]) ELSE memo
                   /\ pc' = "enumerated"
                   /\ UNCHANGED <<shape, pair, req, out, rows, ex, hist>>

WorkerCompare == /\ pc = "enumerated"
                 /\ IF wdig = req.digest THEN pc' = "assigned" /\ out' = out /\ hist' = hist
                    ELSE pc' = "done" /\ out' = "refused" /\ hist' = Finished("refused")
                 /\ UNCHANGED <<shape, pair, req, wdig, rows, ex, memo>>

\* rows (file name, row group, row) of shard idx of `files` divided n ways
RowsOfShard(files, n, idx) ==
  LET e == ImplEnumerate(files, n)
      own == LptOwner([i \in DOMAIN e |-> e[i].bytes], n)
  IN UNION {{<<e[i].file, e[i].rg, r>> : r \in e[i].off..(e[i].off + e[i].n - 1)} : i \in {i \in DOMAIN e : own[i] = idx + 1}}

WorkerSlice == /\ pc = "assigned"
               /\ IF req.idx < req.n
                  THEN out' = "ran" /\ rows' = RowsOfShard(pair.work, req.n, req.idx) /\ hist' = Finished("ran")
                  ELSE out' = "refused" /\ rows' = rows /\ hist' = Finished("refused")
               /\ pc' = "done"
               /\ UNCHANGED <<shape, pair, req, wdig, ex, memo>>

\* ---- between exchanges: the environment rewrites files in place, then the next request arrives ----
\* content of `src` written over the files of `dst` (same names, dst keeps its directories)
Overwrite(dst, src) == [i \in DOMAIN dst |-> [dst[i] EXCEPT !.rgs = src[i].rgs]]
Evolve == /\ pc = "done" /\ ex < MaxEx
          /\ \E n \in Ns : \E idx \in Indices(n) :
                \/ pair' = [pair EXCEPT !.n = n, !.idx = idx, !.kind = "unchanged"]
                \/ \E m \in InPlaceMutants(pair.work) :                       \* WorkerFilesChange
                      pair' = [pair EXCEPT !.work = m.files, !.n = n, !.idx = idx, !.kind = "worker-" \o m.kind]
                \/ \E m \in InPlaceMutants(pair.init) :                       \* InitiatorFilesChange
                      pair' = [pair EXCEPT !.init = m.files, !.n = n, !.idx = idx, !.kind = "initiator-" \o m.kind]
                \/ /\ ~SameContent(pair.init, pair.work)                       \* the worker's copy is brought in line
                   /\ pair' = [pair EXCEPT !.work = Overwrite(pair.work, pair.init), !.n = n, !.idx = idx, !.kind = "worker-fixed"]
                \/ /\ ~SameContent(pair.init, pair.work)                       \* the initiator's copy is brought in line
                   /\ pair' = [pair EXCEPT !.init = Overwrite(pair.init, pair.work), !.n = n, !.idx = idx, !.kind = "initiator-fixed"]
          /\ ex' = ex + 1 /\ pc' = "init" /\ out' = "none" /\ rows' = {} /\ wdig' = <<>> /\ req' = NoPair
          /\ UNCHANGED <<shape, memo, hist>>

Next == Fill \/ InitiatorSend \/ WorkerMalformed \/ WorkerEnumerate \/ WorkerCompare \/ WorkerSlice \/ Evolve

\* ---- properties ---------------------------------------------------------------
InRange == pair.idx >= 0 /\ pair.idx < pair.n
\* answered only if the copies AS THEY ARE NOW agree (equivalently: the digest the worker would compute
\* from its files now equals the request's) and the index is a shard
Safety == out = "ran" => (SameContent(pair.init, pair.work) /\ InRange
                          /\ Digest(ImplEnumerate(pair.work, pair.n)) = req.digest)
SameRows == out = "ran" => rows = RowsOfShard(pair.init, pair.n, pair.idx)
NothingBeforeTheGate == rows # {} => (out = "ran" /\ wdig = req.digest)
\* the gate is not a blanket refusal: equal copies and a valid index do run
Complete == pc = "done" => ((SameContent(pair.init, pair.work) /\ InRange) => out = "ran")
HistLen == (pc = "done" => Len(hist) = ex) /\ (pc # "done" => Len(hist) = ex - 1)

Valid(st) == st.idx >= 0 /\ st.idx < st.n
KeyShape(h) == \E i, j \in DOMAIN h : i < j /\ h[i].n = h[j].n /\ Valid(h[i]) /\ Valid(h[j]) /\ h[i].same # h[j].same
Emit == (pc = "done" /\ ex = MaxEx /\ (EmitShapes => KeyShape(hist))) => EmitCase([steps |-> hist])
====
