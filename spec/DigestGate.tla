---- MODULE DigestGate ----
(***************************************************************************)
(* C14 — nodes that disagree about the data refuse to answer.              *)
(*                                                                         *)
(* One fragment exchange, one action per step of the implementation:       *)
(*   InitiatorSend    the initiator enumerates ITS copy for n shards and   *)
(*                    sends (shard_index, shard_count, digest)             *)
(*   WorkerMalformed  a request without a usable shard index never runs    *)
(*   WorkerEnumerate  the worker enumerates ITS OWN copy for shard_count   *)
(*   WorkerCompare    digest mismatch -> refused                           *)
(*   WorkerSlice      shard_index out of range -> refused, else the        *)
(*                    fragment runs over the worker's slice                *)
(* TLC enumerates every base inventory in the bounds, paired with every    *)
(* variant of it (same content listed in another order / under other       *)
(* directories; every single-attribute mutation: file name, row-group      *)
(* layout, a row count, a byte size, an extra / a missing file) as the     *)
(* worker's copy, every shard count in Ns and shard indices -1 (absent),   *)
(* 0, n-1, n, n+1.                                                         *)
(* Safety: a fragment runs only if both copies have the same split-relevant*)
(* content and the index is in range; then it runs over exactly the rows   *)
(* the initiator attributes to that shard.                                 *)
(***************************************************************************)
EXTENDS SplitsOps, LptOps

CONSTANTS MaxFiles, MaxRgs, MaxRows, ByteVals, Ns

VARIABLES shape,   \* [F, lens] chosen first
          pair,    \* [init, work, kind, n, idx]
          pc, req, wdig, out, rows
vars == <<shape, pair, pc, req, wdig, out, rows>>

RgVals == {[rows |-> 0, bytes |-> 0]} \cup [rows : 1..MaxRows, bytes : ByteVals]
RECURSIVE Chop(_, _, _)
Chop(flat, lens, k) == IF k > Len(lens) THEN <<>>
                       ELSE <<SubSeq(flat, 1, lens[k])>> \o Chop(SubSeq(flat, lens[k] + 1, Len(flat)), lens, k + 1)

Reverse(s) == [i \in DOMAIN s |-> s[Len(s) + 1 - i]]
Moved(files) == [i \in DOMAIN files |-> [files[i] EXCEPT !.dir = @ + 10]]
\* the worker's copy: the same content differently listed/mounted, or one attribute changed
Variants(files) == {[kind |-> "same", files |-> files],
                    [kind |-> "same-moved", files |-> Moved(files)],
                    [kind |-> "same-perm", files |-> Moved(Reverse(files))]}
                   \cup Mutants(files)
Indices(n) == {-1, 0, n - 1, n, n + 1}

NoPair == [n |-> 0]
Init == /\ pc = "shape" /\ pair = NoPair /\ req = NoPair /\ wdig = <<>> /\ out = "none" /\ rows = {}
        /\ \E F \in 1..MaxFiles, L \in 0..MaxRgs : \E lens \in [1..F -> 0..L] :
              /\ SumSeq(lens) = L
              /\ shape = [F |-> F, lens |-> lens]

Fill == /\ pc = "shape"
        /\ \E flat \in [1..SumSeq(shape.lens) -> RgVals] :
              LET parts == Chop(flat, shape.lens, 1)
                  base == [i \in 1..shape.F |-> [name |-> i, dir |-> i, rgs |-> parts[i]]]
              IN \E v \in Variants(base), n \in Ns : \E idx \in Indices(n) :
                    pair' = [init |-> base, work |-> v.files, kind |-> v.kind, n |-> n, idx |-> idx]
        /\ pc' = "init"
        /\ UNCHANGED <<shape, req, wdig, out, rows>>

InitiatorSend == /\ pc = "init"
                 /\ req' = [digest |-> Digest(ImplEnumerate(pair.init, pair.n)), n |-> pair.n, idx |-> pair.idx]
                 /\ pc' = "sent"
                 /\ UNCHANGED <<shape, pair, wdig, out, rows>>

WorkerMalformed == /\ pc = "sent" /\ req.idx < 0
                   /\ out' = "refused" /\ pc' = "done"
                   /\ UNCHANGED <<shape, pair, req, wdig, rows>>

WorkerEnumerate == /\ pc = "sent" /\ req.idx >= 0
                   /\ wdig' = Digest(ImplEnumerate(pair.work, req.n))
                   /\ pc' = "enumerated"
                   /\ UNCHANGED <<shape, pair, req, out, rows>>

WorkerCompare == /\ pc = "enumerated"
                 /\ IF wdig = req.digest THEN pc' = "assigned" /\ out' = out
                    ELSE pc' = "done" /\ out' = "refused"
                 /\ UNCHANGED <<shape, pair, req, wdig, rows>>

\* rows (file name, row group, row) of shard idx of `files` divided n ways
RowsOfShard(files, n, idx) ==
  LET e == ImplEnumerate(files, n)
      own == LptOwner([i \in DOMAIN e |-> e[i].bytes], n)
  IN UNION {{<<e[i].file, e[i].rg, r>> : r \in e[i].off..(e[i].off + e[i].n - 1)} : i \in {i \in DOMAIN e : own[i] = idx + 1}}

WorkerSlice == /\ pc = "assigned"
               /\ IF req.idx < req.n
                  THEN out' = "ran" /\ rows' = RowsOfShard(pair.work, req.n, req.idx)
                  ELSE out' = "refused" /\ rows' = rows
               /\ pc' = "done"
               /\ UNCHANGED <<shape, pair, req, wdig>>

Next == Fill \/ InitiatorSend \/ WorkerMalformed \/ WorkerEnumerate \/ WorkerCompare \/ WorkerSlice

\* ---- properties ---------------------------------------------------------------
InRange == pair.idx >= 0 /\ pair.idx < pair.n
Safety == out = "ran" => (SameContent(pair.init, pair.work) /\ InRange)
SameRows == out = "ran" => rows = RowsOfShard(pair.init, pair.n, pair.idx)
NothingBeforeTheGate == rows # {} => (out = "ran" /\ wdig = req.digest)
\* the gate is not a blanket refusal: equal copies and a valid index do run
Complete == pc = "done" => ((SameContent(pair.init, pair.work) /\ InRange) => out = "ran")

Emit == pc = "done" => EmitCase([init |-> pair.init, work |-> pair.work, kind |-> pair.kind, n |-> pair.n, idx |-> pair.idx,
                                 expect |-> out, same |-> IF SameContent(pair.init, pair.work) THEN 1 ELSE 0])
====
