---- MODULE SpillJoin ----
(***************************************************************************)
(* C08 — partitioned, spilling hash join                                   *)
(* (SpillableHashJoinExec::execute / execute_spill_path /                  *)
(* build_with_partitioning / probe_with_spilling /                         *)
(* process_spilled_partition in src/physical/operators/spillable.rs), one  *)
(* action per implementation step:                                         *)
(*   Fill*       choose the build-side and probe-side batches              *)
(*   Decide      build_size > threshold ?  spill path : in-memory          *)
(*               HashJoinExec.  On the spill path every join type but      *)
(*               INNER is refused with an explicit error (the partitioned  *)
(*               probe implements inner-join semantics only).              *)
(*   BuildTake   a build batch arrives: iff total_memory + batch >         *)
(*               threshold the LARGEST in-memory partition (last among     *)
(*               equals, EVEN IF EMPTY) is evicted to its build file (an   *)
(*               empty partition is marked spilled without a file); the    *)
(*               batch is split by hash(key); pieces go to the in-memory   *)
(*               partition or are appended to the build file               *)
(*   ProbeTake   a probe batch is split by hash(key): a piece probes the   *)
(*               in-memory hash table of its partition, or is appended to  *)
(*               the probe file of a spilled partition, or is dropped      *)
(*               (no build rows there)                                     *)
(*   Drain       one spilled partition: its build file is re-read, hashed, *)
(*               and probed with its probe file.  As built (MissingFile =  *)
(*               TRUE) a partition evicted while empty and never written   *)
(*               to has no file: "Failed to open parquet file" — an        *)
(*               explicit error.                                           *)
(* NULL keys never match (skipped on both sides).  The hash is an          *)
(* arbitrary function of the key; sizes are counted in rows.               *)
(*                                                                         *)
(* CONTRACT (invariants): build rows are conserved and stay in the         *)
(* partition of their key; the outcome is an explicit error, or exactly    *)
(* the join of the two inputs under the join type's SQL semantics (inner   *)
(* matches; NULL-extension for outer joins; SEMI / ANTI as EXISTS / NOT    *)
(* EXISTS) with no pair twice; a non-inner join never returns rows from    *)
(* the spill path (NonInnerNeverSpills).                                   *)
(* SilentOuter = TRUE is the seeded mistake "a non-inner join silently     *)
(* takes the spill path" (inner-join rows, NULL-extension lost): TLC must  *)
(* refute AtDone.                                                          *)
(***************************************************************************)
EXTENDS VerifIO, SequencesExt

CONSTANTS MaxBuild, MaxProbe,    \* rows per side
          MaxBatches,            \* batches per side
          NKeyVals,
          P,
          JoinTypes,             \* subset of 1..6: 1 inner 2 left 3 right 4 full 5 semi 6 anti
          HashAll,               \* TRUE: every hash function; FALSE: NULL keys hash to partition 1 (they never match)
          MissingFile, SilentOuter,
          EmitMod

VARIABLES lsz, rsz,       \* batch shapes of the left and right input
          left, right,    \* Seq of batches of rows [k, id]
          jt, br,         \* join type; build_right flag
          T, h, pc, pos,
          mem, st, file, hasfile, pfile,
          total, res, path, out

vars == <<lsz, rsz, left, right, jt, br, T, h, pc, pos, mem, st, file, hasfile, pfile, total, res, path, out>>

KeyDom == (0..(NKeyVals - 1)) \cup {NULL}
KeySeq == SetToSeq(KeyDom)
NK == Len(KeySeq)
RECURSIVE SumS(_)
SumS(s) == IF s = <<>> THEN 0 ELSE Head(s) + SumS(Tail(s))
ShapesUpTo(n) == {s \in UNION {[1..m -> 1..n] : m \in 1..MaxBatches} : SumS(s) <= n}
Flat(ss) == IF ss = <<>> THEN <<>> ELSE FoldLeft(LAMBDA a, b : a \o b, <<>>, ss)

\* the side the operator builds its hash table from: right for RIGHT joins or when build_right is set
BuildIsRight == br = 1 \/ jt = 3
Build == IF BuildIsRight THEN right ELSE left
Probe == IF BuildIsRight THEN left ELSE right
L == Flat(left)
R == Flat(right)

Init == /\ jt = 1 /\ br = 0                         \* join type and build side are chosen in Decide
        /\ lsz \in ShapesUpTo(MaxBuild) /\ rsz \in ShapesUpTo(MaxProbe)
        /\ T = 0                                  \* chosen in Decide
        /\ h = [k \in KeyDom |-> 1]
        /\ left = <<>> /\ right = <<>> /\ pc = "fillL" /\ pos = 1
        /\ mem = [p \in 1..P |-> <<>>] /\ st = [p \in 1..P |-> "mem"] /\ file = [p \in 1..P |-> <<>>]
        /\ hasfile = [p \in 1..P |-> FALSE] /\ pfile = [p \in 1..P |-> <<>>]
        /\ total = 0 /\ res = <<>> /\ path = "none" /\ out = [k |-> "none", rows |-> <<>>]

BatchOf(s, off) == [i \in DOMAIN s |-> [k |-> KeySeq[s[i]], id |-> off + i]]
NonDec(s) == \A i \in 1..(Len(s) - 1) : s[i] <= s[i + 1]
FillL == /\ pc = "fillL"
         /\ IF pos <= Len(lsz)
            THEN /\ \E s \in [1..lsz[pos] -> 1..NK] : NonDec(s) /\ left' = Append(left, BatchOf(s, SumS(SubSeq(lsz, 1, pos - 1))))
                 /\ pos' = pos + 1 /\ UNCHANGED pc
            ELSE pc' = "fillR" /\ pos' = 1 /\ UNCHANGED left
         /\ UNCHANGED <<lsz, rsz, right, jt, br, T, h, mem, st, file, hasfile, pfile, total, res, path, out>>
FillR == /\ pc = "fillR" /\ pos <= Len(rsz)
         /\ \E s \in [1..rsz[pos] -> 1..NK] : NonDec(s) /\ right' = Append(right, BatchOf(s, SumS(SubSeq(rsz, 1, pos - 1))))
         /\ pos' = pos + 1
         /\ UNCHANGED <<lsz, rsz, left, jt, br, T, h, pc, mem, st, file, hasfile, pfile, total, res, path, out>>

\* ---- SQL join semantics (pairs <<left id, right id>>, NULL = no partner) ---------------------------
Match(l, r) == l.k # NULL /\ l.k = r.k
Inner == {<<L[ij[1]].id, R[ij[2]].id>> : ij \in {x \in (DOMAIN L) \X (DOMAIN R) : Match(L[x[1]], R[x[2]])}}
LUn == {i \in DOMAIN L : ~\E j \in DOMAIN R : Match(L[i], R[j])}
RUn == {j \in DOMAIN R : ~\E i \in DOMAIN L : Match(L[i], R[j])}
JoinBagOf(t) == CASE t = 1 -> Inner
             [] t = 2 -> Inner \cup {<<L[i].id, NULL>> : i \in LUn}
             [] t = 3 -> Inner \cup {<<NULL, R[j].id>> : j \in RUn}
             [] t = 4 -> Inner \cup {<<L[i].id, NULL>> : i \in LUn} \cup {<<NULL, R[j].id>> : j \in RUn}
             [] t = 5 -> {<<L[i].id, NULL>> : i \in (DOMAIN L) \ LUn}
             [] t = 6 -> {<<L[i].id, NULL>> : i \in LUn}
JoinBag == JoinBagOf(jt)

\* pairs produced by probing build rows `b` with probe rows `p` (inner-join semantics; output is left ++ right)
Pairs(b, p) == LET hits == {ij \in (DOMAIN b) \X (DOMAIN p) : b[ij[1]].k # NULL /\ b[ij[1]].k = p[ij[2]].k}
               IN SetToSeq({IF BuildIsRight THEN <<p[ij[2]].id, b[ij[1]].id>> ELSE <<b[ij[1]].id, p[ij[2]].id>> : ij \in hits})

SizeOf(side) == SumS([i \in DOMAIN side |-> Len(side[i])])
Decide == /\ pc = "fillR" /\ pos > Len(rsz)
          /\ \E j \in JoinTypes, b \in {0, 1} :
              /\ (b = 1 => j \in {1, 2})                    \* build_right is a planner choice for INNER / LEFT
              /\ jt' = j /\ br' = b
              /\ LET bsize == SizeOf(IF b = 1 \/ j = 3 THEN right ELSE left) IN
                 \E t \in 0..bsize :
                   /\ T' = t
                   /\ IF bsize > t
                      THEN IF j # 1 /\ ~SilentOuter
                           THEN /\ out' = [k |-> "error", rows |-> <<>>] /\ pc' = "done" /\ path' = "spill" /\ UNCHANGED <<h, pos>>
                           ELSE /\ path' = "spill" /\ pc' = "build" /\ pos' = 1 /\ UNCHANGED out
                                /\ h' \in {f \in [KeyDom -> 1..P] : HashAll \/ f[NULL] = 1}                        \* any hash function
                      ELSE /\ path' = "mem" /\ pc' = "done" /\ UNCHANGED <<h, pos>>
                           /\ out' = [k |-> "rows", rows |-> SetToSeq(JoinBagOf(j))]
          /\ UNCHANGED <<lsz, rsz, left, right, mem, st, file, hasfile, pfile, total, res>>

\* find_largest_partition over the partitions still in memory: max_by_key returns the LAST maximum
InMem == {p \in 1..P : st[p] = "mem"}
LargestIn == CHOOSE p \in InMem : \A q \in InMem : Len(mem[q]) < Len(mem[p]) \/ (Len(mem[q]) = Len(mem[p]) /\ q <= p)
Piece(b, p) == SelectSeq(b, LAMBDA r : h[r.k] = p)
BuildTake == /\ pc = "build" /\ pos <= Len(Build)
             /\ LET b == Build[pos]
                    evict == total + Len(b) > T /\ InMem # {}
                    vp == LargestIn
                    st1 == IF evict THEN [st EXCEPT ![vp] = "spilled"] ELSE st
                    f1 == IF evict THEN [file EXCEPT ![vp] = mem[vp]] ELSE file
                    hf1 == IF evict THEN [hasfile EXCEPT ![vp] = mem[vp] # <<>>] ELSE hasfile
                    m1 == IF evict THEN [mem EXCEPT ![vp] = <<>>] ELSE mem
                    t1 == IF evict THEN total - Len(mem[vp]) ELSE total
                IN /\ st' = st1
                   /\ mem' = [p \in 1..P |-> IF st1[p] = "mem" THEN m1[p] \o Piece(b, p) ELSE m1[p]]
                   /\ file' = [p \in 1..P |-> IF st1[p] = "spilled" THEN f1[p] \o Piece(b, p) ELSE f1[p]]
                   /\ hasfile' = [p \in 1..P |-> hf1[p] \/ (st1[p] = "spilled" /\ Piece(b, p) # <<>>)]
                   /\ total' = t1 + SumS([p \in 1..P |-> IF st1[p] = "mem" THEN Len(Piece(b, p)) ELSE 0])
             /\ pos' = pos + 1
             /\ UNCHANGED <<lsz, rsz, left, right, jt, br, T, h, pc, pfile, res, path, out>>
EndBuild == /\ pc = "build" /\ pos > Len(Build)
            /\ pc' = "probe" /\ pos' = 1
            /\ UNCHANGED <<lsz, rsz, left, right, jt, br, T, h, mem, st, file, hasfile, pfile, total, res, path, out>>

ProbeTake == /\ pc = "probe" /\ pos <= Len(Probe)
             /\ LET b == Probe[pos] IN
                /\ res' = res \o Flat([p \in 1..P |-> IF st[p] = "mem" /\ mem[p] # <<>> THEN Pairs(mem[p], Piece(b, p)) ELSE <<>>])
                /\ pfile' = [p \in 1..P |-> IF st[p] = "spilled" THEN pfile[p] \o Piece(b, p) ELSE pfile[p]]
             /\ pos' = pos + 1
             /\ UNCHANGED <<lsz, rsz, left, right, jt, br, T, h, pc, mem, st, file, hasfile, total, path, out>>
EndProbe == /\ pc = "probe" /\ pos > Len(Probe)
            /\ pc' = "drain" /\ pos' = 1
            /\ UNCHANGED <<lsz, rsz, left, right, jt, br, T, h, mem, st, file, hasfile, pfile, total, res, path, out>>

\* process_spilled_partition, partitions in index order
Drain == /\ pc = "drain"
         /\ IF pos > P
            THEN out' = [k |-> "rows", rows |-> res] /\ pc' = "done" /\ UNCHANGED <<res, pos>>
            ELSE IF st[pos] # "spilled"
            THEN pos' = pos + 1 /\ UNCHANGED <<res, out, pc>>
            ELSE IF ~hasfile[pos] /\ MissingFile
            THEN out' = [k |-> "error", rows |-> <<>>] /\ pc' = "done" /\ UNCHANGED <<res, pos>>   \* "Failed to open parquet file"
            ELSE res' = res \o Pairs(file[pos], pfile[pos]) /\ pos' = pos + 1 /\ UNCHANGED <<out, pc>>
         /\ UNCHANGED <<lsz, rsz, left, right, jt, br, T, h, mem, st, file, hasfile, pfile, total, path>>

Next == FillL \/ FillR \/ Decide \/ BuildTake \/ EndBuild \/ ProbeTake \/ EndProbe \/ Drain

\* ---- invariants --------------------------------------------------------------------------------
Ids(rows) == {rows[i].id : i \in DOMAIN rows}
BuildRows == Flat(Build)
HeldB == Flat([p \in 1..P |-> mem[p] \o file[p]])
PendingB == IF pc = "build" /\ pos <= Len(Build) THEN Flat(SubSeq(Build, pos, Len(Build))) ELSE <<>>
BuildConserves == (pc \in {"build", "probe", "drain"}) =>
   LET a == HeldB \o PendingB IN Len(a) = Len(BuildRows) /\ Ids(a) = Ids(BuildRows)
KeyHome == (pc \in {"build", "probe", "drain"}) =>
   \A p \in 1..P : /\ \A i \in DOMAIN mem[p] : h[mem[p][i].k] = p
                   /\ \A i \in DOMAIN file[p] : h[file[p][i].k] = p
                   /\ \A i \in DOMAIN pfile[p] : h[pfile[p][i].k] = p
                   /\ (st[p] = "spilled" => mem[p] = <<>>) /\ (st[p] = "mem" => file[p] = <<>> /\ pfile[p] = <<>>)
TotalIsMem == pc = "build" => total = SumS([p \in 1..P |-> Len(mem[p])])
AtDone == pc = "done" =>
   /\ out.k \in {"rows", "error"}
   /\ out.k = "rows" => /\ {out.rows[i] : i \in DOMAIN out.rows} = JoinBag
                        /\ Len(out.rows) = Cardinality(JoinBag)
   /\ out.k = "error" => path = "spill"
NonInnerNeverSpills == (pc = "done" /\ path = "spill" /\ jt # 1) => out.k = "error"

Checksum == SumS([i \in DOMAIN L |-> (i * 7 + 3) * (IF L[i].k = NULL THEN 5 ELSE L[i].k + 1)])
          + SumS([i \in DOMAIN R |-> (i * 5 + 2) * (IF R[i].k = NULL THEN 7 ELSE R[i].k + 1)]) + jt
\* one case per (inputs, join type, build side); the hash and the threshold do not change the expected bag
Emit == (pc = "done" /\ path = "mem" /\ Checksum % EmitMod = 0) =>
   EmitCase([left |-> [b \in DOMAIN left |-> [i \in DOMAIN left[b] |-> <<left[b][i].k, left[b][i].id>>]],
             right |-> [b \in DOMAIN right |-> [i \in DOMAIN right[b] |-> <<right[b][i].k, right[b][i].id>>]],
             jt |-> jt, br |-> br,
             exp |-> LET g == SetToSeq(JoinBag) IN [i \in DOMAIN g |-> g[i]]])
\* model-level coverage (each must be REFUTED by TLC: the situation is reachable)
CoverAnswerAfterSpill == ~(pc = "done" /\ path = "spill" /\ out.k = "rows" /\ out.rows # <<>>
                           /\ \E p \in 1..P : st[p] = "spilled" /\ pfile[p] # <<>>)
CoverMissingFile == ~(pc = "done" /\ path = "spill" /\ jt = 1 /\ out.k = "error")
====
