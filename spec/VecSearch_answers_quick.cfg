CONSTANTS Fam = "answers"
          MaxN = 3
          NTab = 1
          Syms <- SymsSmall
          Ks <- KsQuick
          Ms <- MsQuick
          EmitMod = 29
          Gate = "asbuilt"
INIT Init
NEXT Next
INVARIANT FiresOnlyOnCanonical
INVARIANT ExactWhenAsked
INVARIANT AcceptLaws
INVARIANT Emit
CHECK_DEADLOCK FALSE
