---- MODULE NameResTrace ----
(* Trace validation for X01 (sub-model of C01): every recorded (scope configuration, reference, observed outcome)
   of the real engine must be explained by NameRes.tla.  One ND-JSON line = one generated statement family:
     cfg  : the scope configuration (same shape as NameRes!cfg)
     obs  : e = 1  the engine failed the statement (always acceptable under C01: errors are permitted outcomes)
            e = 0  the engine ANSWERED; os = origins the answer is consistent with (exact for value / probe
                   observations, a superset for ORDER BY / GROUP BY), star = origins of a `*` / `q.*` answer
   An answer is accepted iff it shows a column the model allows; an answer where every allowed outcome is an
   error is rejected.  The engine has many open findings here, so the walk does not stop at the first rejected
   line: every line is judged, each rejected one is printed as <<"REJECT", {line, allowed, star}>>, and the
   POSTCONDITION reports how many lines were judged. *)
EXTENDS Naturals, Integers, Sequences, FiniteSets, TLC, Json, IOUtils

Tier == "trace"
Mut == "none"
VARIABLE cfg
INSTANCE NameRes

Rec == ndJsonDeserialize(IOEnv.TRACE)
VARIABLE l
TInit == l = 1 /\ cfg = [ph |-> 0]
AcceptRec(r) ==
    \/ r.obs.e = 1
    \/ /\ r.cfg.ref.k >= 2
       /\ r.obs.star = AllowedStar(r.cfg)
    \/ /\ r.cfg.ref.k < 2
       /\ \E i \in DOMAIN r.obs.os : r.obs.os[i] # ERR /\ r.obs.os[i] \in AllowedObs(r.cfg)
Judge(r, line) == IF AcceptRec(r) THEN TRUE
                  ELSE EmitTag("REJECT", [line |-> line, allowed |-> SetSeq(AllowedObs(r.cfg)), star |-> AllowedStar(r.cfg)])
Step == /\ l <= Len(Rec)
        /\ Judge(Rec[l], l)
        /\ l' = l + 1 /\ UNCHANGED cfg
TNext == Step
Accepted == LET d == TLCGet("stats").diameter - 1 IN
            IF d = Len(Rec) THEN EmitTag("JUDGED", [n |-> d]) ELSE EmitTag("STUCK", [line |-> d + 1]) /\ FALSE
====
