CONSTANTS N = 3
 NShards = 2
 Family = "twophase"
INIT Init
NEXT Next
INVARIANT BadCount
CHECK_DEADLOCK FALSE
