CONSTANTS MaxRows = 1
          MaxBatches = 1
          NKeyVals = 1
          NKeys = 1
          SpecCodes = {0}
          SplitFanIns = {}
          Singles = {205, 206}
          Fetches = {99}
          NoFetch = 99
          AllowEmpty = FALSE
          EmitMod = 1000000
          MergeCmp = "spec"
          CleanupCarried = FALSE
INIT Init
NEXT Next
INVARIANT GenConserves
INVARIANT PassConserves
INVARIANT RunsSorted
INVARIANT RunShape
INVARIANT AtDone
INVARIANT Emit
CHECK_DEADLOCK FALSE
