---- MODULE CpuList ----
(***************************************************************************)
(* C42 — Linux cpulist parsing and the fan-out helper.                     *)
(*                                                                         *)
(* A cpulist is a comma-separated sequence of parts; a part is a single    *)
(* cpu id, an inclusive range a-b, or junk (ignored).  Whitespace around   *)
(* parts and a trailing newline are insignificant.  Denote(list) is the    *)
(* set the list denotes; Parse must return it as a strictly sorted         *)
(* sequence.  The spec also renders each list to its concrete text, so TLC *)
(* hands the implementation the exact string.                              *)
(***************************************************************************)
EXTENDS VerifIO, SequencesExt

CONSTANTS MaxCpu,      \* ids 0..MaxCpu
          MaxParts     \* lists of 0..MaxParts parts

Ids == 0..MaxCpu
JunkTexts == <<"x", "1-", "-2", " ", "1-2-3", "a-b">>

Parts == [k : {"one"}, a : Ids, b : {0}, ws : 0..3]
         \cup [k : {"range"}, a : Ids, b : Ids, ws : 0..3]
         \cup [k : {"junk"}, a : DOMAIN JunkTexts, b : {0}, ws : {0}]

PartSet(p) == CASE p.k = "one" -> {p.a}
                [] p.k = "range" -> {c \in Nat : p.a <= c /\ c <= p.b} \cap (p.a..p.b)
                [] OTHER -> {}

Denote(parts) == UNION {PartSet(parts[i]) : i \in DOMAIN parts}

Expected(parts) == SetToSortSeq(Denote(parts), <)

Pad(p, txt) == (IF p.ws \in {1, 3} THEN " " ELSE "") \o txt \o (IF p.ws \in {2, 3} THEN " " ELSE "")

PartText(p) == CASE p.k = "one" -> Pad(p, ToString(p.a))
                 [] p.k = "range" -> Pad(p, ToString(p.a) \o "-" \o ToString(p.b))
                 [] OTHER -> JunkTexts[p.a]

RECURSIVE Render(_)
Render(parts) == IF parts = <<>> THEN ""
                 ELSE IF Len(parts) = 1 THEN PartText(parts[1])
                 ELSE PartText(parts[1]) \o "," \o Render(Tail(parts))

\* ---- contract of the parser ------------------------------------------------
StrictlySorted(s) == \A i \in 1..(Len(s) - 1) : s[i] < s[i + 1]

ParseOk(parts, got) == /\ StrictlySorted(got)
                       /\ SeqRange(got) = Denote(parts)

\* ---- fan-out helper ---------------------------------------------------------
\* workers_for(w, m) must be in 1..max(m,1) and never exceed max(w,1).
WorkersOk(w, m, r) == /\ r >= 1
                      /\ r <= Max2(m, 1)
                      /\ r <= Max2(w, 1)

\* The natural definition (fidelity only): clamp(w, 1, max(m,1))
WorkersRef(w, m) == Min2(Max2(w, 1), Max2(m, 1))

\* ---- model: enumerate every list within the bounds --------------------------
VARIABLE c
Lists == SeqsOf(Parts, 0, MaxParts)
Init == c \in [parts : Lists, nl : {0, 1}]
Next == FALSE /\ c' = c

\* sanity lemmas TLC checks on every enumerated list
Lemmas == /\ ParseOk(c.parts, Expected(c.parts))
          /\ \A i \in DOMAIN c.parts : c.parts[i].k = "range" /\ c.parts[i].a > c.parts[i].b
                                         => PartSet(c.parts[i]) = {}
          /\ \A w \in 0..3, m \in 0..3 : WorkersOk(w, m, WorkersRef(w, m))

Emit == EmitCase([s |-> Render(c.parts) \o (IF c.nl = 1 THEN "\n" ELSE ""),
                  expect |-> Expected(c.parts), np |-> Len(c.parts)])
====
