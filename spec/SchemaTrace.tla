---- MODULE SchemaTrace ----
(***************************************************************************)
(* C30 — the reported result schema describes the returned rows.           *)
(* One line per successfully planned and executed statement: the schema    *)
(* the result reports, the schema of the physical plan, and the schema of  *)
(* every returned batch, each a sequence of <<name, type>>.  Report is     *)
(* enabled iff all agree in column count, names and types (nullability is  *)
(* not part of the record).                                                *)
(***************************************************************************)
EXTENDS Naturals, Sequences, TLC, Json, IOUtils
Rec == ndJsonDeserialize(IOEnv.TRACE)
VARIABLE l
Same(a, b) == Len(a) = Len(b) /\ \A i \in DOMAIN a : a[i][1] = b[i][1] /\ a[i][2] = b[i][2]
Describes(r) == /\ \A i \in DOMAIN r.batches : Same(r.report, r.batches[i])
                /\ (r.hasplan = 1 => Same(r.report, r.plan))
                /\ Len(r.report) = r.arity                        \* as many columns as the statement selects
Judge(r) == IF Describes(r) THEN TRUE ELSE PrintT(<<"REJECT", ToJson([line |-> l, id |-> r.id, cfg |-> r.cfg])>>)
TInit == l = 1
TNext == l <= Len(Rec) /\ Judge(Rec[l]) /\ l' = l + 1
Accepted == LET d == TLCGet("stats").diameter - 1 IN
            IF d = Len(Rec) THEN PrintT(<<"ACCEPT", ToJson([n |-> d])>>)
            ELSE PrintT(<<"STUCK", ToJson([line |-> d + 1])>>) /\ FALSE
====
