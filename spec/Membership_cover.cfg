\* (R) transition cover: every edge of the state graph (states identified modulo hist, op and
\* the generation value), each emitted with a shortest path to its source state
CONSTANTS Addr <- EnvAddr
          Self <- EnvSelf
          SelfSpellings <- EnvSelfSpellings
          NodeIds <- EnvNodeIds
          ErrCodes <- EnvErrCodes
          Variants <- EnvVariants
          Record = TRUE
          MaxFails <- EnvMaxFails
          MaxGen <- EnvMaxGen
          MaxDepth <- EnvMaxDepth
INIT Init
NEXT NextCover
VIEW CView
CONSTRAINT CoverBound
INVARIANT NoSelfPeer
CHECK_DEADLOCK FALSE
