CONSTANTS Alphabet = {97, 44, 34, 10, 13, 9, 92, 233, 1}
          MaxLen = 1
          Positions = {0, 3, 6}
          FillPairs = {12}
          AllPairs = {17}
          Fmts = {1, 2}
          DEVS = {{"csv-bare-cr-unquoted"}, {"csv-header-unquoted"}, {"json-control-chars-raw"}, {"json-key-unescaped"}, {"json-nonfinite-number-raw"}}
INIT Init
NEXT Next
INVARIANT Kill
INVARIANT NoInvention
INVARIANT NamesDistinct
CHECK_DEADLOCK FALSE
