CONSTANTS Families = {"d1u", "d1c", "d1b", "d1p", "wide", "big", "uu", "ub", "bu", "uuu", "uub", "ubu", "bb"}
          Tier = "thorough"
          MaxKey = 2
INIT Init
NEXT Next
INVARIANT NoError
INVARIANT AnswerAllowed
INVARIANT Sorted
INVARIANT GuardRejects
INVARIANT ConsumedOnce
INVARIANT Emit
CHECK_DEADLOCK FALSE
