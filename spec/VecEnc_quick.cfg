CONSTANTS Fams = {"un", "untile", "fil", "filtile", "bin", "bintile"}
          MaxUn = 3
          MaxFil = 3
          MaxBin = 2
          TileP = 2
          TileQ = 1
          TileM = 2
          Mutant = "none"
INIT Init
NEXT Next
INVARIANT RoundTrip
INVARIANT EncLen
INVARIANT KernelLaws
INVARIANT Emit
CHECK_DEADLOCK FALSE
