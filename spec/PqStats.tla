---- MODULE PqStats ----
(***************************************************************************)
(* C18 — "Parquet table statistics are sound bounds".                      *)
(*                                                                         *)
(* A table is written file by file, row group by row group (one nullable   *)
(* integer column; columns are folded independently by the code):          *)
(*   OpenFile       picks the writer's "statistics enabled?" flag,         *)
(*   WriteRowGroup  appends a bag of rows and the FOOTER the writer        *)
(*                  records for that column chunk,                         *)
(*   Report         folds the footers the way                              *)
(*                  ParquetTable::compute_statistics does (PqStatsOps!Fold)*)
(* Values are tokens: NULL, -2, 0, 1, 5 and LO = -9 / HI = 9, which the    *)
(* harness concretises to the column type's MIN / MAX.                     *)
(*                                                                         *)
(* Contract at pc = "done": RowCountExact, NullCountExactWhenPresent,      *)
(* MinMaxBound.  impl = "fixed" meets it on ALL tables; impl = "asbuilt"   *)
(* (the real code) meets it only when AllowPartial = FALSE keeps tables    *)
(* out whose column has min/max in some chunks and no statistics in others *)
(* that hold values; with AllowPartial = TRUE TLC finds the counterexample *)
(* to MinMaxBound (known finding C18/minmax-partial-stats).  The mutant    *)
(* folds are each rejected by an invariant (PqStats_kill.cfg, run with     *)
(* -continue: every (impl, invariant) rejection is reported).              *)
(*                                                                         *)
(* Exhaustive but stratified: a stratum = [layout (row groups per file),   *)
(* dom (value tokens), maxv (rows per row group 0..maxv)].                 *)
(***************************************************************************)
EXTENDS PqStatsOps

CONSTANTS Impls,         \* the folds explored: "fixed" | "asbuilt" | the mutants of the kill matrix
          AllowPartial,  \* FALSE: tables of the known-finding shape are not reported
          DoEmit,        \* TRUE: every finished table is emitted for the replay on the real code
          Strata

VARIABLES st, impl, files, flags, foot, pc, rep, cache
vars == <<st, impl, files, flags, foot, pc, rep, cache>>

LO == -9
HI == 9
Full == {NULL, -2, 0, 1, 5, LO, HI}
S(l, d, m) == [layout |-> l, dom |-> d, maxv |-> m]

StrataQuick == {S(<<1>>, Full, 3), S(<<2>>, Full, 2), S(<<1, 1>>, Full, 2),
                S(<<2, 1>>, {NULL, 0, HI}, 2), S(<<1, 2>>, {NULL, 5, LO}, 2),
                S(<<2, 2>>, {NULL, 0, 5, HI}, 1)}
StrataThorough == {S(<<1>>, Full, 3), S(<<2>>, Full, 3), S(<<1, 1>>, Full, 3),
                   S(<<2, 1>>, {NULL, -2, 0, 5, LO, HI}, 2), S(<<1, 2>>, {NULL, -2, 0, 5, LO, HI}, 2),
                   S(<<2, 2>>, {NULL, 0, 5, HI}, 2)}
\* small universe for the expected counterexample and the kill matrix
StrataSmall == {S(<<1>>, {NULL, 0, 5}, 2), S(<<2>>, {NULL, 0, 5}, 1), S(<<1, 1>>, {NULL, 0, HI}, 1),
                S(<<2, 1>>, {NULL, 5}, 1)}

\* every bag of at most k rows once, as an ascending sequence
Bags(D, k) == UNION {{s \in [1..n -> D] : \A i \in 1..(n - 1) : s[i] <= s[i + 1]} : n \in 0..k}

\* the table whose statistics a careless cache would hand out again
PrevFoot == <<<<Footer(<<1, 5>>, 1)>>>>

Init == /\ \E s \in Strata, i \in Impls : st = s /\ impl = i
        /\ files = <<>> /\ flags = <<>> /\ foot = <<>>
        /\ pc = "build" /\ rep = NoRep
        /\ cache = Fold("fixed", Chunks(PrevFoot), NoRep)

nf == Len(files)
Complete == nf = Len(st.layout) /\ Len(files[nf]) = st.layout[nf]

OpenFile == /\ pc = "build" /\ nf < Len(st.layout)
            /\ (IF nf = 0 THEN TRUE ELSE Len(files[nf]) = st.layout[nf])
            /\ \E fl \in {0, 1} : flags' = Append(flags, fl)
            /\ files' = Append(files, <<>>)
            /\ foot' = Append(foot, <<>>)
            /\ UNCHANGED <<st, impl, pc, rep, cache>>

WriteRowGroup == /\ pc = "build" /\ nf > 0 /\ Len(files[nf]) < st.layout[nf]
                 /\ \E b \in Bags(st.dom, st.maxv) :
                       /\ files' = [files EXCEPT ![nf] = Append(@, b)]
                       /\ foot' = [foot EXCEPT ![nf] = Append(@, Footer(b, flags[nf]))]
                 /\ UNCHANGED <<st, impl, flags, pc, rep, cache>>

Report == /\ pc = "build" /\ nf > 0 /\ Complete
          /\ (IF AllowPartial THEN TRUE ELSE ~Partial(Chunks(foot)))
          /\ rep' = Fold(impl, Chunks(foot), cache)
          /\ pc' = "done"
          /\ UNCHANGED <<st, impl, files, flags, foot, cache>>

Next == OpenFile \/ WriteRowGroup \/ Report

\* ---- the contract ------------------------------------------------------------
RowCountExact == pc = "done" => RowCountOk(FlatVals(files), rep.row_count)
NullCountExactWhenPresent == pc = "done" => NullCountOk(FlatVals(files), rep.has_nulls, rep.null_count)
MinMaxBound == pc = "done" => MinMaxOk(FlatVals(files), rep)

\* ---- model sanity ------------------------------------------------------------
\* every footer is a fact about its own row group
FootersAreFacts ==
  \A i \in DOMAIN foot : \A j \in DOMAIN foot[i] :
     LET ft == foot[i][j] b == files[i][j] IN
       /\ ft.rows = Len(b)
       /\ NullCountOk(b, ft.has_nulls, ft.nulls)
       /\ MinMaxOk(b, ft)
       /\ ft = FootersOf(files, flags)[i][j]
\* off the known-finding shape the real fold and the repaired fold are the same function
FixedIsAsBuiltOffShape ==
  pc = "done" => LET ch == Chunks(foot) IN
     /\ (~Partial(ch) => Fold("fixed", ch, cache) = Fold("asbuilt", ch, cache))
     /\ (Partial(ch) => Fold("fixed", ch, cache).has_mm = 0 /\ Fold("asbuilt", ch, cache).has_mm = 1)
\* the repaired fold is not trivially silent: with statistics everywhere the bound is reported and tight
FixedIsTight ==
  (pc = "done" /\ impl = "fixed" /\ \A i \in DOMAIN flags : flags[i] = 1) =>
     LET v == NonNull(FlatVals(files)) IN
       /\ rep.has_nulls = 1
       /\ rep.has_mm = (IF Len(v) > 0 THEN 1 ELSE 0)
       /\ Len(v) > 0 => rep.min = MinS(SeqRange(v)) /\ rep.max = MaxS(SeqRange(v))

Emit == (DoEmit /\ pc = "done") =>
          LET ch == Chunks(foot) IN
          EmitCase([layout |-> st.layout, files |-> files, flags |-> flags, foot |-> foot,
                    impl |-> impl, partial |-> IF Partial(ch) THEN 1 ELSE 0,
                    fixed |-> Fold("fixed", ch, cache), asbuilt |-> Fold("asbuilt", ch, cache)])
====
