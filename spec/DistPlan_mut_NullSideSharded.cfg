CONSTANTS Tier = "quick"
 Data = "small"
 Mutant = "NullSideSharded"
 Space = "focus"
 Mode = "check"
INIT Init
NEXT Next
INVARIANT Sound
CHECK_DEADLOCK FALSE
