---- MODULE MCFrontDoor ----
(***************************************************************************)
(* Model-checking root for FrontDoor.tla (C35, C34).  The bounds are read  *)
(* from the one-line JSON file named by the environment variable FD_CONSTS:*)
(*   {"peers":2,"sizes":[0,1,4097],"eps":["sql","readyz"],                 *)
(*    "fmts":["arrow","json","csv","bad"],"mutant":"none","emit":"none",   *)
(*    "depth":14}                                                          *)
(* `./check C35|C34` writes it; by hand:                                   *)
(*   FD_CONSTS=/verif/work/C35/consts_mc.json tlc -config FrontDoor_quick.cfg MCFrontDoor.tla *)
(***************************************************************************)
EXTENDS FrontDoor, IOUtils

EnvC == ndJsonDeserialize(IOEnv.FD_CONSTS)[1]
EnvPeers == 1..EnvC.peers
EnvSizes == SeqRange(EnvC.sizes)
EnvEps == SeqRange(EnvC.eps)
EnvFmts == SeqRange(EnvC.fmts)
EnvMutant == EnvC.mutant
EnvEmit == EnvC.emit
EnvDepth == EnvC.depth
====
