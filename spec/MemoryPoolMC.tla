---- MODULE MemoryPoolMC ----
(* Model-checking wrapper for MemoryPool (C33): thread symmetry for the configs whose
   Threads are model values.  Kept out of MemoryPool.tla because TLC evaluates constant
   definitions eagerly and the trace spec instantiates MemoryPool with 16 threads. *)
EXTENDS MemoryPool
Sym == Permutations(Threads)
====
