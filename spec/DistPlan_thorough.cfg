CONSTANTS Tier = "thorough"
 Data = "small"
 Mutant = "none"
 Space = "sound"
 Mode = "check"
INIT Init
NEXT Next
INVARIANT Sound
INVARIANT Runs
CHECK_DEADLOCK FALSE
