---- MODULE Csv ----
(***************************************************************************)
(* C40 — CLI output formats round-trip the result.                         *)
(*                                                                         *)
(* Two reference READERS, each a state machine that consumes the output of *)
(* the shell one character (code point) at a time:                         *)
(*   * the RFC 4180 CSV reader (FieldStart, Unquoted, Quoted,              *)
(*     QuoteInQuoted, CrSeen, RecordEnd, Malformed),                       *)
(*   * an RFC 8259 JSON reader for the shape the shell prints: an array of *)
(*     objects whose members are strings, numbers, true/false/null.        *)
(* and the property: the output of a result set is accepted by the reader  *)
(* (never Malformed) and reads back as the displayed cell text of every    *)
(* row and column, header included (CSV), resp. as the same values (JSON). *)
(*                                                                         *)
(* An ideal WRITER is also given (quote iff the cell holds , " CR LF and   *)
(* double the quotes; JSON: escape " \ and every control character). TLC   *)
(* checks it against the readers for every table in the bound (sanity of   *)
(* the reader models) and emits every table as a case for the real         *)
(* formatter.  The writer takes a set D of named deviations = the listed   *)
(* known findings; a failing output of the real code is a KNOWN finding    *)
(* only if it is, character for character, what the writer produces under  *)
(* a set of still-open deviations (CsvTrace.tla).                          *)
(*                                                                         *)
(* Leniencies (the property does not pin them): a record ends at LF or     *)
(* CRLF; a missing final line break is fine; any character other than      *)
(* , " CR LF is field text (RFC 4180 TEXTDATA is extended to control and   *)
(* non-ASCII characters); JSON member order is free.                       *)
(***************************************************************************)
EXTENDS VerifIO

COMMA == 44
DQ == 34
CR == 13
LF == 10
TAB == 9
SP == 32
BS == 92
COLON == 58
LBRACK == 91
RBRACK == 93
LBRACE == 123
RBRACE == 125
MINUS == 45
PLUS == 43
DOT == 46

\* ---- values and tables -----------------------------------------------------
\* value: [k, s]  k = 0 NULL, 1 string, 2 number (s = decimal token), 3 boolean (s = true/false)
V(k, s) == [k |-> k, s |-> s]
NullV == V(0, <<>>)
TxtNull == <<110, 117, 108, 108>>
TxtTrue == <<116, 114, 117, 101>>
TxtFalse == <<102, 97, 108, 115, 101>>
TxtNaN == <<78, 97, 78>>
TxtInf == <<105, 110, 102>>
TxtNegInf == <<45, 105, 110, 102>>
NonFinite(tok) == tok \in {TxtNaN, TxtInf, TxtNegInf}

\* the displayed cell text: NULL shows as nothing
Display(v) == IF v.k = 0 THEN <<>> ELSE v.s

RECURSIVE Join(_, _)
Join(parts, sep) == IF parts = <<>> THEN <<>>
                    ELSE IF Len(parts) = 1 THEN parts[1]
                    ELSE parts[1] \o sep \o Join(Tail(parts), sep)
RECURSIVE Concat(_)
Concat(parts) == IF parts = <<>> THEN <<>> ELSE Head(parts) \o Concat(Tail(parts))

MinOf(S) == CHOOSE x \in S : \A y \in S : x <= y
MaxOf(S) == CHOOSE x \in S : \A y \in S : x >= y

\* ---- CSV reader --------------------------------------------------------------
CsvInit == [mode |-> "RecordEnd", from |-> "", cell |-> <<>>, row |-> <<>>, rows |-> <<>>]
CMal(st) == [st EXCEPT !.from = st.mode, !.mode = "Malformed"]
CEndField(st) == [st EXCEPT !.row = Append(st.row, st.cell), !.cell = <<>>, !.mode = "FieldStart"]
CEndRecord(st) == [st EXCEPT !.rows = Append(st.rows, Append(st.row, st.cell)), !.row = <<>>, !.cell = <<>>, !.mode = "RecordEnd"]

CsvStep(st, c) ==
  CASE st.mode \in {"RecordEnd", "FieldStart"} ->
         IF c = DQ THEN [st EXCEPT !.mode = "Quoted"]
         ELSE IF c = COMMA THEN CEndField(st)
         ELSE IF c = LF THEN CEndRecord(st)
         ELSE IF c = CR THEN [st EXCEPT !.mode = "CrSeen"]
         ELSE [st EXCEPT !.mode = "Unquoted", !.cell = <<c>>]
    [] st.mode = "Unquoted" ->
         IF c = DQ THEN CMal(st)                      \* a quote inside an unquoted field
         ELSE IF c = COMMA THEN CEndField(st)
         ELSE IF c = LF THEN CEndRecord(st)
         ELSE IF c = CR THEN [st EXCEPT !.mode = "CrSeen"]
         ELSE [st EXCEPT !.cell = Append(st.cell, c)]
    [] st.mode = "Quoted" ->
         IF c = DQ THEN [st EXCEPT !.mode = "QuoteInQuoted"]
         ELSE [st EXCEPT !.cell = Append(st.cell, c)]  \* comma, CR, LF are data here
    [] st.mode = "QuoteInQuoted" ->
         IF c = DQ THEN [st EXCEPT !.mode = "Quoted", !.cell = Append(st.cell, DQ)]
         ELSE IF c = COMMA THEN CEndField(st)
         ELSE IF c = LF THEN CEndRecord(st)
         ELSE IF c = CR THEN [st EXCEPT !.mode = "CrSeen"]
         ELSE CMal(st)                                 \* text after the closing quote
    [] st.mode = "CrSeen" ->
         IF c = LF THEN CEndRecord(st) ELSE CMal(st)   \* a bare CR outside quotes
    [] OTHER -> st                                     \* Malformed is a sink

\* end of input: the last record may lack its line break; an open quote / a pending CR is malformed
CsvFinal(st) ==
  CASE st.mode = "RecordEnd" -> st
    [] st.mode \in {"FieldStart", "Unquoted", "QuoteInQuoted"} -> CEndRecord(st)
    [] st.mode = "Malformed" -> st
    [] OTHER -> CMal(st)
CsvOk(st) == st.mode = "RecordEnd"

\* ---- JSON reader -------------------------------------------------------------
IsWs(c) == c \in {SP, TAB, LF, CR}
IsDigit(c) == c >= 48 /\ c <= 57
HexVal(c) == IF c >= 48 /\ c <= 57 THEN c - 48
             ELSE IF c >= 97 /\ c <= 102 THEN c - 87
             ELSE IF c >= 65 /\ c <= 70 THEN c - 55
             ELSE -1

JsonInit == [mode |-> "Start", from |-> "", inkey |-> 0, buf |-> <<>>, key |-> <<>>, obj |-> <<>>, objs |-> <<>>,
             hex |-> 0, hn |-> 0, lit |-> <<>>, litk |-> 0]
JMal(st) == [st EXCEPT !.from = st.mode, !.mode = "Malformed"]
JTo(st, m) == [st EXCEPT !.mode = m]
JAddVal(st, v) == [st EXCEPT !.obj = Append(st.obj, [key |-> st.key, val |-> v]), !.buf = <<>>, !.mode = "AfterVal"]
JCloseObj(st) == [st EXCEPT !.objs = Append(st.objs, st.obj), !.obj = <<>>, !.mode = "AfterObj"]
JAfterVal(st, c) == IF IsWs(c) THEN st
                    ELSE IF c = COMMA THEN JTo(st, "ObjNext")
                    ELSE IF c = RBRACE THEN JCloseObj(st)
                    ELSE JMal(st)
IsValEnd(c) == IsWs(c) \/ c = COMMA \/ c = RBRACE
JEndNum(st, c) == JAfterVal(JAddVal(st, V(2, st.buf)), c)
JPush(st, c) == [st EXCEPT !.buf = Append(st.buf, c)]
JLit(st, rest, k) == [st EXCEPT !.mode = "Lit", !.lit = rest, !.litk = k]
JLitVal(k) == CASE k = 0 -> NullV [] k = 1 -> V(3, TxtTrue) [] OTHER -> V(3, TxtFalse)

JsonStep(st, c) ==
  CASE st.mode = "Start" ->
         IF IsWs(c) THEN st ELSE IF c = LBRACK THEN JTo(st, "ArrFirst") ELSE JMal(st)
    [] st.mode = "ArrFirst" ->
         IF IsWs(c) THEN st ELSE IF c = LBRACE THEN JTo(st, "ObjFirst")
         ELSE IF c = RBRACK THEN JTo(st, "Done") ELSE JMal(st)
    [] st.mode = "ArrNext" ->
         IF IsWs(c) THEN st ELSE IF c = LBRACE THEN JTo(st, "ObjFirst") ELSE JMal(st)
    [] st.mode = "ObjFirst" ->
         IF IsWs(c) THEN st
         ELSE IF c = DQ THEN [st EXCEPT !.mode = "Str", !.inkey = 1, !.buf = <<>>]
         ELSE IF c = RBRACE THEN JCloseObj(st) ELSE JMal(st)
    [] st.mode = "ObjNext" ->
         IF IsWs(c) THEN st
         ELSE IF c = DQ THEN [st EXCEPT !.mode = "Str", !.inkey = 1, !.buf = <<>>]
         ELSE JMal(st)
    [] st.mode = "Str" ->
         IF c = DQ THEN (IF st.inkey = 1 THEN [st EXCEPT !.key = st.buf, !.buf = <<>>, !.mode = "Colon"]
                         ELSE JAddVal(st, V(1, st.buf)))
         ELSE IF c = BS THEN JTo(st, "Esc")
         ELSE IF c < 32 THEN JMal(st)                  \* raw control character inside a string
         ELSE JPush(st, c)
    [] st.mode = "Esc" ->
         IF c \in {DQ, BS, 47} THEN JTo(JPush(st, c), "Str")
         ELSE IF c = 98 THEN JTo(JPush(st, 8), "Str")
         ELSE IF c = 102 THEN JTo(JPush(st, 12), "Str")
         ELSE IF c = 110 THEN JTo(JPush(st, LF), "Str")
         ELSE IF c = 114 THEN JTo(JPush(st, CR), "Str")
         ELSE IF c = 116 THEN JTo(JPush(st, TAB), "Str")
         ELSE IF c = 117 THEN [st EXCEPT !.mode = "Hex", !.hex = 0, !.hn = 0]
         ELSE JMal(st)
    [] st.mode = "Hex" ->
         IF HexVal(c) < 0 THEN JMal(st)
         ELSE IF st.hn = 3 THEN [st EXCEPT !.buf = Append(st.buf, st.hex * 16 + HexVal(c)), !.mode = "Str", !.hex = 0, !.hn = 0]
         ELSE [st EXCEPT !.hex = st.hex * 16 + HexVal(c), !.hn = st.hn + 1]
    [] st.mode = "Colon" ->
         IF IsWs(c) THEN st ELSE IF c = COLON THEN JTo(st, "ValStart") ELSE JMal(st)
    [] st.mode = "ValStart" ->
         IF IsWs(c) THEN st
         ELSE IF c = DQ THEN [st EXCEPT !.mode = "Str", !.inkey = 0, !.buf = <<>>]
         ELSE IF c = MINUS THEN [st EXCEPT !.mode = "NumMinus", !.buf = <<c>>]
         ELSE IF c = 48 THEN [st EXCEPT !.mode = "NumZero", !.buf = <<c>>]
         ELSE IF IsDigit(c) THEN [st EXCEPT !.mode = "NumInt", !.buf = <<c>>]
         ELSE IF c = 110 THEN JLit(st, <<117, 108, 108>>, 0)
         ELSE IF c = 116 THEN JLit(st, <<114, 117, 101>>, 1)
         ELSE IF c = 102 THEN JLit(st, <<97, 108, 115, 101>>, 2)
         ELSE IF c \in {LBRACE, LBRACK} THEN JTo(st, "Unsupported")   \* nested values: outside the model
         ELSE JMal(st)
    [] st.mode = "NumMinus" ->
         IF c = 48 THEN JTo(JPush(st, c), "NumZero")
         ELSE IF IsDigit(c) THEN JTo(JPush(st, c), "NumInt") ELSE JMal(st)
    [] st.mode = "NumZero" ->
         IF c = DOT THEN JTo(JPush(st, c), "NumDot")
         ELSE IF c \in {101, 69} THEN JTo(JPush(st, c), "NumE")
         ELSE IF IsValEnd(c) THEN JEndNum(st, c) ELSE JMal(st)      \* 01 is not a number
    [] st.mode = "NumInt" ->
         IF IsDigit(c) THEN JPush(st, c)
         ELSE IF c = DOT THEN JTo(JPush(st, c), "NumDot")
         ELSE IF c \in {101, 69} THEN JTo(JPush(st, c), "NumE")
         ELSE IF IsValEnd(c) THEN JEndNum(st, c) ELSE JMal(st)
    [] st.mode = "NumDot" ->
         IF IsDigit(c) THEN JTo(JPush(st, c), "NumFrac") ELSE JMal(st)
    [] st.mode = "NumFrac" ->
         IF IsDigit(c) THEN JPush(st, c)
         ELSE IF c \in {101, 69} THEN JTo(JPush(st, c), "NumE")
         ELSE IF IsValEnd(c) THEN JEndNum(st, c) ELSE JMal(st)
    [] st.mode = "NumE" ->
         IF c \in {PLUS, MINUS} THEN JTo(JPush(st, c), "NumESign")
         ELSE IF IsDigit(c) THEN JTo(JPush(st, c), "NumExp") ELSE JMal(st)
    [] st.mode = "NumESign" ->
         IF IsDigit(c) THEN JTo(JPush(st, c), "NumExp") ELSE JMal(st)
    [] st.mode = "NumExp" ->
         IF IsDigit(c) THEN JPush(st, c)
         ELSE IF IsValEnd(c) THEN JEndNum(st, c) ELSE JMal(st)
    [] st.mode = "Lit" ->
         IF st.lit # <<>> /\ c = Head(st.lit)
         THEN (IF Len(st.lit) = 1 THEN JAddVal([st EXCEPT !.lit = <<>>], JLitVal(st.litk))
               ELSE [st EXCEPT !.lit = Tail(st.lit)])
         ELSE JMal(st)
    [] st.mode = "AfterVal" -> JAfterVal(st, c)
    [] st.mode = "AfterObj" ->
         IF IsWs(c) THEN st ELSE IF c = COMMA THEN JTo(st, "ArrNext")
         ELSE IF c = RBRACK THEN JTo(st, "Done") ELSE JMal(st)
    [] st.mode = "Done" -> IF IsWs(c) THEN st ELSE JMal(st)
    [] OTHER -> st                                     \* Malformed / Unsupported are sinks

JsonFinal(st) == IF st.mode \in {"Done", "Malformed", "Unsupported"} THEN st ELSE JMal(st)
JsonOk(st) == st.mode = "Done"

\* ---- numeric value of a JSON / decimal token, as a canonical sequence <<neg, pointpos>> \o digits
FirstIdx(s, S) == LET I == {i \in 1..Len(s) : s[i] \in S} IN IF I = {} THEN Len(s) + 1 ELSE MinOf(I)
RECURSIVE DigitsVal(_, _)
DigitsVal(s, acc) == IF s = <<>> THEN acc ELSE DigitsVal(Tail(s), Min2(acc * 10 + (Head(s) - 48), 100000))
AllDigits(s) == \A i \in 1..Len(s) : IsDigit(s[i])
NumParts(tok) ==
  LET neg == Len(tok) > 0 /\ tok[1] = MINUS
      body == IF neg THEN Tail(tok) ELSE tok
      epos == FirstIdx(body, {101, 69})
      mant == SubSeq(body, 1, epos - 1)
      exps == SubSeq(body, epos + 1, Len(body))
      dot == FirstIdx(mant, {DOT})
  IN [neg |-> neg, hasexp |-> epos <= Len(body), hasdot |-> dot <= Len(mant),
      eneg |-> Len(exps) > 0 /\ exps[1] = MINUS,
      edig |-> IF Len(exps) > 0 /\ exps[1] \in {MINUS, PLUS} THEN Tail(exps) ELSE exps,
      ip |-> SubSeq(mant, 1, dot - 1), fr |-> SubSeq(mant, dot + 1, Len(mant))]
\* a decimal number token: -? digits+ (. digits+)? ([eE] [+-]? digits+)?
IsNumTok(tok) == LET p == NumParts(tok) IN
  /\ Len(p.ip) >= 1 /\ AllDigits(p.ip)
  /\ (p.hasdot => Len(p.fr) >= 1) /\ AllDigits(p.fr)
  /\ (p.hasexp => Len(p.edig) >= 1) /\ AllDigits(p.edig)
NumCanon(tok) ==
  LET p == NumParts(tok)
      expv == IF p.eneg THEN 0 - DigitsVal(p.edig, 0) ELSE DigitsVal(p.edig, 0)
      digs == p.ip \o p.fr
      nz == {i \in 1..Len(digs) : digs[i] # 48}
  IN IF nz = {} THEN <<0, 0>>
     ELSE <<(IF p.neg THEN 1 ELSE 0), Len(p.ip) + expv - (MinOf(nz) - 1)>> \o SubSeq(digs, MinOf(nz), MaxOf(nz))

\* the value a cell must read back as (numbers by value; a non-finite float has no JSON number: null)
Norm(v) == IF v.k = 2 THEN (IF NonFinite(v.s) THEN NullV ELSE V(2, NumCanon(v.s))) ELSE v

\* ---- what each output must read back as ------------------------------------------
ExpectCsv(t) == <<t.hdr>> \o [i \in 1..Len(t.rows) |-> [j \in 1..Len(t.rows[i]) |-> Display(t.rows[i][j])]]
MemberSet(o) == {<<o[j].key, Norm(o[j].val)>> : j \in 1..Len(o)}
ExpectObj(t, i) == {<<t.hdr[j], Norm(t.rows[i][j])>> : j \in 1..Len(t.hdr)}
DistinctNames(t) == Cardinality({t.hdr[j] : j \in 1..Len(t.hdr)}) = Len(t.hdr)
\* a CSV cell shows the displayed text; a number may be displayed in any decimal form of the same value
CsvCellOk(v, cell) == IF v.k = 2 /\ ~NonFinite(v.s) THEN IsNumTok(cell) /\ NumCanon(cell) = NumCanon(v.s)
                      ELSE cell = Display(v)
CsvAccept(t, st) == /\ CsvOk(st)
                    /\ Len(st.rows) = Len(t.rows) + 1
                    /\ st.rows[1] = t.hdr
                    /\ \A i \in 1..Len(t.rows) :
                          /\ Len(st.rows[i + 1]) = Len(t.rows[i])
                          /\ \A j \in 1..Len(t.rows[i]) : CsvCellOk(t.rows[i][j], st.rows[i + 1][j])
JsonAccept(t, st) == /\ JsonOk(st)
                     /\ Len(st.objs) = Len(t.rows)
                     /\ \A i \in 1..Len(t.rows) : Len(st.objs[i]) = Len(t.hdr) /\ MemberSet(st.objs[i]) = ExpectObj(t, i)

\* ---- writers --------------------------------------------------------------------
\* D: set of deviation names (= ids of known findings); {} is the ideal writer.
DevCsvCr == "csv-bare-cr-unquoted"
DevCsvHdr == "csv-header-unquoted"
DevJsonCtl == "json-control-chars-raw"
DevJsonKey == "json-key-unescaped"
DevJsonNonFinite == "json-nonfinite-number-raw"
CsvDevs == {DevCsvCr, DevCsvHdr}
JsonDevs == {DevJsonCtl, DevJsonKey, DevJsonNonFinite}

RECURSIVE DoubleQ(_)
DoubleQ(s) == IF s = <<>> THEN <<>> ELSE (IF Head(s) = DQ THEN <<DQ, DQ>> ELSE <<Head(s)>>) \o DoubleQ(Tail(s))
NeedsQuote(s, D) == \E i \in 1..Len(s) : s[i] \in ({COMMA, DQ, LF} \cup (IF DevCsvCr \in D THEN {} ELSE {CR}))
CsvField(s, D) == IF NeedsQuote(s, D) THEN <<DQ>> \o DoubleQ(s) \o <<DQ>> ELSE s
CsvHdrField(s, D) == IF DevCsvHdr \in D THEN s ELSE CsvField(s, D)
CsvCell(v, D) == IF v.k = 0 THEN <<>> ELSE CsvField(v.s, D)
CsvWrite(t, D) ==
  Join([j \in 1..Len(t.hdr) |-> CsvHdrField(t.hdr[j], D)], <<COMMA>>) \o <<LF>>
  \o Concat([i \in 1..Len(t.rows) |-> Join([j \in 1..Len(t.rows[i]) |-> CsvCell(t.rows[i][j], D)], <<COMMA>>) \o <<LF>>])

HexDigit(n) == IF n < 10 THEN 48 + n ELSE 87 + n
JEsc(c, raw) == IF c = DQ THEN <<BS, DQ>>
                ELSE IF c = BS THEN <<BS, BS>>
                ELSE IF c < 32 /\ ~raw THEN
                       (IF c = LF THEN <<BS, 110>> ELSE IF c = CR THEN <<BS, 114>> ELSE IF c = TAB THEN <<BS, 116>>
                        ELSE <<BS, 117, 48, 48, HexDigit(c \div 16), HexDigit(c % 16)>>)
                ELSE <<c>>
RECURSIVE JBody(_, _)
JBody(s, raw) == IF s = <<>> THEN <<>> ELSE JEsc(Head(s), raw) \o JBody(Tail(s), raw)
JKey(s, D) == <<DQ>> \o (IF DevJsonKey \in D THEN s ELSE JBody(s, DevJsonCtl \in D)) \o <<DQ>>
JValue(v, D) == CASE v.k = 0 -> TxtNull
                  [] v.k = 1 -> <<DQ>> \o JBody(v.s, DevJsonCtl \in D) \o <<DQ>>
                  [] v.k = 2 -> IF NonFinite(v.s) /\ DevJsonNonFinite \notin D THEN TxtNull ELSE v.s
                  [] OTHER -> v.s
JRow(t, i, D) == <<SP, SP, LBRACE>>
                 \o Join([j \in 1..Len(t.hdr) |-> JKey(t.hdr[j], D) \o <<COLON, SP>> \o JValue(t.rows[i][j], D)], <<COMMA, SP>>)
                 \o <<RBRACE>>
JsonWrite(t, D) == <<LBRACK, LF>> \o Join([i \in 1..Len(t.rows) |-> JRow(t, i, D)], <<COMMA, LF>>) \o <<LF, RBRACK, LF>>

Write(t, f, D) == IF f = 1 THEN CsvWrite(t, D) ELSE JsonWrite(t, D)

\* ---- the family TLC enumerates ---------------------------------------------------
CONSTANTS Alphabet,    \* code points cell strings are built from
          MaxLen,      \* max length of the enumerated cell string
          Positions,   \* 0 single column; 1..3 first/middle/last data column; 4..6 the string is the NAME of that column; 7 single column named by the string
          FillPairs,   \* filler column pairs (two-digit numbers: 34 = fillers 3 and 4) for strings longer than 1
          AllPairs,    \* filler column pairs for strings of length <= 1 (covers every filler kind)
          Fmts,        \* 1 csv, 2 json
          DEVS         \* set of deviation sets the writer is run under ({{}} = only the ideal writer)

T_UTF8 == 1
T_INT == 2
T_F64 == 3
T_BOOL == 4
T_LUTF8 == 5
Col(name, type, vals) == [name |-> name, type |-> type, vals |-> vals]
FillerCol(f) ==
  CASE f = 1 -> Col(<<107, 49>>, T_INT, <<V(2, <<55>>), NullV>>)                                   \* 7, NULL
    [] f = 2 -> Col(<<107, 50>>, T_BOOL, <<V(3, TxtTrue), V(3, TxtFalse)>>)
    [] f = 3 -> Col(<<107, 51>>, T_F64, <<V(2, <<49, 46, 53>>), V(2, <<45, 48, 46, 50, 53>>)>>)    \* 1.5, -0.25
    [] f = 4 -> Col(<<107, 52>>, T_UTF8, <<V(1, <<>>), V(1, <<78, 85, 76, 76>>)>>)                 \* '', 'NULL'
    [] f = 5 -> Col(<<107, 53>>, T_INT, <<V(2, <<45, 49, 50>>), V(2, <<48>>)>>)                    \* -12, 0
    [] f = 6 -> Col(<<107, 54>>, T_LUTF8, <<NullV, V(1, <<110, 117, 108, 108>>)>>)                 \* NULL, 'null'
    [] f = 7 -> Col(<<107, 55>>, T_F64, <<V(2, TxtNaN), V(2, TxtNegInf)>>)
    [] OTHER -> Col(<<107, 56>>, T_F64, <<V(2, <<56, 55>>), V(2, <<48, 46, 48, 48, 48, 48, 48, 48, 49>>)>>)  \* 87 (from 87.0), 0.0000001
\* the subject string in row sr of its column; the other row holds NULL
SubjectCol(s, sr) == Col(<<115>>, T_UTF8, IF sr = 1 THEN <<V(1, s), NullV>> ELSE <<NullV, V(1, s)>>)
HeaderCol(s, sr) == Col(s, T_UTF8, IF sr = 1 THEN <<V(1, <<120>>), NullV>> ELSE <<NullV, V(1, <<120>>)>>)
TableOf(cols) == [hdr |-> [j \in 1..Len(cols) |-> cols[j].name],
                  types |-> [j \in 1..Len(cols) |-> cols[j].type],
                  rows |-> [i \in 1..2 |-> [j \in 1..Len(cols) |-> cols[j].vals[i]]]]
Place(c, p, fp) == CASE p = 1 -> <<c, FillerCol(fp[1]), FillerCol(fp[2])>>
                     [] p = 2 -> <<FillerCol(fp[1]), c, FillerCol(fp[2])>>
                     [] OTHER -> <<FillerCol(fp[1]), FillerCol(fp[2]), c>>
Table(s, p, fp, sr) == CASE p = 0 -> TableOf(<<SubjectCol(s, sr)>>)
                         [] p = 7 -> TableOf(<<HeaderCol(s, sr)>>)
                         [] p \in 1..3 -> TableOf(Place(SubjectCol(s, sr), p, fp))
                         [] OTHER -> TableOf(Place(HeaderCol(s, sr), p - 3, fp))
Strs == SeqsOf(Alphabet, 0, MaxLen)
Pair(n) == <<n \div 10, n % 10>>
PairsFor(s, p) == IF p \in {0, 7} THEN {<<1, 1>>} ELSE {Pair(n) : n \in (IF Len(s) <= 1 THEN AllPairs ELSE FillPairs)}
RowsFor(s) == IF Len(s) <= 2 THEN {1, 2} ELSE {1}

\* ---- the step machine --------------------------------------------------------------
\* dev: the deviations of the writer whose output is read ({} = the ideal writer)
VARIABLES tbl, fmt, dev, shape, input, pos, cs, js
vars == <<tbl, fmt, dev, shape, input, pos, cs, js>>

NoTable == [hdr |-> <<>>, types |-> <<>>, rows |-> <<>>]
\* Init fixes only the coarse shape (position, subject row, format, writer); the first action fills
\* in the cell string and the filler columns (so that TLC's workers share the enumeration).
Init == /\ shape \in Positions \X {1, 2}
        /\ fmt \in Fmts
        /\ dev \in DEVS
        /\ tbl = NoTable /\ input = <<>> /\ pos = 0 /\ cs = CsvInit /\ js = JsonInit

Choose == /\ pos = 0
          /\ \E s \in Strs : \E fp \in PairsFor(s, shape[1]) :
                /\ shape[2] \in RowsFor(s)
                /\ tbl' = Table(s, shape[1], fp, shape[2])
                /\ input' = Write(tbl', fmt, dev)
          /\ pos' = 1
          /\ UNCHANGED <<fmt, dev, shape, cs, js>>

CsvClass(c) == CASE c = COMMA -> "comma" [] c = DQ -> "dquote" [] c = CR -> "cr" [] c = LF -> "lf" [] OTHER -> "other"
JsonClass(c) == CASE IsWs(c) -> "ws" [] c = DQ -> "dquote" [] c = BS -> "backslash" [] c < 32 -> "control"
                  [] IsDigit(c) -> "digit" [] c \in {LBRACE, RBRACE, LBRACK, RBRACK, COLON, COMMA, MINUS, PLUS, DOT} -> "punct"
                  [] OTHER -> "other"
\* one action per consumed character (and per character class, so coverage shows each class was read;
\* the leading conjunct makes TLC report coverage under the action's own name)
CsvConsume(cls) == /\ fmt = 1 /\ pos >= 1 /\ pos <= Len(input) /\ CsvClass(input[pos]) = cls
                   /\ cs' = CsvStep(cs, input[pos]) /\ pos' = pos + 1 /\ UNCHANGED <<tbl, fmt, dev, shape, input, js>>
JsonConsume(cls) == /\ fmt = 2 /\ pos >= 1 /\ pos <= Len(input) /\ JsonClass(input[pos]) = cls
                    /\ js' = JsonStep(js, input[pos]) /\ pos' = pos + 1 /\ UNCHANGED <<tbl, fmt, dev, shape, input, cs>>
CsvComma == pos >= 1 /\ CsvConsume("comma")
CsvDquote == pos >= 1 /\ CsvConsume("dquote")
CsvCr == pos >= 1 /\ CsvConsume("cr")
CsvLf == pos >= 1 /\ CsvConsume("lf")
CsvOther == pos >= 1 /\ CsvConsume("other")
JsonWs == pos >= 1 /\ JsonConsume("ws")
JsonDquote == pos >= 1 /\ JsonConsume("dquote")
JsonBackslash == pos >= 1 /\ JsonConsume("backslash")
JsonControl == pos >= 1 /\ JsonConsume("control")
JsonDigit == pos >= 1 /\ JsonConsume("digit")
JsonPunct == pos >= 1 /\ JsonConsume("punct")
JsonOther == pos >= 1 /\ JsonConsume("other")
Next == \/ Choose
        \/ CsvComma \/ CsvDquote \/ CsvCr \/ CsvLf \/ CsvOther
        \/ JsonWs \/ JsonDquote \/ JsonBackslash \/ JsonControl \/ JsonDigit \/ JsonPunct \/ JsonOther
Spec == Init /\ [][Next]_vars

AtEnd == pos >= 1 /\ pos > Len(input)
Holds == IF fmt = 1 THEN CsvAccept(tbl, CsvFinal(cs)) ELSE JsonAccept(tbl, JsonFinal(js))
\* ---- laws --------------------------------------------------------------------
\* the ideal writer's output is accepted and reads back as the displayed cells / the same values
RoundTrip == (AtEnd /\ dev = {}) => Holds
\* each listed deviation breaks the round trip somewhere in the bound (reported; counted by the driver)
Kill == (AtEnd /\ dev # {} /\ ~Holds) =>
           EmitTag("KILL", [dev |-> dev, fmt |-> fmt, hdr |-> tbl.hdr, rows |-> tbl.rows, out |-> input,
                            mode |-> IF fmt = 1 THEN CsvFinal(cs).mode ELSE JsonFinal(js).mode,
                            from |-> IF fmt = 1 THEN CsvFinal(cs).from ELSE JsonFinal(js).from])
\* the readers never invent data: every parsed cell character was a character of the input
NoInvention == Len(cs.cell) <= pos /\ Len(js.buf) <= pos
NamesDistinct == pos >= 1 => DistinctNames(tbl)
Emit == (AtEnd /\ dev = {} /\ fmt = MinOf(Fmts)) => EmitCase([hdr |-> tbl.hdr, types |-> tbl.types, rows |-> tbl.rows])
====
