CONSTANTS Keys <- K4
          NB = 2
          MaxBB = 2
          NP = 2
          MaxPB = 1
          Kinds = {"inner", "build_semi", "build_anti", "build_outer", "probe_outer", "full", "probe_semi", "probe_anti"}
          BitmapMaxBits = 4
          SetMaxKeys = 2
          Mutant = "none"
          EmitCases = TRUE
INIT Init
NEXT Next
INVARIANT TypeOK
INVARIANT PublishedImpliesComplete
INVARIANT FilterSound
INVARIANT FilterExact
INVARIANT NoNeededRowLost
INVARIANT UnlinkedDeliversAll
INVARIANT FinalAnswer
CHECK_DEADLOCK FALSE
