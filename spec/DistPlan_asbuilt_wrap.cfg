CONSTANTS Tier = "quick"
 Data = "small"
 Mutant = "none"
 Space = "wrap"
 Mode = "check"
INIT Init
NEXT Next
INVARIANT Sound
CHECK_DEADLOCK FALSE
