---- MODULE DistPlanTrace ----
(***************************************************************************)
(* X02 code -> spec.  Validates what the REAL planner decided.              *)
(*                                                                         *)
(* kind = "plan": one recorded decision of plan_distributed / plan_gather   *)
(*   for a concrete statement: q = the statement (SqlSem AST, the meaning  *)
(*   of its feature record), table = the elected table, shape, and the     *)
(*   fragment query / merge specification PARSED BACK from the planner's   *)
(*   partial_sql / final_sql.  Accepted iff that pipeline is exact: on      *)
(*   every explored database and every placement of the elected table's    *)
(*   rows the merged answer is one SqlSem allows for q (DistPlan!ExactOn - *)
(*   the same predicate Exact(strategy, features) is made of).             *)
(* kind = "e2e": the statement executed on the real engine, single-node    *)
(*   and through execute_any_distributed over adversarially placed rows:   *)
(*   every distributed answer must be allowed by SqlSem for (q, db) or be   *)
(*   the single-node answer (records whose single-node answer SqlSem does  *)
(*   not allow are reported as SINGLE and not judged).  SENS lines report placements on which the    *)
(*   naive strategy (concatenate the shards' own answers) is NOT an        *)
(*   allowed answer, i.e. where the merge step matters.                    *)
(* Every record is judged; verdicts are printed as REJECT / SENS / SINGLE  *)
(* lines and the driver decides (violation vs listed known finding).       *)
(***************************************************************************)
EXTENDS DistPlan, IOUtils

CONSTANT Rec                       \* <- RecFile in the cfg: read once at start-up (a plain definition is re-read at every use)
RecFile == ndJsonDeserialize(IOEnv.TRACE)

PlanOf(r) == [shape |-> IF r.shape = "Gather" THEN "Refuse" ELSE r.shape, table |-> r.table, partial |-> r.partial, final |-> r.final]

JudgePlan(r, T, D) ==
  IF ExactOn(r.q, PlanOf(r), T, D) THEN TRUE
  ELSE PrintT(<<"REJECT", ToJson([id |-> r.id, kind |-> "plan", T |-> T, D |-> D])>>)

Same(q, a, b) == IF OrdOf(q) = <<>> THEN BagEq(a, b) ELSE a = b

\* the shards' own answers to the statement, concatenated (what a planner with no merge step would return)
Naive(r, o) ==
  LET env(s) == IF o.ptable = "t" THEN EnvTD(o.shards[s], r.db.d) ELSE EnvTD(r.db.t, o.shards[s])
  IN Flat([s \in DOMAIN o.shards |-> Answer(r.q, env(s))])

\* (IF-THEN-ELSE, not disjunctions: inside an action TLC would explore every disjunct as a branch of its own)
JudgeE2E(r) ==
  LET env == EnvTD(r.db.t, r.db.d)
      sok == Allowed(r.q, env, r.single)
  IN /\ (IF sok THEN TRUE ELSE PrintT(<<"SINGLE", ToJson([id |-> r.id])>>))
     /\ \A j \in DOMAIN r.dist :
          LET o == r.dist[j] IN
          \* a statement the LOCAL engine answers wrongly on this data is outside this sub-model (other properties own it)
          /\ (IF ~sok THEN TRUE
              ELSE IF Allowed(r.q, env, o.rows) THEN TRUE
              ELSE IF Same(r.q, o.rows, r.single) THEN TRUE
              ELSE PrintT(<<"REJECT", ToJson([id |-> r.id, kind |-> "e2e", n |-> o.n, want |-> Answer(r.q, env)])>>))
          /\ (IF o.ptable = "none" THEN TRUE
              ELSE IF Allowed(r.q, env, Naive(r, o)) THEN TRUE
              ELSE PrintT(<<"SENS", ToJson([id |-> r.id, n |-> o.n])>>))

TInit == c = [st |-> 0]
TPick == /\ c.st = 0
         /\ \E i \in DOMAIN Rec : c' = [st |-> 1, i |-> i]
TPlan == /\ c.st = 1 /\ Rec[c.i].kind = "plan"
         /\ \E T \in TabsOf(Rec[c.i].data), D \in Dims(Rec[c.i].usesd = 1) : JudgePlan(Rec[c.i], T, D) /\ c' = [st |-> 2, i |-> c.i, T |-> T, D |-> D]
TE2E == /\ c.st = 1 /\ Rec[c.i].kind = "e2e"
        /\ JudgeE2E(Rec[c.i]) /\ c' = [st |-> 3, i |-> c.i]
TNext == TPick \/ TPlan \/ TE2E
Done == PrintT(<<"DONE", ToJson([n |-> Len(Rec), states |-> TLCGet("stats").distinct])>>)
====
