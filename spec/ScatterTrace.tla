---- MODULE ScatterTrace ----
(***************************************************************************)
(* C10 trace validation: one line = one distributed query executed by the  *)
(* REAL coordinator (execute_any_distributed under the fault-injecting     *)
(* FragmentTransport, or POST /sql?distributed=1 on a spawned cluster      *)
(* behind the fault-injecting TCP proxy):                                  *)
(*   [cid, bind, kinds, locals, outcome, lost]                             *)
(* kinds   what happened to each remote fragment that was sent, in the     *)
(*         vocabulary of ScatterOps (classified by the harness from the    *)
(*         bytes it delivered: its own IPC framing parser, not the engine) *)
(* locals  the initiator's own shard(s): ok | err | none                   *)
(* outcome err | full | short | garbled | panic | hang | abort             *)
(* lost    rows inside the messages a cut did not deliver                  *)
(* Every line is judged; BAD tags name the rejected ones.                  *)
(* A line is accepted iff the outcome is one the contract allows for that  *)
(* fault vector (DEV = 0), or the contract weakened by the one listed      *)
(* deviation DevShortStream (DEV = 1; used only to re-judge rejected       *)
(* lines: accepted there => KNOWN-FINDING, else VIOLATION).                *)
(* A panic is counted where an error is allowed (the server turns a        *)
(* panicking query task into HTTP 500) and reported as drift.              *)
(***************************************************************************)
EXTENDS ScatterOps, TLC, Json, IOUtils

CONSTANT DEV
Rec == ndJsonDeserialize(IOEnv.TRACE)
VARIABLES l, nbad

EmitTag(tag, rec) == PrintT(<<tag, ToJson(rec)>>)
SeqSet(s) == {s[i] : i \in DOMAIN s}
Norm(o) == IF o = "panic" THEN "err" ELSE o

WellFormed(r) == /\ SeqSet(r.kinds) \subseteq (Terminal \cup {"flip", "flip_short"})
                 /\ SeqSet(r.locals) \subseteq LocalSt
                 /\ r.outcome \in {"err", "full", "short", "garbled", "panic", "hang", "abort"}

Ok(r) == LET ks == SeqSet(r.kinds)  ls == SeqSet(r.locals) IN
         /\ WellFormed(r)
         /\ Norm(r.outcome) \in AllowedRec(ks, ls, DEV)
         \* the deviation explains a short answer only if a cut really withheld rows
         /\ (r.outcome = "short" => r.lost > 0)

FalseError(r) == r.outcome = "err" /\ SeqSet(r.kinds) \subseteq {"ok"} /\ "err" \notin SeqSet(r.locals)

\* every line is judged (a rejected line does not hide the following ones): BAD tags name the rejected lines
TInit == l = 1 /\ nbad = 0
Query == /\ l <= Len(Rec)
         /\ IF Ok(Rec[l]) THEN nbad' = nbad
            ELSE nbad' = nbad + 1 /\ EmitTag("BAD", [line |-> l, cid |-> Rec[l].cid])
         /\ Rec[l].outcome = "panic" => EmitTag("DRIFT", [line |-> l, what |-> "panic"])
         /\ FalseError(Rec[l]) => EmitTag("DRIFT", [line |-> l, what |-> "false-error"])
         /\ l' = l + 1
TNext == Query
Judged == LET d == TLCGet("stats").diameter - 1 IN
          IF d = Len(Rec) THEN EmitTag("ACCEPT", [n |-> d])
          ELSE EmitTag("REJECT", [line |-> d + 1, cid |-> Rec[d + 1].cid]) /\ FALSE
====
