CONSTANTS MaxRows = 1
          MaxBatches = 1
          NKeyVals = 1
          NKeys = 1
          SpecCodes = {0, 1, 2, 3}
          SplitFanIns = {8}
          Singles = {865, 866, 872, 873}
          Fetches = {99}
          NoFetch = 99
          AllowEmpty = FALSE
          EmitMod = 1
          MergeCmp = "spec"
          CleanupCarried = TRUE
INIT Init
NEXT Next
INVARIANT GenConserves
INVARIANT PassConserves
INVARIANT RunsSorted
INVARIANT RunShape
INVARIANT AtDone
INVARIANT Emit
CHECK_DEADLOCK FALSE
