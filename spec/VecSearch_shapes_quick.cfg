CONSTANTS Fam = "shapes"
          MaxN = 0
          NTab = 2
          Syms <- SymsSmall
          Ks <- KsShapes
          Ms <- MsShapes
          EmitMod = 1
          Gate = "asbuilt"
INIT Init
NEXT Next
INVARIANT FiresOnlyOnCanonical
INVARIANT ExactWhenAsked
INVARIANT AcceptLaws
INVARIANT Emit
CHECK_DEADLOCK FALSE
