CONSTANTS Threads = {1, 2, 3}
          MaxOps = 3
          MaxSet <- MS_0_3_Top
          Sizes <- SZ_012_Top
          Kinds = {"try", "alloc", "resize", "drop"}
          Spurious = FALSE
          Buggy = "none"
          Hist = TRUE
          Canon = TRUE
INIT Init
NEXT Next
INVARIANTS Exact NoWrapWhenFits NoUnderflow NoBadGrant Quiescent EmitDone
CHECK_DEADLOCK FALSE

