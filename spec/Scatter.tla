---- MODULE Scatter ----
(***************************************************************************)
(* C10 — a failing fragment fails the whole query.                         *)
(*                                                                         *)
(* Model of src/distributed/coordinator.rs at the grain of its awaits:     *)
(*   execute_distributed  = one fan-out (scatter_sql_over_table) + merge   *)
(*   execute_gathered     = join_all of one fan-out PER TABLE, then the    *)
(*                          original statement over the gathered tables    *)
(*   scatter_sql_over_table(t):                                            *)
(*     FanOut(t)   every active remote shard is sent at once (join_all),   *)
(*                 the initiator's own shard runs in-process meanwhile;    *)
(*                 shards that own no split are skipped (active = the      *)
(*                 first k nodes: LPT hands splits to empty nodes first);  *)
(*                 k = 0: the table has no row group, one local run        *)
(*     Reply(t,i)  one action per thing that can happen to a response,     *)
(*                 enabled independently at every in-flight shard, in any  *)
(*                 order (join_all waits for ALL of them)                  *)
(*     LocalOk / LocalErr                                                  *)
(*     Collect(t)  `local_out?` first, then the remote results in index    *)
(*                 order: transport error -> Err, decode_ipc error -> Err, *)
(*                 else the batches are appended                           *)
(*   Finish        scatter: merge; gather: `out?` per table in order.      *)
(*                                                                         *)
(* decode_ipc is abstracted by what it can say about the bytes that        *)
(* arrived (dec): an error, or a stream of `kept` record batches.          *)
(* mut = "none" is the design the property asks for (a stream that ends   *)
(* early is an error).  mut = "short_stream" is the deviation              *)
(* DevShortStream of the unchanged tree (a cut at a message boundary, or   *)
(* inside the next continuation marker, reads as a clean end of stream):   *)
(* it breaks NoPartial, and it satisfies the contract weakened by exactly  *)
(* that deviation (ContractDev).  The other mutants are the named          *)
(* coordinator mistakes the contract has to reject (Kill).                 *)
(***************************************************************************)
EXTENDS ScatterOps, TLC, Json

CONSTANTS MaxN,        \* cluster sizes 1..MaxN
          GatherMaxN,  \* cluster sizes explored for the gather shape
          Shapes,      \* subset of {"scatter", "gather"}
          MaxFaults,   \* at most this many faulted fragments (remote or local) per query
          Batches,     \* record batches in every shard's payload
          Mutants,     \* subset of {"none", "short_stream"} \cup MutantNames
          MutMaxN,     \* cluster sizes explored for the non-ideal designs
          MutShapes    \* shapes explored for the non-ideal designs

VARIABLES cfg,     \* [shape, n, self (0: the initiator is not a participant), T, k, mut]
          pc,      \* "run" | "done"
          frag,    \* frag[t][i]: "idle" | "inflight" | Terminal
          kept,    \* complete record batches inside the bytes that arrived
          dec,     \* what decode_ipc says about those bytes: "na" | "err" | "ok"
          loc,     \* the initiator's own shard: "none" | "running" | "ok" | "err"
          tres,    \* per table: "unused" | "unsent" | "flying" | "ok" | "err"
          tgot,    \* batches of shard i of table t handed to the merge (-1: rows of another table copy)
          blame,   \* shard named in the error (fidelity only)
          result   \* "pending" | "err" | "ok"
vars == <<cfg, pc, frag, kept, dec, loc, tres, tgot, blame, result>>

TT == 1..2
Nodes == 1..MaxN
Tables == 1..cfg.T
Active(t) == 1..cfg.k[t]
Remote(t) == {i \in Active(t) : i # cfg.self}
HasLocal(t) == cfg.self \in Active(t) \/ cfg.k[t] = 0

Configs ==
  {c \in [shape : Shapes, n : 1..MaxN, self : 0..MaxN, T : 1..2, k : [TT -> 0..MaxN], mut : Mutants] :
      /\ c.self <= c.n
      /\ c.T = (IF c.shape = "gather" THEN 2 ELSE 1)
      /\ c.shape = "gather" => c.n <= GatherMaxN
      /\ c.mut # "none" => (c.n <= MutMaxN /\ c.shape \in MutShapes)
      /\ \A t \in TT : c.k[t] <= c.n /\ (t > c.T => c.k[t] = 0)}

NFaults == Cardinality({<<t, i>> \in TT \X Nodes : frag[t][i] \in FaultKinds}) + Cardinality({t \in TT : loc[t] = "err"})

Init == /\ cfg \in Configs
        /\ pc = "run"
        /\ frag = [t \in TT |-> [i \in Nodes |-> "idle"]]
        /\ kept = [t \in TT |-> [i \in Nodes |-> 0]]
        /\ dec = [t \in TT |-> [i \in Nodes |-> "na"]]
        /\ loc = [t \in TT |-> "none"]
        /\ tres = [t \in TT |-> IF t <= cfg.T THEN "unsent" ELSE "unused"]
        /\ tgot = [t \in TT |-> [i \in Nodes |-> 0]]
        /\ blame = [t \in TT |-> 0]
        /\ result = "pending"

FanOut(t) ==
  /\ tres[t] = "unsent"
  /\ frag' = [frag EXCEPT ![t] = [i \in Nodes |-> IF i \in Remote(t) THEN "inflight" ELSE "idle"]]
  /\ loc' = [loc EXCEPT ![t] = IF HasLocal(t) THEN "running" ELSE "none"]
  /\ tres' = [tres EXCEPT ![t] = "flying"]
  /\ UNCHANGED <<cfg, pc, kept, dec, tgot, blame, result>>

Arrive(t, i, kind, b, d) ==
  /\ frag[t][i] = "inflight"
  /\ kind # "ok" => NFaults < MaxFaults
  /\ frag' = [frag EXCEPT ![t][i] = kind]
  /\ kept' = [kept EXCEPT ![t][i] = b]
  /\ dec' = [dec EXCEPT ![t][i] = d]
  /\ UNCHANGED <<cfg, pc, loc, tres, tgot, blame, result>>

ShortDec(m) == IF m = "short_stream" THEN "ok" ELSE "err"

ReplyOk(t, i)         == Arrive(t, i, "ok", Batches, "ok")
TransportError(t, i)  == Arrive(t, i, "transport", 0, "na")
HttpError(t, i)       == Arrive(t, i, "http", 0, "na")
DigestMismatch(t, i)  == Arrive(t, i, "digest", 0, "na")
CutInHead(t, i)       == Arrive(t, i, "trunc_hdr", 0, "na")
CutAtTerminator(t, i) == Arrive(t, i, "trunc_term", 0, "err")
CutInMessage(t, i)    == \E b \in 0..(Batches - 1) : Arrive(t, i, "trunc_inmsg", b, "err")
CutInMarker(t, i)     == \E b \in 0..(Batches - 1) : Arrive(t, i, "trunc_marker", b, ShortDec(cfg.mut))
CutAtBoundary(t, i)   == \E b \in 0..(Batches - 1) : Arrive(t, i, "trunc_boundary", b, ShortDec(cfg.mut))
CutInEos(t, i)        == \E d \in {"ok", "err"} : Arrive(t, i, "trunc_eos", Batches, d)
Corrupt(t, i)         == Arrive(t, i, "corrupt", 0, "err")

LocalOk(t)  == /\ loc[t] = "running"
               /\ loc' = [loc EXCEPT ![t] = "ok"]
               /\ UNCHANGED <<cfg, pc, frag, kept, dec, tres, tgot, blame, result>>
LocalErr(t) == /\ loc[t] = "running"
               /\ NFaults < MaxFaults
               /\ loc' = [loc EXCEPT ![t] = "err"]
               /\ UNCHANGED <<cfg, pc, frag, kept, dec, tres, tgot, blame, result>>

\* what the coordinator makes of shard i of table t: <<"err", 0>> or <<"ok", batches>>
Seen(t, i) ==
  LET kd == frag[t][i]  m == cfg.mut IN
  IF kd \in ErrWire THEN
       IF m = "retry_local" /\ kd # "digest" THEN <<"ok", Batches>>       \* re-run in process on a transport failure
       ELSE IF m = "http_empty" /\ kd = "http" THEN <<"ok", 0>>           \* a 503 body taken for an empty result
       ELSE IF m = "skip_digest" /\ kd = "digest" THEN <<"ok", -1>>       \* the worker answered over ITS rows
       ELSE IF m = "filter_ok" THEN <<"ok", 0>>                           \* filter_map(Result::ok)
       ELSE <<"err", 0>>
  ELSE IF dec[t][i] = "ok" THEN <<"ok", kept[t][i]>>
  ELSE IF m \in {"ignore_decode", "filter_ok"} THEN <<"ok", 0>>
  ELSE <<"err", 0>>

Collect(t) ==
  /\ tres[t] = "flying"
  /\ loc[t] # "running"
  /\ \A i \in Remote(t) : frag[t][i] \in Terminal
  /\ LET bad == {i \in Remote(t) : Seen(t, i)[1] = "err"} IN
     IF loc[t] = "err"
     THEN /\ tres' = [tres EXCEPT ![t] = "err"]
          /\ blame' = [blame EXCEPT ![t] = cfg.self]
          /\ tgot' = tgot
     ELSE IF bad # {}
     THEN /\ tres' = [tres EXCEPT ![t] = "err"]
          /\ blame' = [blame EXCEPT ![t] = CHOOSE i \in bad : \A j \in bad : i <= j]
          /\ tgot' = tgot
     ELSE /\ tres' = [tres EXCEPT ![t] = "ok"]
          /\ blame' = blame
          /\ tgot' = [tgot EXCEPT ![t] = [i \in Nodes |-> IF i \in Remote(t) THEN Seen(t, i)[2]
                                                         ELSE IF i \in Active(t) THEN Batches ELSE 0]]
  /\ UNCHANGED <<cfg, pc, frag, kept, dec, loc, result>>

Finish ==
  /\ pc = "run"
  /\ \A t \in Tables : tres[t] \in {"ok", "err"}
  /\ result' = IF \E t \in Tables : tres[t] = "err" THEN "err" ELSE "ok"
  /\ pc' = "done"
  /\ UNCHANGED <<cfg, frag, kept, dec, loc, tres, tgot, blame>>

Done == pc = "done" /\ UNCHANGED vars

Next ==
  \/ \E t \in TT : FanOut(t)
  \/ \E t \in TT : LocalOk(t)
  \/ \E t \in TT : LocalErr(t)
  \/ \E t \in TT : Collect(t)
  \/ \E t \in TT, i \in Nodes : ReplyOk(t, i)
  \/ \E t \in TT, i \in Nodes : TransportError(t, i)
  \/ \E t \in TT, i \in Nodes : HttpError(t, i)
  \/ \E t \in TT, i \in Nodes : DigestMismatch(t, i)
  \/ \E t \in TT, i \in Nodes : CutInHead(t, i)
  \/ \E t \in TT, i \in Nodes : CutAtTerminator(t, i)
  \/ \E t \in TT, i \in Nodes : CutInMessage(t, i)
  \/ \E t \in TT, i \in Nodes : CutInMarker(t, i)
  \/ \E t \in TT, i \in Nodes : CutAtBoundary(t, i)
  \/ \E t \in TT, i \in Nodes : CutInEos(t, i)
  \/ \E t \in TT, i \in Nodes : Corrupt(t, i)
  \/ Finish
  \/ Done

----
Kinds == {frag[t][i] : <<t, i>> \in {p \in TT \X Nodes : p[1] \in Tables /\ p[2] \in Remote(p[1])}}
Locals == {loc[t] : t \in Tables}
Outcome == IF result = "err" THEN "err"
           ELSE IF \A t \in Tables : \A i \in Active(t) : tgot[t][i] = Batches THEN "full" ELSE "short"
Ideal == cfg.mut = "none"

TypeOK ==
  /\ pc \in {"run", "done"} /\ result \in {"pending", "err", "ok"}
  /\ \A t \in TT : /\ loc[t] \in {"none", "running", "ok", "err"}
                   /\ tres[t] \in {"unused", "unsent", "flying", "ok", "err"}
                   /\ \A i \in Nodes : /\ frag[t][i] \in {"idle", "inflight"} \cup Terminal
                                       /\ kept[t][i] \in 0..Batches /\ dec[t][i] \in {"na", "err", "ok"}
                                       /\ tgot[t][i] \in -1..Batches
                                       /\ frag[t][i] # "idle" => i \in Remote(t)   \* an idle node is never sent anything

\* the property, as stated
NoPartial == (Ideal /\ result = "ok") => /\ Outcome = "full"
                                         /\ Kinds \subseteq Harmless
                                         /\ "err" \notin Locals
\* the property on the unchanged tree's decoder (violated: Scatter_asbuilt_cex.cfg shows the shortest history)
NoPartial2 == (cfg.mut = "short_stream" /\ result = "ok") => Outcome = "full"
AnyFault == (Ideal /\ pc = "done" /\ MustErr(Kinds, Locals)) => result = "err"
\* the same through the shared contract operator (this is what judges recorded executions)
Contract == (Ideal /\ pc = "done") => Outcome \in Allowed(Kinds, Locals, 0)
\* the unchanged tree's decoder: explained by the listed deviation, and by nothing less
ContractDev == (cfg.mut = "short_stream" /\ pc = "done") => Outcome \in Allowed(Kinds, Locals, 1)
\* not vacuous: without any fault the query answers, completely
FaultFreeAnswers == (Ideal /\ pc = "done" /\ Kinds \subseteq {"ok"} /\ "err" \notin Locals) => (result = "ok" /\ Outcome = "full")
\* join_all: nothing is decided while a fragment is still in flight
NothingBeforeAll == result # "pending" => \A t \in Tables : loc[t] # "running" /\ \A i \in Nodes : frag[t][i] # "inflight"
\* the shard named in the error did fail (fidelity of the model, cheap to keep)
BlameIsGuilty == \A t \in Tables : (Ideal /\ tres[t] = "err") =>
                    \/ (blame[t] = cfg.self /\ loc[t] = "err")
                    \/ (blame[t] \in Remote(t) /\ frag[t][blame[t]] \notin {"ok"})

FragRec(t, i) == [t |-> t, i |-> i, kind |-> frag[t][i], kept |-> kept[t][i], dec |-> dec[t][i]]
EmitCase(rec) == PrintT(<<"CASE", ToJson(rec)>>)
EmitTag(tag, rec) == PrintT(<<tag, ToJson(rec)>>)
Emit == (Ideal /\ pc = "done") =>
          EmitCase([shape |-> cfg.shape, n |-> cfg.n, self |-> cfg.self, T |-> cfg.T, k |-> <<cfg.k[1], cfg.k[2]>>,
                    frags |-> {FragRec(p[1], p[2]) : p \in {q \in TT \X Nodes : q[1] \in Tables /\ q[2] \in Remote(q[1])}},
                    locals |-> <<loc[1], loc[2]>>, outcome |-> Outcome,
                    allowed |-> Allowed(Kinds, Locals, 0)])
\* kill matrix: a mutant state the contract rejects
Kill == (~Ideal /\ pc = "done" /\ Outcome \notin Allowed(Kinds, Locals, 0)) =>
          EmitTag("KILL", [mut |-> cfg.mut, outcome |-> Outcome, kinds |-> Kinds, locals |-> Locals, n |-> cfg.n])
====
