CONSTANTS
  MaxN = 3
  GatherMaxN = 3
  Shapes = {"gather"}
  MaxFaults = 3
  Batches = 1
  Mutants = {"none"}
  MutMaxN = 4
  MutShapes = {"scatter", "gather"}
INIT Init
NEXT Next
INVARIANT TypeOK
INVARIANT NoPartial
INVARIANT AnyFault
INVARIANT Contract
INVARIANT FaultFreeAnswers
INVARIANT NothingBeforeAll
INVARIANT BlameIsGuilty
INVARIANT Emit
CHECK_DEADLOCK TRUE
