---- MODULE LptOps ----
(***************************************************************************)
(* C12 — byte-balanced assignment: vocabulary, CONTRACT, the optimum, and  *)
(* the modelled greedy (pure operators, no variables).                     *)
(*                                                                         *)
(* Instance: sizes[i], rows[i] = bytes / rows of split i-1 (the code       *)
(* counts splits from 0), N nodes.  Assignment (what assign_lpt returns):  *)
(*   [nodes, per_node : Seq(Seq(0-based split index)), node_bytes,         *)
(*    node_rows, node_splits, total_bytes]                                 *)
(***************************************************************************)
EXTENDS VerifIO

MaxOf(s) == IF s = <<>> THEN 0 ELSE LET m == CHOOSE i \in DOMAIN s : \A j \in DOMAIN s : s[j] <= s[i] IN s[m]
SumAt(vals, idxs) == SumSeq([p \in DOMAIN idxs |-> vals[idxs[p] + 1]])      \* idxs: 0-based indices

\* ---- CONTRACT -------------------------------------------------------------
\* every split goes to exactly one node (and appears there once)
Positions(a) == UNION {{<<n, p>> : p \in DOMAIN a.per_node[n]} : n \in DOMAIN a.per_node}
IsPartition(k, N, a) ==
  /\ Len(a.per_node) = N
  /\ \A np \in Positions(a) : a.per_node[np[1]][np[2]] \in 0..(k - 1)
  /\ \A idx \in 0..(k - 1) : Cardinality({np \in Positions(a) : a.per_node[np[1]][np[2]] = idx}) = 1

\* per-node totals are the sums of what each node owns; the table total is preserved
SumsOk(sizes, rows, N, a) ==
  /\ Len(a.node_bytes) = N /\ Len(a.node_rows) = N /\ Len(a.node_splits) = N
  /\ \A n \in 1..N : /\ a.node_bytes[n] = SumAt(sizes, a.per_node[n])
                     /\ a.node_rows[n] = SumAt(rows, a.per_node[n])
                     /\ a.node_splits[n] = Len(a.per_node[n])
  /\ a.total_bytes = SumSeq(sizes)
  /\ SumSeq(a.node_bytes) = a.total_bytes

AssignOk(sizes, rows, N, a) ==
  /\ a.nodes = N
  /\ IsPartition(Len(sizes), N, a)
  /\ SumsOk(sizes, rows, N, a)

\* ---- the optimum by exhaustive enumeration ---------------------------------
LoadOf(sizes, f, n) == SumSeq([i \in DOMAIN sizes |-> IF f[i] = n THEN sizes[i] ELSE 0])
Makespan(sizes, N, f) == MaxOf([n \in 1..N |-> LoadOf(sizes, f, n)])
MinOfSet(S) == CHOOSE x \in S : \A y \in S : x <= y
\* minimum over ALL assignments [1..k -> 1..N]
Opt(sizes, N) == MinOfSet({Makespan(sizes, N, f) : f \in [DOMAIN sizes -> 1..N]})
\* the same minimum, using that node names are interchangeable: the last split goes to node 1
OptSym(sizes, N) ==
  IF sizes = <<>> THEN 0
  ELSE LET k == Len(sizes) IN
       MinOfSet({Makespan(sizes, N, [i \in 1..k |-> IF i = k THEN 1 ELSE g[i]]) : g \in [1..(k - 1) -> 1..N]})
\* with at least as many nodes as splits the optimum is the largest split
OptWide(sizes, N) == MaxOf(sizes)

\* LPT guarantee (Graham 1969):  max load <= (4/3 - 1/(3N)) OPT,  in integers
BoundOk(N, maxload, opt) == 3 * N * maxload <= (4 * N - 1) * opt

\* ---- the greedy, as the implementation runs it (fidelity model) -------------
\* order: bytes descending, ties by canonical key (here: the split index)
Order(sizes) == SortSeq([i \in DOMAIN sizes |-> i],
                        LAMBDA a, b : sizes[a] > sizes[b] \/ (sizes[a] = sizes[b] /\ a < b))
\* least-loaded node, lowest index on ties
LeastLoaded(load) == CHOOSE n \in DOMAIN load : \A m \in DOMAIN load : load[n] < load[m] \/ (load[n] = load[m] /\ n <= m)

\* the whole greedy as a function: owner[i] = node (1-based) of split i
RECURSIVE Greedy(_, _, _, _)
Greedy(sizes, ord, pos, st) ==
  IF pos > Len(ord) THEN st
  ELSE LET i == ord[pos]
           b == LeastLoaded(st.load)
       IN Greedy(sizes, ord, pos + 1, [owner |-> [st.owner EXCEPT ![i] = b], load |-> [st.load EXCEPT ![b] = @ + sizes[i]]])
LptOwner(sizes, N) == Greedy(sizes, Order(sizes), 1, [owner |-> [i \in DOMAIN sizes |-> 0], load |-> [n \in 1..N |-> 0]]).owner

\* fidelity: what idle_nodes() must report (0-based node indices, ascending)
IdleOk(a, idle) == /\ \A p \in DOMAIN idle : a.node_splits[idle[p] + 1] = 0
                   /\ Len(idle) = Cardinality({n \in DOMAIN a.node_splits : a.node_splits[n] = 0})
                   /\ \A p \in 1..(Len(idle) - 1) : idle[p] < idle[p + 1]
====
