CONSTANTS Impls = {"asbuilt"}
          AllowPartial = TRUE
          DoEmit = FALSE
          Strata <- StrataSmall
INIT Init
NEXT Next
INVARIANT RowCountExact
INVARIANT NullCountExactWhenPresent
INVARIANT MinMaxBound
INVARIANT FootersAreFacts
INVARIANT FixedIsAsBuiltOffShape
INVARIANT FixedIsTight
INVARIANT Emit
CHECK_DEADLOCK FALSE
