---- MODULE CompiledVM ----
(***************************************************************************)
(* C06 — the compiled predicate AS A MACHINE (physical/compiled_expr.rs):  *)
(* Compiler (post-order, SSA-shaped register allocation: every destination *)
(* is a fresh register) produces a flat program over F-registers (f64      *)
(* slabs) and M-registers (0/1 slabs); evaluate() walks the batch in chunks*)
(* of CH rows; eval_chunk executes the program once per chunk over slabs   *)
(* that PERSIST between chunks (only [0, len) is rewritten); the mask is   *)
(* packed and appended per chunk; validity is the AND of the referenced    *)
(* columns' validity per row.                                              *)
(*                                                                         *)
(* One action per implementation step:                                     *)
(*   Exec   — one instruction of the program on the current chunk          *)
(*   Flush  — end of eval_chunk: append mask bits + validity, next chunk   *)
(* Property (Refines): when the batch is exhausted, mask and validity are  *)
(* exactly the row function ResC / ValidC of CompiledExpr.tla (the         *)
(* denotation the replay compares the real code with), for every batch     *)
(* length around the chunk boundary.  Mutant machines (register clobber,   *)
(* chunk offset off by one, last chunk not truncated, validity OR) are     *)
(* rejected.                                                               *)
(***************************************************************************)
EXTENDS CompiledExpr

CONSTANTS CH,        \* chunk size (1024 in the code; small here)
          Lens,      \* batch lengths
          VM         \* "asbuilt" | "m_clobber" | "m_chunk_off" | "m_len" | "m_valid_or"

VARIABLES n, prog, outreg, ip, start, F, M, mask, valid
vmvars == <<n, prog, outreg, ip, start, F, M, mask, valid>>

\* ---- the batch: a few rows of the token table, tiled -------------------------------------
TinyIdx == <<1, 14, 27, 40, 53, 64, 79>>              \* rows of Table("nulls"); 7 rows, so chunks are not aligned with the period
Tiny == [i \in 1..Len(TinyIdx) |-> Table("nulls")[TinyIdx[i]]]
RowB(j) == Tiny[((j - 1) % Len(TinyIdx)) + 1]         \* row j (1-based) of the batch
Raw(v, isf) == IF v = NULL THEN (IF isf THEN PZ ELSE 0) ELSE v     \* what the values buffer holds under a NULL

\* ---- the compiler ---------------------------------------------------------------------------
Emp == [prog |-> <<>>, nf |-> 0, nm |-> 0]
Push(st, ins) == [st EXCEPT !.prog = Append(@, ins)]
RECURSIVE NumF(_, _)
NumF(x, st) ==
  CASE x.k = "col" -> [st |-> [Push(st, [i |-> "loadf", c |-> x.c, dst |-> st.nf]) EXCEPT !.nf = @ + 1], r |-> st.nf]
    [] x.k = "lit" -> [st |-> [Push(st, [i |-> "litf", v |-> x.v, dst |-> st.nf]) EXCEPT !.nf = @ + 1], r |-> st.nf]
    [] x.k = "ar" -> LET A == NumF(x.a, st)
                         Bq == NumF(x.b, A.st)
                         d == Bq.st.nf
                     IN [st |-> [Push(Bq.st, [i |-> "arith", op |-> x.op, a |-> A.r, b |-> Bq.r, dst |-> d]) EXCEPT !.nf = @ + 1], r |-> d]
SideC(x, st) ==
  CASE x.k = "col" -> [st |-> st, src |-> [s |-> "col", c |-> x.c]]
    [] x.k = "lit" -> [st |-> st, src |-> [s |-> "lit", v |-> x.v]]
    [] x.k = "ar" -> LET A == NumF(x, st) IN [st |-> A.st, src |-> [s |-> "reg", r |-> A.r]]
CmpC(op, ty, a, b, st) ==
  LET A == SideC(a, st)
      Bq == SideC(b, A.st)
      d == IF VM = "m_clobber" THEN 0 ELSE Bq.st.nm              \* mutant: every comparison lands in M0 (a live register is clobbered)
  IN [st |-> [Push(Bq.st, [i |-> "cmp", op |-> op, ty |-> ty, a |-> A.src, b |-> Bq.src, dst |-> d]) EXCEPT !.nm = @ + 1], r |-> d]
RECURSIVE BoolC(_, _)
BoolC(q, st) ==
  CASE q.k = "cmp" -> CmpC(q.op, TypeOf(q.a), q.a, q.b, st)
    [] q.k \in {"and", "or"} ->
         LET A == BoolC(q.a, st)
             Bq == BoolC(q.b, A.st)
             d == Bq.st.nm
         IN [st |-> [Push(Bq.st, [i |-> q.k, a |-> A.r, b |-> Bq.r, dst |-> d]) EXCEPT !.nm = @ + 1], r |-> d]
    [] q.k = "not" -> LET A == BoolC(q.a, st) IN [st |-> [Push(A.st, [i |-> "not", a |-> A.r, dst |-> A.st.nm]) EXCEPT !.nm = @ + 1], r |-> A.st.nm]
    [] q.k = "btw" ->
         LET G == CmpC("ge", TypeOf(q.x), q.x, q.lo, st)
             Lq == CmpC("le", TypeOf(q.x), q.x, q.hi, G.st)
             An == [st |-> [Push(Lq.st, [i |-> "and", a |-> G.r, b |-> Lq.r, dst |-> Lq.st.nm]) EXCEPT !.nm = @ + 1], r |-> Lq.st.nm]
         IN IF q.neg = 1 THEN [st |-> [Push(An.st, [i |-> "not", a |-> An.r, dst |-> An.st.nm]) EXCEPT !.nm = @ + 1], r |-> An.st.nm] ELSE An

\* ---- the machine ------------------------------------------------------------------------------
ChunkLen == IF n - start < CH THEN n - start ELSE CH
Off == IF VM = "m_chunk_off" /\ start > 0 THEN start - 1 ELSE start                    \* mutant: rows of later chunks read one too early
RowAtPos(i) == RowB(Off + i)                                                             \* i = 1..len inside the chunk
IsFcol(c) == c \in {"f", "g"}
SrcVal(src, i) == CASE src.s = "col" -> Raw(RowAtPos(i)[src.c], IsFcol(src.c)) [] src.s = "lit" -> src.v [] src.s = "reg" -> F[src.r][i]
ArithRaw(op, a, b) == CASE op = "add" -> AddT(a, b) [] op = "sub" -> SubT(a, b) [] op = "mul" -> MulT(a, b) [] op = "div" -> DivT(a, b)
ArithV(op, a, b) == IF IsNaN(a) \/ IsNaN(b) THEN NaNOf(a, b) ELSE IF a = OUT \/ b = OUT THEN OUT ELSE ArithRaw(op, a, b)
CmpV(ty, op, a, b) ==
  IF ty = "f64" /\ (IsNaN(a) \/ IsNaN(b)) THEN B(op = "ne")
  ELSE IF a = OUT \/ b = OUT THEN OUT
  ELSE IF ty = "f64" THEN B(CmpIEEE(op, a, b)) ELSE B(CmpTotal(op, a, b))
Bit2(k, x, y) == IF x = OUT \/ y = OUT THEN OUT ELSE IF k = "and" THEN AndB(x, y) ELSE OrB(x, y)
Upd(slab, f(_)) == [i \in 1..CH |-> IF i <= ChunkLen THEN f(i) ELSE slab[i]]           \* only [0, len) is written; the rest is stale
ZeroF == [r \in 0..23 |-> [i \in 1..CH |-> PZ]]
ZeroM == [r \in 0..23 |-> [i \in 1..CH |-> 0]]

VMInit == /\ e \in Exprs /\ InSubset(e) /\ n \in Lens
          /\ variant = "nulls" /\ pc = "vm" /\ compiled = 1 /\ out = NoOut
          /\ LET Cq == BoolC(e, Emp) IN prog = Cq.st.prog /\ outreg = Cq.r
          /\ ip = 1 /\ start = 0 /\ F = ZeroF /\ M = ZeroM /\ mask = <<>> /\ valid = <<>>
Exec == /\ pc = "vm" /\ start < n /\ ip <= Len(prog)
        /\ LET ins == prog[ip] IN
           CASE ins.i = "loadf" -> /\ F' = [F EXCEPT ![ins.dst] = Upd(@, LAMBDA i : Raw(RowAtPos(i)[ins.c], TRUE))] /\ M' = M
             [] ins.i = "litf" -> /\ F' = [F EXCEPT ![ins.dst] = Upd(@, LAMBDA i : ins.v)] /\ M' = M
             [] ins.i = "arith" -> /\ F' = [F EXCEPT ![ins.dst] = Upd(@, LAMBDA i : ArithV(ins.op, F[ins.a][i], F[ins.b][i]))] /\ M' = M
             [] ins.i = "cmp" -> /\ M' = [M EXCEPT ![ins.dst] = Upd(@, LAMBDA i : CmpV(ins.ty, ins.op, SrcVal(ins.a, i), SrcVal(ins.b, i)))] /\ F' = F
             [] ins.i \in {"and", "or"} -> /\ M' = [M EXCEPT ![ins.dst] = Upd(@, LAMBDA i : Bit2(ins.i, M[ins.a][i], M[ins.b][i]))] /\ F' = F
             [] ins.i = "not" -> /\ M' = [M EXCEPT ![ins.dst] = Upd(@, LAMBDA i : IF M[ins.a][i] = OUT THEN OUT ELSE 1 - M[ins.a][i])] /\ F' = F
        /\ ip' = ip + 1
        /\ UNCHANGED <<pc, e, variant, compiled, out, n, prog, outreg, start, mask, valid>>
RowValid(j) == IF VM = "m_valid_or" THEN (ColsOf(e) = {} \/ \E c \in ColsOf(e) : RowB(j)[c] # NULL) ELSE \A c \in ColsOf(e) : RowB(j)[c] # NULL
Flush == /\ pc = "vm" /\ start < n /\ ip > Len(prog)
         /\ LET len == IF VM = "m_len" THEN CH ELSE ChunkLen IN                       \* mutant: the last chunk is appended untruncated
            /\ mask' = mask \o [i \in 1..len |-> M[outreg][i]]
            /\ valid' = valid \o [i \in 1..len |-> B(RowValid(start + i))]
            /\ start' = start + len
         /\ ip' = 1
         /\ UNCHANGED <<pc, e, variant, compiled, out, n, prog, outreg, F, M>>
VMNext == Exec \/ Flush

\* ---- refinement of the row function ----------------------------------------------------------
Refines == (pc = "vm" /\ start >= n) =>
   /\ Len(mask) = n /\ Len(valid) = n
   /\ \A j \in 1..n : LET want == ResC(e, RowB(j)) IN
        /\ valid[j] = B(ValidC(e, RowB(j)))
        /\ (want # NULL /\ want # OUT /\ mask[j] # OUT) => mask[j] = want
\* SSA shape: every destination register is fresh (what makes split_at_mut safe in the code)
IsFIns(x) == x.i \in {"loadf", "litf", "arith"}
FreshDst == \A a, b \in DOMAIN prog : (a < b /\ IsFIns(prog[a]) = IsFIns(prog[b])) => prog[a].dst # prog[b].dst
RegsInRange == \A a \in DOMAIN prog : prog[a].dst \in 0..23
====
