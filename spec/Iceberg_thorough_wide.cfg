CONSTANTS MaxFiles = 4
          MaxActions = 4
          Styles = {0, 21}
          TieAll = TRUE
          EmitOn = FALSE
INIT Init
NEXT Next
INVARIANT LiveIsTruth
INVARIANT LiveNeverDeleted
INVARIANT LiveOnce
INVARIANT RowsExactlyLive
INVARIANT RefusedWhenDue
INVARIANT CurrentDefined
INVARIANT AcceptPinned
INVARIANT UnknownRefused
INVARIANT Bounded
INVARIANT CountsWellFormed
INVARIANT Emit
PROPERTY TimeTravelStable
CHECK_DEADLOCK FALSE
