\* (M) exhaustive, thorough tier: same run as Membership_quick.cfg with every named property
\* listed separately (bounds come from the C15_CONSTS file: more ids, fails and generations)
CONSTANTS Addr <- EnvAddr
          Self <- EnvSelf
          SelfSpellings <- EnvSelfSpellings
          NodeIds <- EnvNodeIds
          ErrCodes <- EnvErrCodes
          Variants <- EnvVariants
          Record = FALSE
          MaxFails <- EnvMaxFails
          MaxGen <- EnvMaxGen
          MaxDepth <- EnvMaxDepth
INIT Init
NEXT Next
VIEW MView
CONSTRAINT Bound
INVARIANT TypeOK
INVARIANT NoSelfPeer
INVARIANT ViewOk
PROPERTY GenMono
PROPERTY GenOnChange
PROPERTY ErrKeeps
PROPERTY SameSetKeeps
PROPERTY StepDesign
CHECK_DEADLOCK FALSE
