CONSTANTS MaxK = 6
          MaxSize = 4
          Ns = {5, 7, 8, 16, 33, 64}
          Brute = FALSE
INIT Init
NEXT Next
INVARIANT LoadIsSum
INVARIANT Gap
INVARIANT PlacedOnce
INVARIANT AtDone
INVARIANT Emit
CHECK_DEADLOCK FALSE
