CONSTANTS Keys <- K3
          NB = 2
          MaxBB = 2
          NP = 2
          MaxPB = 1
          Kinds = {"inner"}
          BitmapMaxBits = 3
          SetMaxKeys = 2
          Mutant = "none"
          EmitCases = FALSE
INIT Init
NEXT Next
INVARIANT NeverSkips
CHECK_DEADLOCK FALSE
