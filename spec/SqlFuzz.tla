---- MODULE SqlFuzz ----
(***************************************************************************)
(* C29 — no SQL input crashes or hangs the engine.                         *)
(*                                                                         *)
(* State: a statement as a token sequence.  Init = the seed statements     *)
(* (read from IOEnv.C29_SEEDS: well-typed statements over the three        *)
(* registered schemas and the ill-typed family — unknown names, type       *)
(* mismatches, misplaced aggregates/windows, unsupported syntax, deep      *)
(* nesting and huge literals written with repetition macros <REP:n:text>   *)
(* that the harness expands).  Next = one token mutation (Delete,          *)
(* Duplicate, Swap, ReplaceByKeyword, Truncate), up to MaxDepth mutations. *)
(*                                                                         *)
(* Engine model: every reached statement may be submitted;                 *)
(*     Idle -> Running -> Returned(ok | err).                              *)
(* The engine's contract has NO transition into Panicked, Aborted or Hung: *)
(* NoCrash is the invariant, and SqlFuzzTrace.tla accepts a recorded       *)
(* outcome of the real engine only if it is a step of this machine.        *)
(***************************************************************************)
EXTENDS VerifIO, IOUtils

CONSTANTS MaxDepth,     \* number of mutations applied to a seed
          SeedLo, SeedHi, \* slice of the seed list explored by this run
          Keywords      \* tokens ReplaceByKeyword may write

Seeds == ndJsonDeserialize(IOEnv.C29_SEEDS)      \* sequence of [id |-> .., toks |-> <<..>>]

VARIABLES toks, depth, seed, eng
vars == <<toks, depth, seed, eng>>

ReturnStates == {"RetOk", "RetErr"}
EngineStates == {"Idle", "Running"} \cup ReturnStates
BadStates == {"Panicked", "Aborted", "Hung"}

Init == /\ seed \in SeedLo..Min2(SeedHi, Len(Seeds))
        /\ toks = Seeds[seed].toks
        /\ depth = 0
        /\ eng = "Idle"

\* ---- token mutations --------------------------------------------------------
Delete(i) == toks' = SubSeq(toks, 1, i - 1) \o SubSeq(toks, i + 1, Len(toks))
Duplicate(i) == toks' = SubSeq(toks, 1, i) \o SubSeq(toks, i, Len(toks))
Swap(i) == /\ i < Len(toks)
           /\ toks' = [toks EXCEPT ![i] = toks[i + 1], ![i + 1] = toks[i]]
Replace(i, k) == toks' = [toks EXCEPT ![i] = k]
Truncate(i) == toks' = SubSeq(toks, 1, i - 1)

Mutate == /\ eng = "Idle" /\ depth < MaxDepth
          /\ \E i \in DOMAIN toks :
                \/ Delete(i) \/ Duplicate(i) \/ Swap(i) \/ Truncate(i)
                \/ \E k \in Keywords : Replace(i, k)
          /\ depth' = depth + 1
          /\ UNCHANGED <<seed, eng>>

\* ---- the engine's contract ------------------------------------------------------
Submit == eng = "Idle" /\ eng' = "Running" /\ UNCHANGED <<toks, depth, seed>>
Return == eng = "Running" /\ eng' \in ReturnStates /\ UNCHANGED <<toks, depth, seed>>

Next == Mutate \/ Submit \/ Return
Spec == Init /\ [][Next]_vars

TypeOK == eng \in EngineStates /\ depth \in 0..MaxDepth
NoCrash == eng \notin BadStates
\* bounded time at the model level: a running statement can always return
Returns == eng = "Running" => ENABLED Return

\* every submitted statement is handed to the harness
Emit == eng = "Running" => EmitCase([seed |-> Seeds[seed].id, depth |-> depth, toks |-> toks])
====
