---- MODULE SidecarTrace ----
(***************************************************************************)
(* Trace validation for C20: the sync points ONE engine process passed     *)
(* during an un-scheduled run (recorded in process order by the harness,   *)
(* qev sidecar-stress) must be a behaviour of the per-process control flow *)
(* of Sidecar.tla.  Other processes are the environment: what a fresh      *)
(* check sees is not recorded, so both results are possible wherever the   *)
(* spec has a choice.  One ND-JSON line per event:                         *)
(*                                                                         *)
(*   {p:"reset", mode, nrg}      next process: mode 0 off / 1 build /      *)
(*                               2 auto, row groups of the table           *)
(*   {p:"sidecar.<point>", t, w, k}                                        *)
(*        t thread (a worker acts for the thread that holds the build),    *)
(*        w = 1 event seen on a pool worker, k = 1 api query thread,       *)
(*        2 sql statement thread                                           *)
(*                                                                         *)
(* Checked: no sidecar activity at all with QE_IPC_CACHE=0; an auto-mode   *)
(* process never locks, stages, writes, removes or renames; the build      *)
(* sequence is check, lock, recheck, mk_staging, write_rg x nrg,           *)
(* write_complete (AFTER every row group), remove_final, rename,           *)
(* [cleanup_staging]; no second thread of the process passes the re-check  *)
(* or stages while one is between mk_staging and rename (the in-process    *)
(* mutex); an api query thread opens a row group only after ensure_sidecar *)
(* returned, at most nrg times per ensure.                                 *)
(***************************************************************************)
EXTENDS Naturals, Integers, Sequences, FiniteSets, TLC, Json, IOUtils, VerifIO

Rec == ndJsonDeserialize(IOEnv.TRACE)
TThreads == 0..16
VARIABLES l, mode, nrg, st, holder, wcount, opens
tvars == <<l, mode, nrg, st, holder, wcount, opens>>

TInit == l = 1 /\ mode = 0 /\ nrg = 0 /\ st = [t \in TThreads |-> "idle"] /\ holder = 0 /\ wcount = 0
         /\ opens = [t \in TThreads |-> 0]

IsEv(p) == l <= Len(Rec) /\ Rec[l].p = p /\ l' = l + 1
E == Rec[l]
InEnsure(s) == s \in {"wantlock", "building", "stamped", "removed"}
Critical(s) == s \in {"building", "stamped", "removed"}
MayRead(s) == s \in {"checked", "locked", "released", "renamed", "cleaned", "reading"}

Reset == /\ IsEv("reset")
         /\ mode' = E.mode /\ nrg' = E.nrg
         /\ st' = [t \in TThreads |-> "idle"] /\ holder' = 0 /\ wcount' = 0 /\ opens' = [t \in TThreads |-> 0]

Set(t, s) == st' = [st EXCEPT ![t] = s]

CheckFresh == /\ IsEv("sidecar.check_fresh") /\ mode # 0 /\ E.w = 0
              /\ ~InEnsure(st[E.t])
              /\ Set(E.t, "checked") /\ opens' = [opens EXCEPT ![E.t] = 0]
              /\ UNCHANGED <<mode, nrg, holder, wcount>>
Lock == /\ IsEv("sidecar.lock") /\ mode = 1 /\ E.w = 0
        /\ st[E.t] = "checked" /\ Set(E.t, "wantlock")
        /\ UNCHANGED <<mode, nrg, holder, wcount, opens>>
\* the lock is held from here to the return of ensure_sidecar; a thread that re-checked and found the sidecar
\* fresh returns without another event, so an earlier "locked" thread must have released
Recheck == /\ IsEv("sidecar.recheck_fresh") /\ mode = 1 /\ E.w = 0
           /\ st[E.t] = "wantlock"
           /\ \A u \in TThreads : u # E.t => ~Critical(st[u])
           /\ st' = [u \in TThreads |-> IF u = E.t THEN "locked" ELSE IF st[u] = "locked" THEN "released" ELSE st[u]]
           /\ UNCHANGED <<mode, nrg, holder, wcount, opens>>
MkStaging == /\ IsEv("sidecar.mk_staging") /\ mode = 1 /\ E.w = 0
             /\ st[E.t] = "locked"
             /\ \A u \in TThreads : u # E.t => ~Critical(st[u])
             /\ Set(E.t, "building") /\ holder' = E.t /\ wcount' = 0
             /\ UNCHANGED <<mode, nrg, opens>>
WriteRg == /\ IsEv("sidecar.write_rg") /\ mode = 1
           /\ holder # 0 /\ E.t = holder /\ st[holder] = "building" /\ wcount < nrg
           /\ wcount' = wcount + 1
           /\ UNCHANGED <<mode, nrg, st, holder, opens>>
WriteComplete == /\ IsEv("sidecar.write_complete") /\ mode = 1 /\ E.w = 0
                 /\ st[E.t] = "building" /\ wcount = nrg
                 /\ Set(E.t, "stamped")
                 /\ UNCHANGED <<mode, nrg, holder, wcount, opens>>
RemoveFinal == /\ IsEv("sidecar.remove_final") /\ mode = 1 /\ E.w = 0
               /\ st[E.t] = "stamped" /\ Set(E.t, "removed")
               /\ UNCHANGED <<mode, nrg, holder, wcount, opens>>
Rename == /\ IsEv("sidecar.rename") /\ mode = 1 /\ E.w = 0
          /\ st[E.t] = "removed" /\ Set(E.t, "renamed") /\ holder' = 0
          /\ UNCHANGED <<mode, nrg, wcount, opens>>
Cleanup == /\ IsEv("sidecar.cleanup_staging") /\ mode = 1 /\ E.w = 0
           /\ st[E.t] = "renamed" /\ Set(E.t, "cleaned")
           /\ UNCHANGED <<mode, nrg, holder, wcount, opens>>
\* api query threads read on their own thread; sql statements read on pool workers (attribution unknown)
OpenRg == /\ IsEv("sidecar.open_rg") /\ mode # 0
          /\ IF E.w = 0 /\ E.k = 1
             THEN /\ MayRead(st[E.t]) /\ opens[E.t] < nrg
                  /\ Set(E.t, "reading") /\ opens' = [opens EXCEPT ![E.t] = @ + 1]
             ELSE UNCHANGED <<st, opens>>
          /\ UNCHANGED <<mode, nrg, holder, wcount>>

TNext == Reset \/ CheckFresh \/ Lock \/ Recheck \/ MkStaging \/ WriteRg \/ WriteComplete \/ RemoveFinal \/ Rename \/ Cleanup \/ OpenRg
TSpec == TInit /\ [][TNext]_tvars
Accepted == LET d == TLCGet("stats").diameter - 1 IN
            IF d = Len(Rec) THEN EmitTag("ACCEPT", [n |-> d])
            ELSE EmitTag("REJECT", [line |-> d + 1, rec |-> Rec[d + 1]]) /\ FALSE
====
