CONSTANTS W = 2
          R = 3
          RowChoices = {1}
          Filter = FALSE
          Fault = FALSE
          Agg = FALSE
          Hist = FALSE
          Mutant = "none"
SPECIFICATION FairSpec
INVARIANT ExactlyOnce
PROPERTY Termination
PROPERTY Monotone
CHECK_DEADLOCK FALSE
