CONSTANTS Profiles = {"i64.small", "f64.zeros"}
          Family = "pair"
          MaxRows = 2
          Impl = "asbuilt"
          Strict = FALSE
          EmitOn = TRUE
          FlipOps = {}
          SecLits = {}
          BtwToks = {}
          InToks = {}
          Depth2 = FALSE
INIT Init
NEXT Next
INVARIANT PruneSound
INVARIANT AllTrueSound
INVARIANT StatsAreBounds
INVARIANT Emit
CHECK_DEADLOCK FALSE
