CONSTANTS Families = {"f64leaf", "intleaf", "decline", "arith", "arith2", "bool", "bool3"}
          Variants = {"nulls", "nonull", "mixed"}
          Impl = "asbuilt"
          Strict = FALSE
          ArithLits = {"ni", "m2", "nz", "pz", "one", "pi", "nan"}
          CmpLits = {"nz", "pz", "one", "nan"}
          ArithOps = {"add", "sub", "mul", "div"}
          ArithCmpOps = {"eq", "ne", "lt", "le", "gt", "ge"}
INIT Init
NEXT Next
INVARIANT Agree
INVARIANT InterpreterNullStrict
INVARIANT Emit
CHECK_DEADLOCK FALSE
