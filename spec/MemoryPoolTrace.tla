---- MODULE MemoryPoolTrace ----
(***************************************************************************)
(* Trace validation for C33: what the REAL MemoryPool did, recorded by the *)
(* harness (qev pool-replay / pool-stress) as ND-JSON, must be a behaviour *)
(* of MemoryPool.tla.  All numbers are window representatives (-1 =        *)
(* usize::MAX); a value the harness cannot represent is sent as NULL and   *)
(* matches nothing.                                                        *)
(*                                                                         *)
(* begin   {max, nt, mode}            new pool (mode 1 scheduled, 2 stress) *)
(* step    {t, a, x, y, ok, u, r}     scheduled run: thread t was released  *)
(*         from the sync point of action a and ran to its next sync point / *)
(*         the end of its operation; u = pool.used() afterwards, r = its    *)
(*         reservations' size()s, ok = 1 Some/done, 0 None, 2 in flight.    *)
(*         Accepted iff it IS the spec action on the spec state and the     *)
(*         observed values are the spec's (contract + fidelity).            *)
(* obs     {u, live, max, grant, idle} contract only, on observed values:   *)
(*         Exact, NoWrapWhenFits, grant => used <= max, quiescent => 0.     *)
(* sop     {t, k, x, y, ok, o, tryonly} unscheduled stress: thread t        *)
(*         finished operation k (thread-local effect only; the linearization*)
(*         order is unknown); o = a used() it read afterwards;             *)
(*         in a try-only workload every such reading is <= max.             *)
(* barrier {u, live}  all threads quiescent at a barrier: used() = sum of   *)
(*         the live sizes (the spec's and the observed size()s).            *)
(***************************************************************************)
EXTENDS Naturals, Integers, Sequences, FiniteSets, TLC, Json, IOUtils

Threads == 1..16
MaxOps == 1000000
MaxSet == {0}
Sizes == {0}
Kinds == {"try", "alloc", "resize", "drop"}
Spurious == TRUE
Buggy == "none"
Hist == FALSE
Canon == FALSE
VARIABLES used, max, pc, cur, req, res, nops, uflow, badgrant, hist
INSTANCE MemoryPool

Rec == ndJsonDeserialize(IOEnv.TRACE)
VARIABLES l, mode
tvars == <<used, max, pc, cur, req, res, nops, uflow, badgrant, hist, l, mode>>

TInit == Init /\ l = 1 /\ mode = 0
IsEv(e) == l <= Len(Rec) /\ Rec[l].ev = e /\ l' = l + 1

Begin ==
  /\ IsEv("begin")
  /\ used' = 0 /\ max' = Rec[l].max
  /\ pc' = [t \in Threads |-> "idle"]
  /\ cur' = [t \in Threads |-> 0] /\ req' = [t \in Threads |-> 0]
  /\ res' = [t \in Threads |-> <<>>]
  /\ nops' = [t \in Threads |-> 0]
  /\ uflow' = FALSE /\ badgrant' = FALSE /\ hist' = <<>>
  /\ mode' = Rec[l].mode

ActionOf(e) ==
  CASE e.a = A_LOAD -> TryLoadGiveUp(e.t, e.x) \/ TryLoadCont(e.t, e.x)
    [] e.a = A_CAS -> TryCasOk(e.t) \/ TryCasFailRetry(e.t) \/ TryCasFailGiveUp(e.t) \/ TryCasSpurious(e.t)
    [] e.a = A_ALLOC -> Alloc(e.t, e.x)
    [] e.a = A_GROW -> ResizeGrow(e.t, e.x, e.y)
    [] e.a = A_SHRINK -> ResizeShrink(e.t, e.x, e.y)
    [] e.a = A_DROP -> Drop(e.t, e.x)
    [] OTHER -> FALSE

\* the spec's view of the outcome of the step, from the primed state
OkOf(e) == IF pc'[e.t] = "cas" THEN 2
           ELSE IF e.a \in {A_LOAD, A_CAS} /\ Len(res'[e.t]) = Len(res[e.t]) THEN 0
           ELSE 1

Step ==
  /\ IsEv("step") /\ mode = 1
  /\ LET e == Rec[l] IN
       /\ e.t \in Threads
       /\ ActionOf(e)
       /\ used' = e.u
       /\ res'[e.t] = e.r
       /\ OkOf(e) = e.ok
       /\ ~uflow' /\ ~badgrant'
  /\ UNCHANGED mode

AsFun(live) == [t \in 1..Len(live) |-> live[t]]

Obs ==
  /\ IsEv("obs")
  /\ LET e == Rec[l]
         r == AsFun(e.live)
     IN /\ ExactOn(e.u, r)
        /\ NoWrapOn(e.u, r)
        /\ (e.grant = 1 => ULe(e.u, e.max))
        /\ ((AllEmpty(r) /\ e.idle = 1) => e.u = 0)
  /\ UNCHANGED <<used, max, pc, cur, req, res, nops, uflow, badgrant, hist, mode>>

\* stress: only the owner's reservation list moves; `used` is compared at barriers
SopEffect(e) ==
  CASE e.k = A_LOAD -> IF e.ok = 1 THEN Granted(res[e.t], e.x) ELSE res[e.t]
    [] e.k = A_ALLOC -> Granted(res[e.t], e.x)
    [] e.k \in {A_GROW, A_SHRINK} -> Resized(res[e.t], e.x, e.y)
    [] e.k = A_DROP -> Dropped(res[e.t], e.x)

Sop ==
  /\ IsEv("sop") /\ mode = 2
  /\ LET e == Rec[l] IN
       /\ e.t \in Threads
       /\ e.k \in {A_LOAD, A_ALLOC, A_GROW, A_SHRINK, A_DROP}
       /\ e.k \in {A_GROW, A_SHRINK, A_DROP} => e.x \in DOMAIN res[e.t]
       /\ e.k = A_LOAD => e.ok \in {0, 1}
       /\ res' = [res EXCEPT ![e.t] = SopEffect(e)]
       /\ e.tryonly = 1 => ULe(e.o, max)      \* NULL (unrepresentable) is far above any small limit
       \* a grant is never beyond the limit by more than what others forced in: in a
       \* try-only workload the grant itself is bounded
       /\ (e.tryonly = 1 /\ e.k = A_LOAD /\ e.ok = 1) => ULe(e.x, max)
  /\ UNCHANGED <<used, max, pc, cur, req, nops, uflow, badgrant, hist, mode>>

Barrier ==
  /\ IsEv("barrier") /\ mode = 2
  /\ LET e == Rec[l] IN
       /\ \A t \in 1..Len(e.live) : e.live[t] = res[t]
       /\ \A t \in Threads : t > Len(e.live) => res[t] = <<>>
       /\ ExactOn(e.u, res)
       /\ NoWrapOn(e.u, res)
       /\ (AllEmpty(res) => e.u = 0)
       /\ used' = e.u
  /\ UNCHANGED <<max, pc, cur, req, res, nops, uflow, badgrant, hist, mode>>

TNext == Begin \/ Step \/ Obs \/ Sop \/ Barrier
TSpec == TInit /\ [][TNext]_tvars

Accepted == LET d == TLCGet("stats").diameter - 1 IN
            IF d = Len(Rec) THEN EmitTag("ACCEPT", [n |-> d])
            ELSE EmitTag("REJECT", [line |-> d + 1, rec |-> Rec[d + 1]]) /\ FALSE
====
