CONSTANTS MIN = 1
          MAX = 2
          SPN = 1
          MaxFiles = 2
          MaxRgs = 2
          MaxRows = 3
          ByteVals = {3, 6}
          NodeVals = {1, 2}
          AllowDup = FALSE
          EmitMode = 0
          Regimes = {"maxclamp", "minclamp"}
INIT Init
NEXT Next
INVARIANT AllProps
INVARIANT MutantSensitive
CHECK_DEADLOCK FALSE
