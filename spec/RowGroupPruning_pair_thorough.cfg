CONSTANTS Profiles = {"i64.small", "f64.zeros", "i64.big53", "i64.wrap32", "str.uni", "date.small"}
          Family = "pair"
          MaxRows = 2
          Impl = "asbuilt"
          Strict = FALSE
          EmitOn = TRUE
          FlipOps = {}
          SecLits = {}
          BtwToks = {}
          InToks = {}
          Depth2 = TRUE
INIT Init
NEXT Next
INVARIANT PruneSound
INVARIANT AllTrueSound
INVARIANT StatsAreBounds
INVARIANT Emit
CHECK_DEADLOCK FALSE
