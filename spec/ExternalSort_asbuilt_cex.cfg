CONSTANTS MaxRows = 3
          MaxBatches = 2
          NKeyVals = 1
          NKeys = 1
          SpecCodes = {2}
          SplitFanIns = {8}
          Singles = {}
          Fetches = {99}
          NoFetch = 99
          AllowEmpty = FALSE
          EmitMod = 1000000
          MergeCmp = "asbuilt"
          CleanupCarried = TRUE
INIT Init
NEXT Next
INVARIANT GenConserves
INVARIANT PassConserves
INVARIANT RunsSorted
INVARIANT RunShape
INVARIANT AtDone
INVARIANT Emit
CHECK_DEADLOCK FALSE
