---- MODULE RuntimeFilterTrace ----
(* Trace validation for X05 (RuntimeFilter): one line = one observation of the real engine.

   ev = "join"      a statement run through ExecutionContext::sql over Parquet tables whose probe-side scan is the
                    streaming scan with a linked runtime filter (the driver records whether it was linked and
                    published).  l / r are the recorded LEFT / RIGHT tables as rows <<key, id>> (ids unique per
                    table), kind the SQL join kind, ans the rows the engine returned (<<lid, rid>> for
                    inner/left/right/full, <<lid>> for semi/anti; NULL == -1073741824).  The spec recomputes the
                    join from the recorded tables: the answer must be exactly the SQL answer — in particular no
                    probe row may be missing because a runtime filter dropped it.
   ev = "contains"  one call of the real RuntimeFilterPayload::contains on a payload built from `keys` the way
                    hash_join.rs builds it; got must be membership in the build key set. *)
EXTENDS Naturals, Integers, Sequences, FiniteSets, TLC, Json, IOUtils, VerifIO

Rec == ndJsonDeserialize(IOEnv.TRACE)
VARIABLE l

Rows(s) == {s[i] : i \in DOMAIN s}
Match(a, b) == a[1] # NULL /\ a[1] = b[1]

Expected(kind, lt, rt) ==
  LET L == Rows(lt)
      R == Rows(rt)
      M == {p \in L \X R : Match(p[1], p[2])}
      pairs == {<<p[1][2], p[2][2]>> : p \in M}
      lun == {a \in L : \A b \in R : ~Match(a, b)}
      run == {b \in R : \A a \in L : ~Match(a, b)}
  IN CASE kind = "inner" -> pairs
       [] kind = "left"  -> pairs \cup {<<a[2], NULL>> : a \in lun}
       [] kind = "right" -> pairs \cup {<<NULL, b[2]>> : b \in run}
       [] kind = "full"  -> pairs \cup {<<a[2], NULL>> : a \in lun} \cup {<<NULL, b[2]>> : b \in run}
       [] kind = "semi"  -> {<<a[2]>> : a \in L \ lun}
       [] kind = "anti"  -> {<<a[2]>> : a \in lun}

UniqueIds(t) == \A i, j \in DOMAIN t : t[i][2] = t[j][2] => i = j

JoinOk(r) == /\ r.kind \in {"inner", "left", "right", "full", "semi", "anti"}
             /\ UniqueIds(r.l) /\ UniqueIds(r.r)
             /\ LET e == Expected(r.kind, r.l, r.r) IN
                /\ Len(r.ans) = Cardinality(e)
                /\ Rows(r.ans) = e

ContainsOk(r) == LET K == Rows(r.keys) IN
                 /\ r.got = (IF r.v \in K THEN 1 ELSE 0)
                 /\ r.kind = "bitmap" => /\ {r.min + o : o \in Rows(r.on)} = K
                                         /\ \A o \in Rows(r.on) : o >= 0 /\ o < r.nbits

TInit == l = 1
Join == /\ l <= Len(Rec) /\ Rec[l].ev = "join"
        /\ JoinOk(Rec[l])
        /\ l' = l + 1
Cont == /\ l <= Len(Rec) /\ Rec[l].ev = "contains"
        /\ ContainsOk(Rec[l])
        /\ l' = l + 1
TNext == Join \/ Cont
Accepted == LET d == TLCGet("stats").diameter - 1 IN
            IF d = Len(Rec) THEN EmitTag("ACCEPT", [n |-> d])
            ELSE EmitTag("REJECT", [line |-> d + 1, rec |-> Rec[d + 1]]) /\ FALSE
====
