CONSTANTS Family = "set"
          N = 4
INIT Init
NEXT Next
INVARIANT Laws
CHECK_DEADLOCK FALSE
