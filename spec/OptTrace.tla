---- MODULE OptTrace ----
(***************************************************************************)
(* C31 — every optimizer rule returns a well-formed plan.                  *)
(*                                                                         *)
(* One trace line = one application of a rule list (a single rule, a       *)
(* prefix of the production order, or the whole production pipeline) to    *)
(* the bound plan of one statement, recorded from the real optimizer:      *)
(*   before / after : output schema of the plan, <<name, type>> per column *)
(*   opt            : "ok" | "err"    (the rule list returned a plan)       *)
(*   base           : "rows" | "err" ...  outcome of executing the          *)
(*                    unoptimized plan                                     *)
(*   exec           : "rows" | "err" | "panic" | "hang"  outcome of         *)
(*                    executing the rewritten plan, cls = error class      *)
(* ApplyRules is enabled iff the rewritten plan is well formed in the      *)
(* property's sense: same output column names and types, and every column  *)
(* reference resolves — decided operationally: lowering and executing it   *)
(* must not fail where the unoptimized plan executes.                      *)
(***************************************************************************)
EXTENDS Naturals, Sequences, TLC, Json, IOUtils

Rec == ndJsonDeserialize(IOEnv.TRACE)
VARIABLE l

SameSchema(a, b) == Len(a) = Len(b) /\ \A i \in DOMAIN a : a[i][1] = b[i][1] /\ a[i][2] = b[i][2]

WellFormed(r) ==
  /\ r.opt = "ok"                                            \* no optimizer-internal error on a valid query
  /\ SameSchema(r.before, r.after)                           \* output names and types kept
  /\ (r.base = "rows" => r.exec = "rows")                    \* every reference still resolves: it lowers and runs
  /\ (r.ub = 0 => r.ua = 0)                                  \* ... and every qualified join-key column is a column of the
                                                             \* join input it is evaluated on (ub / ua: number of join keys of
                                                             \* the bound / rewritten plan for which that fails)

\* a statement the binder itself rejects is not a "bound plan": nothing to check
Applicable(r) == r.bound = 1

Judge(r) == IF ~Applicable(r) \/ WellFormed(r) THEN TRUE
            ELSE PrintT(<<"REJECT", ToJson([line |-> l, id |-> r.id, cfg |-> r.cfg])>>)

TInit == l = 1
TNext == l <= Len(Rec) /\ Judge(Rec[l]) /\ l' = l + 1
Accepted == LET d == TLCGet("stats").diameter - 1 IN
            IF d = Len(Rec) THEN PrintT(<<"ACCEPT", ToJson([n |-> d])>>)
            ELSE PrintT(<<"STUCK", ToJson([line |-> d + 1])>>) /\ FALSE
====
