CONSTANTS N = 3
 NShards = 2
 Family = "topn"
INIT Init
NEXT Next
INVARIANT Laws
CHECK_DEADLOCK FALSE
