CONSTANTS MaxRows = 4
          MaxBatches = 3
          NKeyVals = 2
          NKeys = 1
          SpecCodes = {0, 1, 2, 3}
          SplitFanIns = {8}
          Singles = {}
          Fetches = {99, 1}
          NoFetch = 99
          AllowEmpty = TRUE
          EmitMod = 3
          MergeCmp = "spec"
          CleanupCarried = TRUE
INIT Init
NEXT Next
INVARIANT GenConserves
INVARIANT PassConserves
INVARIANT RunsSorted
INVARIANT RunShape
INVARIANT AtDone
INVARIANT Emit
CHECK_DEADLOCK FALSE
