CONSTANTS W = 4
          R = 4
          RowChoices = {1}
          Filter = FALSE
          Fault = FALSE
          Agg = FALSE
          Hist = FALSE
          Mutant = "none"
INIT Init
NEXT Next
INVARIANT TypeOK
INVARIANT ExactlyOnce
INVARIANT ProgressBound
INVARIANT ProgressHonest
INVARIANT ObsOK
INVARIANT AtQuiescence
INVARIANT AtFailure
INVARIANT AggAtEnd
INVARIANT Emit
PROPERTY Monotone
CHECK_DEADLOCK FALSE
