---- MODULE Lpt ----
(***************************************************************************)
(* C12 — greedy longest-processing-time-first assignment, one action per   *)
(* placed split (Place), then Finish builds the returned Assignment.       *)
(* TLC enumerates every multiset of sizes 0..MaxSize with at most MaxK     *)
(* splits and every node count in Ns, and checks                           *)
(*   - at every step: loads are the sums of what is owned (LoadIsSum), the *)
(*     classic list-scheduling gap (Gap);                                  *)
(*   - at the end: the CONTRACT (partition, sums, total) and the LPT bound *)
(*     against the optimum found by enumerating ALL assignments.           *)
(* Every finished instance is emitted (sizes, n, opt, the model's choice)  *)
(* to be replayed on the real assign_lpt.                                  *)
(***************************************************************************)
EXTENDS LptOps, SequencesExt

CONSTANTS MaxK,        \* 0..MaxK splits
          MaxSize,     \* sizes 0..MaxSize
          Ns,          \* node counts
          Brute        \* TRUE: optimum by enumeration of all assignments; FALSE: only N >= k (optimum = largest split)

VARIABLES inst,   \* [sizes, rows, n]
          pos,    \* splits placed so far
          owner,  \* owner[i] = node of split i, 0 = not yet placed
          load, rload,
          pc, asg,
          opt     \* optimal makespan of the instance, computed once when the run finishes (-1 before)

vars == <<inst, pos, owner, load, rload, pc, asg, opt>>
K == Len(inst.sizes)
NoAsg == [nodes |-> 0]

\* every multiset once: ascending sequences (so the descending sort has to do real work)
Multisets == UNION {{s \in [1..k -> 0..MaxSize] : \A i \in 1..(k - 1) : s[i] <= s[i + 1]} : k \in 0..MaxK}

Init == /\ \E s \in Multisets, n \in Ns :
             /\ (Brute \/ n >= Len(s))
             /\ inst = [sizes |-> s, rows |-> [i \in DOMAIN s |-> 2 * i + 1], n |-> n]
             /\ owner = [i \in DOMAIN s |-> 0]
             /\ load = [m \in 1..n |-> 0]
             /\ rload = [m \in 1..n |-> 0]
        /\ pos = 0 /\ pc = "run" /\ asg = NoAsg /\ opt = -1

Place == /\ pc = "run" /\ pos < K
         /\ LET i == Order(inst.sizes)[pos + 1]
                b == LeastLoaded(load)
            IN /\ owner' = [owner EXCEPT ![i] = b]
               /\ load' = [load EXCEPT ![b] = @ + inst.sizes[i]]
               /\ rload' = [rload EXCEPT ![b] = @ + inst.rows[i]]
         /\ pos' = pos + 1
         /\ UNCHANGED <<inst, pc, asg, opt>>

\* each node's splits in canonical (index) order, 0-based as in the implementation
OwnedSeq(n) == SetToSortSeq({i \in DOMAIN owner : owner[i] = n}, <)
Finish == /\ pc = "run" /\ pos = K
          /\ asg' = [nodes |-> inst.n,
                     per_node |-> [n \in 1..inst.n |-> LET o == OwnedSeq(n) IN [p \in DOMAIN o |-> o[p] - 1]],
                     node_bytes |-> load, node_rows |-> rload,
                     node_splits |-> [n \in 1..inst.n |-> Cardinality({i \in DOMAIN owner : owner[i] = n})],
                     total_bytes |-> SumSeq(inst.sizes)]
          /\ opt' = IF Brute THEN Opt(inst.sizes, inst.n) ELSE OptWide(inst.sizes, inst.n)
          /\ pc' = "done"
          /\ UNCHANGED <<inst, pos, owner, load, rload>>
Next == Place \/ Finish

\* ---- invariants ---------------------------------------------------------------
LoadIsSum == \A n \in DOMAIN load :
                /\ load[n] = SumSeq([i \in DOMAIN owner |-> IF owner[i] = n THEN inst.sizes[i] ELSE 0])
                /\ rload[n] = SumSeq([i \in DOMAIN owner |-> IF owner[i] = n THEN inst.rows[i] ELSE 0])
\* list scheduling: the spread of the loads never exceeds the largest split
Gap == MaxOf(load) - MinOfSet({load[n] : n \in DOMAIN load}) <= MaxOf(inst.sizes)
PlacedOnce == Cardinality({i \in DOMAIN owner : owner[i] # 0}) = pos

AtDone == pc = "done" =>
   /\ AssignOk(inst.sizes, inst.rows, inst.n, asg)                     \* partition, sums, total
   /\ BoundOk(inst.n, MaxOf(asg.node_bytes), opt)                       \* (4/3 - 1/(3N)) OPT
   /\ opt <= MaxOf(asg.node_bytes)                                      \* sanity: nothing beats the optimum
   /\ (Brute /\ inst.n >= K) => opt = OptWide(inst.sizes, inst.n)        \* lemma used for wide clusters
   /\ (Brute /\ K <= 5) => OptSym(inst.sizes, inst.n) = opt              \* lemma used by the trace spec

Emit == pc = "done" => EmitCase([sizes |-> inst.sizes, rows |-> inst.rows, n |-> inst.n, opt |-> opt,
                                 owner |-> [i \in DOMAIN owner |-> owner[i] - 1], loads |-> load])
====
