---- MODULE MemoryPool ----
(***************************************************************************)
(* C33 -- memory pool accounting under concurrency.                        *)
(* Model of /repo/src/execution/memory.rs (MemoryPool, MemoryReservation)  *)
(* at the grain of its atomics: ONE ACTION = the code one thread executes  *)
(* between two consecutive sync points ("pool.try.load", "pool.try.cas",   *)
(* "pool.alloc.add", "pool.resize.add", "pool.resize.sub",                 *)
(* "pool.release.sub"; each sits immediately before one atomic access of   *)
(* `used`).  Thread-local work (checked_add, limit test, storing the size  *)
(* field, returning Some/None) belongs to the action of the preceding      *)
(* atomic access -- it touches no shared state, so merging is exact.       *)
(*                                                                         *)
(*   try_allocate(s):  load ; loop { new = cur (+) s ?: None ;             *)
(*                       new > max => None ; CAS(cur -> new) ok => Some ;  *)
(*                       fail => cur = actual }                            *)
(*   allocate(s):      fetch_add(s)            (forced, may exceed max)    *)
(*   resize(r, n):     n > size ? fetch_add(n-size) : fetch_sub(size-n) ;  *)
(*                     size = n                                            *)
(*   drop(r):          fetch_sub(size)                                     *)
(*                                                                         *)
(* NUMBERS.  `used`, sizes and the limit are usize.  A usize value v is    *)
(* represented by the unique integer rep(v) in a small window around 0     *)
(* with rep(v) == v (mod 2^64): 0,1,2,.. stand for themselves, -1 stands   *)
(* for usize::MAX, -2 for usize::MAX-1, ...  As long as representatives    *)
(* stay far from +-2^63 (they stay within +-30 here) wrapping add/sub on   *)
(* usize IS integer add/sub on representatives; unsigned order, the        *)
(* checked_add overflow test and the fetch_sub borrow are the operators    *)
(* ULt / AddOverflows / SubBorrows below.  So wrap-around is modelled      *)
(* exactly (not impossible, not approximated by a small modulus), and the  *)
(* harness concretizes -k to usize::MAX-(k-1).                             *)
(*                                                                         *)
(* PROPERTY (what the statement pins, = contract):                         *)
(*   Exact       used == sum of live reservation sizes (mod 2^64), in      *)
(*               every state; an operation counts from its RMW.            *)
(*   NoUnderflow no fetch_sub borrows while the true (natural-number) sum  *)
(*               of live sizes fits a usize; and then `used` is that sum   *)
(*               as a natural number (NoWrapWhenFits).                     *)
(*   CondGrant   a try_allocate that returns Some leaves used <= max       *)
(*               (unsigned) at its CAS.  `allocate` and growing `resize`   *)
(*               are unconditional by design and may exceed max.           *)
(*   Quiescent   all reservations dropped and nobody mid-operation =>      *)
(*               used = 0.                                                 *)
(* About overflow: a caller can force the true sum past usize::MAX         *)
(* (allocate(usize::MAX); allocate(2)).  No usize equals that sum; what    *)
(* the statement still pins is that the pool comes back to 0 when all are  *)
(* dropped, which requires the counter to stay congruent to the sum.  So   *)
(* modular equality is the contract, and a borrow after a forced carry is  *)
(* not an underflow of the accounting.                                     *)
(***************************************************************************)
EXTENDS VerifIO

CONSTANTS Threads,    \* thread ids
          MaxOps,     \* per thread: number of try/allocate/resize operations (drops are free)
          MaxSet,     \* candidate limits (representatives)
          Sizes,      \* request sizes (representatives); the limit itself is always added
          Kinds,      \* subset of {"try","alloc","resize","drop"}
          Spurious,   \* BOOLEAN: weak CAS may fail spuriously
          Buggy,      \* "none" | "toctou" | "hoist" | "nostore"   (sanity variants)
          Hist,       \* BOOLEAN: carry the behaviour in the state (replay emission)
          Canon       \* BOOLEAN: canonical thread naming / final drop order (emission only)

Top == -1   \* usize::MAX

\* ---- usize arithmetic on window representatives ---------------------------
ULt(a, b) == IF (a >= 0) = (b >= 0) THEN a < b ELSE a >= 0
ULe(a, b) == a = b \/ ULt(a, b)
AddOverflows(a, b) == IF a >= 0 /\ b >= 0 THEN FALSE
                      ELSE IF a < 0 /\ b < 0 THEN TRUE
                      ELSE a + b >= 0
SubBorrows(a, b) == ULt(a, b)

VARIABLES used,      \* the AtomicUsize
          max,       \* max_memory (fixed per behaviour)
          pc,        \* thread -> "idle" | "cas"
          cur,       \* thread -> value loaded / returned by the failed CAS (0 when idle)
          req,       \* thread -> size of the try_allocate in flight (0 when idle)
          res,       \* thread -> sequence of sizes of the reservations it holds
          nops,      \* thread -> operations started
          uflow,     \* ghost: some fetch_sub borrowed although the true sum fitted
          badgrant,  \* ghost: some try_allocate was granted with used' > max
          hist       \* ghost: the behaviour so far (only when Hist)
vars == <<used, max, pc, cur, req, res, nops, uflow, badgrant, hist>>
View == <<used, max, pc, cur, req, res, nops, uflow, badgrant>>

SizesFor(m) == Sizes \cup {m}

\* ---- accounting definitions (shared with MemoryPoolTrace) -------------------
RECURSIVE SumAll(_, _)
SumAll(r, T) == IF T = {} THEN 0
                ELSE LET t == CHOOSE x \in T : TRUE IN SumSeq(r[t]) + SumAll(r, T \ {t})
SumLive(r) == SumAll(r, DOMAIN r)
NTop(r) == Cardinality(UNION {{<<t, i>> : i \in {j \in DOMAIN r[t] : r[t][j] < 0}} : t \in DOMAIN r})
\* the true sum NTop*2^64 + SumLive is a usize
Fits(r) == NTop(r) = 0 \/ (NTop(r) = 1 /\ SumLive(r) < 0)
ExactOn(u, r) == u = SumLive(r)
NoWrapOn(u, r) == Fits(r) => ((u < 0) <=> (NTop(r) = 1))
AllEmpty(r) == \A t \in DOMAIN r : r[t] = <<>>

RemoveAt(s, k) == SubSeq(s, 1, k - 1) \o SubSeq(s, k + 1, Len(s))
\* effect of the operations on the owner's reservation list (also used by the trace spec)
Granted(rs, sz) == Append(rs, sz)
Resized(rs, k, n) == [rs EXCEPT ![k] = n]
Dropped(rs, k) == RemoveAt(rs, k)

\* ---- behaviour log ---------------------------------------------------------
\* one tuple per step: <<thread, action, x, y, ok, used'>>
\*   action: 1 load(x=size)  2 cas  3 spurious cas failure  4 alloc(x=size)
\*           5 grow(x=slot,y=new size)  6 shrink(x=slot,y=new size)  7 drop(x=slot)
\*   ok:     1 = operation finished (Some / done), 0 = finished with None, 2 = still in flight
A_LOAD == 1  A_CAS == 2  A_SPUR == 3  A_ALLOC == 4  A_GROW == 5  A_SHRINK == 6  A_DROP == 7
Log(t, a, x, y, ok) ==
  hist' = IF Hist THEN Append(hist, <<t, a, x, y, ok, used'>>) ELSE hist

Idle(t) == pc[t] = "idle"
OpsDone == \A t \in Threads : Idle(t) /\ nops[t] = MaxOps
\* Canon (emission configs only, Threads must be integers): quotient by two symmetries that
\* neither the specification nor the code can observe -- thread names (thread t starts its
\* first operation only after t-1 has) and the order of the final drops once every thread
\* has finished its operations (pure fetch_subs, they commute): lowest thread, last slot first.
\* (IF rather than \/ : TLC would split a disjunctive guard into duplicate successors)
StartOk(t) == IF Canon /\ nops[t] = 0 THEN \A o \in Threads : o < t => nops[o] > 0 ELSE TRUE
DropOk(t, k) == IF Canon /\ OpsDone THEN k = Len(res[t]) /\ \A o \in Threads : o < t => res[o] = <<>> ELSE TRUE
CanStart(t) == Idle(t) /\ nops[t] < MaxOps /\ StartOk(t)
Started(t) == nops' = [nops EXCEPT ![t] = @ + 1]
GiveUp(c, s) == AddOverflows(c, s) \/ ULt(max, c + s)
\* the test made after a FAILED CAS (sanity variant "hoist": limit checked only before the loop)
GiveUpRetry(c, s) == IF Buggy = "hoist" THEN AddOverflows(c, s) ELSE GiveUp(c, s)
ToIdle(t) == /\ pc' = [pc EXCEPT ![t] = "idle"]
             /\ cur' = [cur EXCEPT ![t] = 0]
             /\ req' = [req EXCEPT ![t] = 0]

\* ---- try_allocate ------------------------------------------------------------
\* sync "pool.try.load": load; first pass of the loop up to the next sync point
TryLoadGiveUp(t, s) ==
  /\ "try" \in Kinds /\ CanStart(t) /\ GiveUp(used, s)
  /\ Started(t)
  /\ UNCHANGED <<used, max, pc, cur, req, res, uflow, badgrant>>
  /\ Log(t, A_LOAD, s, 0, 0)

TryLoadCont(t, s) ==
  /\ "try" \in Kinds /\ CanStart(t) /\ ~GiveUp(used, s)
  /\ Started(t)
  /\ pc' = [pc EXCEPT ![t] = "cas"]
  /\ cur' = [cur EXCEPT ![t] = used]
  /\ req' = [req EXCEPT ![t] = s]
  /\ UNCHANGED <<used, max, res, uflow, badgrant>>
  /\ Log(t, A_LOAD, s, 0, 2)

\* sync "pool.try.cas": compare_exchange_weak(cur, cur+req)
TryCasOk(t) ==
  /\ Buggy # "toctou"
  /\ pc[t] = "cas" /\ used = cur[t]
  /\ used' = cur[t] + req[t]
  /\ res' = [res EXCEPT ![t] = Granted(@, req[t])]
  /\ badgrant' = (badgrant \/ ~ULe(used', max))
  /\ ToIdle(t)
  /\ UNCHANGED <<max, nops, uflow>>
  /\ Log(t, A_CAS, 0, 0, 1)

TryCasFailRetry(t) ==
  /\ Buggy # "toctou"
  /\ pc[t] = "cas" /\ used # cur[t] /\ ~GiveUpRetry(used, req[t])
  /\ cur' = [cur EXCEPT ![t] = used]
  /\ UNCHANGED <<used, max, pc, req, res, nops, uflow, badgrant>>
  /\ Log(t, A_CAS, 0, 0, 2)

TryCasFailGiveUp(t) ==
  /\ Buggy # "toctou"
  /\ pc[t] = "cas" /\ used # cur[t] /\ GiveUpRetry(used, req[t])
  /\ ToIdle(t)
  /\ UNCHANGED <<used, max, res, nops, uflow, badgrant>>
  /\ Log(t, A_CAS, 0, 0, 0)

\* the weak CAS may fail although used = cur; it returns the value it saw (= cur)
TryCasSpurious(t) ==
  /\ Spurious /\ Buggy # "toctou"
  /\ pc[t] = "cas" /\ used = cur[t]
  /\ UNCHANGED <<used, max, pc, cur, req, res, nops, uflow, badgrant>>
  /\ Log(t, A_SPUR, 0, 0, 2)

\* ---- allocate (forced) ---------------------------------------------------------
Alloc(t, s) ==
  /\ "alloc" \in Kinds /\ CanStart(t)
  /\ Started(t)
  /\ used' = used + s
  /\ res' = [res EXCEPT ![t] = Granted(@, s)]
  /\ UNCHANGED <<max, pc, cur, req, uflow, badgrant>>
  /\ Log(t, A_ALLOC, s, 0, 1)

\* ---- resize ----------------------------------------------------------------------
StoreSize(t, k, n) == IF Buggy = "nostore" THEN UNCHANGED res
                      ELSE res' = [res EXCEPT ![t] = Resized(@, k, n)]

ResizeGrow(t, k, n) ==
  /\ "resize" \in Kinds /\ CanStart(t) /\ k \in DOMAIN res[t]
  /\ ULt(res[t][k], n)
  /\ Started(t)
  /\ used' = used + (n - res[t][k])
  /\ StoreSize(t, k, n)
  /\ UNCHANGED <<max, pc, cur, req, uflow, badgrant>>
  /\ Log(t, A_GROW, k, n, 1)

ResizeShrink(t, k, n) ==
  /\ "resize" \in Kinds /\ CanStart(t) /\ k \in DOMAIN res[t]
  /\ ~ULt(res[t][k], n)
  /\ Started(t)
  /\ used' = used - (res[t][k] - n)
  /\ uflow' = (uflow \/ (Fits(res) /\ SubBorrows(used, res[t][k] - n)))
  /\ StoreSize(t, k, n)
  /\ UNCHANGED <<max, pc, cur, req, badgrant>>
  /\ Log(t, A_SHRINK, k, n, 1)

\* ---- drop --------------------------------------------------------------------------
Drop(t, k) ==
  /\ "drop" \in Kinds /\ Idle(t) /\ k \in DOMAIN res[t] /\ DropOk(t, k)
  /\ used' = used - res[t][k]
  /\ uflow' = (uflow \/ (Fits(res) /\ SubBorrows(used, res[t][k])))
  /\ res' = [res EXCEPT ![t] = Dropped(@, k)]
  /\ UNCHANGED <<max, pc, cur, req, nops, badgrant>>
  /\ Log(t, A_DROP, k, 0, 1)

\* ---- sanity variant: try_allocate as load ; check ; fetch_add (TOCTOU) ---------------
TryFetchAdd(t) ==
  /\ Buggy = "toctou"
  /\ pc[t] = "cas"
  /\ used' = used + req[t]
  /\ res' = [res EXCEPT ![t] = Granted(@, req[t])]
  /\ badgrant' = (badgrant \/ ~ULe(used', max))
  /\ ToIdle(t)
  /\ UNCHANGED <<max, nops, uflow>>
  /\ Log(t, A_CAS, 0, 0, 1)

Init ==
  /\ used = 0
  /\ max \in MaxSet
  /\ pc = [t \in Threads |-> "idle"]
  /\ cur = [t \in Threads |-> 0]
  /\ req = [t \in Threads |-> 0]
  /\ res = [t \in Threads |-> <<>>]
  /\ nops = [t \in Threads |-> 0]
  /\ uflow = FALSE /\ badgrant = FALSE
  /\ hist = <<>>

\* one named disjunct per action, so that TLC's coverage / state-graph labels name them
DoTryLoadGiveUp == \E t \in Threads, s \in SizesFor(max) : TryLoadGiveUp(t, s)
DoTryLoadCont == \E t \in Threads, s \in SizesFor(max) : TryLoadCont(t, s)
DoTryCasOk == \E t \in Threads : TryCasOk(t)
DoTryCasFailRetry == \E t \in Threads : TryCasFailRetry(t)
DoTryCasFailGiveUp == \E t \in Threads : TryCasFailGiveUp(t)
DoTryCasSpurious == \E t \in Threads : TryCasSpurious(t)
DoTryFetchAdd == \E t \in Threads : TryFetchAdd(t)
DoAlloc == \E t \in Threads, s \in SizesFor(max) : Alloc(t, s)
DoResizeGrow == \E t \in Threads, k \in 1..MaxOps, n \in SizesFor(max) : ResizeGrow(t, k, n)
DoResizeShrink == \E t \in Threads, k \in 1..MaxOps, n \in SizesFor(max) : ResizeShrink(t, k, n)
DoDrop == \E t \in Threads, k \in 1..MaxOps : Drop(t, k)

Next == \/ DoTryLoadGiveUp \/ DoTryLoadCont
        \/ DoTryCasOk \/ DoTryCasFailRetry \/ DoTryCasFailGiveUp \/ DoTryCasSpurious \/ DoTryFetchAdd
        \/ DoAlloc \/ DoResizeGrow \/ DoResizeShrink \/ DoDrop

Spec == Init /\ [][Next]_vars

\* ---- the property ---------------------------------------------------------------------
TypeOK == /\ \A t \in Threads : pc[t] \in {"idle", "cas"} /\ nops[t] \in 0..MaxOps /\ Len(res[t]) <= MaxOps
          /\ max \in MaxSet
Exact == ExactOn(used, res)
NoWrapWhenFits == NoWrapOn(used, res)
NoUnderflow == ~uflow
NoBadGrant == ~badgrant
Quiescent == (AllEmpty(res) /\ \A t \in Threads : Idle(t)) => used = 0
\* stronger than the statement but implied for workloads without forced operations
TryOnlyBounded == (Kinds \cap {"alloc", "resize"} = {}) => ULe(used, max)

GrantStep(t) == pc[t] = "cas" /\ pc'[t] = "idle" /\ Len(res'[t]) > Len(res[t])
CondGrant == [][\A t \in Threads : GrantStep(t) => ULe(used', max)]_vars

\* ---- replay emission --------------------------------------------------------------------
Terminal == \A t \in Threads : Idle(t) /\ nops[t] = MaxOps /\ res[t] = <<>>
EmitDone == (Hist /\ Terminal) => EmitCase([max |-> max, nt |-> Cardinality(Threads), steps |-> hist])

\* ---- constant sets for the cfg files (TLC's cfg syntax has no negative literals) ---------
MS_0_3_Top == {0, 3, Top}
MS_3 == {3}
MS_3_Top == {3, Top}
SZ_012 == {0, 1, 2}
SZ_012_Top == {0, 1, 2, Top}
SZ_12 == {1, 2}
SZ_12_Top == {1, 2, Top}
SZ_2 == {2}
MS_Top == {Top}
====
