---- MODULE VecSearch ----
(***************************************************************************)
(* C43 — exact vector search is the literal ORDER BY <distance> LIMIT k.   *)
(*                                                                         *)
(* Table t(id, v): row i has id = i and vector rows[i] (<<>> = NULL).      *)
(* Statement st = [metric, dir, k, m, shape, q]:                           *)
(*   SELECT id FROM t ORDER BY metric(v, q) dir LIMIT k OFFSET m           *)
(* k = -1: no LIMIT.  `shape` names the surrounding query text (Shapes).   *)
(*                                                                         *)
(* Keys are compared in INTEGERS through VecDist's square-free forms       *)
(* (l2: L2Sq, dot: Dot, cosine: signed squares cross-multiplied), so the   *)
(* order of the exact distances is decided without a root.  Cosine cases   *)
(* with a zero-norm vector are excluded (Decidable): their key is 0/0.     *)
(*                                                                         *)
(* Accept(st, rows, ans): ans is what a FULL SORT followed by OFFSET/LIMIT *)
(* may return, up to ties: the sequence of key classes is that of the      *)
(* canonical sort at positions m+1.., rows inside one class are free.      *)
(*                                                                         *)
(* Step machine of the engine's decision points:                           *)
(*   Fill      pick table + statement                                      *)
(*   Optimize  VectorSearchPushdown: node.on = RuleFires(st) (the gates of *)
(*             optimizer/rules/vector_search.rs), node keeps k and skip    *)
(*   Execute   VectorSearchExec: index path iff node.on /\ mode = indexed  *)
(*             /\ the provider has an index; otherwise the exact path =    *)
(*             top-(m+k) accumulated batch by batch, then skip m           *)
(* Properties: FiresOnlyOnCanonical (node.on => Canonical(st), Canonical   *)
(* being the shape the property names - weaker than the as-built gates),   *)
(* ExactWhenAsked (mode = exact \/ no index => Accept).                    *)
(* Gate selects the as-built design or one of four seeded design mutants.  *)
(***************************************************************************)
EXTENDS VerifIO, SequencesExt

CONSTANTS Fam,        \* "answers" (statements only: acceptance laws + the exact path) | "shapes" (whole step machine)
          NTab,       \* "shapes": how many of the ShapeTables
          MaxN,       \* "answers": tables of 0..MaxN rows
          Syms,       \* "answers": row alphabet (set of vectors, <<>> = NULL)
          Ks, Ms,     \* LIMIT (-1 = none) and OFFSET values
          EmitMod,    \* "answers": emit every EmitMod-th statement for replay (all of them are model-checked)
          Gate        \* "asbuilt" | "index_in_exact" | "offset_ignored" | "desc_fires" | "limit_before_sort"

\* VecDist's integer forms (dimension 2 needs no fold)
IsNullVec(v) == Len(v) = 0
Dot(a, b) == a[1] * b[1] + a[2] * b[2]
L2Sq(a, b) == (a[1] - b[1]) * (a[1] - b[1]) + (a[2] - b[2]) * (a[2] - b[2])
NormSq(a) == Dot(a, a)
SSq(x) == IF x >= 0 THEN x * x ELSE -(x * x)

Metrics == {"l2", "cos", "sim", "dot"}
Dirs == {"asc", "desc"}
MetricDir(mt) == IF mt \in {"l2", "cos"} THEN "asc" ELSE "desc"      \* nearest first
Shapes == {"plain", "swap", "alias", "where", "subq", "extra", "computed", "distsel", "join", "groupby",
           "nullsfirst", "negated", "widthbad"}

\* ---- exact order of the keys ---------------------------------------------------------
\* key(a) < key(b) for the metric, both vectors non-NULL
KeyLess(mt, a, b, q) ==
  CASE mt = "l2"  -> L2Sq(a, q) < L2Sq(b, q)
    [] mt = "dot" -> Dot(a, q) < Dot(b, q)
    [] mt = "sim" -> SSq(Dot(a, q)) * NormSq(b) < SSq(Dot(b, q)) * NormSq(a)
    [] OTHER      -> SSq(Dot(b, q)) * NormSq(a) < SSq(Dot(a, q)) * NormSq(b)      \* cos = 1 - sim

Eligible(st, rows) == {i \in DOMAIN rows : st.shape # "where" \/ i # 2}
\* (written with IF: TLC expands this inside the Fill action, where a disjunction is a branch, not a short-circuit)
Decidable(st, rows) ==
  IF st.metric \in {"cos", "sim"}
  THEN /\ NormSq(st.q) > 0
       /\ \A i \in Eligible(st, rows) : IF IsNullVec(rows[i]) THEN TRUE ELSE NormSq(rows[i]) > 0
  ELSE TRUE

EffDir(st) == IF st.shape = "negated" THEN (IF st.dir = "asc" THEN "desc" ELSE "asc") ELSE st.dir
\* row i sorts strictly before row j
Before(st, rows, i, j) ==
  LET a == rows[i]  b == rows[j] IN
  IF IsNullVec(a) /\ IsNullVec(b) THEN st.shape = "extra" /\ i < j
  ELSE IF IsNullVec(a) THEN st.shape = "nullsfirst"
  ELSE IF IsNullVec(b) THEN st.shape # "nullsfirst"
  ELSE LET lt == IF EffDir(st) = "asc" THEN KeyLess(st.metric, a, b, st.q) ELSE KeyLess(st.metric, b, a, st.q)
           gt == IF EffDir(st) = "asc" THEN KeyLess(st.metric, b, a, st.q) ELSE KeyLess(st.metric, a, b, st.q)
       IN  lt \/ (~gt /\ st.shape = "extra" /\ i < j)
Tied(st, rows, i, j) == ~Before(st, rows, i, j) /\ ~Before(st, rows, j, i)

FullSort(st, rows) ==
  SetToSortSeq(Eligible(st, rows), LAMBDA i, j : Before(st, rows, i, j) \/ (~Before(st, rows, j, i) /\ i < j))

Lo(st) == st.m
Hi(st, n) == IF st.k = -1 THEN n ELSE Min2(n, st.m + st.k)
Expected(st, rows) == LET s == FullSort(st, rows) IN SubSeq(s, Lo(st) + 1, Hi(st, Len(s)))

AcceptW(st, rows, want, ans) ==
  /\ Len(ans) = Len(want)
  /\ \A p \in DOMAIN ans : ans[p] \in Eligible(st, rows) /\ Tied(st, rows, ans[p], want[p])
  /\ \A p, r \in DOMAIN ans : p # r => ans[p] # ans[r]
Accept(st, rows, ans) == AcceptW(st, rows, Expected(st, rows), ans)

\* ---- the rule ---------------------------------------------------------------------------
\* the shape the property calls canonical: one distance key on (column, literal) in the metric's nearest-first
\* direction, NULLs last, a finite LIMIT, only pure projections (and a scan-level filter) below, matching width
Canonical(st) ==
  /\ st.shape \in {"plain", "swap", "alias", "where", "subq"}
  /\ st.dir = MetricDir(st.metric)
  /\ st.k # -1
\* the gates of try_match as built (fidelity: stricter than Canonical)
RuleFires(st) ==
  /\ st.shape \in {"plain", "swap", "alias", "where"}
  /\ (Gate = "desc_fires" \/ st.dir = MetricDir(st.metric))
  /\ st.k >= 1

\* ---- the exact path: top-(m+k) accumulated one batch (= one row) at a time ----------------
\* insert id before the elements it ties with (NOT the canonical tie order: exercises tie tolerance)
InsertRow(st, rows, acc, id) ==
  LET p == Cardinality({x \in DOMAIN acc : Before(st, rows, acc[x], id)})
  IN  SubSeq(acc, 1, p) \o <<id>> \o SubSeq(acc, p + 1, Len(acc))
Trunc(s, n) == IF n < 0 THEN s ELSE SubSeq(s, 1, Min2(Len(s), n))
TopK(st, rows, skip, k) ==
  LET ids == SetToSortSeq(Eligible(st, rows), <)
      keep == IF k = -1 THEN -1 ELSE skip + k
      acc == IF Gate = "limit_before_sort"
             THEN FoldLeft(LAMBDA a, id : InsertRow(st, rows, a, id), <<>>, Trunc(ids, keep))
             ELSE FoldLeft(LAMBDA a, id : Trunc(InsertRow(st, rows, a, id), keep), <<>>, ids)
  IN  SubSeq(acc, Min2(skip, Len(acc)) + 1, Len(acc))

\* ---- state ----------------------------------------------------------------------------------
VARIABLES ph, vrows, vst, node, cfg, ans
vars == <<ph, vrows, vst, node, cfg, ans>>

NoSt == [metric |-> "l2", dir |-> "asc", k |-> 0, m |-> 0, shape |-> "plain", q |-> <<0, 0>>]
NoNode == [on |-> 0, k |-> 0, skip |-> 0]
NoCfg == [mode |-> "exact", idx |-> 0]

ShapeTableSeq == << << <<1, 0>>, <<0, 1>>, <<>>, <<1, 1>>, <<-1, 0>> >>,
                    << <<1, 1>>, <<1, 1>>, <<0, 1>>, <<>>, <<>> >>,
                    << <<0, -1>>, <<1, -1>>, <<-1, 1>>, <<0, 1>>, <<1, 0>> >> >>
ShapeTables == {ShapeTableSeq[i] : i \in 1..NTab}
Qs == { <<1, 0>>, <<1, 1>> }

Init == /\ ph = "seed" /\ vrows = <<>> /\ node = NoNode /\ cfg = NoCfg /\ ans = <<>>
        /\ \E mt \in Metrics : \E d \in Dirs : \E q \in Qs : vst = [NoSt EXCEPT !.metric = mt, !.dir = d, !.q = q]

Fill ==
  /\ ph = "seed"
  /\ \E k \in Ks : \E m \in Ms :
       \/ /\ Fam = "answers"
          /\ \E n \in 0..MaxN : \E t \in [1..n -> Syms] :
               LET s2 == [vst EXCEPT !.k = k, !.m = m] IN
               /\ Decidable(s2, t)                    \* (state-level test: no primes, so the disjunctions short-circuit)
               /\ vrows' = t
               /\ vst' = s2
       \/ /\ Fam = "shapes"
          /\ \E t \in ShapeTables : \E sh \in Shapes :
               LET s2 == [vst EXCEPT !.k = k, !.m = m, !.shape = sh] IN
               /\ Decidable(s2, t)
               /\ vrows' = t
               /\ vst' = s2
  /\ ph' = "stmt" /\ UNCHANGED <<node, cfg, ans>>

Optimize ==
  /\ ph = "stmt" /\ Fam # "answers"
  /\ node' = IF RuleFires(vst) THEN [on |-> 1, k |-> vst.k, skip |-> IF Gate = "offset_ignored" THEN 0 ELSE vst.m] ELSE NoNode
  /\ ph' = "planned" /\ UNCHANGED <<vrows, vst, cfg, ans>>

UseIndex(c) == c.idx = 1 /\ (Gate = "index_in_exact" \/ c.mode = "indexed")
\* what the index hands back: approximate, here deliberately wrong (ids that do not exist)
IndexAnswer(n) == Trunc([i \in 1..99 |-> 1000 + i], n)

Execute ==
  /\ ph = "planned"
  /\ vst.shape # "widthbad"                                   \* a width mismatch is an error at execution
  /\ \E mode \in {"exact", "indexed"} : \E idx \in {0, 1} :
       /\ cfg' = [mode |-> mode, idx |-> idx]
       /\ ans' = IF node.on = 1 /\ UseIndex(cfg') THEN IndexAnswer(node.k)
                 ELSE IF node.on = 1 THEN TopK(vst, vrows, node.skip, node.k)      \* fallback rebuilt from the node
                 ELSE TopK(vst, vrows, vst.m, vst.k)                                \* the untouched plan
  /\ ph' = "done" /\ UNCHANGED <<vrows, vst, node>>

Next == Fill \/ Optimize \/ Execute

\* ---- the properties ---------------------------------------------------------------------------
FiresOnlyOnCanonical == node.on = 1 => Canonical(vst)
ExactWhenAsked == (ph = "done" /\ (cfg.mode = "exact" \/ cfg.idx = 0)) => Accept(vst, vrows, ans)
\* sanity of the acceptance itself, on every statement
AcceptLaws ==
  ph = "stmt" /\ vst.shape # "widthbad" =>
    LET e == Expected(vst, vrows) IN
    /\ AcceptW(vst, vrows, e, e)
    /\ Len(e) <= Cardinality(Eligible(vst, vrows))
    /\ (vst.k = 0 => e = <<>>)
    \* exchanging two neighbours of different key classes is rejected; of the same class accepted
    /\ \A p \in 1..(Len(e) - 1) :
         LET sw == [e EXCEPT ![p] = e[p + 1], ![p + 1] = e[p]] IN
         AcceptW(vst, vrows, e, sw) = Tied(vst, vrows, e[p], e[p + 1])
    \* a row of a farther class in place of the last one is rejected
    /\ \A x \in Eligible(vst, vrows) :
         (Len(e) > 0 /\ Before(vst, vrows, e[Len(e)], x) /\ x \notin SeqRange(e)) => ~AcceptW(vst, vrows, e, [e EXCEPT ![Len(e)] = x])
    /\ ~AcceptW(vst, vrows, e, Append(e, 0))
    \* the exact path (top-(m+k) over one-row batches, ties in another order than the canonical sort)
    /\ AcceptW(vst, vrows, e, TopK(vst, vrows, vst.m, vst.k))

RowCode(v) == IF IsNullVec(v) THEN 9 ELSE 3 * (v[1] + 1) + (v[2] + 1)
StHash == FoldLeft(LAMBDA a, v : (a * 10 + RowCode(v)) % 100003, 0, vrows) + 7 * (vst.k + 1) + 13 * vst.m
          + (IF vst.dir = "asc" THEN 0 ELSE 3) + vst.q[2]
Emit == (ph = "stmt" /\ (Fam = "shapes" \/ StHash % EmitMod = 0)) =>
          EmitCase([rows |-> vrows, metric |-> vst.metric, dir |-> vst.dir, k |-> vst.k, m |-> vst.m, shape |-> vst.shape, q |-> vst.q,
                    fires |-> IF RuleFires(vst) THEN 1 ELSE 0, canon |-> IF Canonical(vst) THEN 1 ELSE 0,
                    ties |-> IF vst.shape = "widthbad" THEN 0
                             ELSE LET s == FullSort(vst, vrows) IN Cardinality({p \in 1..(Len(s) - 1) : Tied(vst, vrows, s[p], s[p + 1])}),
                    nelig |-> Cardinality(Eligible(vst, vrows)), expect |-> IF vst.shape = "widthbad" THEN <<>> ELSE Expected(vst, vrows)])

\* ---- bounded instances (cfg files cannot write tuples / negative numbers) ---------------------------
SymsSmall == { <<1, 0>>, <<0, 1>>, <<1, 1>>, <<-1, 0>>, <<0, 0>>, <<>> }
SymsAll == { <<x, y>> : x \in -1..1, y \in -1..1 } \cup { <<>> }
KsQuick == {-1, 0, 1, 2, 6}
MsQuick == {0, 1, 6}
SymsTiny == { <<1, 0>>, <<0, 1>>, <<>> }
KsShapes == {-1, 0, 2, 6}
MsShapes == {0, 1}
KsMut == {-1, 2}
KsAll == -1..6
MsAll == 0..6
====
