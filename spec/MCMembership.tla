---- MODULE MCMembership ----
(***************************************************************************)
(* Model-checking root for Membership.tla (C15).                           *)
(*                                                                         *)
(* The address universe is not a literal in the cfg files: which spellings *)
(* denote this node is computed by the harness on the machine the check    *)
(* runs on (`qev member-universe`: string equality, std resolution through *)
(* /etc/hosts, getifaddrs) and written to the JSON file named by the       *)
(* environment variable C15_CONSTS (one line):                             *)
(*   {"n":7,"self":4,"spell":[4,6,7],"small":[1,4,5,7],"ids":[1,2],        *)
(*    "errs":[1],"variants":[0],"maxfails":2,"maxgen":5,"depth":2,          *)
(*    "universe":"full"|"small"}                                            *)
(* `./check C15` writes it; to run a cfg by hand:                          *)
(*   C15_CONSTS=/verif/work/C15/consts_A_mc.json tlc -config Membership_quick.cfg MCMembership.tla *)
(***************************************************************************)
EXTENDS Membership, IOUtils

EnvC == ndJsonDeserialize(IOEnv.C15_CONSTS)[1]
EnvAddr == IF EnvC.universe = "small" THEN SeqRange(EnvC.small) ELSE 1..EnvC.n
EnvSelf == EnvC.self
EnvSelfSpellings == SeqRange(EnvC.spell) \cap EnvAddr
EnvNodeIds == SeqRange(EnvC.ids)
EnvErrCodes == SeqRange(EnvC.errs)
EnvVariants == SeqRange(EnvC.variants)
EnvMaxFails == EnvC.maxfails
EnvMaxGen == EnvC.maxgen
EnvMaxDepth == EnvC.depth
====
