---- MODULE SpillAgg ----
(***************************************************************************)
(* C08 — partitioned, spilling hash aggregation                            *)
(* (SpillableHashAggregateExec::execute / aggregate_with_spilling in       *)
(* src/physical/operators/spillable.rs), one action per implementation     *)
(* step:                                                                   *)
(*   FillBatch  choose the content of the next input batch                 *)
(*   Decide     total > threshold ? partitioned spill path : in-memory     *)
(*              HashAggregateExec (also what the fused streaming path      *)
(*              computes)                                                  *)
(*   Take       a batch arrives: iff total_memory + batch > threshold the  *)
(*              LARGEST partition (last one among equals) is written to    *)
(*              its spill file and cleared; then the batch is split by     *)
(*              hash(group key) and every piece appended to its partition  *)
(*   Finish     per partition: spilled rows ++ in-memory rows are          *)
(*              aggregated together ONCE; partition results are            *)
(*              concatenated                                               *)
(* The hash is an arbitrary function of the group key (every function      *)
(* [key -> 1..P] is explored), sizes are counted in rows.                  *)
(*                                                                         *)
(* CONTRACT (invariants): every row is in exactly one place at any time    *)
(* (Conserves); all rows of a group live in the partition of its key       *)
(* (KeyHome) — so a group is never split; the result is exactly the        *)
(* GROUP BY of the whole input with a NULL key forming one group, no group *)
(* twice (AtDone).                                                         *)
(* DoubleCount = TRUE is the seeded mistake "a spilled partition is not    *)
(* cleared" (its rows are counted twice): TLC must refute Conserves/AtDone.*)
(***************************************************************************)
EXTENDS VerifIO, SequencesExt

CONSTANTS MaxRows, MaxBatches,
          NKeyVals,      \* group key codes 0..NKeyVals-1, plus NULL
          MaxVal,        \* aggregated values 1..MaxVal, plus NULL
          P,             \* partitions (64 in the code)
          HashAll,       \* TRUE: every hash function; FALSE: the NULL key hashes to partition 1
          DoubleCount,
          EmitMod

VARIABLES input, sizes, T, h, pc, pos,
          mem,      \* mem[p]: rows of partition p held in memory
          disk,     \* disk[p]: rows of partition p in its spill file
          total,    \* total_memory (rows)
          spills,   \* number of partition evictions
          path, out

vars == <<input, sizes, T, h, pc, pos, mem, disk, total, spills, path, out>>

KeyDom == (0..(NKeyVals - 1)) \cup {NULL}
ValDom == (1..MaxVal) \cup {NULL}
Tuples == SetToSeq(KeyDom \X ValDom)
NT == Len(Tuples)

RECURSIVE SumS(_)
SumS(s) == IF s = <<>> THEN 0 ELSE Head(s) + SumS(Tail(s))
Shapes == {s \in UNION {[1..m -> 1..MaxRows] : m \in 1..MaxBatches} : SumS(s) <= MaxRows}
N == SumS(sizes)
Flat(ss) == IF ss = <<>> THEN <<>> ELSE FoldLeft(LAMBDA a, b : a \o b, <<>>, ss)
AllRows == Flat(input)
Offset(b) == SumS(SubSeq(sizes, 1, b - 1))

Init == /\ sizes \in Shapes
        /\ T = 0 /\ h = [k \in KeyDom |-> 1]        \* chosen in Decide (the input does not depend on them)
        /\ input = <<>> /\ pc = "fill" /\ pos = 1
        /\ mem = [p \in 1..P |-> <<>>] /\ disk = [p \in 1..P |-> <<>>]
        /\ total = 0 /\ spills = 0 /\ path = "none" /\ out = <<>>

FillBatch == /\ pc = "fill" /\ pos <= Len(sizes)
             /\ \E s \in [1..sizes[pos] -> 1..NT] :
                  /\ \A i \in 1..(sizes[pos] - 1) : s[i] <= s[i + 1]
                  /\ input' = Append(input, [i \in 1..sizes[pos] |->
                                  [k |-> Tuples[s[i]][1], v |-> Tuples[s[i]][2], id |-> Offset(pos) + i]])
             /\ pos' = pos + 1
             /\ UNCHANGED <<sizes, T, h, pc, mem, disk, total, spills, path, out>>

\* ---- GROUP BY with SQL NULL rules: one record per key (NULL is a key), aggregates skip NULL values ----
RowsOf(rows, k) == SelectSeq(rows, LAMBDA r : r.k = k)
NonNull(rows) == SelectSeq(rows, LAMBDA r : r.v # NULL)
Vals(rows) == {rows[i].v : i \in DOMAIN rows}
MaxOfSet(S) == CHOOSE x \in S : \A y \in S : y <= x
MinOfSet(S) == CHOOSE x \in S : \A y \in S : x <= y
Group(rows, k) == LET g == NonNull(RowsOf(rows, k)) IN
   [k |-> k, cnt |-> Len(g),
    sum |-> IF g = <<>> THEN NULL ELSE SumS([i \in DOMAIN g |-> g[i].v]),
    min |-> IF g = <<>> THEN NULL ELSE MinOfSet(Vals(g)),
    max |-> IF g = <<>> THEN NULL ELSE MaxOfSet(Vals(g)),
    cntd |-> Cardinality(Vals(g))]
KeysOf(rows) == {rows[i].k : i \in DOMAIN rows}
Groups(rows) == {Group(rows, k) : k \in KeysOf(rows)}
\* aggregate_batches_external over one partition: a sequence of group records
AggSeq(rows) == SetToSeq(Groups(rows))

Decide == /\ pc = "fill" /\ pos > Len(sizes)
          /\ \E t \in 0..N :
               /\ T' = t
               /\ IF N > t THEN /\ path' = "spill" /\ pc' = "take" /\ pos' = 1 /\ UNCHANGED out
                                /\ h' \in {f \in [KeyDom -> 1..P] : HashAll \/ f[NULL] = 1}                       \* any hash function
                           ELSE /\ path' = "mem" /\ pc' = "done" /\ out' = AggSeq(AllRows) /\ UNCHANGED <<pos, h>>
          /\ UNCHANGED <<input, sizes, mem, disk, total, spills>>

\* find_largest_agg_partition: max_by_key returns the LAST maximum
Largest == CHOOSE p \in 1..P : \A q \in 1..P : Len(mem[q]) < Len(mem[p]) \/ (Len(mem[q]) = Len(mem[p]) /\ q <= p)
Piece(b, p) == SelectSeq(b, LAMBDA r : h[r.k] = p)
Take == /\ pc = "take" /\ pos <= Len(input)
        /\ LET b == input[pos]
               evict == total + Len(b) > T /\ mem[Largest] # <<>>
               vp == Largest
               m1 == IF evict /\ ~DoubleCount THEN [mem EXCEPT ![vp] = <<>>] ELSE mem
               d1 == IF evict THEN [disk EXCEPT ![vp] = @ \o mem[vp]] ELSE disk
               t1 == IF evict THEN total - Len(mem[vp]) ELSE total
           IN /\ mem' = [p \in 1..P |-> m1[p] \o Piece(b, p)]
              /\ disk' = d1
              /\ total' = t1 + Len(b)
              /\ spills' = IF evict THEN spills + 1 ELSE spills
        /\ pos' = pos + 1
        /\ UNCHANGED <<input, sizes, T, h, pc, path, out>>

Finish == /\ pc = "take" /\ pos > Len(input)
          /\ out' = Flat([p \in 1..P |-> IF disk[p] \o mem[p] = <<>> THEN <<>> ELSE AggSeq(disk[p] \o mem[p])])
          /\ pc' = "done"
          /\ UNCHANGED <<input, sizes, T, h, pos, mem, disk, total, spills, path>>

Next == FillBatch \/ Decide \/ Take \/ Finish

\* ---- invariants -------------------------------------------------------------------------
Ids(rows) == {rows[i].id : i \in DOMAIN rows}
Held == Flat([p \in 1..P |-> disk[p] \o mem[p]])
Pending == IF pos > Len(input) THEN <<>> ELSE Flat(SubSeq(input, pos, Len(input)))
Conserves == pc = "take" => LET a == Held \o Pending IN Len(a) = N /\ Ids(a) = 1..N
KeyHome == pc = "take" => \A p \in 1..P : \A i \in DOMAIN (disk[p] \o mem[p]) : h[(disk[p] \o mem[p])[i].k] = p
TotalIsMem == pc = "take" => (DoubleCount \/ total = SumS([p \in 1..P |-> Len(mem[p])]))
AtDone == pc = "done" => /\ {out[i] : i \in DOMAIN out} = Groups(AllRows)
                         /\ Len(out) = Cardinality(Groups(AllRows))

Checksum == SumS([i \in DOMAIN AllRows |-> (i * 7 + 3) * (IF AllRows[i].k = NULL THEN 5 ELSE AllRows[i].k + 1)]) + Len(sizes)
\* one case per INPUT is enough for the replay (the expected bag does not depend on the hash or the threshold):
\* emit from the behaviour that fits exactly; the spilling behaviours are model-level coverage
Emit == (pc = "done" /\ path = "mem" /\ T = N /\ Checksum % EmitMod = 0) =>
   EmitCase([batches |-> [b \in DOMAIN input |-> [i \in DOMAIN input[b] |-> <<input[b][i].k, input[b][i].v>>]],
             exp |-> LET g == SetToSeq(Groups(AllRows)) IN [i \in DOMAIN g |-> <<g[i].k, g[i].cnt, g[i].sum, g[i].min, g[i].max, g[i].cntd>>],
             \* the same aggregates without GROUP BY (one row over the whole input)
             glob |-> LET g == Group([i \in DOMAIN AllRows |-> [AllRows[i] EXCEPT !.k = 0]], 0) IN <<g.cnt, g.sum, g.min, g.max, g.cntd>>])
\* model-level coverage: some behaviour evicts twice / evicts a partition that is then refilled
CoverTwoSpills == ~(pc = "done" /\ spills >= 2)
CoverRefill == ~(pc = "done" /\ \E p \in 1..P : disk[p] # <<>> /\ mem[p] # <<>>)
====
