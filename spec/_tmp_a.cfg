CONSTANTS
  MaxN = 4
  GatherMaxN = 0
  Shapes = {"scatter"}
  MaxFaults = 3
  Batches = 1
  Mutants = {"none"}
  Dev = 0
INIT Init
NEXT Next
CHECK_DEADLOCK TRUE
