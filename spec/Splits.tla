---- MODULE Splits ----
(***************************************************************************)
(* C11 — split enumeration covers every row exactly once, canonically.     *)
(*                                                                         *)
(* (M) TLC enumerates every inventory within the bounds (Init) and checks  *)
(* that the modelled implementation algorithm (SplitsOps!ImplEnumerate)    *)
(* satisfies the CONTRACT: coverage (a)(b), byte/row totals (c),           *)
(* invariance under every permutation of the listing and change of         *)
(* directory (d), digest law + sensitivity to every single-attribute       *)
(* mutation (e).  With AllowDup = TRUE two files may share a name: the     *)
(* invariant InvariantUnderListing is then EXPECTED to fail (known finding *)
(* C11/same-name-files; the check asserts TLC finds that counterexample).  *)
(* With EmitMode = 1 every inventory is emitted with its mutants, to be    *)
(* materialised as real Parquet files.                                     *)
(***************************************************************************)
EXTENDS SplitsOps

CONSTANTS MaxFiles,    \* 1..MaxFiles files
          MaxRgs,      \* at most MaxRgs row groups in total
          MaxRows,     \* row counts 0..MaxRows
          ByteVals,    \* byte sizes of a non-empty row group
          NodeVals,    \* node counts
          AllowDup,    \* TRUE: exactly the inventories in which two files share a name
          EmitMode,    \* 1: emit cases
          Regimes      \* target regimes this configuration must reach (vacuity guard)

VARIABLES shape,        \* [F, lens, n] chosen first (many initial states => TLC workers run in parallel)
          inv,          \* [files, nodes] the inventory under test
          pc            \* "shape" -> "done"

\* a row group without rows carries no bytes
RgVals == {[rows |-> 0, bytes |-> 0]} \cup [rows : 1..MaxRows, bytes : ByteVals]

\* split a flat sequence of row groups into files of the given lengths
RECURSIVE Chop(_, _, _)
Chop(flat, lens, k) == IF k > Len(lens) THEN <<>>
                       ELSE <<SubSeq(flat, 1, lens[k])>> \o Chop(SubSeq(flat, lens[k] + 1, Len(flat)), lens, k + 1)

NameSeqs(F) == IF AllowDup
               THEN {s \in [1..F -> 1..F] : (\A i \in 1..(F - 1) : s[i] <= s[i + 1]) /\ (\E i \in 1..(F - 1) : s[i] = s[i + 1])}
               ELSE {[i \in 1..F |-> i]}

Init == /\ pc = "shape"
        /\ inv = [files |-> <<>>, nodes |-> 0]
        /\ \E F \in 1..MaxFiles, L \in 0..MaxRgs : \E lens \in [1..F -> 0..L], n \in NodeVals :
              /\ SumSeq(lens) = L
              /\ shape = [F |-> F, lens |-> lens, n |-> n]

\* one step: the content of the row groups and the file names
Fill == /\ pc = "shape"
        /\ \E flat \in [1..SumSeq(shape.lens) -> RgVals], names \in NameSeqs(shape.F) :
              LET parts == Chop(flat, shape.lens, 1) IN
              inv' = [files |-> [i \in 1..shape.F |-> [name |-> names[i], dir |-> i, rgs |-> parts[i]]],
                      nodes |-> shape.n]
        /\ pc' = "done"
        /\ UNCHANGED shape
Next == Fill

Permute(files, p) == [i \in DOMAIN files |-> [files[p[i]] EXCEPT !.dir = @ + 10 * i]]

\* All properties of one enumeration, evaluated on one value of ImplEnumerate.
\*  C  (a)(b)(c) coverage and totals
\*  L  (d) any listing order, any directories: same tuples, same digest; each split still carries
\*         the path of the corresponding file
\*  S  (e) the tuples determine the visible inventory (hence ANY change of a name, the row-group
\*         layout, a row count or a byte size changes the tuples and the digest)
\*  M  (e) every single-attribute mutation that changes the content changes the digest, every one
\*         that does not leaves it alone
\*  F  fidelity statements about the algorithm itself (sorted output, no empty piece, target >= 1)
PropC(e) == Contract(inv.files, e, TotalBytes(inv.files), TotalRows(inv.files))
PropL(e) ==
  \A p \in Permutations(DOMAIN inv.files) :
     LET g == Permute(inv.files, p)
         eg == ImplEnumerate(g, inv.nodes)
     IN /\ SameContent(inv.files, g)
        /\ Invariance(inv.files, e, g, eg)
        /\ DigestLaw(e, Digest(e), eg, Digest(eg))
        /\ (~HasDupNames(inv.files)) => (Len(eg) = Len(e) /\ \A i \in DOMAIN e : p[eg[i].fi] = e[i].fi)
PropS(e) == (~HasDupNames(inv.files)) => Reconstruct(e) = Visible(inv.files)
PropM(e) ==
  \A m \in Mutants(inv.files) :
        LET em == ImplEnumerate(m.files, inv.nodes)
        IN IF SameContent(inv.files, m.files) THEN Digest(em) = Digest(e) ELSE Digest(em) # Digest(e)
PropF(e) ==
  /\ Sorted(e)
  /\ \A i \in DOMAIN e : e[i].n >= 1
  /\ Target(TotalBytes(inv.files), inv.nodes) >= 1

MeetsContract == pc = "done" => PropC(ImplEnumerate(inv.files, inv.nodes))
InvariantUnderListing == pc = "done" => PropL(ImplEnumerate(inv.files, inv.nodes))
Sensitive == pc = "done" => PropS(ImplEnumerate(inv.files, inv.nodes))
ImplShape == pc = "done" => PropF(ImplEnumerate(inv.files, inv.nodes))
\* the four together (one evaluation of the enumeration) -- used by the exhaustive configs
AllProps == pc = "done" => LET e == ImplEnumerate(inv.files, inv.nodes) IN PropC(e) /\ PropL(e) /\ PropS(e) /\ PropF(e)
\* (e) once more, operationally: each single-attribute mutation changes the digest iff it changes the content
MutantSensitive == pc = "done" => PropM(ImplEnumerate(inv.files, inv.nodes))
\* everything but (d): what still holds when two files share a name
AllButListing == pc = "done" => LET e == ImplEnumerate(inv.files, inv.nodes) IN PropC(e) /\ PropS(e) /\ PropF(e)

\* vacuity: the bounds reach every target regime named in the cfg
MaxByte == CHOOSE b \in ByteVals : \A c \in ByteVals : c <= b
ASSUME RegimesCovered == \A r \in Regimes : \E t \in 0..(MaxRgs * MaxByte), n \in NodeVals : Regime(t, n) = r

Emit == (pc = "done" /\ EmitMode = 1) =>
          EmitCase([files |-> inv.files, nodes |-> inv.nodes,
                    regime |-> Regime(TotalBytes(inv.files), inv.nodes),
                    mutants |-> Mutants(inv.files)])
====
