\* (M) ideal keys: Fresh holds over all histories of 7 steps on 1 path
CONSTANTS Paths = {1}
          NVersions = 3
          Modes = {0, 1, 2}
          MaxActions = 7
          KeyModel = 0
          VStep = {1, 2}
          TimeChoices = {0, 1, 2, 3, 4}
          WithX = TRUE
          EmitOn = FALSE
          Sim = FALSE
INIT Init
NEXT NextAll
INVARIANT Fresh
INVARIANT DictFresh
INVARIANT StaleHasCause
INVARIANT ModeRespected
INVARIANT TypeOk
CHECK_DEADLOCK FALSE
