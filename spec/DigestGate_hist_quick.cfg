CONSTANTS MIN = 4
          MAX = 64
          SPN = 2
          MaxFiles = 1
          MaxRgs = 2
          MaxRows = 1
          ByteVals = {1}
          Ns = {1, 2}
          MaxEx = 2
          InPlace = TRUE
          IdxAll = FALSE
          Memo = FALSE
          EmitShapes = FALSE
INIT Init
NEXT Next
INVARIANT Safety
INVARIANT SameRows
INVARIANT NothingBeforeTheGate
INVARIANT Complete
INVARIANT HistLen
INVARIANT Emit
CHECK_DEADLOCK FALSE
