CONSTANTS Impls = {"fixed"}
          AllowPartial = TRUE
          DoEmit = TRUE
          Strata <- StrataThorough
INIT Init
NEXT Next
INVARIANT RowCountExact
INVARIANT NullCountExactWhenPresent
INVARIANT MinMaxBound
INVARIANT FootersAreFacts
INVARIANT FixedIsAsBuiltOffShape
INVARIANT FixedIsTight
INVARIANT Emit
CHECK_DEADLOCK FALSE
