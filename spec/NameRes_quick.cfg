CONSTANTS Tier = "quick"
          Mut = "none"
INIT Init
NEXT Next
INVARIANT Check
CHECK_DEADLOCK FALSE
