INIT TInit
NEXT TNext
POSTCONDITION Accepted
CHECK_DEADLOCK FALSE
