---- MODULE SplitsOps ----
(***************************************************************************)
(* C11 / C14 — split enumeration: vocabulary, CONTRACT and the modelled    *)
(* implementation algorithm (pure operators, no variables).                *)
(*                                                                         *)
(* An inventory is a sequence of files                                     *)
(*     [name |-> Int, dir |-> Int, rgs |-> Seq([rows |-> Nat, bytes |-> Nat])] *)
(* in the order the caller listed them.  `name` is the file name (final    *)
(* path component), `dir` the directory it is mounted under.  rgs[j] is    *)
(* row group j-1 of the file (the implementation counts from 0).           *)
(*                                                                         *)
(* A split is [file, rg, off, n, bytes, fi]: rows [off, off+n) of row      *)
(* group rg of the file named `file`; `fi` is the position (in the input   *)
(* sequence) of the file whose *path* the split carries.                   *)
(*                                                                         *)
(* Contract (what the property pins) -- see Contract, Invariance,          *)
(* DigestLaw below.  The cutting arithmetic of the implementation          *)
(* (target_split_bytes, pieces, equal-row cutting, last piece absorbs the  *)
(* byte remainder) is modelled by ImplEnumerate; TLC checks in Splits.tla  *)
(* that it satisfies the contract.  Equality of the real result with       *)
(* ImplEnumerate is FIDELITY only.                                          *)
(***************************************************************************)
EXTENDS VerifIO

CONSTANTS MIN,     \* MIN_SPLIT_BYTES
          MAX,     \* MAX_SPLIT_BYTES
          SPN      \* SPLITS_PER_NODE

\* ---- small helpers ---------------------------------------------------------
CeilDiv(a, b) == (a + b - 1) \div b
SumIf(ss, I, F(_)) == SumSeq([i \in DOMAIN ss |-> IF i \in I THEN F(ss[i]) ELSE 0])
NField(s) == s.n
BField(s) == s.bytes
Lex3Less(a, b) == a[1] < b[1] \/ (a[1] = b[1] /\ (a[2] < b[2] \/ (a[2] = b[2] /\ a[3] < b[3])))

\* ---- canonical tuples and the (ideal) digest ---------------------------------
Key(s) == <<s.file, s.rg, s.off>>
Tuple(s) == <<s.file, s.rg, s.off, s.n, s.bytes>>
Tuples(ss) == [i \in DOMAIN ss |-> Tuple(ss[i])]
\* The digest is modelled as an ideal (collision-free) hash of the canonical tuples:
\* a function of the tuple sequence and of nothing else.
Digest(ss) == Tuples(ss)

\* ---- what of an inventory is visible to a reader of rows ----------------------
\* the non-empty row groups of a file, with their position, row count and byte size
VisF(f) == {<<j - 1, f.rgs[j].rows, f.rgs[j].bytes>> : j \in {j \in DOMAIN f.rgs : f.rgs[j].rows > 0}}
VisIdx(files) == {i \in DOMAIN files : VisF(files[i]) # {}}
\* Two inventories have the same split-relevant content: same bag of (file name, non-empty
\* row groups); order of listing, directories, and files/row groups without rows do not count.
ContentBag(files) ==
  LET keys == {<<files[i].name, VisF(files[i])>> : i \in VisIdx(files)}
  IN [k \in keys |-> Cardinality({i \in VisIdx(files) : <<files[i].name, VisF(files[i])>> = k})]
SameContent(f, g) == ContentBag(f) = ContentBag(g)
HasDupNames(files) == \E a, b \in DOMAIN files : a # b /\ files[a].name = files[b].name
TotalBytes(files) == SumSeq([i \in DOMAIN files |->
                        SumSeq([j \in DOMAIN files[i].rgs |-> IF files[i].rgs[j].rows > 0 THEN files[i].rgs[j].bytes ELSE 0])])
TotalRows(files) == SumSeq([i \in DOMAIN files |->
                        SumSeq([j \in DOMAIN files[i].rgs |-> IF files[i].rgs[j].rows > 0 THEN files[i].rgs[j].rows ELSE 0])])

\* ---- CONTRACT ----------------------------------------------------------------
SplitsOn(ss, fi, j) == {i \in DOMAIN ss : ss[i].fi = fi /\ ss[i].rg = j - 1}

\* (a) the ranges of I are contiguous ranges that tile [0, rows) exactly:
\*     inside the row group, pairwise disjoint, and rows in total.
Tiles(ss, I, rows) ==
  /\ \A i \in I : ss[i].n >= 1 /\ ss[i].off >= 0 /\ ss[i].off + ss[i].n <= rows
  /\ \A i, k \in I : i # k => (ss[i].off + ss[i].n <= ss[k].off \/ ss[k].off + ss[k].n <= ss[i].off)
  /\ SumIf(ss, I, NField) = rows

\* every split points at a real, non-empty row group of the file whose name it carries
WellFormed(files, ss) ==
  \A i \in DOMAIN ss :
     /\ ss[i].fi \in DOMAIN files
     /\ ss[i].file = files[ss[i].fi].name
     /\ ss[i].rg + 1 \in DOMAIN files[ss[i].fi].rgs
     /\ files[ss[i].fi].rgs[ss[i].rg + 1].rows > 0            \* (b)

Coverage(files, ss) ==
  \A f \in DOMAIN files : \A j \in DOMAIN files[f].rgs :
     LET g == files[f].rgs[j]
         I == SplitsOn(ss, f, j)
     IN IF g.rows > 0
        THEN Tiles(ss, I, g.rows)                              \* (a) every row exactly once
             /\ SumIf(ss, I, BField) = g.bytes                 \* (c) bytes of the row group
        ELSE I = {}                                            \* (b) nothing on an empty row group

Totals(files, ss, total_bytes, total_rows) ==
  /\ total_bytes = TotalBytes(files)
  /\ total_rows = TotalRows(files)
  /\ SumIf(ss, DOMAIN ss, BField) = total_bytes                \* (c) "sum exactly to the table's"
  /\ SumIf(ss, DOMAIN ss, NField) = total_rows

Contract(files, ss, total_bytes, total_rows) ==
  /\ WellFormed(files, ss)
  /\ Coverage(files, ss)
  /\ Totals(files, ss, total_bytes, total_rows)

\* (d) two enumerations over the same content (any listing order, any directories) with the
\*     same node count yield the same canonical tuples;
\* (e) the digest is a function of the tuples only, and different tuples give different digests
\*     (DigestLaw is stated on observed digest values dg1, dg2).
Invariance(files1, ss1, files2, ss2) == SameContent(files1, files2) => Tuples(ss1) = Tuples(ss2)
DigestLaw(ss1, dg1, ss2, dg2) == (Tuples(ss1) = Tuples(ss2)) <=> (dg1 = dg2)

\* The tuples determine the visible inventory (so any change of a file name, of the row-group
\* layout, of a row count or of a byte size changes the tuples, hence the digest).
Reconstruct(ss) ==
  {<<ss[i].file, ss[i].rg,
     SumIf(ss, {k \in DOMAIN ss : ss[k].file = ss[i].file /\ ss[k].rg = ss[i].rg}, NField),
     SumIf(ss, {k \in DOMAIN ss : ss[k].file = ss[i].file /\ ss[k].rg = ss[i].rg}, BField)>> : i \in DOMAIN ss}
Visible(files) == UNION {{<<files[i].name, v[1], v[2], v[3]>> : v \in VisF(files[i])} : i \in DOMAIN files}

\* fidelity: canonical order = sorted by (file, row group, offset)
Sorted(ss) == \A i \in 1..(Len(ss) - 1) : Lex3Less(Key(ss[i]), Key(ss[i + 1])) \/ Key(ss[i]) = Key(ss[i + 1])

\* ---- the implementation's algorithm (fidelity model) ---------------------------
Target(total, nodes) ==
  LET n == Max2(nodes, 1)
      floor == Max2(Min2(MIN, CeilDiv(total, n)), 1)
      ideal == total \div Max2(SPN * n, 1)
      hi == Max2(MAX, floor)
  IN Min2(Max2(ideal, floor), hi)

Regime(total, nodes) ==
  LET n == Max2(nodes, 1)
      floor == Max2(Min2(MIN, CeilDiv(total, n)), 1)
      ideal == total \div Max2(SPN * n, 1)
  IN IF ideal > Max2(MAX, floor) THEN "maxclamp"
     ELSE IF ideal > floor THEN "ideal"
     ELSE IF floor = MIN THEN "minclamp"
     ELSE "small"

Pieces(g, target) == IF g.bytes <= target THEN 1
                     ELSE Max2(Min2(CeilDiv(g.bytes, target), g.rows), 1)

\* floor(bytes * n / rows) without leaving 32-bit integers
PropBytes(g, n) == (g.bytes \div g.rows) * n + ((g.bytes % g.rows) * n) \div g.rows

CutRg(fi, name, j, g, target) ==
  LET pieces == Pieces(g, target)
      base == g.rows \div pieces
      rem == g.rows % pieces
      rowsOf(p) == base + (IF p < rem THEN 1 ELSE 0)                 \* p = 0..pieces-1
      offOf(p) == p * base + Min2(p, rem)
      before == rem * PropBytes(g, base + 1) + (pieces - 1 - rem) * PropBytes(g, base)
      bytesOf(p) == IF p + 1 = pieces THEN g.bytes - before ELSE PropBytes(g, rowsOf(p))
  IN [q \in 1..pieces |-> [file |-> name, rg |-> j - 1, off |-> offOf(q - 1), n |-> rowsOf(q - 1),
                           bytes |-> bytesOf(q - 1), fi |-> fi]]

\* files in canonical file order: stable sort by NAME (the listing position breaks ties)
FileOrder(files) == SortSeq([i \in DOMAIN files |-> i],
                            LAMBDA a, b : files[a].name < files[b].name \/ (files[a].name = files[b].name /\ a < b))

RECURSIVE CutFile(_, _, _, _)
CutFile(fi, f, j, target) ==
  IF j > Len(f.rgs) THEN <<>>
  ELSE (IF f.rgs[j].rows > 0 THEN CutRg(fi, f.name, j, f.rgs[j], target) ELSE <<>>) \o CutFile(fi, f, j + 1, target)

RECURSIVE CutAll(_, _, _, _)
CutAll(files, order, k, target) ==
  IF k > Len(order) THEN <<>>
  ELSE CutFile(order[k], files[order[k]], 1, target) \o CutAll(files, order, k + 1, target)

\* final stable sort by canonical key
StableByKey(ss) ==
  LET idx == SortSeq([i \in DOMAIN ss |-> i],
                     LAMBDA a, b : Lex3Less(Key(ss[a]), Key(ss[b])) \/ (Key(ss[a]) = Key(ss[b]) /\ a < b))
  IN [i \in DOMAIN ss |-> ss[idx[i]]]

ImplEnumerate(files, nodes) ==
  StableByKey(CutAll(files, FileOrder(files), 1, Target(TotalBytes(files), nodes)))

\* ---- single-attribute mutations of an inventory ---------------------------------
NewName == 90
RemoveAt(s, i) == SubSeq(s, 1, i - 1) \o SubSeq(s, i + 1, Len(s))
Mutants(files) ==
  {[kind |-> "rename", files |-> [files EXCEPT ![i].name = NewName]] : i \in DOMAIN files}
  \cup UNION {{[kind |-> "rowplus", files |-> [files EXCEPT ![i].rgs[j].rows = @ + 1, ![i].rgs[j].bytes = Max2(@, 1)]]
                 : j \in DOMAIN files[i].rgs} : i \in DOMAIN files}
  \cup UNION {{[kind |-> "bytesplus", files |-> [files EXCEPT ![i].rgs[j].bytes = @ + 1]]
                 : j \in {j \in DOMAIN files[i].rgs : files[i].rgs[j].rows > 0}} : i \in DOMAIN files}
  \cup {[kind |-> "rgplus", files |-> [files EXCEPT ![i].rgs = Append(@, [rows |-> 1, bytes |-> 1])]] : i \in DOMAIN files}
  \cup {[kind |-> "rgminus", files |-> [files EXCEPT ![i].rgs = SubSeq(@, 1, Len(@) - 1)]] : i \in {i \in DOMAIN files : Len(files[i].rgs) > 0}}
  \cup {[kind |-> "fileplus", files |-> Append(files, [name |-> NewName, dir |-> 1, rgs |-> <<[rows |-> 1, bytes |-> 1]>>])]}
  \cup {[kind |-> "fileminus", files |-> RemoveAt(files, i)] : i \in DOMAIN files}
====
