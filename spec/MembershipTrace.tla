---- MODULE MembershipTrace ----
(***************************************************************************)
(* Trace validation for C15: what the REAL `Membership` object did, as     *)
(* recorded by `qev member-replay` / `qev member-record`, judged by        *)
(* Membership.tla.  One ND-JSON line = one event:                          *)
(*                                                                         *)
(*  {"ev":"reset"}            a fresh Membership (concatenated histories)  *)
(*  {"ev":"step", k, L, a, id, e,      one call on a quiescent object and  *)
(*     view, peers, gen, resolved,     the COMPLETE observation after it:  *)
(*     lasterr, sorted, ret}           members() as <<rank, is_self, st,   *)
(*                                     id, fails, err>>, peer_addresses(), *)
(*                                     generation(), resolved(), ...       *)
(*  {"ev":"conc", ops:[{k, L, a, id, e, inv, res, ret}, ...]}              *)
(*                            one CONCURRENT history (3 threads, one       *)
(*                            object): calls with invoke/response stamps   *)
(*                            from a global atomic counter, reads included *)
(*                            (k = members | gen | resolved | peerlist |   *)
(*                            lasterr) with what they returned.            *)
(*                                                                         *)
(* Mode (environment C15_MODE):                                            *)
(*  "contract"  a step is accepted iff the logged post-state t satisfies   *)
(*              Contract(o, s, t) and the logged view is well-formed; the  *)
(*              state is BOUND to the log (s' = t), so the generation and  *)
(*              everything the property does not pin is free.  A conc line *)
(*              is judged by the order-only consequences of the contract   *)
(*              (WeakContract).  Rejection = VIOLATION.                    *)
(*  "strict"    additionally t = Apply(o, s) (the model, generation +1     *)
(*              rule included), and a conc line must have a LINEARIZATION: *)
(*              an order of its calls, consistent with real time, in which *)
(*              every return value is what the model returns.  Rejection   *)
(*              in strict mode only = spec drift (fidelity), not a verdict.*)
(***************************************************************************)
EXTENDS Naturals, Integers, Sequences, FiniteSets, TLC, Json, IOUtils, SequencesExt

EnvC == ndJsonDeserialize(IOEnv.C15_CONSTS)[1]
SetOf(q) == {q[i] : i \in DOMAIN q}
Addr == 1..EnvC.n
Self == EnvC.self
SelfSpellings == SetOf(EnvC.spell)
SelfId == EnvC.selfid
NodeIds == {}
ErrCodes == {}
Variants == {0}
Record == FALSE
MaxFails == 0
MaxGen == 0
MaxDepth == 0
Strict == IOEnv.C15_MODE = "strict"

VARIABLES peers, resolved, gen, lastErr, op, hist
INSTANCE Membership

Rec == ndJsonDeserialize(IOEnv.TRACE)
VARIABLES l,      \* next line to consume
          done    \* conc line: indices of the calls already linearized
tvars == <<peers, resolved, gen, lastErr, op, hist, l, done>>

SetSt(t) == /\ peers' = t.peers /\ resolved' = t.resolved /\ gen' = t.gen /\ lastErr' = t.lastErr
Keep == UNCHANGED <<op, hist>>

\* ---- logged values -> spec values ---------------------------------------------------
N(x) == IF x = -1 THEN NULL ELSE x                       \* the harness writes null as -1
OpOf(r) == [k |-> r.k, S |-> SetOf(r.L), v |-> 0, a |-> r.a, id |-> N(r.id), e |-> N(r.e)]
PeerRows(view) == {i \in DOMAIN view : view[i][2] = 0}
RowFor(view, a) == view[CHOOSE i \in PeerRows(view) : view[i][1] = a]
PeersOfView(view) ==
  [a \in {view[i][1] : i \in PeerRows(view)} |->
     LET w == RowFor(view, a) IN [st |-> w[3], id |-> N(w[4]), fails |-> w[5], err |-> N(w[6])]]
Ranks(view) == [i \in DOMAIN view |-> view[i][1]]

\* the logged view itself (not its projection) must be well-formed: C15 state part
ViewLoggedOk(view, sorted, peerlist) ==
  /\ sorted = 1                                                \* raw strings strictly ascending
  /\ StrictlySorted(Ranks(view))                               \* ... and so are their ranks
  /\ Cardinality({i \in DOMAIN view : view[i][2] = 1}) = 1     \* this node exactly once
  /\ \A i \in PeerRows(view) : view[i][1] \notin SelfSpellings \* and never as a peer
  /\ \A i \in DOMAIN peerlist : peerlist[i] \notin SelfSpellings

SelfRowOk(view) == \E i \in DOMAIN view : view[i] = <<Self, 1, UP, SelfId, 0, -1>>

\* ---- sequential step ------------------------------------------------------------------
StepEv ==
  /\ l <= Len(Rec) /\ Rec[l].ev = "step"
  /\ LET r == Rec[l]
         o == OpOf(r)
         t == [peers |-> PeersOfView(r.view), resolved |-> r.resolved, gen |-> r.gen, lastErr |-> N(r.lasterr)]
     IN /\ r.panic = 0
        /\ ViewLoggedOk(r.view, r.sorted, r.peers)
        /\ Contract(o, St, t)
        /\ Strict => /\ t = Apply(o, St)
                     /\ Design(o, St, t)
                     /\ r.peers = Asc(DomP(t))
                     /\ SelfRowOk(r.view)
                     /\ (o.k = "set" => r.ret = Changes(o.S, St))
        /\ SetSt(t)
  /\ l' = l + 1 /\ done' = {} /\ Keep

ResetEv == /\ l <= Len(Rec) /\ Rec[l].ev = "reset"
           /\ SetSt(InitSt) /\ l' = l + 1 /\ done' = {} /\ Keep

\* ---- concurrent history: linearization search (strict mode) ----------------------------------
Mutators == {"set", "up", "down", "err"}
ViewOf(s) ==      \* what members() returns in model state s
  LET v == View(s) IN
  [i \in DOMAIN v |-> IF v[i] = Self THEN <<Self, 1, UP, SelfId, 0, -1>>
                      ELSE LET p == s.peers[v[i]] IN <<v[i], 0, p.st, J(p.id), p.fails, J(p.err)>>]
ReadOk(c, s) == CASE c.k = "members"  -> c.ret = ViewOf(s)
                  [] c.k = "gen"      -> c.ret = s.gen
                  [] c.k = "resolved" -> c.ret = s.resolved
                  [] c.k = "peerlist" -> c.ret = Asc(DomP(s))
                  [] c.k = "lasterr"  -> c.ret = J(s.lastErr)
                  [] OTHER -> FALSE
\* call i may be linearized next iff no other pending call returned before i was invoked
CanLin(ops, i) == /\ i \notin done
                  /\ \A j \in DOMAIN ops : (j \notin done /\ j # i) => ~(ops[j].res < ops[i].inv)
LinStep ==
  /\ Strict /\ l <= Len(Rec) /\ Rec[l].ev = "conc"
  /\ \E i \in DOMAIN Rec[l].ops :
       /\ CanLin(Rec[l].ops, i)
       /\ LET c == Rec[l].ops[i] IN
          IF c.k \in Mutators
          THEN LET o == OpOf(c) IN
               /\ (c.k = "set" => c.ret = Changes(o.S, St))
               /\ SetSt(Apply(o, St))
          ELSE /\ ReadOk(c, St)
               /\ UNCHANGED <<peers, resolved, gen, lastErr>>
       /\ done' = done \cup {i}
  /\ l' = l /\ Keep

\* order-only consequences of the contract on what concurrent reads returned
Reads(ops, k) == {i \in DOMAIN ops : ops[i].k = k}
Before(ops, i, j) == ops[i].res < ops[j].inv
WeakContract(ops) ==
  /\ \A i \in Reads(ops, "members") :
        LET v == ops[i].ret IN
        /\ StrictlySorted(Ranks(v))
        /\ Cardinality({x \in DOMAIN v : v[x][2] = 1}) = 1
        /\ \A x \in PeerRows(v) : v[x][1] \notin SelfSpellings
        /\ ops[i].sorted = 1
  /\ \A i \in Reads(ops, "peerlist") : \A x \in DOMAIN ops[i].ret : ops[i].ret[x] \notin SelfSpellings
  /\ \A i, j \in Reads(ops, "gen") : Before(ops, i, j) => ops[i].ret <= ops[j].ret        \* never decreases
  /\ \A g1, g2 \in Reads(ops, "gen") : \A m1, m2 \in Reads(ops, "members") :              \* advances on change
        (Before(ops, g1, m1) /\ Before(ops, m1, m2) /\ Before(ops, m2, g2)
         /\ Ranks(ops[m1].ret) # Ranks(ops[m2].ret)) => ops[g1].ret < ops[g2].ret
  /\ \A i \in DOMAIN ops : ops[i].panic = 0

ConcDone ==
  /\ l <= Len(Rec) /\ Rec[l].ev = "conc"
  /\ Strict => done = DOMAIN Rec[l].ops
  /\ WeakContract(Rec[l].ops)
  /\ l' = l + 1 /\ done' = {}
  /\ UNCHANGED <<peers, resolved, gen, lastErr>> /\ Keep

TInit == /\ peers = <<>> /\ resolved = 0 /\ gen = 0 /\ lastErr = NULL
         /\ op = NoOp /\ hist = <<>> /\ l = 1 /\ done = {}
TNext == StepEv \/ ResetEv \/ LinStep \/ ConcDone
TSpec == TInit /\ [][TNext]_tvars

\* ---- acceptance: every line consumed (a conc line takes one level per call in strict mode) ----
\* FoldLeft is evaluated by its Java override (iterative): the POSTCONDITION runs on TLC's main
\* thread, whose stack a plain recursion over a few thousand lines overflows.
Weight(r) == IF r.ev = "conc" /\ Strict THEN Len(r.ops) + 1 ELSE 1
UnitWeights == ~Strict \/ \A i \in 1..Len(Rec) : Rec[i].ev # "conc"
Cum(i) == IF UnitWeights THEN i
          ELSE FoldLeft(LAMBDA acc, r : acc + Weight(r), 0, SubSeq(Rec, 1, i))
Accepted == LET d == TLCGet("stats").diameter - 1 IN
            IF d = Cum(Len(Rec)) THEN EmitTag("ACCEPT", [n |-> Len(Rec), levels |-> d])
            ELSE LET bad == IF UnitWeights THEN d + 1
                            ELSE CHOOSE i \in 1..Len(Rec) : Cum(i - 1) <= d /\ d < Cum(i)
                 IN EmitTag("REJECT", [line |-> bad, ev |-> Rec[bad].ev, levels |-> d,
                                        within |-> d - Cum(bad - 1)]) /\ FALSE
====
