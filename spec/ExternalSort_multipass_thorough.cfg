CONSTANTS MaxRows = 1
          MaxBatches = 1
          NKeyVals = 2
          NKeys = 1
          SpecCodes = {0, 1, 2, 3}
          SplitFanIns = {8}
          Singles = {806, 807, 808, 809, 810, 811, 816, 817, 203, 204, 205, 206, 207, 304, 305, 307}
          Fetches = {99, 3}
          NoFetch = 99
          AllowEmpty = FALSE
          EmitMod = 1
          MergeCmp = "spec"
          CleanupCarried = TRUE
INIT Init
NEXT Next
INVARIANT GenConserves
INVARIANT PassConserves
INVARIANT RunsSorted
INVARIANT RunShape
INVARIANT AtDone
INVARIANT Emit
CHECK_DEADLOCK FALSE
