CONSTANTS MaxRows = 5
          MaxBatches = 4
          NKeyVals = 3
          NKeys = 1
          SpecCodes = {0, 1, 2, 3}
          SplitFanIns = {8}
          Singles = {}
          Fetches = {99, 0, 1, 3}
          NoFetch = 99
          AllowEmpty = FALSE
          EmitMod = 7
          MergeCmp = "spec"
          CleanupCarried = TRUE
INIT Init
NEXT Next
INVARIANT GenConserves
INVARIANT PassConserves
INVARIANT RunsSorted
INVARIANT RunShape
INVARIANT AtDone
INVARIANT Emit
CHECK_DEADLOCK FALSE
