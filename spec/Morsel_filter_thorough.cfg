CONSTANTS W = 3
          R = 3
          RowChoices = {0, 1}
          Filter = TRUE
          Fault = TRUE
          Agg = FALSE
          Hist = FALSE
          Mutant = "none"
INIT Init
NEXT Next
INVARIANT TypeOK
INVARIANT ExactlyOnce
INVARIANT ProgressBound
INVARIANT ProgressHonest
INVARIANT ObsOK
INVARIANT AtQuiescence
INVARIANT AtFailure
INVARIANT AggAtEnd
INVARIANT Emit
PROPERTY Monotone
CHECK_DEADLOCK FALSE
