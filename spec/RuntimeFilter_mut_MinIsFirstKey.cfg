CONSTANTS Keys <- K3
          NB = 2
          MaxBB = 1
          NP = 2
          MaxPB = 1
          Kinds = {"inner", "build_anti"}
          BitmapMaxBits = 3
          SetMaxKeys = 2
          Mutant = "MinIsFirstKey"
          EmitCases = FALSE
INIT Init
NEXT Next
INVARIANT TypeOK
INVARIANT PublishedImpliesComplete
INVARIANT FilterSound
INVARIANT FilterExact
INVARIANT NoNeededRowLost
INVARIANT UnlinkedDeliversAll
INVARIANT FinalAnswer
CHECK_DEADLOCK FALSE
