CONSTANTS Fams = {"un"}
          MaxUn = 3
          MaxFil = 0
          MaxBin = 0
          TileP = 2
          TileQ = 1
          TileM = 1
          Mutant = "rle_ignores_offset"
INIT Init
NEXT Next
INVARIANT RoundTrip
INVARIANT EncLen
INVARIANT KernelLaws
CHECK_DEADLOCK FALSE
