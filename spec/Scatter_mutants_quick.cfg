CONSTANTS
  MaxN = 2
  GatherMaxN = 0
  Shapes = {"scatter"}
  MaxFaults = 1
  Batches = 2
  Mutants = {"short_stream", "filter_ok", "retry_local", "http_empty", "ignore_decode", "skip_digest"}
INIT Init
NEXT Next
INVARIANT TypeOK
INVARIANT ContractDev
INVARIANT NothingBeforeAll
INVARIANT Kill
CHECK_DEADLOCK TRUE
