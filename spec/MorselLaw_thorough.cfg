CONSTANTS MaxN = 3
          P = 3
          NKeys = 2
          NVals = 2
          WithNull = TRUE
          Mutant = "none"
          EmitCases = TRUE
INIT Init
NEXT Next
INVARIANT PrefixLaw
INVARIANT Law
INVARIANT FoldIsSql
INVARIANT Algebra
INVARIANT Emit
CHECK_DEADLOCK FALSE
