\* (M) as-built keys: FooterFresh is EXPECTED to be violated (shortest counterexample = known finding shape)
CONSTANTS Paths = {1}
          NVersions = 3
          Modes = {0, 1, 2}
          MaxActions = 6
          KeyModel = 1
          VStep = {1, 2}
          TimeChoices = {0, 1, 2, 3, 4}
          WithX = TRUE
          EmitOn = FALSE
          Sim = FALSE
INIT Init
NEXT NextAll
INVARIANT TypeOk
INVARIANT FooterFresh
CHECK_DEADLOCK FALSE
