\* Design-level counterexample for the unchanged tree: the as_built client design (Content-Length never
\* looked at) is put in the place of the conforming designs; TLC must find a state violating NoShortBody.
CONSTANTS SLKinds = {1}
          HdrKinds = {1}
          MaxHdrs = 0
          CLVals <- CLValsQuick
          CLNames = {0}
          CLDups <- NoDups
          MaxBody = 2
          BodyByPos = TRUE
          BodyAlpha = {120}
          FragAll = {"end"}
          FragDepth = 0
          StallSL = {1}
          StallFrags = FALSE
          Conforming = {"as_built"}
          Others = {}
INIT Init
NEXT Next
INVARIANT NoShortBody
CHECK_DEADLOCK FALSE
