\* Design-level counterexample for the unchanged tree: the as_built client design (Content-Length never looked at) in the place of the conforming designs; TLC must find a state violating NoShortBody.
CONSTANTS Fams <- FamsTinyCL
          Conforming = {"as_built"}
          Others = {}
INIT Init
NEXT Next
INVARIANT NoShortBody
CHECK_DEADLOCK FALSE
