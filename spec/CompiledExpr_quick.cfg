CONSTANTS Families = {"f64leaf", "intleaf", "decline", "arith", "bool"}
          Variants = {"nulls", "nonull"}
          Impl = "asbuilt"
          Strict = FALSE
          ArithLits = {"nz", "one", "pi", "nan"}
          CmpLits = {"pz", "nan"}
          ArithOps = {"add", "sub", "mul", "div"}
          ArithCmpOps = {"lt", "eq", "ge"}
INIT Init
NEXT Next
INVARIANT Agree
INVARIANT InterpreterNullStrict
INVARIANT Emit
CHECK_DEADLOCK FALSE
