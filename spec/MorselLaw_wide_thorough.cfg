CONSTANTS MaxN = 4
          P = 3
          NKeys = 1
          NVals = 2
          WithNull = TRUE
          Mutant = "none"
          EmitCases = FALSE
INIT Init
NEXT Next
INVARIANT PrefixLaw
INVARIANT Law
INVARIANT Emit
CHECK_DEADLOCK FALSE
