\* (R) random complete behaviours, 2 builder processes + 1 auto-mode reader process, 1 thread each; run with -simulate
CONSTANTS NProcs = 3
          ThreadsPer = 1
          AutoProcs = {3}
          NRg = 2
          Inits = {0, 1, 2}
          Variant = 0
          AtomicRemove = TRUE
          EmitOn = TRUE
          Sim = TRUE
INIT Init
NEXT NextSim
INVARIANT TypeOk
INVARIANT NoPartialRead
INVARIANT NoWrongAnswer
INVARIANT MutualExclusion
INVARIANT LockHeldWhileBuilding
INVARIANT AutoNeverBuilds
INVARIANT Quiescent
INVARIANT NoDeadlock
INVARIANT Emit
CHECK_DEADLOCK FALSE
