CONSTANTS MaxFiles = 3
          MaxActions = 3
          Styles = {0, 11, 22, 30}
          TieAll = FALSE
          EmitOn = TRUE
INIT Init
NEXT Next
INVARIANT LiveIsTruth
INVARIANT LiveNeverDeleted
INVARIANT LiveOnce
INVARIANT RowsExactlyLive
INVARIANT RefusedWhenDue
INVARIANT CurrentDefined
INVARIANT AcceptPinned
INVARIANT UnknownRefused
INVARIANT Bounded
INVARIANT CountsWellFormed
INVARIANT Emit
PROPERTY TimeTravelStable
CHECK_DEADLOCK FALSE
