---- MODULE RowGroupPruning ----
(***************************************************************************)
(* C05 — statistics-based row-group skipping is sound.                     *)
(*                                                                         *)
(* A row group is a bag of rows over two nullable columns a, b of one      *)
(* type.  Values are TOKENS 0..5 (ordered), NULL, and for doubles NaN = 6. *)
(* The harness owns the concretization token -> value (boundary values:    *)
(* +-2^31, 2^53, 2^53+1, -0.0/+0.0, NaN, non-ASCII strings); the spec owns *)
(* only order facts: the token order, which tokens collapse when an int is *)
(* converted to f64 (RoundT), what `as i32` does to a token (TruncT),      *)
(* which tokens are the two zeros.  Those tables are cross-checked against *)
(* the harness's concrete values by the check (PROFILE lines).             *)
(*                                                                         *)
(* Steps (one action each):                                                *)
(*   Write  — the Parquet writer writes the row group and records Stats    *)
(*            (min/max over non-NULL, non-NaN values, zero-adjusted for    *)
(*            doubles; null count)                                         *)
(*   Decide — the pruning decision procedure of storage/row_group_pruning  *)
(*            (Might = row_group_might_match, Def = row_group_definitely_  *)
(*            matches, at the grain of check_comparison / eval_range /     *)
(*            check_i32_stats / definite_comparison)                       *)
(*                                                                         *)
(* CONTRACT (what the property pins), with Eval = SQL three-valued         *)
(* evaluation of the predicate on a row under the engine-defined scalar    *)
(* comparison (Arrow total order: -0.0 < +0.0, NaN greatest; mixed         *)
(* int/float comparisons through f64):                                     *)
(*   PruneSound   : ~Might(rg, p) => no row r of rg has Eval(p, r) = TRUE  *)
(*   AllTrueSound :   Def(rg, p) => every row r has Eval(p, r) = TRUE      *)
(* TLC checks THE MODEL of the as-built code against the contract.  The    *)
(* as-built model breaks it exactly on four named deviations (Sig); with   *)
(* Strict = TRUE the escape is off and TLC prints the counterexample; the  *)
(* Impl = "fixed" procedure satisfies the contract strictly; the mutant    *)
(* Impls are rejected.                                                     *)
(***************************************************************************)
EXTENDS VerifIO, SequencesExt

CONSTANTS Profiles,   \* set of profile names (type.concretization)
          Family,     \* "leaf": single-column leaves x all bags of column a;  "pair": compounds over a, b
          MaxRows,    \* rows per row group 1..MaxRows
          Impl,       \* "asbuilt" | "fixed" | mutants "m_le_strict" "m_not_in" "m_not_between" "m_def_and_or" "m_might_or_and" "m_no_nullguard"
          Strict,     \* TRUE: no deviation escape
          EmitOn,     \* TRUE: print one CASE line per finished (row group, predicate)
          FlipOps,    \* operators also generated with the literal on the left
          SecLits,    \* literal tokens used for the secondary literal types
          BtwToks,    \* tokens used as BETWEEN bounds
          InToks,     \* tokens used in IN lists
          Depth2      \* pair family: also NOT(x AND y), (x AND y) OR z, ...

VARIABLES pc, prof, p, rg, st, res
vars == <<pc, prof, p, rg, st, res>>

NaN == 6
Toks == 0..5
Ops == {"eq", "ne", "lt", "le", "gt", "ge"}

\* ---------------------------------------------------------------- profiles
ProfType(pr) ==
  CASE pr \in {"i32.small", "i32.edge"} -> "i32"
    [] pr \in {"i64.small", "i64.edge", "i64.big53", "i64.wrap32"} -> "i64"
    [] pr \in {"f64.zeros", "f64.plain"} -> "f64"
    [] pr \in {"str.uni", "str.long"} -> "str"
    [] pr \in {"date.small", "date.edge"} -> "date"
IsF(pr) == ProfType(pr) = "f64"
IsInt(pr) == ProfType(pr) \in {"i32", "i64", "date"}
\* class representative of token t after conversion to f64 (tokens with equal image collapse)
RoundT(pr) == CASE pr = "i64.big53" -> <<1, 1, 2, 3, 3, 5>>
                [] pr = "i64.edge" -> <<0, 0, 2, 3, 4, 4>>
                [] OTHER -> <<0, 1, 2, 3, 4, 5>>
RoundOf(pr, t) == IF t = NaN THEN NaN ELSE RoundT(pr)[t + 1]
\* the token whose value `v as i32` is (only used where the image is a token)
TruncT(pr) == CASE pr = "i64.wrap32" -> <<3, 1, 2, 3, 4, 1>>
                [] OTHER -> <<0, 1, 2, 3, 4, 5>>
TruncOf(pr, t) == TruncT(pr)[t + 1]
NegZero(pr) == IF pr = "f64.zeros" THEN 1 ELSE -1
PosZero(pr) == IF pr = "f64.zeros" THEN 2 ELSE -1
Zeros(pr) == IF pr = "f64.zeros" THEN {1, 2} ELSE {}
WideStats(pr) == pr = "str.long"       \* min/max statistics truncated to 64 bytes: below / above every token
StatsKind(pr) == CASE ProfType(pr) \in {"i32", "date"} -> "I32" [] ProfType(pr) = "i64" -> "I64"
                   [] ProfType(pr) = "f64" -> "F64" [] OTHER -> "STR"
OwnLt(pr) == ProfType(pr)
\* literal types generated for the profile besides the column's own, and the tokens a literal of that type can denote
SecTypes(pr) ==
  CASE pr \in {"i32.small", "i32.edge"} -> {"i64", "f64", "date"}
    [] pr = "i64.small" -> {"i32", "f64", "date", "ts"}
    [] pr = "i64.wrap32" -> {"i32", "date", "f64"}
    [] pr \in {"i64.big53", "i64.edge"} -> {"f64"}
    [] pr \in {"f64.zeros", "f64.plain"} -> {"i64", "i32", "f32"}
    [] pr = "date.small" -> {"i32", "i64", "str"}
    [] pr = "date.edge" -> {"i32", "i64"}                     \* the extremes of Date32 have no ISO text
    [] OTHER -> {}
LitToks(pr, lt) ==
  CASE IsF(pr) /\ lt = "f64" -> Toks \cup {NaN}
    [] IsF(pr) /\ lt = "f32" -> (IF pr = "f64.plain" THEN Toks \ {5} ELSE Toks) \cup {NaN}      \* 1e300 is not an f32
    [] IsF(pr) /\ lt \in {"i64", "i32"} -> (IF pr = "f64.zeros" THEN {2, 4} ELSE {1, 3})
    [] pr = "i64.wrap32" /\ lt \in {"i32", "date"} -> {1, 2, 3, 4}
    [] OTHER -> Toks

\* ---------------------------------------------------------------- scalar comparison tables
CmpTotal(op, a, b) == CASE op = "eq" -> a = b [] op = "ne" -> a # b [] op = "lt" -> a < b
                        [] op = "le" -> a <= b [] op = "gt" -> a > b [] op = "ge" -> a >= b
Unord(a, b) == a = NaN \/ b = NaN
ZeroPair(pr, a, b) == a \in Zeros(pr) /\ b \in Zeros(pr)
EqIeee(pr, a, b) == ~Unord(a, b) /\ (a = b \/ ZeroPair(pr, a, b))
LtIeee(pr, a, b) == ~Unord(a, b) /\ a < b /\ ~ZeroPair(pr, a, b)
CmpIEEE(pr, op, a, b) == CASE op = "eq" -> EqIeee(pr, a, b) [] op = "ne" -> ~EqIeee(pr, a, b)
                           [] op = "lt" -> LtIeee(pr, a, b) [] op = "le" -> LtIeee(pr, a, b) \/ EqIeee(pr, a, b)
                           [] op = "gt" -> LtIeee(pr, b, a) [] op = "ge" -> LtIeee(pr, b, a) \/ EqIeee(pr, a, b)
FlipOp(op) == CASE op = "lt" -> "gt" [] op = "le" -> "ge" [] op = "gt" -> "lt" [] op = "ge" -> "le" [] OTHER -> op
EffOp(op, flip) == IF flip = 1 THEN FlipOp(op) ELSE op

\* ---------------------------------------------------------------- SQL three-valued Eval (the contract's oracle)
And3(x, y) == IF x = 0 \/ y = 0 THEN 0 ELSE IF x = NULL \/ y = NULL THEN NULL ELSE 1
Or3(x, y) == IF x = 1 \/ y = 1 THEN 1 ELSE IF x = NULL \/ y = NULL THEN NULL ELSE 0
Not3(x) == IF x = NULL THEN NULL ELSE 1 - x
B(x) == IF x THEN 1 ELSE 0
Col(row, c) == row[c]
\* col <op> literal in the engine-defined comparison: exact on same-kind operands, through f64 as soon as one side is a float
CmpVal(pr, lt, op, v, l) ==
  IF v = NULL THEN NULL
  ELSE LET useF == IsF(pr) \/ lt \in {"f64", "f32"}
           a == IF useF THEN RoundOf(pr, v) ELSE v
           b == IF useF THEN RoundOf(pr, l) ELSE l
       IN B(CmpTotal(op, a, b))
RECURSIVE OrEq(_, _, _, _, _)
OrEq(pr, lt, v, ls, i) == IF i > Len(ls) THEN 0 ELSE Or3(CmpVal(pr, lt, "eq", v, ls[i]), OrEq(pr, lt, v, ls, i + 1))
RECURSIVE Eval(_, _, _)
Eval(pr, q, row) ==
  CASE q.k = "cmp" -> CmpVal(pr, q.lt, EffOp(q.op, q.flip), Col(row, q.c), q.l)
    [] q.k = "btw" -> LET v == Col(row, q.c)
                          x == And3(CmpVal(pr, q.lt, "ge", v, q.l), CmpVal(pr, q.lt, "le", v, q.l2))
                      IN IF q.neg = 1 THEN Not3(x) ELSE x
    [] q.k = "in" -> LET x == OrEq(pr, q.lt, Col(row, q.c), q.ls, 1) IN IF q.neg = 1 THEN Not3(x) ELSE x
    [] q.k = "not" -> Not3(Eval(pr, q.a, row))
    [] q.k = "and" -> And3(Eval(pr, q.a, row), Eval(pr, q.b, row))
    [] q.k = "or" -> Or3(Eval(pr, q.a, row), Eval(pr, q.b, row))

\* ---------------------------------------------------------------- what the writer records
ColVals(rows, c) == {rows[i][c] : i \in DOMAIN rows}
MinS(S) == CHOOSE x \in S : \A y \in S : x <= y
MaxS(S) == CHOOSE x \in S : \A y \in S : x >= y
ColStats(pr, rows, c) ==
  LET vs == {v \in ColVals(rows, c) : v # NULL /\ v # NaN}
      nulls == Cardinality({i \in DOMAIN rows : rows[i][c] = NULL})
  IN IF vs = {} THEN [has |-> 0, min |-> 0, max |-> 0, nulls |-> nulls]
     ELSE IF WideStats(pr) THEN [has |-> 1, min |-> -1, max |-> 7, nulls |-> nulls]
     ELSE [has |-> 1,
           min |-> IF MinS(vs) = PosZero(pr) THEN NegZero(pr) ELSE MinS(vs),    \* the writer widens a zero bound
           max |-> IF MaxS(vs) = NegZero(pr) THEN PosZero(pr) ELSE MaxS(vs),
           nulls |-> nulls]
StatsOf(pr, rows) == <<ColStats(pr, rows, 1), ColStats(pr, rows, 2)>>

\* ---------------------------------------------------------------- the decision procedure, as built
\* eval_range / eval_range_i32 / eval_range_str: exact order on the statistics' own type
ExactRange(op, v, mn, mx) ==
  CASE op = "eq" -> mn <= v /\ v <= mx
    [] op = "ne" -> ~(mn = v /\ mx = v)
    [] op = "lt" -> (IF Impl = "m_lt_le" THEN mn <= v ELSE mn < v)
    [] op = "le" -> (IF Impl = "m_le_strict" THEN mn < v ELSE mn <= v)
    [] op = "gt" -> mx > v
    [] op = "ge" -> mx >= v
\* eval_range_f64: PartialOrd on f64
IeeeRange(pr, op, v, mn, mx) ==
  CASE op = "eq" -> CmpIEEE(pr, "le", mn, v) /\ CmpIEEE(pr, "le", v, mx)
    [] op = "ne" -> ~(EqIeee(pr, mn, v) /\ EqIeee(pr, mx, v))
    [] op = "lt" -> CmpIEEE(pr, "lt", mn, v)
    [] op = "le" -> CmpIEEE(pr, "le", mn, v)
    [] op = "gt" -> CmpIEEE(pr, "gt", mx, v)
    [] op = "ge" -> CmpIEEE(pr, "ge", mx, v)
\* check_comparison -> check_i64_stats / check_i32_stats / check_f64_stats / check_utf8_stats
CheckAsBuilt(pr, c, op, lt, l, s) ==
  LET k == StatsKind(pr) IN
  IF s[c].has = 0 THEN TRUE
  ELSE CASE lt \in {"i64", "ts"} -> (IF k \in {"I64", "I32"} THEN ExactRange(op, l, s[c].min, s[c].max) ELSE TRUE)
         [] lt \in {"i32", "date"} -> (IF k = "I32" THEN ExactRange(op, l, s[c].min, s[c].max)
                                       ELSE IF k = "I64" THEN ExactRange(op, l, TruncOf(pr, s[c].min), TruncOf(pr, s[c].max))   \* `as i32`
                                       ELSE TRUE)
         [] lt \in {"f64", "f32"} -> (IF k = "F64" THEN IeeeRange(pr, op, l, s[c].min, s[c].max) ELSE TRUE)
         [] lt = "str" -> (IF k = "STR" THEN ExactRange(op, l, s[c].min, s[c].max) ELSE TRUE)
\* definite_comparison: everything through f64, PartialOrd; needs null_count = 0
DefAsBuilt(pr, c, op, lt, l, s) ==
  /\ s[c].has = 1
  /\ (Impl = "m_no_nullguard" \/ s[c].nulls = 0)
  /\ StatsKind(pr) \in {"I64", "I32", "F64"}
  /\ lt \in {"i64", "i32", "date", "f64", "ts"}
  /\ LET mn == RoundOf(pr, s[c].min)
         mx == RoundOf(pr, s[c].max)
         v == RoundOf(pr, l)
     IN CASE op = "lt" -> CmpIEEE(pr, "lt", mx, v) [] op = "le" -> CmpIEEE(pr, "le", mx, v)
          [] op = "gt" -> CmpIEEE(pr, "gt", mn, v) [] op = "ge" -> CmpIEEE(pr, "ge", mn, v)
          [] op = "eq" -> EqIeee(pr, mn, v) /\ EqIeee(pr, mx, v)
          [] op = "ne" -> CmpIEEE(pr, "lt", v, mn) \/ CmpIEEE(pr, "gt", v, mx)

\* ---------------------------------------------------------------- the suggested repair (Impl = "fixed")
\* compare in the predicate's own order: exact integers (no `as i32`, no f64 detour for int-vs-int), total order on
\* doubles with the upper bound taken as NaN (the statistics cannot exclude a NaN row, and NaN is the greatest value).
FixCmpable(pr, lt) == \/ IsInt(pr) /\ lt \in {"i64", "i32", "date", "ts", "f64", "f32"}
                      \/ IsF(pr) /\ lt \in {"f64", "f32", "i64", "i32"}
                      \/ ProfType(pr) = "str" /\ lt = "str"
FixBounds(pr, lt, s, c) ==
  LET useF == IsF(pr) \/ lt \in {"f64", "f32"}
  IN [mn |-> IF useF THEN RoundOf(pr, s[c].min) ELSE s[c].min,
      mx |-> IF IsF(pr) THEN NaN ELSE IF useF THEN RoundOf(pr, s[c].max) ELSE s[c].max]
CheckFixed(pr, c, op, lt, l, s) ==
  IF s[c].has = 0 \/ ~FixCmpable(pr, lt) THEN TRUE
  ELSE LET bd == FixBounds(pr, lt, s, c)
           v == IF IsF(pr) \/ lt \in {"f64", "f32"} THEN RoundOf(pr, l) ELSE l
       IN ExactRange(op, v, bd.mn, bd.mx)
DefFixed(pr, c, op, lt, l, s) ==
  /\ s[c].has = 1 /\ s[c].nulls = 0 /\ FixCmpable(pr, lt) /\ ~WideStats(pr)
  /\ LET bd == FixBounds(pr, lt, s, c)
         v == IF IsF(pr) \/ lt \in {"f64", "f32"} THEN RoundOf(pr, l) ELSE l
     IN CASE op = "lt" -> bd.mx < v [] op = "le" -> bd.mx <= v [] op = "gt" -> bd.mn > v [] op = "ge" -> bd.mn >= v
          [] op = "eq" -> bd.mn = v /\ bd.mx = v [] op = "ne" -> v < bd.mn \/ v > bd.mx

CheckCmp(pr, c, op, lt, l, s) == IF Impl = "fixed" THEN CheckFixed(pr, c, op, lt, l, s) ELSE CheckAsBuilt(pr, c, op, lt, l, s)
DefCmp(pr, c, op, lt, l, s) == IF Impl = "fixed" THEN DefFixed(pr, c, op, lt, l, s) ELSE DefAsBuilt(pr, c, op, lt, l, s)

RECURSIVE Might(_, _, _), Def(_, _, _)
\* row_group_might_match
Might(pr, q, s) ==
  CASE q.k = "cmp" -> CheckCmp(pr, q.c, EffOp(q.op, q.flip), q.lt, q.l, s)
    [] q.k = "btw" -> (IF q.neg = 1
                         THEN (IF Impl = "m_not_between" THEN ~(CheckCmp(pr, q.c, "ge", q.lt, q.l, s) /\ CheckCmp(pr, q.c, "le", q.lt, q.l2, s)) ELSE TRUE)
                         ELSE CheckCmp(pr, q.c, "ge", q.lt, q.l, s) /\ CheckCmp(pr, q.c, "le", q.lt, q.l2, s))
    [] q.k = "in" -> (IF q.neg = 1
                        THEN (IF Impl = "m_not_in" THEN ~(\E i \in DOMAIN q.ls : CheckCmp(pr, q.c, "eq", q.lt, q.ls[i], s)) ELSE TRUE)
                        ELSE \E i \in DOMAIN q.ls : CheckCmp(pr, q.c, "eq", q.lt, q.ls[i], s))
    [] q.k = "not" -> ~Def(pr, q.a, s)
    [] q.k = "and" -> Might(pr, q.a, s) /\ Might(pr, q.b, s)
    [] q.k = "or" -> (IF Impl = "m_might_or_and" THEN Might(pr, q.a, s) /\ Might(pr, q.b, s) ELSE Might(pr, q.a, s) \/ Might(pr, q.b, s))
\* row_group_definitely_matches
Def(pr, q, s) ==
  CASE q.k = "cmp" -> DefCmp(pr, q.c, EffOp(q.op, q.flip), q.lt, q.l, s)
    [] q.k = "btw" -> (IF q.neg = 1 THEN FALSE ELSE DefCmp(pr, q.c, "ge", q.lt, q.l, s) /\ DefCmp(pr, q.c, "le", q.lt, q.l2, s))
    [] q.k = "in" -> FALSE
    [] q.k = "not" -> FALSE
    [] q.k = "and" -> (IF Impl = "m_def_and_or" THEN Def(pr, q.a, s) \/ Def(pr, q.b, s) ELSE Def(pr, q.a, s) /\ Def(pr, q.b, s))
    [] q.k = "or" -> Def(pr, q.a, s) \/ Def(pr, q.b, s)

\* ---------------------------------------------------------------- named deviations of the as-built code (signatures)
\* leaf-level: column c compared with literal l of type lt over the values the row group holds in c
LeafSig(pr, rows, c, lt, l) ==
  LET vs == ColVals(rows, c) \ {NULL} IN
  (IF IsF(pr) /\ (NaN \in vs \/ l = NaN) THEN {"nan"} ELSE {})
  \cup (IF IsF(pr) /\ l \in Zeros(pr) /\ (\E v \in vs : v \in Zeros(pr) /\ v # l) THEN {"zero"} ELSE {})
  \cup (IF IsInt(pr) /\ lt \in {"i64", "i32", "date", "ts"} /\ (\E v \in vs : v # l /\ RoundOf(pr, v) = RoundOf(pr, l)) THEN {"f64round"} ELSE {})
  \cup (IF ProfType(pr) = "i64" /\ lt \in {"i32", "date"} /\ (\E v \in vs : TruncOf(pr, v) # v) THEN {"trunc32"} ELSE {})
RECURSIVE Sig(_, _, _)
Sig(pr, q, rows) ==
  CASE q.k = "cmp" -> LeafSig(pr, rows, q.c, q.lt, q.l)
    [] q.k = "btw" -> LeafSig(pr, rows, q.c, q.lt, q.l) \cup LeafSig(pr, rows, q.c, q.lt, q.l2)
    [] q.k = "in" -> UNION {LeafSig(pr, rows, q.c, q.lt, q.ls[i]) : i \in DOMAIN q.ls}
    [] q.k = "not" -> Sig(pr, q.a, rows)
    [] OTHER -> Sig(pr, q.a, rows) \cup Sig(pr, q.b, rows)

\* ---------------------------------------------------------------- families
SeqSet(S) == {<<x>> : x \in S} \cup {s \in S \X S : s[1] < s[2]}   \* IN lists of 1..2 distinct tokens
CmpOf(c, opset, lt, ltoks, flips) == [k : {"cmp"}, c : {c}, op : opset, lt : {lt}, l : ltoks, flip : flips]
LeafPreds(pr) ==
  LET own == OwnLt(pr) IN
  CmpOf(1, Ops, own, LitToks(pr, own), {0})
  \cup CmpOf(1, FlipOps, own, LitToks(pr, own), {1})
  \cup UNION {CmpOf(1, Ops, lt, LitToks(pr, lt) \cap (SecLits \cup {NaN}), {0}) : lt \in SecTypes(pr)}
  \cup UNION {CmpOf(1, FlipOps, lt, LitToks(pr, lt) \cap SecLits, {1}) : lt \in SecTypes(pr)}
  \cup [k : {"btw"}, c : {1}, lt : {own}, l : BtwToks, l2 : BtwToks, neg : {0, 1}]
  \cup [k : {"in"}, c : {1}, lt : {own}, ls : SeqSet(InToks), neg : {0, 1}]
\* the small alphabet of the pair family: two tokens that are interesting for the profile, and NULL
PairToks(pr) == CASE pr = "f64.zeros" -> {1, 2} [] pr = "i64.big53" -> {3, 4} [] pr = "i64.wrap32" -> {3, 5} [] OTHER -> {1, 4}
PairLeaves(pr) ==
  LET own == OwnLt(pr) IN
  CmpOf(1, {"lt", "ge", "eq"}, own, PairToks(pr), {0})
  \cup CmpOf(2, {"gt", "le", "ne"}, own, PairToks(pr), {0})
  \cup [k : {"btw"}, c : {1}, lt : {own}, l : {MinS(PairToks(pr))}, l2 : {MaxS(PairToks(pr))}, neg : {0}]
  \cup [k : {"in"}, c : {2}, lt : {own}, ls : {<<MinS(PairToks(pr))>>}, neg : {0, 1}]
Bin(A, Bs) == [k : {"and", "or"}, a : A, b : Bs]
NotOf(A) == [k : {"not"}, a : A]
PairPreds(pr) ==
  LET L == PairLeaves(pr)
      L2 == {q \in L : q.k = "cmp" /\ q.op \in {"lt", "le", "ge"}}     \* a small sub-alphabet for depth 2
      LA == {q \in L : q.c = 1}
  IN NotOf(L) \cup Bin(LA, L)
     \cup (IF Depth2 THEN NotOf(Bin(L2, L2)) \cup Bin(Bin(L2, L2), L2) \cup Bin(NotOf(L2), L2) ELSE {})
Preds(pr) == IF Family = "leaf" THEN LeafPreds(pr) ELSE PairPreds(pr)

\* bags of rows = non-decreasing sequences of row codes
ADom(pr) == Toks \cup {NULL} \cup (IF IsF(pr) THEN {NaN} ELSE {})
PDom(pr) == PairToks(pr) \cup {NULL} \cup (IF IsF(pr) /\ Depth2 THEN {NaN} ELSE {})
RowSet(pr) == IF Family = "leaf" THEN {<<a, 1>> : a \in ADom(pr)} ELSE {<<a, b>> : a \in PDom(pr), b \in PDom(pr)}
Idx(v) == IF v = NULL THEN 7 ELSE v
Code(r) == Idx(r[1]) * 8 + Idx(r[2])
RowGroups(pr) ==
  LET RS == RowSet(pr) IN
  UNION {{s \in [1..n -> RS] : \A i \in 1..(n - 1) : Code(s[i]) <= Code(s[i + 1])} : n \in 1..MaxRows}

\* ---------------------------------------------------------------- the state machine
NoStats == <<[has |-> 0, min |-> 0, max |-> 0, nulls |-> 0], [has |-> 0, min |-> 0, max |-> 0, nulls |-> 0]>>
Init == /\ prof \in Profiles
        /\ p \in Preds(prof)
        /\ pc = "write" /\ rg = <<>> /\ st = NoStats /\ res = [pruned |-> 0, alltrue |-> 0]
Write == /\ pc = "write"
         /\ \E rows \in RowGroups(prof) : rg' = rows /\ st' = StatsOf(prof, rows)
         /\ pc' = "decide"
         /\ UNCHANGED <<prof, p, res>>
Decide == /\ pc = "decide"
          /\ res' = [pruned |-> B(~Might(prof, p, st)), alltrue |-> B(Def(prof, p, st))]
          /\ pc' = "done"
          /\ UNCHANGED <<prof, p, rg, st>>
Next == Write \/ Decide

\* ---------------------------------------------------------------- the property
Evs == [i \in DOMAIN rg |-> Eval(prof, p, rg[i])]
NoRowTrue == \A i \in DOMAIN rg : Eval(prof, p, rg[i]) # 1
AllRowsTrue == \A i \in DOMAIN rg : Eval(prof, p, rg[i]) = 1
Excused == ~Strict /\ Sig(prof, p, rg) # {}
PruneSound == (pc = "done" /\ res.pruned = 1) => (NoRowTrue \/ Excused)
AllTrueSound == (pc = "done" /\ res.alltrue = 1) => (AllRowsTrue \/ Excused)
\* sanity of the model itself: statistics are bounds of what was written
StatsAreBounds == pc # "write" =>
   \A c \in {1, 2} : /\ st[c].nulls = Cardinality({i \in DOMAIN rg : rg[i][c] = NULL})
                     /\ st[c].has = 1 => \A v \in ColVals(rg, c) \ {NULL, NaN} : st[c].min <= v /\ v <= st[c].max
Bad == IF res.pruned = 1 /\ ~NoRowTrue THEN 1 ELSE IF res.alltrue = 1 /\ ~AllRowsTrue THEN 2 ELSE 0
Emit == (pc = "done" /\ EmitOn) =>
   EmitCase([prof |-> prof, p |-> p, rg |-> rg, pr |-> res.pruned, at |-> res.alltrue, ev |-> Evs,
             sig |-> SetToSeq(Sig(prof, p, rg)), bad |-> Bad, st |-> st])
\* the order tables the harness must agree with (printed once per profile)
ProfileLine(pr) == [prof |-> pr, type |-> ProfType(pr), round |-> RoundT(pr), trunc |-> TruncT(pr),
                    negzero |-> NegZero(pr), poszero |-> PosZero(pr), wide |-> B(WideStats(pr))]
ASSUME \A pr \in Profiles : EmitTag("PROFILE", ProfileLine(pr))
====
