CONSTANTS Fam = "answers"
          MaxN = 5
          NTab = 1
          Syms <- SymsTiny
          Ks <- KsAll
          Ms <- MsAll
          EmitMod = 17
          Gate = "asbuilt"
INIT Init
NEXT Next
INVARIANT FiresOnlyOnCanonical
INVARIANT ExactWhenAsked
INVARIANT AcceptLaws
INVARIANT Emit
CHECK_DEADLOCK FALSE
