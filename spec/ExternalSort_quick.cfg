CONSTANTS MaxRows = 3
          MaxBatches = 3
          NKeyVals = 2
          NKeys = 1
          SpecCodes = {0, 1, 2, 3}
          SplitFanIns = {8}
          Singles = {809, 810, 203, 204, 205}
          Fetches = {99, 2}
          NoFetch = 99
          AllowEmpty = FALSE
          EmitMod = 1
          MergeCmp = "spec"
          CleanupCarried = TRUE
INIT Init
NEXT Next
INVARIANT GenConserves
INVARIANT PassConserves
INVARIANT RunsSorted
INVARIANT RunShape
INVARIANT AtDone
INVARIANT Emit
CHECK_DEADLOCK FALSE
