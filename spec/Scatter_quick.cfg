CONSTANTS
  MaxN = 3
  GatherMaxN = 2
  Shapes = {"scatter", "gather"}
  MaxFaults = 2
  Batches = 1
  Mutants = {"none", "short_stream", "filter_ok", "retry_local", "http_empty", "ignore_decode", "skip_digest"}
  MutMaxN = 2
  MutShapes = {"scatter"}
INIT Init
NEXT Next
INVARIANT TypeOK
INVARIANT NoPartial
INVARIANT AnyFault
INVARIANT Contract
INVARIANT FaultFreeAnswers
INVARIANT NothingBeforeAll
INVARIANT BlameIsGuilty
INVARIANT Emit
INVARIANT ContractDev
INVARIANT Kill
CHECK_DEADLOCK TRUE
