CONSTANTS
  MaxN = 3
  GatherMaxN = 2
  Shapes = {"scatter", "gather"}
  MaxFaults = 2
  Batches = 1
  Mutants = {"none"}
INIT Init
NEXT Next
INVARIANT TypeOK
INVARIANT NoPartial
INVARIANT AnyFault
INVARIANT Contract
INVARIANT FaultFreeAnswers
INVARIANT NothingBeforeAll
INVARIANT BlameIsGuilty
INVARIANT Emit
CHECK_DEADLOCK TRUE
