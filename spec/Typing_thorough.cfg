CONSTANTS B = 4
          Tier = "thorough"
          Mut = "none"
INIT Init
NEXT Next
INVARIANT Functional
INVARIANT SubtreesTyped
INVARIANT BranchOrder
INVARIANT BranchesWiden
INVARIANT AltsTotal
CHECK_DEADLOCK FALSE
INVARIANT Emit
