---- MODULE SqlSem ----
(***************************************************************************)
(* Standard-SQL semantics of SELECT statements over small integer-coded    *)
(* databases: the oracle the SQL properties (C01 C02 C04 C07 C08 C09 C21-   *)
(* C28 C43-C45 ...) are judged by.                                         *)
(*                                                                         *)
(* Values are integers or NULL.  Types are a labelling kept by the harness *)
(* (BIGINT/INTEGER as is, DOUBLE in units of 1/2, VARCHAR as order-        *)
(* preserving dictionary codes, DATE as day numbers, BOOLEAN as 0/1), so   *)
(* the semantics is type-agnostic relational algebra with three-valued     *)
(* logic.  Expressions and statements are JSON-shaped records with a tag   *)
(* field "k"; column references are resolved to (depth, index) by the      *)
(* generator.                                                              *)
(*                                                                         *)
(* env = [db, outer, ctes, dict, dev]                                      *)
(*   db    : table name -> [rows : Seq(row)]                               *)
(*   outer : stack of outer rows for correlated subqueries (1 = nearest)   *)
(*   ctes  : sequence of <<name, rows>> (nearest definition first)         *)
(*   dict  : string code + 1 -> sequence of character codes (for LIKE)     *)
(*   dev   : set of named deviations (known engine defects), {} = ideal    *)
(***************************************************************************)
EXTENDS Integers, Sequences, FiniteSets, TLC, SequencesExt

NULL == -1073741824
AVGSCALE == 720720          \* lcm(1..16): AVG over <=16 integer inputs is exact at this scale
B(x) == IF x THEN 1 ELSE 0

Min2(a, b) == IF a <= b THEN a ELSE b
Max2(a, b) == IF a >= b THEN a ELSE b

RECURSIVE SumS(_)
SumS(s) == IF s = <<>> THEN 0 ELSE Head(s) + SumS(Tail(s))

RECURSIVE Flat(_)
Flat(ss) == IF ss = <<>> THEN <<>> ELSE Head(ss) \o Flat(Tail(ss))

NullRow(n) == [i \in 1..n |-> NULL]

\* ------------------------------------------------------------------ 3VL ----
And3(a, b) == IF a = 0 \/ b = 0 THEN 0 ELSE IF a = NULL \/ b = NULL THEN NULL ELSE 1
Or3(a, b)  == IF a = 1 \/ b = 1 THEN 1 ELSE IF a = NULL \/ b = NULL THEN NULL ELSE 0
Not3(a)    == IF a = NULL THEN NULL ELSE 1 - a
\* deviation "StrictBool": AND/OR are NULL whenever an operand is NULL
StrictAnd(a, b) == IF a = NULL \/ b = NULL THEN NULL ELSE B(a = 1 /\ b = 1)
StrictOr(a, b)  == IF a = NULL \/ b = NULL THEN NULL ELSE B(a = 1 \/ b = 1)
AndD(dev, a, b) == IF "StrictBool" \in dev THEN StrictAnd(a, b) ELSE And3(a, b)
OrD(dev, a, b)  == IF "StrictBool" \in dev THEN StrictOr(a, b) ELSE Or3(a, b)

Cmp3(op, a, b) ==
  IF a = NULL \/ b = NULL THEN NULL
  ELSE CASE op = "=" -> B(a = b) [] op = "<>" -> B(a # b) [] op = "<" -> B(a < b)
         [] op = "<=" -> B(a <= b) [] op = ">" -> B(a > b) [] op = ">=" -> B(a >= b)

Arith(op, a, b) ==
  IF a = NULL \/ b = NULL THEN NULL
  ELSE CASE op = "+" -> a + b [] op = "-" -> a - b [] op = "*" -> a * b

\* LIKE over character-code sequences; -1 = '%', -2 = '_'
RECURSIVE LikeM(_, _)
LikeM(s, p) ==
  IF p = <<>> THEN s = <<>>
  ELSE IF Head(p) = -1 THEN LikeM(s, Tail(p)) \/ (s # <<>> /\ LikeM(Tail(s), p))
  ELSE IF s = <<>> THEN FALSE
  ELSE IF Head(p) = -2 \/ Head(p) = Head(s) THEN LikeM(Tail(s), Tail(p))
  ELSE FALSE

\* --------------------------------------------------------------- bags -------
Mult(bag, r) == Cardinality({i \in DOMAIN bag : bag[i] = r})
BagEq(a, b)  == Len(a) = Len(b) /\ \A i \in DOMAIN a : Mult(a, a[i]) = Mult(b, a[i])
SubBagOf(a, b) == \A i \in DOMAIN a : Mult(a, a[i]) <= Mult(b, a[i])

RECURSIVE DistinctSeq(_)
DistinctSeq(s) == IF s = <<>> THEN <<>>
                  ELSE LET t == DistinctSeq(Tail(s)) IN
                       IF \E i \in DOMAIN t : t[i] = Head(s) THEN t ELSE <<Head(s)>> \o t

\* deviation "DistinctKeepsNulls": rows containing a NULL are never merged
DistinctD(dev, s) ==
  IF "DistinctKeepsNulls" \in dev
  THEN LET hasNull(r) == \E j \in DOMAIN r : r[j] = NULL IN
       DistinctSeq(SelectSeq(s, LAMBDA r : ~hasNull(r))) \o SelectSeq(s, hasNull)
  ELSE DistinctSeq(s)

RECURSIVE TakeN(_, _, _)     \* keep at most n copies of r
TakeN(s, r, n) == IF s = <<>> THEN <<>>
                  ELSE IF Head(s) = r THEN (IF n > 0 THEN <<r>> \o TakeN(Tail(s), r, n - 1) ELSE TakeN(Tail(s), r, 0))
                  ELSE <<Head(s)>> \o TakeN(Tail(s), r, n)

SetOp(dev, op, all, L, R) ==
  LET keys == DistinctSeq(L \o R)
      cnt(r) == CASE op = "union" -> IF all = 1 THEN Mult(L, r) + Mult(R, r) ELSE 1
                  [] op = "intersect" -> IF all = 1 THEN Min2(Mult(L, r), Mult(R, r))
                                          ELSE B(Mult(L, r) > 0 /\ Mult(R, r) > 0)
                  [] op = "except" -> IF all = 1 THEN Max2(Mult(L, r) - Mult(R, r), 0)
                                       ELSE B(Mult(L, r) > 0 /\ Mult(R, r) = 0)
      \* deviation "SetOpJoin": INTERSECT/EXCEPT as semi/anti join on all columns:
      \* a row with a NULL never matches; ALL is ignored; left duplicates are kept
      hasNull(r) == \E j \in DOMAIN r : r[j] = NULL
      matchJ(r) == ~hasNull(r) /\ Mult(R, r) > 0
      dd(s) == IF all = 1 THEN s ELSE DistinctD(dev, s)
  IN IF "SetOpJoin" \in dev /\ op = "intersect" THEN dd(SelectSeq(L, matchJ))
     ELSE IF "SetOpJoin" \in dev /\ op = "except" THEN dd(SelectSeq(L, LAMBDA r : ~matchJ(r)))
     ELSE IF "DistinctKeepsNulls" \in dev /\ op = "union" /\ all = 0 THEN DistinctD(dev, L \o R)
     ELSE Flat([i \in DOMAIN keys |-> [j \in 1..cnt(keys[i]) |-> keys[i]]])

\* ------------------------------------------------------------ ordering ------
BIG == 2000000000
Rank(v, it) == IF v = NULL THEN (IF it.nf = 1 THEN -BIG ELSE BIG)
               ELSE IF it.desc = 1 THEN 0 - v ELSE v
RECURSIVE LexLt(_, _)
LexLt(a, b) == IF a = <<>> THEN FALSE
               ELSE IF Head(a) < Head(b) THEN TRUE
               ELSE IF Head(a) > Head(b) THEN FALSE
               ELSE LexLt(Tail(a), Tail(b))

\* ------------------------------------------------------------ evaluator -----
RECURSIVE EvalE(_, _, _), Core(_, _), Answer(_, _), FromRows(_, _), GroupRows(_, _, _), AggVal(_, _, _), CteRows(_, _)

Push(env, row) == [env EXCEPT !.outer = <<row>> \o env.outer]

InList(e, row, env) ==
  LET a == EvalE(e.a, row, env)
      vs == [i \in DOMAIN e.list |-> Cmp3("=", a, EvalE(e.list[i], row, env))]
      RECURSIVE Fold(_)
      Fold(s) == IF s = <<>> THEN 0 ELSE OrD(env.dev, Head(s), Fold(Tail(s)))
      r == Fold(vs)
  IN IF e.neg = 1 THEN Not3(r) ELSE r

InSub(e, row, env) ==
  LET a == EvalE(e.a, row, env)
      rs == Answer(e.q, Push(env, row))
      vals == [i \in DOMAIN rs |-> rs[i][1]]
      RECURSIVE Fold(_)
      Fold(s) == IF s = <<>> THEN 0 ELSE Or3(Cmp3("=", a, Head(s)), Fold(Tail(s)))
      ideal == Fold(vals)
      \* deviation "InSubSkipsNull": NULLs in the subquery result are skipped and a NULL
      \* probe value yields FALSE (so NOT IN keeps the row)
      skip == IF a = NULL THEN 0
              ELSE B(\E i \in DOMAIN vals : vals[i] # NULL /\ vals[i] = a)
      r == IF "InSubSkipsNull" \in env.dev THEN skip ELSE ideal
  IN IF e.neg = 1 THEN Not3(r) ELSE r

CaseE(e, row, env) ==
  LET RECURSIVE Pick(_)
      Pick(ws) == IF ws = <<>> THEN EvalE(e.els, row, env)
                  ELSE IF EvalE(Head(ws)[1], row, env) = 1 THEN EvalE(Head(ws)[2], row, env)
                  ELSE Pick(Tail(ws))
  IN Pick(e.whens)

CoalesceE(e, row, env) ==
  LET RECURSIVE Pick(_)
      Pick(as) == IF as = <<>> THEN NULL
                  ELSE LET v == EvalE(Head(as), row, env) IN IF v # NULL THEN v ELSE Pick(Tail(as))
  IN Pick(e.args)

EvalE(e, row, env) ==
  CASE e.k = "col" -> IF e.d = 0 THEN row[e.i] ELSE env.outer[e.d][e.i]
    [] e.k = "lit" -> e.v
    [] e.k = "cmp" -> Cmp3(e.op, EvalE(e.a, row, env), EvalE(e.b, row, env))
    [] e.k = "and" -> AndD(env.dev, EvalE(e.a, row, env), EvalE(e.b, row, env))
    [] e.k = "or"  -> OrD(env.dev, EvalE(e.a, row, env), EvalE(e.b, row, env))
    [] e.k = "not" -> Not3(EvalE(e.a, row, env))
    [] e.k = "isnull" -> LET v == EvalE(e.a, row, env) IN IF e.neg = 1 THEN B(v # NULL) ELSE B(v = NULL)
    [] e.k = "in" -> InList(e, row, env)
    [] e.k = "between" ->
         LET a == EvalE(e.a, row, env)
             r == AndD(env.dev, Cmp3(">=", a, EvalE(e.lo, row, env)), Cmp3("<=", a, EvalE(e.hi, row, env)))
         IN IF e.neg = 1 THEN Not3(r) ELSE r
    [] e.k = "arith" -> Arith(e.op, EvalE(e.a, row, env), EvalE(e.b, row, env))
    [] e.k = "neg" -> LET v == EvalE(e.a, row, env) IN IF v = NULL THEN NULL ELSE 0 - v
    [] e.k = "case" -> CaseE(e, row, env)
    [] e.k = "coalesce" -> CoalesceE(e, row, env)
    [] e.k = "nullif" -> LET a == EvalE(e.a, row, env) b == EvalE(e.b, row, env)
                         IN IF a # NULL /\ b # NULL /\ a = b THEN NULL ELSE a
    [] e.k = "like" -> LET v == EvalE(e.a, row, env)
                           r == IF v = NULL THEN NULL ELSE B(LikeM(env.dict[v + 1], e.pat))
                       IN IF e.neg = 1 THEN Not3(r) ELSE r
    [] e.k = "exists" -> LET n == Len(Answer(e.q, Push(env, row)))
                         IN IF e.neg = 1 THEN B(n = 0) ELSE B(n > 0)
    [] e.k = "insub" -> InSub(e, row, env)
    [] e.k = "scalar" -> LET rs == Answer(e.q, Push(env, row))
                         IN IF rs = <<>> THEN NULL ELSE rs[1][1]   \* >1 row is an error: see ScalarCard
    [] e.k = "grouping" ->     \* GROUPING(c1..cn): bit i set iff key ci is absent in this grouping set
         LET mask == row[Len(row)]      \* the group row carries its absent-key set as its last column (bitmask over key positions)
             bit(kx) == (mask \div (2 ^ (kx - 1))) % 2
             n == Len(e.keys)
         IN SumS([j \in 1..n |-> bit(e.keys[j]) * (2 ^ (n - j))])

\* ------------------------------------------------------------- aggregates ---
AggVal(a, rows, env) ==
  LET vals0 == [i \in DOMAIN rows |-> IF a.f = "count*" THEN 1 ELSE EvalE(a.a, rows[i], env)]
      nn == SelectSeq(vals0, LAMBDA v : v # NULL)
      vals == IF a.distinct = 1 THEN DistinctSeq(nn) ELSE nn
      n == Len(vals)
      RECURSIVE MinS(_), MaxS(_)
      MinS(s) == IF Len(s) = 1 THEN s[1] ELSE Min2(Head(s), MinS(Tail(s)))
      MaxS(s) == IF Len(s) = 1 THEN s[1] ELSE Max2(Head(s), MaxS(Tail(s)))
  IN CASE a.f = "count*" -> Len(rows)
       [] a.f = "count" -> n
       [] a.f = "sum" -> IF n = 0 THEN NULL ELSE SumS(vals)
       \* deviation "MinMaxEmptySentinel": MIN/MAX over no non-NULL input returns the accumulator's
       \* initial sentinel (reported by the harness as the unrepresentable marker) instead of NULL
       [] a.f = "min" -> IF n = 0 THEN (IF "MinMaxEmptySentinel" \in env.dev THEN -999000000 ELSE NULL) ELSE MinS(vals)
       [] a.f = "max" -> IF n = 0 THEN (IF "MinMaxEmptySentinel" \in env.dev THEN -999000000 ELSE NULL) ELSE MaxS(vals)
       [] a.f = "avg" -> IF n = 0 THEN NULL ELSE (SumS(vals) * AVGSCALE) \div n

\* the aggregation is only judged when every AVG group has a count dividing AVGSCALE
AvgExact(a, rows, env) ==
  a.f # "avg" \/ LET n == Len(SelectSeq([i \in DOMAIN rows |-> EvalE(a.a, rows[i], env)], LAMBDA v : v # NULL))
                 IN n = 0 \/ AVGSCALE % n = 0

\* one grouping set: ks = key positions present (subset of 1..Len(g.keys))
GroupRows(g, rows, env) ==
  LET nk == Len(g.keys)
      keyOf(r) == [j \in 1..nk |-> EvalE(g.keys[j], r, env)]
      oneSet(present) ==
        LET mask == SumS([j \in 1..nk |-> IF j \in present THEN 0 ELSE 2 ^ (j - 1)])
            kOf(r) == [j \in 1..nk |-> IF j \in present THEN keyOf(r)[j] ELSE NULL]
            ks == DistinctSeq([i \in DOMAIN rows |-> kOf(rows[i])])
            \* deviation "NullKeyGroupDropped": a group whose key contains NULL is lost
            ks2 == IF "NullKeyGroupDropped" \in env.dev
                   THEN SelectSeq(ks, LAMBDA k : ~\E j \in present : k[j] = NULL) ELSE ks
            grp(k) == SelectSeq(rows, LAMBDA r : kOf(r) = k)
            mk(k, rs) == k \o [j \in DOMAIN g.aggs |-> AggVal(g.aggs[j], rs, env)] \o <<mask>>
        IN IF present = {} /\ (nk = 0 \/ g.sets # <<>>)
           THEN << mk(NullRow(nk), rows) >>            \* global aggregate / grand total: exactly one row, even on no input
           ELSE [i \in DOMAIN ks2 |-> mk(ks2[i], grp(ks2[i]))]
  IN IF g.sets = <<>> THEN oneSet(1..nk)
     ELSE Flat([s \in DOMAIN g.sets |-> oneSet({g.sets[s][j] : j \in DOMAIN g.sets[s]})])

\* ------------------------------------------------------------------ FROM ----
CteRows(name, env) ==
  LET idx == CHOOSE i \in DOMAIN env.ctes : env.ctes[i][1] = name /\ \A j \in 1..(i - 1) : env.ctes[j][1] # name
  IN env.ctes[idx][2]

JoinRows(f, env) ==
  LET L == FromRows(f.l, env)
      R == FromRows(f.r, env)
      ln == f.ln
      rn == f.rn
      pair(a, b) == EvalE(f.on, a \o b, env) = 1
      matchesL(a) == SelectSeq(R, LAMBDA b : pair(a, b))
      inner == Flat([i \in DOMAIN L |-> LET m == matchesL(L[i]) IN [j \in DOMAIN m |-> L[i] \o m[j]]])
      left == Flat([i \in DOMAIN L |-> LET m == matchesL(L[i]) IN
                      IF m = <<>> THEN << L[i] \o NullRow(rn) >> ELSE [j \in DOMAIN m |-> L[i] \o m[j]]])
      rightOnly == Flat([j \in DOMAIN R |-> IF \E i \in DOMAIN L : pair(L[i], R[j]) THEN <<>> ELSE << NullRow(ln) \o R[j] >>])
  IN CASE f.kind = "inner" -> inner
       [] f.kind = "cross" -> Flat([i \in DOMAIN L |-> [j \in DOMAIN R |-> L[i] \o R[j]]])
       [] f.kind = "left" -> left
       [] f.kind = "right" -> inner \o rightOnly
       [] f.kind = "full" -> left \o rightOnly

FromRows(f, env) ==
  CASE f.k = "table" -> env.db[f.name].rows
    [] f.k = "join" -> JoinRows(f, env)
    [] f.k = "sub" -> Answer(f.q, env)
    [] f.k = "cte" -> CteRows(f.name, env)
    [] f.k = "values" -> f.rows
    [] f.k = "dual" -> << <<>> >>         \* SELECT without FROM: one empty row

KeyT(orow, ord, env) == [i \in DOMAIN ord |-> Rank(EvalE(ord[i].e, orow, env), ord[i])]

\* --------------------------------------------------------------- windows ----
\* w = [f, a (argument expr), k (NTILE buckets / LAG-LEAD offset / NTH index), dflt (LAG/LEAD default expr),
\*      part (exprs), ord (sort items), frame = [mode : "default" | "rows" | "range", lo, hi]]
\* bounds: [t |-> "up" | "p" | "cr" | "f" | "uf", n]   (UNBOUNDED PRECEDING, n PRECEDING, CURRENT ROW, n FOLLOWING,
\* UNBOUNDED FOLLOWING); RANGE supports up / cr / uf only (peers by the ORDER BY keys).
\* Order-sensitive functions (ROW_NUMBER, NTILE, LAG/LEAD, FIRST/LAST/NTH_VALUE, ROWS frames) are only generated with a
\* total order inside each partition, so their value is determined; ties are broken by input position here.
WinVals(w, rows, env) ==
  LET n == Len(rows)
      pk(i) == [j \in DOMAIN w.part |-> EvalE(w.part[j], rows[i], env)]
      ok(i) == KeyT(rows[i], w.ord, env)
      same(i, j) == pk(i) = pk(j)
      before(j, i) == same(i, j) /\ (LexLt(ok(j), ok(i)) \/ (ok(j) = ok(i) /\ j < i))
      pos(i) == 1 + Cardinality({j \in 1..n : before(j, i)})
      psize(i) == Cardinality({j \in 1..n : same(i, j)})
      rowAt(i, p) == CHOOSE j \in 1..n : same(i, j) /\ pos(j) = p
      nBefore(i) == Cardinality({j \in 1..n : same(i, j) /\ LexLt(ok(j), ok(i))})
      nUpTo(i) == Cardinality({j \in 1..n : same(i, j) /\ ~LexLt(ok(i), ok(j))})
      dense(i) == 1 + Cardinality({ok(j) : j \in {x \in 1..n : same(i, x) /\ LexLt(ok(x), ok(i))}})
      fmode == IF w.frame.mode = "default" THEN (IF w.ord = <<>> THEN "all" ELSE "range") ELSE w.frame.mode
      blo == IF w.frame.mode = "default" THEN [t |-> "up", n |-> 0] ELSE w.frame.lo
      bhi == IF w.frame.mode = "default" THEN [t |-> "cr", n |-> 0] ELSE w.frame.hi
      rowsLo(i) == CASE blo.t = "up" -> 1 [] blo.t = "p" -> pos(i) - blo.n [] blo.t = "cr" -> pos(i)
                     [] blo.t = "f" -> pos(i) + blo.n [] OTHER -> psize(i) + 1
      rowsHi(i) == CASE bhi.t = "uf" -> psize(i) [] bhi.t = "f" -> pos(i) + bhi.n [] bhi.t = "cr" -> pos(i)
                     [] bhi.t = "p" -> pos(i) - bhi.n [] OTHER -> 0
      rangeLo(i) == IF blo.t = "up" THEN 1 ELSE IF blo.t = "cr" THEN nBefore(i) + 1 ELSE psize(i) + 1
      rangeHi(i) == IF bhi.t = "uf" THEN psize(i) ELSE IF bhi.t = "cr" THEN nUpTo(i) ELSE 0
      lo(i) == Max2(1, IF fmode = "all" THEN 1 ELSE IF fmode = "rows" THEN rowsLo(i) ELSE rangeLo(i))
      hi(i) == Min2(psize(i), IF fmode = "all" THEN psize(i) ELSE IF fmode = "rows" THEN rowsHi(i) ELSE rangeHi(i))
      frameRows(i) == IF hi(i) < lo(i) THEN <<>> ELSE [p \in 1..(hi(i) - lo(i) + 1) |-> rows[rowAt(i, lo(i) + p - 1)]]
      ntile(i) == LET k == w.k  sz == psize(i)  q == sz \div k  r == sz % k  p == pos(i)
                  IN IF q = 0 THEN p
                     ELSE IF p <= r * (q + 1) THEN ((p - 1) \div (q + 1)) + 1
                     ELSE r + ((p - r * (q + 1) - 1) \div q) + 1
      shifted(i, d) == LET p == pos(i) + d IN
                       IF p >= 1 /\ p <= psize(i) THEN EvalE(w.a, rows[rowAt(i, p)], env) ELSE EvalE(w.dflt, rows[i], env)
      val(i) == CASE w.f = "row_number" -> pos(i)
                  [] w.f = "rank" -> 1 + nBefore(i)
                  [] w.f = "dense_rank" -> dense(i)
                  [] w.f = "ntile" -> ntile(i)
                  [] w.f = "percent_rank" -> IF psize(i) = 1 THEN 0 ELSE (nBefore(i) * AVGSCALE) \div (psize(i) - 1)
                  [] w.f = "cume_dist" -> (nUpTo(i) * AVGSCALE) \div psize(i)
                  [] w.f = "lag" -> shifted(i, 0 - w.k)
                  [] w.f = "lead" -> shifted(i, w.k)
                  [] w.f = "first_value" -> LET fr == frameRows(i) IN IF fr = <<>> THEN NULL ELSE EvalE(w.a, fr[1], env)
                  [] w.f = "last_value" -> LET fr == frameRows(i) IN IF fr = <<>> THEN NULL ELSE EvalE(w.a, fr[Len(fr)], env)
                  [] w.f = "nth_value" -> LET fr == frameRows(i) IN IF Len(fr) < w.k THEN NULL ELSE EvalE(w.a, fr[w.k], env)
                  [] OTHER -> AggVal([f |-> w.f, a |-> w.a, distinct |-> 0], frameRows(i), env)
  IN [i \in 1..n |-> val(i)]

\* rows extended with one column per window function (appended in order)
WithWindows(wins, rows, env) ==
  LET cols == [j \in DOMAIN wins |-> WinVals(wins[j], rows, env)]
  IN [i \in DOMAIN rows |-> rows[i] \o [j \in DOMAIN wins |-> cols[j][i]]]

\* ------------------------------------------------------------- statements ---
\* Core(q, env): sequence of [o |-> row ORDER BY is evaluated on, r |-> output row]
\* before ORDER BY / OFFSET / LIMIT.
SelectCore(q, env) ==
  LET src == FromRows(q.from, env)
      kept == SelectSeq(src, LAMBDA r : EvalE(q.where, r, env) = 1)
      pre0 == IF q.group.on = 0 THEN kept
              ELSE SelectSeq(GroupRows(q.group, kept, env), LAMBDA r : EvalE(q.group.having, r, env) = 1)
      pre == IF "wins" \in DOMAIN q THEN WithWindows(q.wins, pre0, env) ELSE pre0
      outs == [i \in DOMAIN pre |-> [j \in DOMAIN q.proj |-> EvalE(q.proj[j], pre[i], env)]]
  IN IF q.distinct = 1 THEN LET d == DistinctD(env.dev, outs) IN [i \in DOMAIN d |-> [o |-> d[i], r |-> d[i]]]
     ELSE [i \in DOMAIN pre |-> [o |-> pre[i], r |-> outs[i]]]

WithEnv(q, env) ==
  LET RECURSIVE Bind(_, _)
      Bind(cs, e) == IF cs = <<>> THEN e
                     ELSE Bind(Tail(cs), [e EXCEPT !.ctes = << <<Head(cs).name, Answer(Head(cs).q, e)>> >> \o e.ctes])
  IN Bind(q.ctes, env)

Core(q, env) ==
  CASE q.k = "select" -> SelectCore(q, env)
    [] q.k = "setop" -> LET rs == SetOp(env.dev, q.op, q.all, Answer(q.l, env), Answer(q.r, env))
                        IN [i \in DOMAIN rs |-> [o |-> rs[i], r |-> rs[i]]]
    [] q.k = "values" -> [i \in DOMAIN q.rows |-> [o |-> q.rows[i], r |-> q.rows[i]]]
    [] q.k = "with" -> Core(q.body, WithEnv(q, env))

\* ORDER BY / LIMIT / OFFSET live on the statement node (for "with": on its body)
OrdOf(q) == IF q.k = "with" THEN q.body.order ELSE q.order
LimOf(q) == IF q.k = "with" THEN q.body.limit ELSE q.limit
OffOf(q) == IF q.k = "with" THEN q.body.offset ELSE q.offset
EnvOf(q, env) == IF q.k = "with" THEN WithEnv(q, env) ELSE env

Window(n, lim, off) == <<Min2(off + 1, n + 1), IF lim < 0 THEN n ELSE Min2(off + lim, n)>>

\* a canonical answer (ties broken arbitrarily but deterministically): used for nested queries
Answer(q, env) ==
  LET c == Core(q, env)
      ord == OrdOf(q)
      e2 == EnvOf(q, env)
      srt == IF ord = <<>> THEN c ELSE SortSeq(c, LAMBDA x, y : LexLt(KeyT(x.o, ord, e2), KeyT(y.o, ord, e2)))
      w == Window(Len(srt), LimOf(q), OffOf(q))
      win == SubSeq(srt, w[1], w[2])
  IN [i \in DOMAIN win |-> win[i].r]

\* ------------------------------------------------------------ acceptance ----
\* Allowed(q, env, got): `got` (a sequence of rows) is an answer SQL allows.
Allowed(q, env, got) ==
  LET c == Core(q, env)
      ord == OrdOf(q)
      e2 == EnvOf(q, env)
      n == Len(c)
      w == Window(n, LimOf(q), OffOf(q))
      all == [i \in DOMAIN c |-> c[i].r]
  IN IF ord = <<>>
     THEN IF LimOf(q) < 0 /\ OffOf(q) = 0 THEN BagEq(got, all)
          ELSE Len(got) = Max2(w[2] - w[1] + 1, 0) /\ SubBagOf(got, all)      \* any rows of the right number
     ELSE LET key(x) == KeyT(x.o, ord, e2)
              srt == SortSeq(c, LAMBDA x, y : LexLt(key(x), key(y)))
              win == SubSeq(srt, w[1], w[2])
              \* pairs (key, output row) in the input and in the reported output (key by position)
              cntIn(k, r) == Cardinality({i \in DOMAIN c : key(c[i]) = k /\ c[i].r = r})
              cntOut(k, r) == Cardinality({i \in DOMAIN got : key(win[i]) = k /\ got[i] = r})
              \* a key group is cut when some but not all of its rows fall in the window
              inWin(k) == Cardinality({i \in DOMAIN win : key(win[i]) = k})
              total(k) == Cardinality({i \in DOMAIN c : key(c[i]) = k})
          IN /\ Len(got) = Len(win)
             /\ \A i \in DOMAIN got :
                   /\ cntIn(key(win[i]), got[i]) > 0                        \* a real row with the key owed at this position
                   /\ cntOut(key(win[i]), got[i]) <= cntIn(key(win[i]), got[i])
             /\ \A i \in DOMAIN win : inWin(key(win[i])) = total(key(win[i]))
                   => cntOut(key(win[i]), win[i].r) = cntIn(key(win[i]), win[i].r)

\* statements whose result SQL leaves ill-defined inside our encoding are not judged
RECURSIVE ScalarsOk(_, _)
ScalarsOk(q, env) == TRUE
====
