---- MODULE PqStatsOps ----
(***************************************************************************)
(* C18 — shared operators of PqStats.tla (model) and PqStatsTrace.tla      *)
(* (validation of what the real ParquetTable::statistics() reported).      *)
(*                                                                         *)
(* A column of a table is  files : Seq(Seq(Seq(Int)))  = file -> row group *)
(* -> rows, NULL == VerifIO!NULL.  All values are ints (tokens in the      *)
(* model, order-preserving rank codes in recorded traces).                 *)
(*                                                                         *)
(* Footer(b, flag) is what the Parquet writer records for one column chunk:*)
(*   [rows, has_stats, has_nulls, nulls, has_mm, min, max]                 *)
(* min/max over the non-NULL values, absent when there is none or when     *)
(* statistics are disabled for the file (flag = 0).                        *)
(*                                                                         *)
(* Fold(impl, chunks, cache) is ParquetTable::compute_statistics for one   *)
(* column: the chunks of all row groups of all files in listing order.     *)
(*   "asbuilt" : the real code.  A chunk without statistics poisons the    *)
(*               null count and is SKIPPED by the min/max fold.            *)
(*   "fixed"   : min/max are dropped as soon as one chunk that may hold    *)
(*               non-NULL values does not carry them.                      *)
(*   mutants   : "nulls_first_file", "wrong_fold", "rowcount_heuristic",   *)
(*               "stale_cache" (kill matrix).                              *)
(***************************************************************************)
EXTENDS VerifIO, SequencesExt

NonNull(b) == SelectSeq(b, LAMBDA v : v # NULL)
MinS(S) == CHOOSE x \in S : \A y \in S : x <= y
MaxS(S) == CHOOSE x \in S : \A y \in S : x >= y

\* ---- the writer ---------------------------------------------------------
Footer(b, flag) ==
  LET nn == NonNull(b)
      st == IF flag > 0 THEN 1 ELSE 0
      mm == IF st = 1 /\ Len(nn) > 0 THEN 1 ELSE 0
  IN [rows |-> Len(b), has_stats |-> st, has_nulls |-> st,
      nulls |-> IF st = 1 THEN Len(b) - Len(nn) ELSE 0,
      has_mm |-> mm,
      min |-> IF mm = 1 THEN MinS(SeqRange(nn)) ELSE 0,
      max |-> IF mm = 1 THEN MaxS(SeqRange(nn)) ELSE 0]

FootersOf(files, flags) == [i \in DOMAIN files |-> [j \in DOMAIN files[i] |-> Footer(files[i][j], flags[i])]]

\* all rows of the table, file by file, row group by row group
FlatVals(files) == FoldLeft(LAMBDA acc, f : FoldLeft(LAMBDA a2, g : a2 \o g, acc, f), <<>>, files)
\* the chunks of a column in the order compute_statistics visits them: [f |-> file index, ft |-> footer]
Chunks(foot) == FoldLeft(LAMBDA acc, i : acc \o [j \in DOMAIN foot[i] |-> [f |-> i, ft |-> foot[i][j]]],
                         <<>>, [i \in 1..Len(foot) |-> i])

\* ---- the reader ---------------------------------------------------------
\* a chunk that may hold non-NULL values but says nothing about their range
Opaque(ft) == ft.has_mm = 0 /\ ft.rows > 0 /\ (ft.has_stats = 0 \/ ft.has_nulls = 0 \/ ft.nulls < ft.rows)
HasMM(ft) == ft.has_stats = 1 /\ ft.has_mm = 1
\* the shape of the known finding: some chunks carry min/max, others may hold values and do not
Partial(ch) == (\E i \in DOMAIN ch : HasMM(ch[i].ft)) /\ (\E i \in DOMAIN ch : Opaque(ch[i].ft))

NoRep == [row_count |-> 0, has_nulls |-> 0, null_count |-> 0, has_mm |-> 0, min |-> 0, max |-> 0]

Fold(impl, ch, cache) ==
  LET rows    == FoldLeft(LAMBDA a, c : a + c.ft.rows, 0, ch)
      nullsOk == \A i \in DOMAIN ch : ch[i].ft.has_stats = 1 /\ ch[i].ft.has_nulls = 1
      nullSum(onlyFirst) == FoldLeft(LAMBDA a, c : IF onlyFirst /\ c.f # 1 THEN a ELSE a + c.ft.nulls, 0, ch)
      mmIdx   == {i \in DOMAIN ch : HasMM(ch[i].ft)}
      mins    == {ch[i].ft.min : i \in mmIdx}
      maxs    == {ch[i].ft.max : i \in mmIdx}
      some    == mmIdx # {}
      AsBuilt == [row_count |-> rows,
                  has_nulls |-> IF nullsOk THEN 1 ELSE 0,
                  null_count |-> IF nullsOk THEN nullSum(FALSE) ELSE 0,
                  has_mm |-> IF some THEN 1 ELSE 0,
                  min |-> IF some THEN MinS(mins) ELSE 0,
                  max |-> IF some THEN MaxS(maxs) ELSE 0]
      Fixed   == IF \E i \in DOMAIN ch : Opaque(ch[i].ft)
                 THEN [AsBuilt EXCEPT !.has_mm = 0, !.min = 0, !.max = 0] ELSE AsBuilt
  IN CASE impl = "asbuilt" -> AsBuilt
       [] impl = "fixed" -> Fixed
       [] impl = "nulls_first_file" -> [Fixed EXCEPT !.null_count = IF nullsOk THEN nullSum(TRUE) ELSE 0]
       [] impl = "wrong_fold" -> IF Fixed.has_mm = 1 THEN [Fixed EXCEPT !.min = MaxS(mins), !.max = MinS(maxs)] ELSE Fixed
       [] impl = "rowcount_heuristic" -> [Fixed EXCEPT !.row_count = ch[1].ft.rows * Len(ch)]
       [] impl = "stale_cache" -> cache

\* ---- the contract (property C18, first half) ------------------------------
RowCountOk(vals, rc) == rc = Len(vals)
NullCountOk(vals, has_nulls, nc) == has_nulls = 1 => nc = Len(vals) - Len(NonNull(vals))
LowerOk(vals, has_min, mn) == has_min = 1 => \A i \in DOMAIN vals : vals[i] # NULL => mn <= vals[i]
UpperOk(vals, has_max, mx) == has_max = 1 => \A i \in DOMAIN vals : vals[i] # NULL => vals[i] <= mx
MinMaxOk(vals, rep) == LowerOk(vals, rep.has_mm, rep.min) /\ UpperOk(vals, rep.has_mm, rep.max)
====
