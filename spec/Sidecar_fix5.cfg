\* (M) repair 5 (cross-process build lock): every property holds for 2 processes x 2 threads, file-by-file removal
CONSTANTS NProcs = 2
          ThreadsPer = 2
          AutoProcs = {}
          NRg = 2
          Inits = {0, 1, 2}
          Variant = 5
          AtomicRemove = FALSE
          EmitOn = FALSE
          Sim = FALSE
INIT Init
NEXT NextAll
INVARIANT TypeOk
INVARIANT NoPartialRead
INVARIANT NoWrongAnswer
INVARIANT MutualExclusion
INVARIANT LockHeldWhileBuilding
INVARIANT AutoNeverBuilds
INVARIANT Quiescent
INVARIANT NoDeadlock
INVARIANT NoReaderError
INVARIANT FreshMeansComplete
CHECK_DEADLOCK FALSE
