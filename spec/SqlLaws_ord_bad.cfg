CONSTANTS Family = "ord"
          N = 2
INIT Init
NEXT Next
INVARIANT BadLaw
CHECK_DEADLOCK FALSE
