\* (R) generator + predictor: every history of exactly 5 steps (last one a query) under the AS-BUILT keys
CONSTANTS Paths = {1}
          NVersions = 3
          Modes = {0, 1, 2}
          MaxActions = 5
          KeyModel = 1
          VStep = {1}
          TimeChoices = {0, 1, 2, 3, 4}
          WithX = TRUE
          EmitOn = TRUE
          Sim = FALSE
INIT Init
NEXT NextAll
INVARIANT StaleHasCause
INVARIANT ModeRespected
INVARIANT TypeOk
INVARIANT Emit
CHECK_DEADLOCK FALSE
