CONSTANTS Families = {"arith", "bool"}
          Variants = {"nulls"}
          Impl = "asbuilt"
          Strict = FALSE
          ArithLits = {"nz", "nan"}
          CmpLits = {"pz"}
          ArithOps = {"add", "mul", "div"}
          ArithCmpOps = {"lt", "eq"}
          CH = 4
          Lens = {0, 1, 3, 4, 5, 9}
          VM = "asbuilt"
INIT VMInit
NEXT VMNext
INVARIANT Refines
INVARIANT FreshDst
INVARIANT RegsInRange
CHECK_DEADLOCK FALSE
