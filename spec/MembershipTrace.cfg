\* run with TRACE=<events.ndjson> C15_CONSTS=<consts.json> C15_MODE=contract|strict, -workers 1
INIT TInit
NEXT TNext
POSTCONDITION Accepted
CHECK_DEADLOCK FALSE
