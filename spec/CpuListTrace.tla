---- MODULE CpuListTrace ----
(* Trace validation for C42: every recorded call of the real parser / fan-out
   helper must be explained by CpuList's contract.  One line = one call. *)
EXTENDS Naturals, Integers, Sequences, FiniteSets, TLC, Json, IOUtils

MaxCpu == 0
MaxParts == 0
VARIABLE c
INSTANCE CpuList

Rec == ndJsonDeserialize(IOEnv.TRACE)
VARIABLE l
TInit == l = 1 /\ c = [parts |-> <<>>, nl |-> 0]
Parse == /\ l <= Len(Rec) /\ Rec[l].ev = "parse"
         /\ Rec[l].panic = 0
         /\ ParseOk(Rec[l].parts, Rec[l].got)
         /\ l' = l + 1 /\ UNCHANGED c
Workers == /\ l <= Len(Rec) /\ Rec[l].ev = "workers"
           /\ Rec[l].panic = 0
           /\ WorkersOk(Rec[l].w, Rec[l].m, Rec[l].r)
           /\ l' = l + 1 /\ UNCHANGED c
TNext == Parse \/ Workers
TSpec == TInit /\ [][TNext]_<<l, c>>
Accepted == LET d == TLCGet("stats").diameter - 1 IN
            IF d = Len(Rec) THEN EmitTag("ACCEPT", [n |-> d])
            ELSE EmitTag("REJECT", [line |-> d + 1, rec |-> Rec[d + 1]]) /\ FALSE
====
