\* the as-built compiled evaluator WITHOUT the deviation escape: TLC must print a counterexample to Agree
CONSTANTS Families = {"f64leaf", "bool"}
          Variants = {"nulls"}
          Impl = "asbuilt"
          Strict = TRUE
          ArithLits = {}
          CmpLits = {}
          ArithOps = {}
          ArithCmpOps = {}
INIT Init
NEXT Next
INVARIANT Agree
CHECK_DEADLOCK FALSE
