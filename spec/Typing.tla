---- MODULE Typing ----
(***************************************************************************)
(* X04 "Typing" — sub-model of C30 (the reported result schema describes   *)
(* the returned rows), secondary tie to C01 (a mixed-type expression keeps *)
(* its mathematical value).                                                *)
(*                                                                         *)
(* The engine types every expression twice: statically (logical_expr.rs    *)
(* data_type(), binder, plan_schema_to_arrow) and dynamically (the Arrow   *)
(* array evaluate_expr / the aggregates / UNION actually produce).  This   *)
(* module says what the type of an expression IS (a typing judgement over  *)
(* an expression grammar), what its VALUE is (rationals in units of 1/2,   *)
(* like SqlSem), and which laws the two must obey.                         *)
(*                                                                         *)
(* CONTRACT (what may produce a violation, judged by TypingTrace.tla):     *)
(*   (a) static type == dynamic type for every statement the engine        *)
(*       answers (C30, applied compositionally: the expression is placed   *)
(*       in a select list);                                                *)
(*   (b) an implicit coercion never changes a value; a narrowing cast      *)
(*       keeps the value or yields NULL / an error, never another number.  *)
(* FIDELITY (drift notes only): WHICH type the dialect chooses.  Where the *)
(* code documents a choice, the choice is modelled and the other choice is *)
(* a named, allowed alternative (AltNames).                                *)
(*                                                                         *)
(* Values.  B is the model's width constant: Int32 = [-B, B-1], Int64 =    *)
(* [-2B^2, 2B^2-1] (so B stands for 2^31).  A concrete number              *)
(* a + b*2^31 + c*2^62 with small coefficients corresponds to the model    *)
(* number a + b*B + c*B^2; +, -, * (truncated), comparison and range       *)
(* checks commute with that correspondence as long as the coefficients     *)
(* stay small, which the Small* guards ensure (otherwise the model says    *)
(* "unspecified").  Typed representation: integers as is, Float64 in units *)
(* of 1/2, Boolean 0/1, Utf8 / Date32 as order-preserving codes.           *)
(***************************************************************************)
EXTENDS VerifIO, SequencesExt

CONSTANTS B,      \* width constant (laws: 4; trace judgement: 1024)
          Tier,   \* "laws" | "quick" | "thorough" | "none": which states Init/Next enumerate
          Mut     \* "none", or the name of a seeded mistake the laws must refute

BAD == "Bad"                       \* ill-typed in the model's dialect (no type)
ANYV == NULL + 1                   \* "unspecified" marker inside value sets
OFF == NULL + 2                    \* a recorded value the driver could not map into the model's domain
ColTypes == {"Int32", "Int64", "Float64", "Utf8", "Date32", "Boolean"}
Types == ColTypes \cup {"Null"}
TypesB == Types \cup {BAD}
Ints == {"Int32", "Int64"}
Num == {"Int32", "Int64", "Float64"}
NumN == Num \cup {"Null"}
BoolN == {"Boolean", "Null"}
Rank(t) == CASE t = "Int32" -> 1 [] t = "Int64" -> 2 [] t = "Float64" -> 3 [] OTHER -> 0

ArithOps == {"add", "sub", "mul", "div", "mod"}
CmpOps == {"eq", "ne", "lt", "le", "gt", "ge"}
AggOps == {"count", "sum", "avg", "min", "max"}
SetOps == {"unionall", "union", "intersect", "except", "intersectall", "exceptall"}

\* named, allowed alternatives of the dialect (what one of the engine's two implementations documents)
AltNames == {"Int32ArithWidens",     \* logical_expr.rs coerce_numeric_types: any arithmetic touching Int32 is Int64
             "DateStringCompare",    \* filter.rs coerce_numeric_types: (Date32, Utf8) compare as Date32
             "BranchTakesFirst",     \* logical_expr.rs: CASE has its first THEN's type, COALESCE its first non-Null argument's
             "SetOpTakesLeft"}       \* binder.rs bind_set_expr: a set operation has its left branch's schema

(* ---------------------------------------------------------------------- *)
(* unification: the join of a semilattice Null < Int32 < Int64 < Float64, *)
(* Null < Utf8, Null < Date32, Null < Boolean, everything < Bad            *)
(* ---------------------------------------------------------------------- *)
Unify(a, b) ==
    IF a = BAD \/ b = BAD THEN BAD
    ELSE IF a = b THEN a
    ELSE IF a = "Null" THEN b
    ELSE IF b = "Null" THEN a
    ELSE IF a \in Num /\ b \in Num
         THEN (IF Mut = "unify_left" THEN a ELSE IF Rank(a) >= Rank(b) THEN a ELSE b)
    ELSE BAD

Widens(a, b) == a = b \/ a = "Null" \/ (a \in Num /\ b \in Num /\ Rank(a) <= Rank(b))     \* a value of type a is a value of type b

CastOk(a, t) == \/ a = "Null" \/ a = t
                \/ (a \in Num /\ t \in Num)
                \/ a = "Utf8" \/ t = "Utf8"
                \/ (a = "Boolean" /\ t \in Num) \/ (a \in Num /\ t = "Boolean")

(* ---------------------------------------------------------------------- *)
(* expression trees: [op, ty, v, kids]                                    *)
(* ---------------------------------------------------------------------- *)
Col(t) == [op |-> "col", ty |-> t, v |-> 0, kids |-> <<>>]
Lit(t, n) == [op |-> "lit", ty |-> t, v |-> n, kids |-> <<>>]
N1(o, a) == [op |-> o, ty |-> "", v |-> 0, kids |-> <<a>>]
N2(o, a, b) == [op |-> o, ty |-> "", v |-> 0, kids |-> <<a, b>>]
N3(o, a, b, d) == [op |-> o, ty |-> "", v |-> 0, kids |-> <<a, b, d>>]
CastN(a, t) == [op |-> "cast", ty |-> t, v |-> 0, kids |-> <<a>>]
GroupN(kt, a) == [op |-> "group", ty |-> kt, v |-> 0, kids |-> <<a>>]        \* SELECT c_kt AS k, a AS e .. GROUP BY c_kt
CountStar == [op |-> "countstar", ty |-> "", v |-> 0, kids |-> <<>>]

(* the typing function of the dialect under a set D of enabled alternatives *)
RECURSIVE TypeOfD(_, _)
TypeOfD(e, D) ==
    LET k == e.kids
        T(i) == TypeOfD(k[i], D) IN
    CASE e.op \in {"col", "lit"} -> e.ty
      [] e.op \in ArithOps ->
            IF T(1) \in NumN /\ T(2) \in NumN
            THEN (IF "Int32ArithWidens" \in D /\ "Int32" \in {T(1), T(2)} /\ Unify(T(1), T(2)) = "Int32" THEN "Int64" ELSE Unify(T(1), T(2)))
            ELSE BAD
      [] e.op = "neg" -> IF T(1) \in NumN THEN T(1) ELSE BAD
      [] e.op \in CmpOps ->
            IF Unify(T(1), T(2)) # BAD \/ ("DateStringCompare" \in D /\ {T(1), T(2)} = {"Date32", "Utf8"}) THEN "Boolean" ELSE BAD
      [] e.op \in {"and", "or"} -> IF T(1) \in BoolN /\ T(2) \in BoolN THEN "Boolean" ELSE BAD
      [] e.op = "not" -> IF T(1) \in BoolN THEN "Boolean" ELSE BAD
      [] e.op \in {"isnull", "isnotnull"} -> IF T(1) # BAD THEN "Boolean" ELSE BAD
      [] e.op = "case" ->
            IF T(1) \notin BoolN \/ T(2) = BAD \/ T(3) = BAD THEN BAD
            ELSE IF "BranchTakesFirst" \in D \/ Mut = "case_takes_then" THEN T(2) ELSE Unify(T(2), T(3))
      [] e.op = "case2" -> IF T(1) \in BoolN THEN T(2) ELSE BAD
      [] e.op = "coalesce" ->
            IF T(1) = BAD \/ T(2) = BAD THEN BAD
            ELSE IF "BranchTakesFirst" \in D THEN (IF T(1) # "Null" THEN T(1) ELSE T(2)) ELSE Unify(T(1), T(2))
      [] e.op = "nullif" -> IF Unify(T(1), T(2)) # BAD THEN T(1) ELSE BAD
      [] e.op = "cast" -> IF T(1) # BAD /\ CastOk(T(1), e.ty) THEN e.ty ELSE BAD
      [] e.op = "count" -> IF T(1) # BAD THEN "Int64" ELSE BAD
      [] e.op = "countstar" -> "Int64"
      [] e.op = "sum" -> IF T(1) \in Ints THEN "Int64" ELSE IF T(1) = "Float64" THEN "Float64" ELSE BAD
      [] e.op = "avg" -> IF T(1) \in Num THEN "Float64" ELSE BAD
      [] e.op \in {"min", "max"} -> T(1)
      [] e.op = "group" -> T(1)
      [] e.op \in SetOps ->
            IF \E i \in DOMAIN k : T(i) = BAD THEN BAD
            ELSE IF "SetOpTakesLeft" \in D THEN T(1)
            ELSE IF Len(k) = 2 THEN Unify(T(1), T(2)) ELSE Unify(Unify(T(1), T(2)), T(3))
      [] OTHER -> BAD

TypeOf(e) == TypeOfD(e, {})

(* the same judgement as an inference relation "e : t" (rules); the law Functional ties the two together *)
RECURSIVE Judg(_, _)
Judg(e, t) ==
    LET k == e.kids
        K(i) == {a \in Types : Judg(k[i], a)} IN
    CASE e.op \in {"col", "lit"} -> t = e.ty
      [] e.op \in ArithOps -> \E a \in K(1), b \in K(2) : a \in NumN /\ b \in NumN /\ t = Unify(a, b)
      [] e.op = "neg" -> t \in NumN /\ t \in K(1)
      [] e.op \in CmpOps -> t = "Boolean" /\ \E a \in K(1), b \in K(2) : Unify(a, b) # BAD
      [] e.op \in {"and", "or"} -> t = "Boolean" /\ \E a \in K(1), b \in K(2) : a \in BoolN /\ b \in BoolN
      [] e.op = "not" -> t = "Boolean" /\ \E a \in K(1) : a \in BoolN
      [] e.op \in {"isnull", "isnotnull"} -> t = "Boolean" /\ K(1) # {}
      [] e.op = "case" -> \E c \in K(1), a \in K(2), b \in K(3) : c \in BoolN /\ t = Unify(a, b)
      [] e.op = "case2" -> t \in K(2) /\ \E c \in K(1) : c \in BoolN
      [] e.op = "coalesce" -> \E a \in K(1), b \in K(2) : t = Unify(a, b)
      [] e.op = "nullif" -> t \in K(1) /\ \E b \in K(2) : Unify(t, b) # BAD
      [] e.op = "cast" -> t = e.ty /\ \E a \in K(1) : CastOk(a, e.ty)
      [] e.op = "count" -> t = "Int64" /\ K(1) # {}
      [] e.op = "countstar" -> t = "Int64"
      [] e.op = "sum" -> \E a \in K(1) : (a \in Ints /\ t = "Int64") \/ (a = "Float64" /\ t = "Float64")
      [] e.op = "avg" -> t = "Float64" /\ \E a \in K(1) : a \in Num
      [] e.op \in {"min", "max", "group"} -> t \in K(1)
      [] e.op \in SetOps -> IF Len(k) = 2 THEN \E a \in K(1), b \in K(2) : t = Unify(a, b)
                            ELSE \E a \in K(1), b \in K(2), d \in K(3) : t = Unify(Unify(a, b), d)
      [] OTHER -> FALSE

(* ---------------------------------------------------------------------- *)
(* values                                                                 *)
(* ---------------------------------------------------------------------- *)
Abs(x) == IF x < 0 THEN -x ELSE x
Math(v, t) == IF v = NULL THEN NULL ELSE IF t \in Ints THEN 2 * v ELSE v     \* the mathematical value in units of 1/2 (codes as is)
InRange(v, t) == CASE t = "Int32" -> -B <= v /\ v <= B - 1
                   [] t = "Int64" -> -2 * B * B <= v /\ v <= 2 * B * B - 1
                   [] OTHER -> TRUE
Vals(t) == CASE t = "Int32" -> -B .. B - 1                       \* small universes for the laws (Tier = "laws")
             [] t = "Int64" -> (-2 * B * B) .. (2 * B * B - 1)
             [] t = "Float64" -> (-6 * B) .. (6 * B)
             [] t = "Boolean" -> {0, 1}
             [] OTHER -> {}

\* implicit (widening) coercion from -> to, Widens(from, to)
Coerce(v, from, to) ==
    IF v = NULL THEN NULL
    ELSE IF from = to THEN v
    ELSE IF to = "Float64" /\ from \in Ints THEN (IF Mut = "coerce_noscale" THEN v ELSE 2 * v)
    ELSE v

TruncDiv(x, y) == LET q == Abs(x) \div Abs(y) IN IF (x < 0) # (y < 0) THEN -q ELSE q     \* y # 0; rounds toward zero
Wrap(v, t) == LET m == IF t = "Int32" THEN 2 * B ELSE 4 * B * B IN ((v + m \div 2) % m) - m \div 2

\* an explicit CAST of one typed value: the SET of allowed results (NULL stands for "NULL or an error")
CastVals(v, from, to) ==
    IF v = NULL THEN {NULL}
    ELSE IF from = to THEN {v}
    ELSE IF from \in Ints /\ to \in Ints THEN (IF InRange(v, to) THEN {v} ELSE IF Mut = "wrap_narrow" THEN {Wrap(v, to)} ELSE {NULL})
    ELSE IF from \in Ints /\ to = "Float64" THEN {Coerce(v, from, to)}
    ELSE IF from = "Float64" /\ to \in Ints THEN
         LET lo == v \div 2                       \* floor
             hi == -((-v) \div 2)                  \* ceiling
             ok == {x \in {lo, hi} : InRange(x, to)} IN
         IF ok = {lo, hi} THEN ok ELSE ok \cup {NULL}
    ELSE IF from = "Boolean" /\ to \in Ints THEN {v}
    ELSE IF from = "Boolean" /\ to = "Float64" THEN {2 * v}
    ELSE IF from \in Num /\ to = "Boolean" THEN {IF v = 0 THEN 0 ELSE 1}
    ELSE {ANYV}                                    \* to / from Utf8, Date32: not specified here

\* digits of a mathematical value m (units of 1/2) in base B: m/2 = a/2 + b*B + c*B^2
RoundDiv(m, d) == (2 * m + d) \div (2 * d)
DigC(m) == RoundDiv(m, 2 * B * B)
DigB(m) == RoundDiv(m - DigC(m) * 2 * B * B, 2 * B)
DigA(m) == m - DigC(m) * 2 * B * B - DigB(m) * 2 * B
Within(m, la, lb, lc) == Abs(DigA(m)) <= la /\ Abs(DigB(m)) <= lb /\ Abs(DigC(m)) <= lc
Pure(m) == Within(m, 200, 0, 0)
Representable(m) == m = NULL \/ Within(m, 900, 400, 400)     \* the driver maps exactly these to / from concrete numbers

\* comparison of two typed values goes through a common type, like the engine's coerce_arrays
CmpType(tx, ty) == IF Mut = "cmp_in_int" /\ {tx, ty} \subseteq Num /\ "Float64" \in {tx, ty} /\ tx # ty
                   THEN (IF tx = "Float64" THEN ty ELSE tx) ELSE Unify(tx, ty)
ToCmp(v, from, to) == IF from = "Float64" /\ to \in Ints THEN TruncDiv(v, 2) ELSE Coerce(v, from, to)   \* first arm: only under the mutant
Lt3(x, tx, y, ty) == IF x = NULL \/ y = NULL THEN NULL
                     ELSE LET c == CmpType(tx, ty) IN IF ToCmp(x, tx, c) < ToCmp(y, ty, c) THEN 1 ELSE 0
Eq3(x, tx, y, ty) == IF x = NULL \/ y = NULL THEN NULL
                     ELSE LET c == CmpType(tx, ty) IN IF ToCmp(x, tx, c) = ToCmp(y, ty, c) THEN 1 ELSE 0
Not3(a) == IF a = NULL THEN NULL ELSE 1 - a
Cmp3(op, x, tx, y, ty) ==
    IF x # NULL /\ y # NULL /\ CmpType(tx, ty) = "Float64" /\ (DigC(Math(x, tx)) # 0 \/ DigC(Math(y, ty)) # 0) THEN ANYV     \* binary64 rounding decides
    ELSE
    CASE op = "eq" -> Eq3(x, tx, y, ty)
      [] op = "ne" -> Not3(Eq3(x, tx, y, ty))
      [] op = "lt" -> Lt3(x, tx, y, ty)
      [] op = "gt" -> Lt3(y, ty, x, tx)
      [] op = "le" -> Not3(Lt3(y, ty, x, tx))
      [] op = "ge" -> Not3(Lt3(x, tx, y, ty))

\* one arithmetic step on two values already coerced to the result type t; ANYV where the model does not say
Arith1(op, x, y, t) ==
    IF x = NULL \/ y = NULL THEN NULL
    ELSE LET mx == Math(x, t)
             my == Math(y, t) IN
    CASE op \in {"add", "sub"} ->
            IF Within(mx, 450, 200, 200) /\ Within(my, 450, 200, 200) THEN (IF op = "add" THEN x + y ELSE x - y) ELSE ANYV
      [] op = "mul" ->
            IF ~(Within(mx, 30, 15, 0) /\ Within(my, 30, 15, 0)) THEN ANYV
            ELSE IF t \in Ints THEN x * y
            ELSE IF (x * y) % 2 = 0 THEN (x * y) \div 2 ELSE ANYV
      [] op = "div" ->
            IF ~(Pure(mx) /\ Pure(my)) \/ y = 0 THEN ANYV
            ELSE IF t \in Ints THEN TruncDiv(x, y)                              \* dialect: integer / integer stays integer
            ELSE IF Abs(2 * x) % Abs(y) = 0 THEN TruncDiv(2 * x, y) ELSE ANYV
      [] op = "mod" ->
            IF ~(Pure(mx) /\ Pure(my)) \/ y = 0 \/ t \notin Ints THEN ANYV
            ELSE x - y * TruncDiv(x, y)                                         \* sign of the dividend
      [] OTHER -> ANYV

And3K(a, b) == IF a = 0 \/ b = 0 THEN 0 ELSE IF a = NULL \/ b = NULL THEN NULL ELSE 1
Or3K(a, b) == IF a = 1 \/ b = 1 THEN 1 ELSE IF a = NULL \/ b = NULL THEN NULL ELSE 0
And3S(a, b) == IF a = NULL \/ b = NULL THEN NULL ELSE IF a = 1 /\ b = 1 THEN 1 ELSE 0      \* allowed alternative StrictBool (C02's finding)
Or3S(a, b) == IF a = NULL \/ b = NULL THEN NULL ELSE IF a = 1 \/ b = 1 THEN 1 ELSE 0

ColIdx(t) == CASE t = "Int32" -> 1 [] t = "Int64" -> 2 [] t = "Float64" -> 3 [] t = "Utf8" -> 4 [] t = "Date32" -> 5 [] t = "Boolean" -> 6
\* the literals the driver renders: 2, 2147483648 (= B), 1.5, 'a' (code 1), TRUE, NULL, DATE code 1
LitVal(t, n) == CASE t = "Int64" -> (IF n = 0 THEN 2 ELSE B)
                  [] t = "Float64" -> 3
                  [] t = "Null" -> NULL
                  [] OTHER -> 1

ANYR == [any |-> TRUE, s |-> {}]
Det(S) == IF ANYV \in S THEN ANYR ELSE [any |-> FALSE, s |-> S]
\* binary64 holds a + b*2^31 exactly, but not every a + b*2^31 + c*2^62: no verdict on such a Float64
FloatExact(r, t) == IF ~r.any /\ t = "Float64" /\ \E v \in r.s : v # NULL /\ DigC(v) # 0 THEN ANYR ELSE r

\* the set of typed values (of type TypeOf(e)) the expression may have on one row
RECURSIVE Eval(_, _), Eval1(_, _)
Eval(e, row) == FloatExact(Eval1(e, row), TypeOf(e))
Eval1(e, row) ==
    LET k == e.kids
        t == TypeOf(e)
        T(i) == TypeOf(k[i])
        V(i) == Eval(k[i], row) IN
    IF t = BAD THEN ANYR
    ELSE IF e.op = "col" THEN Det({row[ColIdx(e.ty)]})
    ELSE IF e.op = "lit" THEN Det({LitVal(e.ty, e.v)})
    ELSE IF \E i \in DOMAIN k : V(i).any THEN ANYR
    ELSE CASE e.op \in ArithOps -> Det({Arith1(e.op, Coerce(x, T(1), t), Coerce(y, T(2), t), t) : x \in V(1).s, y \in V(2).s})
           [] e.op = "neg" -> Det({IF x = NULL THEN NULL ELSE -x : x \in V(1).s})
           [] e.op \in CmpOps -> Det({Cmp3(e.op, x, T(1), y, T(2)) : x \in V(1).s, y \in V(2).s})
           [] e.op = "and" -> Det(UNION {{And3K(x, y), And3S(x, y)} : x \in V(1).s, y \in V(2).s})
           [] e.op = "or" -> Det(UNION {{Or3K(x, y), Or3S(x, y)} : x \in V(1).s, y \in V(2).s})
           [] e.op = "not" -> Det({Not3(x) : x \in V(1).s})
           [] e.op = "isnull" -> Det({IF x = NULL THEN 1 ELSE 0 : x \in V(1).s})
           [] e.op = "isnotnull" -> Det({IF x = NULL THEN 0 ELSE 1 : x \in V(1).s})
           [] e.op = "case" -> Det(UNION {IF c = 1 THEN {Coerce(x, T(2), t) : x \in V(2).s} ELSE {Coerce(y, T(3), t) : y \in V(3).s} : c \in V(1).s})
           [] e.op = "case2" -> Det(UNION {IF c = 1 THEN V(2).s ELSE {NULL} : c \in V(1).s})
           [] e.op = "coalesce" -> Det(UNION {IF x # NULL THEN {Coerce(x, T(1), t)} ELSE {Coerce(y, T(2), t) : y \in V(2).s} : x \in V(1).s})
           [] e.op = "nullif" -> Det({IF Eq3(x, T(1), y, T(2)) = 1 THEN NULL ELSE x : x \in V(1).s, y \in V(2).s})
           [] e.op = "cast" -> Det(UNION {CastVals(x, T(1), e.ty) : x \in V(1).s})
           [] OTHER -> ANYR

RECURSIVE SumOver(_, _)
SumOver(f, S) == IF S = {} THEN 0 ELSE LET i == CHOOSE j \in S : TRUE IN f[i] + SumOver(f, S \ {i})

\* ---- aggregates over a sequence of rows --------------------------------------------------------------
Mat(f) == f \o <<>>            \* force a lazily evaluated [i \in 1..n |-> ..] into a tuple (each element is evaluated once)
RowVal(a, row) == LET r == Eval(a, row) IN IF r.any \/ Cardinality(r.s) # 1 THEN ANYV ELSE CHOOSE x \in r.s : TRUE
AggVal(e, rows) ==                                         \* typed value of type TypeOf(e), or ANYV
    IF e.op = "countstar" THEN Len(rows)
    ELSE LET a == e.kids[1]
             ta == TypeOf(a)
             t == TypeOf(e)
             vs == Mat([i \in DOMAIN rows |-> RowVal(a, rows[i])])
             nn == {i \in DOMAIN rows : vs[i] # NULL} IN
    IF t = BAD \/ \E i \in DOMAIN rows : vs[i] = ANYV THEN ANYV
    ELSE CASE e.op = "count" -> Cardinality(nn)
           [] e.op \in {"sum", "avg"} ->
                LET tt == IF e.op = "avg" THEN "Float64" ELSE t
                    s == SumOver([i \in DOMAIN rows |-> Coerce(vs[i], ta, tt)], nn) IN
                IF nn = {} THEN NULL
                ELSE IF \E i \in nn : ~Within(Math(vs[i], ta), 60, 30, 30) THEN ANYV
                ELSE IF e.op = "sum" THEN s
                ELSE IF Pure(s) /\ Abs(s) % Cardinality(nn) = 0 THEN TruncDiv(s, Cardinality(nn)) ELSE ANYV   \* division does not commute with the digit correspondence
           [] e.op = "min" -> IF nn = {} THEN NULL ELSE CHOOSE x \in {vs[i] : i \in nn} : \A i \in nn : x <= vs[i]
           [] e.op = "max" -> IF nn = {} THEN NULL ELSE CHOOSE x \in {vs[i] : i \in nn} : \A i \in nn : x >= vs[i]
           [] OTHER -> ANYV

\* ---- set operations: the non-NULL mathematical values a statement may return ---------------------------
BranchVals(stmt, i, rows) ==                                \* sequence of math values (NULL kept), or <<ANYV>>
    LET b == stmt.kids[i]
        t == TypeOf(stmt)
        vs == Mat([j \in DOMAIN rows |-> RowVal(b, rows[j])]) IN
    IF \E j \in DOMAIN rows : vs[j] = ANYV THEN <<ANYV>>
    ELSE Mat([j \in DOMAIN rows |-> Math(Coerce(vs[j], TypeOf(b), t), t)])
CountIn(s, x) == Cardinality({j \in DOMAIN s : s[j] = x})

(* ---------------------------------------------------------------------- *)
(* LAWS (checked by TLC on every enumerated tree / type triple / value)   *)
(* ---------------------------------------------------------------------- *)
VARIABLE c

IsTree == c.op \notin {"seed", "tylaw", "vallaw"}

\* typing is a function: the rules derive at most one type, and it is TypeOf's
Functional == IsTree => LET S == {t \in Types : Judg(c, t)} IN IF TypeOf(c) = BAD THEN S = {} ELSE S = {TypeOf(c)}
\* a typed tree has typed subtrees; an alternative never types a tree the base dialect's subtrees reject differently
SubtreesTyped == IsTree /\ TypeOf(c) # BAD => \A i \in DOMAIN c.kids : TypeOf(c.kids[i]) # BAD
\* branch order does not change the type (UNION / CASE / COALESCE / symmetric binary operators)
BranchOrder ==
    IsTree =>
      /\ (c.op \in SetOps /\ Len(c.kids) = 2 => TypeOf(c) = TypeOf([c EXCEPT !.kids = <<c.kids[2], c.kids[1]>>]))
      /\ (c.op \in SetOps /\ Len(c.kids) = 3 => /\ TypeOf(c) = TypeOf([c EXCEPT !.kids = <<c.kids[3], c.kids[1], c.kids[2]>>])
                                                /\ TypeOf(c) = TypeOf([c EXCEPT !.kids = <<c.kids[2], c.kids[1], c.kids[3]>>]))
      /\ (c.op = "case" => TypeOf(c) = TypeOf([c EXCEPT !.kids = <<c.kids[1], c.kids[3], c.kids[2]>>]))
      /\ (c.op \in {"coalesce", "add", "mul", "eq", "ne", "and", "or"} => TypeOf(c) = TypeOf([c EXCEPT !.kids = <<c.kids[2], c.kids[1]>>]))
\* every branch value is a value of the result type (what makes value preservation possible at all)
BranchesWiden ==
    IsTree /\ TypeOf(c) # BAD =>
      /\ (c.op \in {"case", "coalesce"} \cup ArithOps \cup SetOps =>
            \A i \in DOMAIN c.kids : (c.op = "case" /\ i = 1) \/ Widens(TypeOf(c.kids[i]), TypeOf(c)))
      /\ (c.op \in AggOps \cup {"countstar"} => TypeOf(c) \in {"Int64", "Float64"} \/ c.op \in {"min", "max"})
      /\ (c.op \in {"count", "countstar"} => TypeOf(c) = "Int64")
      /\ (c.op = "sum" => TypeOf(c) = (IF TypeOf(c.kids[1]) = "Float64" THEN "Float64" ELSE "Int64"))
      /\ (c.op = "avg" => TypeOf(c) = "Float64")
      /\ (c.op \in {"min", "max"} => TypeOf(c) = TypeOf(c.kids[1]))
      /\ (c.op \in CmpOps \cup {"and", "or", "not", "isnull", "isnotnull"} => TypeOf(c) = "Boolean")
\* an alternative only ever changes WHICH type, never typability of a tree the dialect types
AltsTotal == IsTree /\ TypeOf(c) # BAD => \A n \in AltNames : TypeOfD(c, {n}) # BAD

\* unification is a commutative, associative, idempotent join with Null neutral, and it is an upper bound
UnifyComm == c.op = "tylaw" => Unify(c.a, c.b) = Unify(c.b, c.a)
UnifyAssoc == c.op = "tylaw" => Unify(Unify(c.a, c.b), c.d) = Unify(c.a, Unify(c.b, c.d))
UnifyIdem == c.op = "tylaw" => Unify(c.a, c.a) = c.a /\ Unify("Null", c.a) = c.a
UnifyUpper == c.op = "tylaw" /\ Unify(c.a, c.b) # BAD => Widens(c.a, Unify(c.a, c.b)) /\ Widens(c.b, Unify(c.a, c.b))

\* coercion is strictly monotone w.r.t. the value order and preserves the mathematical value
CoerceMonotone == c.op = "vallaw" /\ Widens(c.from, c.to) /\ c.x < c.y /\ c.y \in Vals(c.from)
                    => Coerce(c.x, c.from, c.to) < Coerce(c.y, c.from, c.to)
CoercePreserves == c.op = "vallaw" /\ Widens(c.from, c.to) => Math(Coerce(c.x, c.from, c.to), c.to) = Math(c.x, c.from)
\* comparing values of two numeric types compares their mathematical values
CmpIsMath == c.op = "vallaw" /\ c.y \in Vals(c.to) =>
               /\ Lt3(c.x, c.from, c.y, c.to) = (IF Math(c.x, c.from) < Math(c.y, c.to) THEN 1 ELSE 0)
               /\ Eq3(c.x, c.from, c.y, c.to) = (IF Math(c.x, c.from) = Math(c.y, c.to) THEN 1 ELSE 0)
               /\ Not3(Lt3(c.x, c.from, c.y, c.to)) = (IF Math(c.x, c.from) >= Math(c.y, c.to) THEN 1 ELSE 0)
               /\ Cmp3("ge", c.x, c.from, c.y, c.to) \in {ANYV, Not3(Lt3(c.x, c.from, c.y, c.to))}
               /\ Cmp3("ne", c.x, c.from, c.y, c.to) \in {ANYV, Not3(Eq3(c.x, c.from, c.y, c.to))}
\* a cast keeps the value (up to the fraction a Float64 -> integer cast must drop) or yields NULL; never another number
CastKeepsOrNull ==
    c.op = "vallaw" =>
      \A r \in CastVals(c.x, c.from, c.to) :
         \/ r = NULL
         \/ /\ InRange(r, c.to)
            /\ Abs(Math(r, c.to) - Math(c.x, c.from)) < 2                      \* less than one unit away
            /\ (c.from # "Float64" \/ c.to = "Float64" => Math(r, c.to) = Math(c.x, c.from))
\* ... and NULL only when the value does not fit; a widening cast is the implicit coercion
CastTotalWhenFits ==
    c.op = "vallaw" =>
      /\ (Widens(c.from, c.to) => CastVals(c.x, c.from, c.to) = {Coerce(c.x, c.from, c.to)})
      /\ (c.to \in Ints /\ InRange(-((-Math(c.x, c.from)) \div 2), c.to) /\ InRange(Math(c.x, c.from) \div 2, c.to)
             => NULL \notin CastVals(c.x, c.from, c.to))
      /\ (Widens(c.from, c.to) /\ c.to \in Num => \A r \in CastVals(c.x, c.from, c.to) : CastVals(r, c.to, c.from) = {c.x})

(* ---------------------------------------------------------------------- *)
(* enumeration and case emission                                          *)
(* ---------------------------------------------------------------------- *)
Leaves == {Col(t) : t \in ColTypes} \cup {Lit("Int64", 0), Lit("Int64", 1), Lit("Float64", 0), Lit("Utf8", 0), Lit("Boolean", 0), Lit("Null", 0), Lit("Date32", 0)}
CoreLeaves == {Col(t) : t \in ColTypes} \cup {Lit("Null", 0), Lit("Int64", 0)}
NumCols == {Col(t) : t \in Num}
BoolLeaves == {Col("Boolean"), Lit("Boolean", 0), Lit("Null", 0), Col("Int32")}
Cond == Col("Boolean")
Unary == {"neg", "not", "isnull", "isnotnull"}

\* one family of depth-2 trees per outer operator o over the leaf set L
D2(o, L) == CASE o \in ArithOps \cup CmpOps \cup {"coalesce", "nullif"} -> {N2(o, a, b) : a \in L, b \in L}
              [] o \in {"and", "or"} -> {N2(o, a, b) : a \in (IF Tier = "thorough" THEN L ELSE BoolLeaves), b \in (IF Tier = "thorough" THEN L ELSE BoolLeaves)}
              [] o \in Unary -> {N1(o, a) : a \in L}
              [] o = "case" -> {N3("case", Cond, a, b) : a \in L, b \in L} \cup {N2("case2", Cond, a) : a \in L}
              [] o = "cast" -> {CastN(a, t) : a \in L, t \in ColTypes}
              [] OTHER -> {}
InnerOps == {"add", "div", "eq", "coalesce", "nullif", "neg", "not", "isnull", "case", "cast"}
Inner2 == UNION {D2(o, CoreLeaves) : o \in InnerOps}
D3(o) == CASE o \in {"add", "eq", "lt", "coalesce"} -> {N2(o, i, l) : i \in Inner2, l \in CoreLeaves} \cup {N2(o, l, i) : i \in Inner2, l \in CoreLeaves}
           [] o = "case" -> {N3("case", Cond, i, l) : i \in Inner2, l \in CoreLeaves} \cup {N3("case", Cond, l, i) : i \in Inner2, l \in CoreLeaves}
           [] o = "cast" -> {CastN(i, t) : i \in Inner2, t \in {"Int32", "Int64", "Float64", "Utf8"}}
           [] o \in {"neg", "isnull", "not"} -> {N1(o, i) : i \in Inner2}
           [] OTHER -> {}
AggArgs == Leaves \cup {N2(o, a, b) : o \in {"add", "div"}, a \in NumCols, b \in NumCols}
                  \cup {N3("case", Cond, a, b) : a \in NumCols, b \in NumCols}
                  \cup {CastN(a, t) : a \in NumCols, t \in {"Int32", "Float64"}}
Aggs(o) == IF o = "countstar" THEN {CountStar} \cup {GroupN(kt, CountStar) : kt \in ColTypes}
           ELSE {N1(o, a) : a \in (IF Tier = "thorough" THEN AggArgs ELSE Leaves)}
                \cup {GroupN(kt, N1(o, a)) : kt \in ColTypes, a \in (IF Tier = "quick" THEN {Col("Int32"), Col("Float64"), Col("Utf8")} ELSE CoreLeaves)}
SetStmts(o) == LET L == IF Tier = "thorough" THEN Leaves ELSE CoreLeaves IN
               {N2(o, a, b) : a \in L, b \in L}
               \cup (IF Tier = "thorough" /\ o \in {"unionall", "union"} THEN {N3(o, a, b, d) : a \in NumCols \cup {Lit("Null", 0)}, b \in NumCols \cup {Lit("Null", 0)}, d \in NumCols \cup {Lit("Null", 0)}} ELSE {})

Seed(f, o) == [op |-> "seed", fam |-> f, o |-> o]
QuickArith == {"add", "sub", "div"}
QuickCmp == {"eq", "lt"}
Seeds ==
    CASE Tier = "laws" -> {Seed("tylaw", "x"), Seed("vallaw", "x")} \cup {Seed("d2", o) : o \in {"add", "eq", "case", "coalesce", "nullif", "cast", "and", "neg"}}
                           \cup {Seed("agg", o) : o \in AggOps} \cup {Seed("set", o) : o \in {"union", "except"}}
      [] Tier = "quick" -> {Seed("d2", o) : o \in QuickArith \cup QuickCmp \cup {"and", "or", "coalesce", "nullif", "case", "cast"} \cup Unary}
                           \cup {Seed("agg", o) : o \in AggOps \cup {"countstar"}}
                           \cup {Seed("set", o) : o \in {"unionall", "union", "intersect", "except"}}
      [] Tier = "thorough" -> {Seed("d2", o) : o \in ArithOps \cup CmpOps \cup {"and", "or", "coalesce", "nullif", "case", "cast"} \cup Unary}
                              \cup {Seed("d3", o) : o \in {"add", "eq", "coalesce", "case", "cast", "neg", "isnull"}}
                              \cup {Seed("agg", o) : o \in AggOps \cup {"countstar"}}
                              \cup {Seed("set", o) : o \in SetOps}
      [] OTHER -> {}
Expand(s) ==
    CASE s.fam = "d2" -> D2(s.o, IF Tier = "quick" THEN CoreLeaves ELSE Leaves)
      [] s.fam = "d3" -> D3(s.o)
      [] s.fam = "agg" -> Aggs(s.o)
      [] s.fam = "set" -> SetStmts(s.o)
      [] s.fam = "tylaw" -> [op : {"tylaw"}, a : TypesB, b : TypesB, d : TypesB]
      [] s.fam = "vallaw" -> UNION {[op : {"vallaw"}, from : {f}, to : Num, x : Vals(f), y : (-6 * B) .. (6 * B)] : f \in Num}
      [] OTHER -> {}

Init == c \in Seeds
Next == c.op = "seed" /\ c' \in Expand(c)

Kind(e) == IF e.op \in SetOps THEN "set" ELSE IF e.op = "group" THEN "group" ELSE IF e.op \in AggOps \cup {"countstar"} THEN "agg" ELSE "scalar"
\* one case per tree: the tree, the dialect's type, the type under each allowed alternative
Emit == IsTree /\ Tier \in {"quick", "thorough"} =>
          EmitCase([kind |-> Kind(c), e |-> c, mty |-> TypeOf(c),
                    alts |-> [n \in AltNames |-> TypeOfD(c, {n})], allalts |-> TypeOfD(c, AltNames)])
====
