CONSTANTS Families = {"f64leaf", "intleaf", "arith", "arith2", "bool", "bool3"}
          Variants = {"nulls"}
          Impl = "asbuilt"
          Strict = FALSE
          ArithLits = {"nz", "one", "pi", "nan"}
          CmpLits = {"pz", "nan"}
          ArithOps = {"add", "sub", "mul", "div"}
          ArithCmpOps = {"lt", "eq", "ge"}
          CH = 4
          Lens = {0, 1, 3, 4, 5, 8, 9}
          VM = "asbuilt"
INIT VMInit
NEXT VMNext
INVARIANT Refines
INVARIANT FreshDst
INVARIANT RegsInRange
CHECK_DEADLOCK FALSE
