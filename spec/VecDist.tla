---- MODULE VecDist ----
(***************************************************************************)
(* C38 — vector distance functions compute their formulas.                 *)
(*                                                                         *)
(* Vectors are sequences of integers (a NULL vector is <<>>), so every     *)
(* formula is stated in square-free integer form and no root is needed:    *)
(*     l2_distance(a,b)^2                  = L2Sq(a,b) = SUM (a_i - b_i)^2 *)
(*     dot_product(a,b)                    = Dot(a,b)  = SUM a_i * b_i     *)
(*     cosine_similarity(a,b)^2 |a|^2|b|^2 = Dot(a,b)^2, sign = sign(Dot)  *)
(*     cosine_distance(a,b)                = 1 - cosine_similarity(a,b)    *)
(* A NULL vector gives NULL; different dimensions are an error.            *)
(* Zero norm: the formula is 0/0.  The code's convention (vector.rs:       *)
(* `denom == 0.0 -> sim = 0.0`) is FIDELITY here; the contract only asks   *)
(* for a finite value inside the function's range.                         *)
(*                                                                         *)
(* An implementation result x is reported as m = round(x * 10^4) and       *)
(* m2 = round(x^2 * 10^4) (for cosine_distance y the pair is taken of      *)
(* s = 1 - y).  ValueOk is the acceptance used by VecDistTrace: the        *)
(* identity must hold within a RELATIVE TOLERANCE OF 10^-4 on the compared *)
(* quantity (+1 unit for the rounding of the report):                      *)
(*     l2 :  |m2 - 10^4 L| <= L + 1,  m >= 0                               *)
(*     dot:  |m  - 10^4 D| <= |D| + 1                                      *)
(*     sim:  m2 within [f-3, f+4], f = (10^4 D^2) div (na*nb); sign(m) ~ D *)
(***************************************************************************)
EXTENDS VerifIO, SequencesExt

IsNullVec(v) == Len(v) = 0
Sum(s) == FoldLeft(LAMBDA acc, x : acc + x, 0, s)
Dot(a, b) == Sum([i \in 1..Len(a) |-> a[i] * b[i]])
L2Sq(a, b) == Sum([i \in 1..Len(a) |-> (a[i] - b[i]) * (a[i] - b[i])])
NormSq(a) == Dot(a, a)
Abs(x) == IF x < 0 THEN -x ELSE x

Kinds == {"l2", "cos", "sim", "dot"}

\* ---- acceptance of one reported value -----------------------------------------
SignOk(D, m) == (D > 0 => m >= 0) /\ (D < 0 => m <= 0) /\ (D = 0 => Abs(m) <= 1)

ValueOk(kind, L, D, na, nb, m, m2) ==
  CASE kind = "l2" -> m >= 0 /\ Abs(m2 - L * 10000) <= L + 1
    [] kind = "dot" -> Abs(m - D * 10000) <= Abs(D) + 1
    [] OTHER ->                                     \* "sim", and "cos" reported as 1 - y
         IF na * nb = 0 THEN m2 <= 10001            \* zero norm: any value of the range [-1, 1]
         ELSE LET f == (D * D * 10000) \div (na * nb)
              IN  m2 >= f - 3 /\ m2 <= f + 4 /\ SignOk(D, m)

\* the code's zero-norm convention (similarity 0, distance 1): fidelity only
ZeroNormAsBuilt(m) == m = 0

\* one reported row r = <<isnull, finite, m, m2, raw>> for the pair (a, b)
RowOk(kind, a, b, r) ==
  IF IsNullVec(a) \/ IsNullVec(b) THEN r[1] = 1
  ELSE /\ r[1] = 0
       /\ r[2] = 1
       /\ ValueOk(kind, L2Sq(a, b), Dot(a, b), NormSq(a), NormSq(b), r[3], r[4])

RowDrift(kind, a, b, r) ==
  /\ ~IsNullVec(a) /\ ~IsNullVec(b) /\ kind \in {"cos", "sim"}
  /\ NormSq(a) * NormSq(b) = 0
  /\ ~ZeroNormAsBuilt(r[3])

\* a whole call: column `col` (already sliced) of dimension d against `others`
\* (the literal repeated, or the second column), dimension d2
CallOk(kind, d, col, d2, others, o) ==
  IF d # d2 THEN (Len(col) = 0 \/ o.k = "err")       \* dimension mismatch is an error
  ELSE /\ o.k = "ok"
       /\ Len(o.rows) = Len(col)
       /\ \A i \in 1..Len(col) : RowOk(kind, col[i], others[i], o.rows[i])

\* ---- model: the input space TLC enumerates -------------------------------------
CONSTANTS Family,      \* "pairs" | "nulls"
          Dims,        \* set of dimensions
          Amp          \* components range over -Amp..Amp

Lo == -Amp
Hi == Amp
W == Hi - Lo + 1
Pow(b, e) == b ^ e
VecOf(d, idx) == [j \in 1..d |-> ((idx \div Pow(W, j - 1)) % W) + Lo]
NVec(d) == Pow(W, d)
AllVecs(d) == [i \in 1..NVec(d) |-> VecOf(d, i - 1)]
Zero(d) == [j \in 1..d |-> 0]

\* "nulls" family: a 5-row base column, NULL rows at every position, every slice,
\* against literals (incl. wrong widths) and against a second column
BaseRows(d) == [i \in 1..5 |-> IF i = 5 THEN Zero(d) ELSE VecOf(d, (i * 37 + 11) % NVec(d))]
Base2(d) == [i \in 1..6 |-> IF i = 2 THEN Zero(d) ELSE VecOf(d, (i * 53 + 7) % NVec(d))]
Mask(rows, S) == [i \in DOMAIN rows |-> IF i \in S THEN <<>> ELSE rows[i]]
Lits(d) == {[j \in 1..d |-> 1], Zero(d), [j \in 1..d |-> IF j % 2 = 1 THEN 2 ELSE -1]}
BadLits(d) == {[j \in 1..d + 1 |-> 1]} \cup (IF d > 1 THEN {[j \in 1..d - 1 |-> 1]} ELSE {})
Masks2 == {{}, {1}, {2, 3}, {1, 2, 3, 4, 5, 6}}

VARIABLE c
\* Init only picks a coarse seed (dimension, class g); the action Fill picks the case, so that TLC's
\* workers share the enumeration (invariants on initial states are evaluated by one thread).
Seed(d, g) == [fam |-> "seed", dim |-> d, rows |-> <<>>, off |-> g, len |-> 0, mode |-> "lit", q |-> <<>>,
               dim2 |-> 0, rows2 |-> <<>>, off2 |-> 0]
Init == \E d \in Dims : \E g \in 0..7 : c = Seed(d, g)
Sub3(g) == {i \in 1..3 : (g \div Pow(2, i - 1)) % 2 = 1}
Fill ==
  /\ c.fam = "seed"
  /\ LET d == c.dim  g == c.off IN
     \/ /\ Family = "pairs"
        /\ \E qi \in 1..NVec(d) :
             /\ qi % 8 = g
             /\ c' = [fam |-> "pairs", dim |-> d, rows |-> AllVecs(d), off |-> 0, len |-> NVec(d), mode |-> "lit",
                      q |-> VecOf(d, qi - 1), dim2 |-> 0, rows2 |-> <<>>, off2 |-> 0]
     \/ /\ Family = "nulls"
        /\ \E S \in SUBSET (1..5) : \E off \in 0..5 : \E len \in 0..5 :
             /\ S \cap (1..3) = Sub3(g)
             /\ off + len <= 5
             /\ (len = 0 => off \in {0, 5})
             /\ \/ \E q \in Lits(d) \cup BadLits(d) :
                     c' = [fam |-> "nulls", dim |-> d, rows |-> Mask(BaseRows(d), S), off |-> off, len |-> len, mode |-> "lit",
                           q |-> q, dim2 |-> 0, rows2 |-> <<>>, off2 |-> 0]
                \/ \E S2 \in Masks2 : \E off2 \in 0..1 : \E d2 \in {d, d + 1} :
                     /\ (d2 # d => S2 = {} /\ off2 = 0)
                     /\ c' = [fam |-> "nulls", dim |-> d, rows |-> Mask(BaseRows(d), S), off |-> off, len |-> len, mode |-> "col",
                              q |-> <<>>, dim2 |-> d2, rows2 |-> Mask(Base2(d2), S2), off2 |-> off2]
Next == Fill

Slice(rows, off, len) == SubSeq(rows, off + 1, off + len)
Col(cc) == Slice(cc.rows, cc.off, cc.len)
Others(cc) == IF cc.mode = "lit" THEN [i \in 1..cc.len |-> cc.q] ELSE Slice(cc.rows2, cc.off2, cc.len)
OtherDim(cc) == IF cc.mode = "lit" THEN Len(cc.q) ELSE cc.dim2

\* ---- laws TLC checks on every enumerated case -----------------------------------
\* what an ideal implementation reports for similarity: m2 rounded to nearest
IdealM2(D, P) == (D * D * 10000 + (P \div 2)) \div P
Laws ==
  c.fam # "seed" =>
  \A i \in 1..Len(Col(c)) :
    LET a == Col(c)[i]  b == Others(c)[i] IN
    (~IsNullVec(a) /\ ~IsNullVec(b) /\ Len(a) = Len(b)) =>
      LET L == L2Sq(a, b)  D == Dot(a, b)  na == NormSq(a)  nb == NormSq(b) IN
      /\ L = na + nb - 2 * D                          \* polarization identity
      /\ D * D <= na * nb                             \* Cauchy-Schwarz: |cos_sim| <= 1
      /\ D = Dot(b, a) /\ L = L2Sq(b, a)              \* symmetry
      /\ (L = 0) = (a = b)
      \* the tolerance admits the exact value ...
      /\ ValueOk("l2", L, D, na, nb, 1, L * 10000)
      /\ ValueOk("dot", L, D, na, nb, D * 10000, 0)
      /\ (na * nb > 0 => ValueOk("sim", L, D, na, nb, D, IdealM2(D, na * nb)))
      \* ... and rejects the neighbouring wrong ones: a dropped / extra unit component, a wrong sign,
      \* NaN / non-finite for zero norm (finite = 0 is rejected by RowOk), 0.0 for a NULL row
      /\ ~ValueOk("l2", L, D, na, nb, 1, (L + 1) * 10000)
      /\ ~ValueOk("dot", L, D, na, nb, (D + 1) * 10000, 0)
      /\ (na * nb > 0 /\ D # 0 => ~ValueOk("sim", L, D, na, nb, -D, 0))
      /\ (na * nb > 0 /\ D * D < na * nb => ~ValueOk("sim", L, D, na, nb, 1, 10000))
      /\ ~RowOk("l2", <<>>, b, <<0, 1, 0, 0, 0>>)

\* expectations handed to the harness with each case (exact integers)
ExpRow(a, b) == IF IsNullVec(a) \/ IsNullVec(b) THEN <<1, 0, 0, 0, 0>>
                ELSE <<0, L2Sq(a, b), Dot(a, b), NormSq(a), NormSq(b)>>
Exp(cc) == IF cc.dim # OtherDim(cc) THEN [err |-> 1, rows |-> <<>>]
           ELSE [err |-> 0, rows |-> [i \in 1..cc.len |-> ExpRow(Col(cc)[i], Others(cc)[i])]]

Emit == c.fam # "seed" => EmitCase([fam |-> c.fam, dim |-> c.dim, rows |-> c.rows, off |-> c.off, len |-> c.len, mode |-> c.mode, q |-> c.q,
                  dim2 |-> c.dim2, rows2 |-> c.rows2, off2 |-> c.off2, path |-> "api", exp |-> Exp(c)])
====
