CONSTANTS Threads = {1, 2, 3}
          MaxOps = 1
          MaxSet <- MS_3_Top
          Sizes <- SZ_12_Top
          Kinds = {"try", "alloc", "resize", "drop"}
          Spurious = FALSE
          Buggy = "none"
          Hist = TRUE
          Canon = TRUE
INIT Init
NEXT Next
INVARIANTS Exact NoWrapWhenFits NoUnderflow NoBadGrant Quiescent EmitDone
CHECK_DEADLOCK FALSE
