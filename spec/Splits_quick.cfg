CONSTANTS MIN = 4
          MAX = 64
          SPN = 2
          MaxFiles = 2
          MaxRgs = 3
          MaxRows = 2
          ByteVals = {1, 6}
          NodeVals = {1, 2, 4}
          AllowDup = FALSE
          EmitMode = 0
          Regimes = {"small", "minclamp", "ideal"}
INIT Init
NEXT Next
INVARIANT AllProps
CHECK_DEADLOCK FALSE
