---- MODULE TypingTrace ----
(***************************************************************************)
(* X04 "Typing" (C30 / C01): judgement of statements recorded from the     *)
(* real engine by `qev typing-run` against Typing.tla.                     *)
(*                                                                         *)
(* One line = one statement `SELECT rid, <e> AS e FROM t` (or its          *)
(* aggregate / GROUP BY / set-operation form) that the engine ANSWERED on  *)
(* one table in one configuration:                                         *)
(*   report, plan, batches : the schema QueryResult reports, the physical  *)
(*                           plan's schema (what Flight GetSchema sends),  *)
(*                           every returned batch's schema, as sequences   *)
(*                           of <<name, type>>                             *)
(*   rows                  : the returned values, mapped by the driver     *)
(*                           into the model's domain (units of 1/2, base-B *)
(*                           digits; OFF = not in the domain)              *)
(* contract (a), C30 : report, plan and every batch agree in column count, *)
(*                     names and types (nullability is not recorded),      *)
(*                     exactly SchemaTrace.tla's rule;                     *)
(* contract (b), C01 : every returned value is one Typing.tla allows.      *)
(* Rejections are printed and the judge goes on to the next line.          *)
(***************************************************************************)
EXTENDS Naturals, Integers, Sequences, FiniteSets, TLC, Json, IOUtils

B == 1024
Tier == "none"
Mut == "none"
VARIABLE c
INSTANCE Typing

\* constant-level definitions: TLC evaluates them once (a cfg override `X <- Def` would be re-read at every use)
Tabs == ndJsonDeserialize(IOEnv.TYPING_TABLES)[1]      \* [s |-> rows, b |-> rows]: the two tables in typed model values
Rec == ndJsonDeserialize(IOEnv.TRACE)                  \* the recorded lines
VARIABLE l

\* ---- contract (a) ---------------------------------------------------------------------------------
Same(a, b) == Len(a) = Len(b) /\ \A i \in DOMAIN a : a[i][1] = b[i][1] /\ a[i][2] = b[i][2]
Describes(r) == /\ \A i \in DOMAIN r.batches : Same(r.report, r.batches[i])
                /\ (r.hasplan = 1 => Same(r.report, r.plan))
                /\ Len(r.report) = r.arity

\* ---- contract (b) ---------------------------------------------------------------------------------
KindOf(t) == CASE t \in Num -> "num" [] t = "Boolean" -> "bool" [] t = "Utf8" -> "str" [] t = "Date32" -> "date" [] OTHER -> "null"
Comparable(kind, t) == kind = "null" \/ kind = KindOf(t)          \* otherwise the engine answered in another kind of type: drift, no value verdict
Rows(r) == Tabs[r.tab]
\* bad(.) operators return a sequence: <<>> = accepted, else <<position, got, expected values>>
Expect(S, t) == {Math(v, t) : v \in S}
ValueOk(out, ev, t) == ev.any \/ (\E m \in Expect(ev.s, t) : ~Representable(m)) \/ out \in Expect(ev.s, t)

ScalarBad(r) ==
    LET t == TypeOf(r.e)
        n == Len(Rows(r))
        bad == {i \in DOMAIN r.rows : LET rid == r.rows[i][1] IN
                    rid < 0 \/ rid >= n \/ ~ValueOk(r.rows[i][2], Eval(r.e, Rows(r)[rid + 1]), t)} IN
    IF ~Comparable(r.okind, t) \/ t = BAD THEN <<>>
    ELSE IF Len(r.rows) # n \/ {r.rows[i][1] : i \in DOMAIN r.rows} # 0 .. (n - 1) THEN <<0, Len(r.rows), {n}>>
    ELSE IF bad = {} THEN <<>>
    ELSE LET i == CHOOSE j \in bad : \A k \in bad : j <= k
             rid == r.rows[i][1] IN
         <<rid, r.rows[i][2], IF rid < 0 \/ rid >= n THEN {} ELSE Expect(Eval(r.e, Rows(r)[rid + 1]).s, t)>>

AggOk(out, a, rows) == LET v == AggVal(a, rows) IN v = ANYV \/ ~Representable(Math(v, TypeOf(a))) \/ out = Math(v, TypeOf(a))
AggBad(r) ==
    LET t == TypeOf(r.e) IN
    IF ~Comparable(r.okind, t) \/ t = BAD THEN <<>>
    ELSE IF Len(r.rows) # 1 THEN <<0, Len(r.rows), {1}>>
    ELSE IF AggOk(r.rows[1][1], r.e, Rows(r)) THEN <<>>
    ELSE <<1, r.rows[1][1], {Math(AggVal(r.e, Rows(r)), t)}>>

GroupBad(r) ==
    LET a == r.e.kids[1]
        kt == r.e.ty
        t == TypeOf(a)
        grp(k) == SelectSeq(Rows(r), LAMBDA row : Math(row[ColIdx(kt)], kt) = k)
        keys == {r.rows[i][1] : i \in DOMAIN r.rows} \ {NULL}
        bad == {i \in DOMAIN r.rows : r.rows[i][1] # NULL /\ (grp(r.rows[i][1]) = <<>> \/ ~AggOk(r.rows[i][2], a, grp(r.rows[i][1])))} IN
    IF ~Comparable(r.okind, t) \/ r.kkind # KindOf(kt) \/ t = BAD THEN <<>>
    ELSE IF \E k \in keys : Cardinality({i \in DOMAIN r.rows : r.rows[i][1] = k}) > 1 THEN <<0, Len(r.rows), {Cardinality(keys)}>>     \* a key twice
    ELSE IF bad = {} THEN <<>>
    ELSE LET i == CHOOSE j \in bad : \A k \in bad : j <= k IN
         <<r.rows[i][1], r.rows[i][2], IF grp(r.rows[i][1]) = <<>> THEN {} ELSE {Math(AggVal(a, grp(r.rows[i][1])), t)}>>

Elems(s) == {s[j] : j \in DOMAIN s}
SetBad(r) ==
    LET st == r.e
        t == TypeOf(st)
        n == Len(st.kids)
        rows == Rows(r)
        A == BranchVals(st, 1, rows)
        Bv == BranchVals(st, 2, rows)
        Cv == IF n = 3 THEN BranchVals(st, 3, rows) ELSE <<>>
        all == A \o Bv \o Cv
        outs == [i \in DOMAIN r.rows |-> r.rows[i][1]]
        got == Elems(outs) \ {NULL}
        want == CASE st.op \in {"unionall", "union"} -> Elems(all) \ {NULL}
                  [] st.op \in {"intersect", "intersectall"} -> (Elems(A) \cap Elems(Bv)) \ {NULL}
                  [] st.op = "except" -> (Elems(A) \ Elems(Bv)) \ {NULL}
                  [] st.op = "exceptall" -> {x \in Elems(A) \ {NULL} : CountIn(A, x) > CountIn(Bv, x)}
        \* EXCEPT ALL: multiplicities are C24's; every value of A \ B must come back, a value with more copies in A than in B may
        least == IF st.op = "exceptall" THEN (Elems(A) \ Elems(Bv)) \ {NULL} ELSE want IN
    IF ~Comparable(r.okind, t) \/ t = BAD THEN <<>>
    ELSE IF ANYV \in Elems(all) \/ \E m \in Elems(all) : ~Representable(m) THEN <<>>
    ELSE IF ~(least \subseteq got /\ got \subseteq want) THEN <<0, got, want>>            \* a value lost, invented or changed (NULLs and multiplicities are C24's)
    ELSE IF st.op = "unionall" /\ \E x \in Elems(all) \cup Elems(outs) : CountIn(outs, x) # CountIn(all, x)
         THEN <<1, {x \in Elems(all) \cup Elems(outs) : CountIn(outs, x) # CountIn(all, x)}, want>>
    ELSE <<>>

ValueBad(r) == CASE r.kind = "scalar" -> ScalarBad(r)
                 [] r.kind = "agg" -> AggBad(r)
                 [] r.kind = "group" -> GroupBad(r)
                 [] r.kind = "set" -> SetBad(r)

Judge(r) ==
    /\ IF Describes(r) THEN TRUE
       ELSE PrintT(<<"REJECT", ToJson([line |-> l, id |-> r.id, cfg |-> r.cfg, tab |-> r.tab, why |-> "schema"])>>)
    /\ LET vb == ValueBad(r) IN
       IF vb = <<>> THEN TRUE
       ELSE PrintT(<<"REJECT", ToJson([line |-> l, id |-> r.id, cfg |-> r.cfg, tab |-> r.tab, why |-> "value", at |-> vb[1], got |-> vb[2], want |-> vb[3]])>>)

TInit == l = 1 /\ c = 0
TNext == l <= Len(Rec) /\ Judge(Rec[l]) /\ l' = l + 1 /\ UNCHANGED c
Accepted == LET d == TLCGet("stats").diameter - 1 IN
            IF d = Len(Rec) THEN PrintT(<<"ACCEPT", ToJson([n |-> d])>>)
            ELSE PrintT(<<"STUCK", ToJson([line |-> d + 1])>>) /\ FALSE
====
