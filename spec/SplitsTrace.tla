---- MODULE SplitsTrace ----
(***************************************************************************)
(* C11 trace validation.  One line = one GROUP of calls of the real        *)
(* `enumerate_parquet` over variants of one inventory materialised as real *)
(* Parquet files (listing permuted, directories changed, single-attribute  *)
(* mutations), each at several node counts:                                *)
(*   [gid, calls: <<[files]>>, runs: <<[ci, nodes, ok, again, splits,      *)
(*    total_bytes, total_rows, target, dg]>>]                              *)
(* `files` are the footers as read back from disk (real row counts and     *)
(* byte sizes), `dg` is the dense rank of the real 64-bit digest inside    *)
(* the group.  A group is accepted iff every run satisfies the contract    *)
(* (a)(b)(c) and every pair of runs satisfies (d) and (e), with the real   *)
(* constants.  DEV_SAME_NAME=1 enables the listed deviation                *)
(* C11/same-name-files: (d) is not required of listings in which two files *)
(* share a name.                                                           *)
(***************************************************************************)
EXTENDS Naturals, Integers, Sequences, FiniteSets, TLC, Json, IOUtils

MIN == 4194304      \* MIN_SPLIT_BYTES  4 MiB
MAX == 67108864     \* MAX_SPLIT_BYTES 64 MiB
SPN == 32           \* SPLITS_PER_NODE
INSTANCE SplitsOps

Rec == ndJsonDeserialize(IOEnv.TRACE)
DevSameName == IOEnv.DEV_SAME_NAME = "1"
VARIABLE l

FilesOf(g, r) == g.calls[r.ci].files

\* one call: a value that satisfies the contract; an explicit error is tolerated only for a
\* listing whose file names are ambiguous
RunOk(g, r) ==
  IF r.ok = 1
  THEN /\ r.again = 1                                                     \* same input, same value
       /\ Contract(FilesOf(g, r), r.splits, r.total_bytes, r.total_rows)  \* (a)(b)(c)
  ELSE HasDupNames(FilesOf(g, r))

\* all pairs of runs of the group:
\*  (d) same content, same node count => same canonical tuples (waived by the deviation for listings
\*      with a repeated file name);
\*  (e) the digest is a function of the tuples and separates different tuples; in particular runs over
\*      different content (same node count) have different digests.
GroupOk(g) ==
  LET R == g.runs
      T == [i \in DOMAIN R |-> Tuples(R[i].splits)]
      B == [c \in DOMAIN g.calls |-> ContentBag(g.calls[c].files)]
      D == [c \in DOMAIN g.calls |-> HasDupNames(g.calls[c].files)]
  IN /\ \A i \in DOMAIN R : RunOk(g, R[i])
     /\ \A i, k \in DOMAIN R :
          (i < k /\ R[i].ok = 1 /\ R[k].ok = 1) =>
            /\ (R[i].nodes = R[k].nodes /\ B[R[i].ci] = B[R[k].ci] /\ ~(DevSameName /\ (D[R[i].ci] \/ D[R[k].ci])))
                  => T[i] = T[k]                                                       \* (d)
            /\ (T[i] = T[k]) <=> (R[i].dg = R[k].dg)                                   \* (e)
            /\ (R[i].nodes = R[k].nodes /\ B[R[i].ci] # B[R[k].ci]) => R[i].dg # R[k].dg   \* (e) sensitivity

\* fidelity (never a verdict): the modelled cutting arithmetic reproduces the real result
\* (evaluated on the first two calls of each group: the base listing and its permutation)
SmallEnough(files) == \A i \in DOMAIN files : \A j \in DOMAIN files[i].rgs : files[i].rgs[j].rows <= 40000
Drifts(g) == {i \in DOMAIN g.runs :
                LET r == g.runs[i]  files == FilesOf(g, r) IN
                /\ r.ok = 1 /\ r.ci <= 2 /\ SmallEnough(files) /\ ~HasDupNames(files)
                /\ \/ Tuples(ImplEnumerate(files, r.nodes)) # Tuples(r.splits)
                   \/ Target(TotalBytes(files), r.nodes) # r.target
                   \/ ~Sorted(r.splits)}

TInit == l = 1
\* CLASSIFY=1: a group that is not accepted is reported (BAD) and skipped instead of ending the trace
Group == /\ l <= Len(Rec)
         /\ IF GroupOk(Rec[l]) THEN TRUE
            ELSE (IOEnv.CLASSIFY = "1" /\ EmitTag("BAD", [line |-> l, gid |-> Rec[l].gid]))
         /\ (IOEnv.FIDELITY = "1" /\ Drifts(Rec[l]) # {}) => EmitTag("DRIFT", [gid |-> Rec[l].gid, runs |-> Drifts(Rec[l])])
         /\ l' = l + 1
TNext == Group
Accepted == LET d == TLCGet("stats").diameter - 1 IN
            IF d = Len(Rec) THEN EmitTag("ACCEPT", [n |-> d])
            ELSE EmitTag("REJECT", [line |-> d + 1, gid |-> Rec[d + 1].gid]) /\ FALSE
====
