---- MODULE CsvTrace ----
(* C40 trace validation: the ACTUAL output of the real formatter / shell, one action per
   character, is read by the reference machines of Csv.tla and judged against the table it
   was printed from.  Line 1 of the trace: {"open": [ids of open deviations]}; every other
   line: {"fmt": 1|2, "sw": 0|1, "hdr": [[cp..]..], "rows": [[{k,s}..]..], "chars": [cp..]}.
   sw = 1: the characters are consumed by the per-character actions of Csv.tla, one TLC state each;
   sw = 0: the same step operator is folded over the characters inside one action (Whole) - same
   machine, one state per output, so that every output of a run can be judged.
   Verdict per line: ACCEPT (accepted and reads back as expected), KNOWN (not accepted, but the
   output is character for character what the writer produces under a smallest set of open
   deviations), REJECT (anything else). *)
EXTENDS Naturals, Integers, Sequences, SequencesExt, FiniteSets, TLC, Json, IOUtils

Alphabet == {}
MaxLen == 0
Positions == {}
FillPairs == {}
AllPairs == {}
Fmts == {1, 2}
DEVS == {{}}
VARIABLES tbl, fmt, dev, shape, input, pos, cs, js
INSTANCE Csv

Rec == ndJsonDeserialize(IOEnv.TRACE)
Open == {Rec[1].open[i] : i \in 1..Len(Rec[1].open)}
VARIABLE l
tvars == <<tbl, fmt, dev, shape, input, pos, cs, js, l>>

Load(i) == /\ tbl' = [hdr |-> Rec[i].hdr, types |-> <<>>, rows |-> Rec[i].rows]
           /\ fmt' = Rec[i].fmt
           /\ input' = Rec[i].chars
           /\ pos' = 1 /\ cs' = CsvInit /\ js' = JsonInit
TInit == /\ l = 2 /\ dev = {} /\ shape = <<0, 1>>
         /\ IF Len(Rec) >= 2
            THEN /\ tbl = [hdr |-> Rec[2].hdr, types |-> <<>>, rows |-> Rec[2].rows]
                 /\ fmt = Rec[2].fmt /\ input = Rec[2].chars /\ pos = 1
            ELSE tbl = NoTable /\ fmt = 1 /\ input = <<>> /\ pos = 0
         /\ cs = CsvInit /\ js = JsonInit

Explaining == {D \in SUBSET (Open \cap (IF fmt = 1 THEN CsvDevs ELSE JsonDevs)) : Write(tbl, fmt, D) = input}
Smallest(Ex) == CHOOSE D \in Ex : \A E \in Ex : Cardinality(D) <= Cardinality(E)
Judge == IF Holds THEN EmitTag("ACCEPT", [line |-> l])
         ELSE IF Explaining # {} THEN EmitTag("KNOWN", [line |-> l, devs |-> Smallest(Explaining)])
         ELSE EmitTag("REJECT", [line |-> l,
                                 mode |-> IF fmt = 1 THEN CsvFinal(cs).mode ELSE JsonFinal(js).mode,
                                 from |-> IF fmt = 1 THEN CsvFinal(cs).from ELSE JsonFinal(js).from])
Finish == /\ AtEnd /\ l <= Len(Rec)
          /\ Judge
          /\ l' = l + 1
          /\ IF l + 1 <= Len(Rec) THEN Load(l + 1)
             ELSE /\ EmitTag("DONE", [lines |-> l])
                  /\ pos' = 0 /\ input' = <<>> /\ UNCHANGED <<tbl, fmt, cs, js>>
          /\ UNCHANGED <<dev, shape>>
Whole == /\ pos = 1 /\ l <= Len(Rec) /\ Rec[l].sw = 0 /\ Len(input) >= 1
         /\ cs' = (IF fmt = 1 THEN FoldLeft(CsvStep, CsvInit, input) ELSE cs)
         /\ js' = (IF fmt = 2 THEN FoldLeft(JsonStep, JsonInit, input) ELSE js)
         /\ pos' = Len(input) + 1
         /\ UNCHANGED <<tbl, fmt, dev, shape, input, l>>
Char == /\ l <= Len(Rec) /\ Rec[l].sw = 1
        /\ (CsvComma \/ CsvDquote \/ CsvCr \/ CsvLf \/ CsvOther
            \/ JsonWs \/ JsonDquote \/ JsonBackslash \/ JsonControl \/ JsonDigit \/ JsonPunct \/ JsonOther)
        /\ UNCHANGED l
TNext == Char \/ Whole \/ Finish
TSpec == TInit /\ [][TNext]_tvars
====
