CONSTANTS MaxK = 6
          MaxSize = 5
          Ns = {1, 2, 3}
          Brute = TRUE
INIT Init
NEXT Next
INVARIANT LoadIsSum
INVARIANT Gap
INVARIANT PlacedOnce
INVARIANT AtDone
INVARIANT Emit
CHECK_DEADLOCK FALSE
