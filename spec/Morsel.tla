---- MODULE Morsel ----
(***************************************************************************)
(* X03 (parent C07) — the morsel-driven parallel Parquet scan              *)
(* (src/physical/morsel.rs, ParallelParquetSource) and its consumers       *)
(* (read_all_parallel / read_and_process / execute_morsel_aggregation /    *)
(* MorselAggregateExec), at the grain of the code's atomic steps.          *)
(*                                                                         *)
(* The shared object                                                       *)
(*   work_queue : Mutex<VecDeque<RowGroupWork>>   `queue`                  *)
(*   completed  : AtomicUsize                     `completed`              *)
(*   total_row_groups : usize (fixed by try_new)  `total`                  *)
(* and its calls, each ONE atomic step:                                    *)
(*   get_work()      lock; pop_front; unlock      PopFront(r)  (r = 0: None)*)
(*   complete_work() completed.fetch_add(1)       FetchAdd                 *)
(*   progress()      (completed.load(), total)    Progress(c, t)           *)
(*   total_work()    total                                                 *)
(*   read_row_group(w)  touches no shared state: delivers the rows of w    *)
(*                      (all of them when the zone maps proved the filter  *)
(*                      true for the group, else those passing the filter) *)
(* The queue is filled by try_new_with_filter with the row groups the      *)
(* pruner keeps, in (file, row group) order.                               *)
(*                                                                         *)
(* A worker (the closure run num_threads times by rayon) is the loop       *)
(*   while let Some(work) = get_work() { read_row_group(&work)?;           *)
(*                                       <consume morsels>; complete_work() }*)
(* i.e. pc: get -> read -> complete -> get ... -> done; a read error       *)
(* leaves the loop without complete_work (pc = failed, the call errs).     *)
(*                                                                         *)
(* Row groups are 1..R; row group r has rg[r].n rows identified (r, 1..n), *)
(* the first rg[r].p of them pass the pushed filter.  kept / at (filter    *)
(* proven all-true) are what try_new_with_filter decided; Init admits      *)
(* every decision a SOUND pruner may take (C05 is the property about       *)
(* soundness; here it is an assumption).                                   *)
(*                                                                         *)
(* Checked under every interleaving:                                       *)
(*   ExactlyOnce      no row group is handed out twice, none is lost       *)
(*   ProgressBound    completed <= total        ObsOK: every progress()    *)
(*   ProgressHonest   completed <= #row groups whose rows were delivered   *)
(*   Monotone         completed and successive progress() never decrease   *)
(*   AtQuiescence     without a read error: queue empty, progress = total, *)
(*                    every row passing the filter delivered exactly once, *)
(*                    no other row delivered; got[] is a partition of kept *)
(*   AggAtEnd         (Agg) merging the per-worker partial states in any   *)
(*                    order shows the sequential fold of the table         *)
(*                    (the law itself, over all tables: MorselLaw.tla)     *)
(* Mutant selects a seeded protocol mistake TLC must refute:               *)
(*   SplitPop          front() and pop_front() in two critical sections    *)
(*   CompleteOnHandout completed counted in get_work, not after the read   *)
(*   TornComplete      complete_work as load; store(load + 1)              *)
(***************************************************************************)
EXTENDS MorselAggOps, FiniteSets, FiniteSetsExt

CONSTANTS W,           \* worker threads 1..W
          R,           \* row groups 1..R (before pruning)
          RowChoices,  \* admissible row counts of a row group
          Filter,      \* TRUE: a filter was pushed (pruning, all-true flags, row filter)
          Fault,       \* TRUE: read_row_group may fail
          Agg,         \* TRUE: workers fold what they read into partial states merged at the end
          Hist,        \* TRUE: keep the schedule and emit it at the end (conformance cases)
          Mutant       \* "none" | "SplitPop" | "CompleteOnHandout" | "TornComplete" | "MinOverwrite"

Workers == 1..W
RGs == 1..R
OP_GET == 1
OP_READ == 2
OP_COMPLETE == 3

VARIABLES rg,         \* [RGs -> [n, p, kept, at]]
          queue, completed, total,
          pc, held, tmp,
          handed, readcnt, got, obs, anyfail,
          part, final, pending,
          hist
vars == <<rg, queue, completed, total, pc, held, tmp, handed, readcnt, got, obs, anyfail, part, final, pending, hist>>

\* ------------------------------------------------------------------ the object
PopFront(r) == IF queue = <<>> THEN r = 0 /\ UNCHANGED queue
               ELSE r = Head(queue) /\ queue' = Tail(queue)
FetchAdd == completed' = completed + 1
Progress(c, t) == c = completed /\ t = total

\* rows read_row_group(r) delivers: ids 1..Delivered(r)
Delivered(r) == IF rg[r].at = 1 THEN rg[r].n ELSE rg[r].p

\* a fixed little table for the aggregation consumer (key, value per row; NULL keys and values present)
Content(r) == LET base == <<  << <<1, 1>>, <<NULL, 2>> >>,
                              << <<1, 2>> >>,
                              << <<NULL, NULL>>, <<2, 1>> >>,
                              << >>,
                              << <<2, NULL>>, <<1, 1>> >>  >>
              IN base[((r - 1) % 5) + 1]
AllRows == FoldLeft(LAMBDA acc, r : acc \o Content(r), <<>>, [i \in RGs |-> i])
MergeMut == IF Mutant = "MinOverwrite" THEN "MinOverwrite" ELSE "none"

\* ------------------------------------------------------------------ init: try_new_with_filter
RgFacts == {f \in [n : RowChoices, p : 0..Max(RowChoices \cup {0}), kept : {0, 1}, at : {0, 1}] :
              /\ f.p <= f.n
              /\ (~Filter => f.p = f.n /\ f.kept = 1 /\ f.at = 0)
              /\ (f.p > 0 => f.kept = 1)           \* sound pruning: a group with a passing row is kept
              /\ (f.at = 1 => f.kept = 1 /\ f.p = f.n)}   \* sound all-true proof
KeptSeq(f) == SelectSeq([i \in RGs |-> i], LAMBDA r : f[r].kept = 1)

Init == /\ rg \in [RGs -> RgFacts]
        /\ queue = KeptSeq(rg) /\ completed = 0 /\ total = Len(KeptSeq(rg))
        /\ pc = [w \in Workers |-> "get"] /\ held = [w \in Workers |-> 0] /\ tmp = [w \in Workers |-> 0]
        /\ handed = [r \in RGs |-> 0] /\ readcnt = [r \in RGs |-> 0] /\ got = [w \in Workers |-> <<>>]
        /\ obs = <<0, Len(KeptSeq(rg))>> /\ anyfail = FALSE
        /\ part = [w \in Workers |-> EmptyState] /\ final = EmptyState /\ pending = Workers
        /\ hist = <<>>

Log(w, op, res) == hist' = IF Hist THEN Append(hist, <<w, op, res, completed'>>) ELSE hist

\* ------------------------------------------------------------------ worker steps
Get(w) ==
  /\ pc[w] = "get" /\ Mutant # "SplitPop"
  /\ \E r \in 0..R :
       /\ PopFront(r)
       /\ IF r = 0
          THEN /\ pc' = [pc EXCEPT ![w] = "done"]
               /\ UNCHANGED <<held, handed, completed>>
          ELSE /\ pc' = [pc EXCEPT ![w] = "read"]
               /\ held' = [held EXCEPT ![w] = r]
               /\ handed' = [handed EXCEPT ![r] = @ + 1]
               /\ IF Mutant = "CompleteOnHandout" THEN FetchAdd ELSE UNCHANGED completed
       /\ Log(w, OP_GET, r)
  /\ UNCHANGED <<rg, total, tmp, readcnt, got, obs, anyfail, part, final, pending>>

\* mutant: the lock is dropped between looking at the front and popping it
Peek(w) ==
  /\ pc[w] = "get" /\ Mutant = "SplitPop"
  /\ tmp' = [tmp EXCEPT ![w] = IF queue = <<>> THEN 0 ELSE Head(queue)]
  /\ pc' = [pc EXCEPT ![w] = "pop2"]
  /\ UNCHANGED <<rg, queue, completed, total, held, handed, readcnt, got, obs, anyfail, part, final, pending, hist>>
Pop2(w) ==
  /\ pc[w] = "pop2"
  /\ IF tmp[w] = 0
     THEN pc' = [pc EXCEPT ![w] = "done"] /\ UNCHANGED <<queue, held, handed>>
     ELSE /\ queue' = IF queue = <<>> THEN queue ELSE Tail(queue)
          /\ held' = [held EXCEPT ![w] = tmp[w]]
          /\ handed' = [handed EXCEPT ![tmp[w]] = @ + 1]
          /\ pc' = [pc EXCEPT ![w] = "read"]
  /\ UNCHANGED <<rg, completed, total, tmp, readcnt, got, obs, anyfail, part, final, pending, hist>>

Read(w) ==
  /\ pc[w] = "read"
  /\ readcnt' = [readcnt EXCEPT ![held[w]] = @ + 1]
  /\ got' = [got EXCEPT ![w] = Append(@, held[w])]
  /\ part' = IF Agg THEN [part EXCEPT ![w] = FoldRows(@, Content(held[w]))] ELSE part
  /\ pc' = [pc EXCEPT ![w] = "complete"]
  /\ UNCHANGED completed /\ Log(w, OP_READ, held[w])
  /\ UNCHANGED <<rg, queue, total, held, tmp, handed, obs, anyfail, final, pending>>

ReadFail(w) ==
  /\ Fault /\ pc[w] = "read"
  /\ pc' = [pc EXCEPT ![w] = "failed"] /\ anyfail' = TRUE
  /\ UNCHANGED <<rg, queue, completed, total, held, tmp, handed, readcnt, got, obs, part, final, pending, hist>>

Complete(w) ==
  /\ pc[w] = "complete" /\ Mutant # "TornComplete"
  /\ IF Mutant = "CompleteOnHandout" THEN UNCHANGED completed ELSE FetchAdd
  /\ held' = [held EXCEPT ![w] = 0]
  /\ pc' = [pc EXCEPT ![w] = "get"]
  /\ Log(w, OP_COMPLETE, 0)
  /\ UNCHANGED <<rg, queue, total, tmp, handed, readcnt, got, obs, anyfail, part, final, pending>>

\* mutant: fetch_add as a separate load and store
TornLoad(w) ==
  /\ pc[w] = "complete" /\ Mutant = "TornComplete"
  /\ tmp' = [tmp EXCEPT ![w] = completed] /\ pc' = [pc EXCEPT ![w] = "inc2"]
  /\ UNCHANGED <<rg, queue, completed, total, held, handed, readcnt, got, obs, anyfail, part, final, pending, hist>>
TornStore(w) ==
  /\ pc[w] = "inc2"
  /\ completed' = tmp[w] + 1 /\ held' = [held EXCEPT ![w] = 0] /\ pc' = [pc EXCEPT ![w] = "get"]
  /\ UNCHANGED <<rg, queue, total, tmp, handed, readcnt, got, obs, anyfail, part, final, pending, hist>>

\* any thread, any time: progress()
Observe ==
  /\ ~Hist
  /\ \E c \in 0..R, t \in 0..R : Progress(c, t) /\ obs' = <<c, t>>
  /\ UNCHANGED <<rg, queue, completed, total, pc, held, tmp, handed, readcnt, got, anyfail, part, final, pending, hist>>

Quiescent == \A w \in Workers : pc[w] \in {"done", "failed"}

\* the consumer's merge: `for state in states { final_state.merge(&state) }`, here in ANY order
MergeOne(w) ==
  /\ Agg /\ Quiescent /\ ~anyfail /\ w \in pending
  /\ final' = MergeState(MergeMut, final, part[w])
  /\ pending' = pending \ {w}
  /\ UNCHANGED <<rg, queue, completed, total, pc, held, tmp, handed, readcnt, got, obs, anyfail, part, hist>>

WorkerNext == \E w \in Workers : Get(w) \/ Peek(w) \/ Pop2(w) \/ Read(w) \/ ReadFail(w) \/ Complete(w) \/ TornLoad(w) \/ TornStore(w)
Next == WorkerNext \/ Observe \/ \E w \in Workers : MergeOne(w)
Spec == Init /\ [][Next]_vars
FairSpec == Spec /\ \A w \in Workers : WF_vars(Get(w) \/ Read(w) \/ Complete(w))

\* ------------------------------------------------------------------ properties
InQueue(r) == Cardinality({i \in DOMAIN queue : queue[i] = r})
TypeOK == /\ completed \in 0..(2 * R) /\ total \in 0..R
          /\ \A w \in Workers : held[w] \in 0..R
          /\ \A i \in DOMAIN queue : queue[i] \in RGs

\* handed out at most once; never lost: a kept group is in the queue or has been handed out
ExactlyOnce == \A r \in RGs : /\ handed[r] <= 1
                              /\ handed[r] + InQueue(r) = rg[r].kept
                              /\ readcnt[r] <= handed[r]
ProgressBound == completed <= total
ProgressHonest == completed <= Cardinality({r \in RGs : readcnt[r] >= 1})
ObsOK == obs[1] <= obs[2] /\ obs[2] = total /\ obs[1] <= completed
Monotone == [][completed' >= completed /\ obs'[1] >= obs[1] /\ total' = total]_vars

\* multiplicity with which row (r, i) has been delivered
Mult(r, i) == IF i <= Delivered(r) THEN readcnt[r] ELSE 0
Flat(s) == FoldLeft(LAMBDA acc, x : acc \o x, <<>>, s)
AtQuiescence ==
  (Quiescent /\ ~anyfail) =>
     /\ queue = <<>>
     /\ completed = total
     /\ \A r \in RGs : \A i \in 1..rg[r].n : Mult(r, i) = (IF i <= rg[r].p THEN 1 ELSE 0)
     \* the per-worker morsel lists partition the kept row groups
     /\ LET all == Flat([w \in Workers |-> got[w]]) IN
          /\ Len(all) = total
          /\ {all[i] : i \in DOMAIN all} = {r \in RGs : rg[r].kept = 1}
\* with a read error the call returns Err: nothing is claimed beyond the bounds
AtFailure == (Quiescent /\ anyfail) => completed < total

AggAtEnd == (Agg /\ Quiescent /\ ~anyfail /\ pending = {}) =>
               /\ SameAnswer(final, FoldRows(EmptyState, AllRows))
               /\ SameAnswer(final, SqlAnswer(AllRows))

Termination == <>Quiescent

Terminal == Quiescent /\ (~Agg \/ anyfail \/ pending = {})
Emit == (Hist /\ Terminal) =>
          EmitCase([w |-> W, kept |-> KeptSeq(rg), total |-> total, steps |-> hist,
                    rows |-> [r \in RGs |-> Delivered(r)]])
====
