\* quick: families FramesQuick (status line x header x Content-Length x body length, every truncation point, stalls on the 200 streams) and BodiesQuick (every body over {x,CR,LF} up to 4 bytes); bounds are the records in HttpFraming.tla
CONSTANTS Fams <- FamsQuick
          Conforming = {"enforce", "truncate", "strict"}
          Others = {"as_built", "m_status200", "m_short", "m_bodyterm", "m_notimeout", "m_panic", "m_drophdr", "m_halfheader"}
INIT Init
NEXT Next
INVARIANT TypeOK
INVARIANT ViewOK
INVARIANT Conforms
INVARIANT NoShortBody
INVARIANT FramedOrRejected
INVARIANT NoPanicNoHang
INVARIANT EntriesSound
INVARIANT Emit
CHECK_DEADLOCK FALSE
