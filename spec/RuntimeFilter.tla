---- MODULE RuntimeFilter ----
(* X05 — runtime join-key filters (sub-model of C22 "joins follow SQL join semantics").

   Code modelled (one action per implementation step):
     hash_join.rs   execute(): the build side is drained batch by batch (ConsumeBuild, one action per
                    batch); AFTER the drain the non-NULL build keys of the linked key pair are packed into
                    RuntimeFilterPayload::Bitmap{min,bits} (max-min < BITMAP_MAX_BITS) or ::Set (wider, few
                    keys) or nothing (wider and many keys / no key at all) and stored with ONE
                    `*slot.lock() = Some(Arc::new(p))` (Publish: the mutex critical section).
     streaming_parquet_scan.rs  per row group: `slot.lock().clone()` (ScanRead: lock; clone Option; unlock),
                    then the row group is decoded with the predicate `!is_null(k) && payload.contains(k)`
                    built from WHAT IT SAW (ScanEmit) — a stale None is possible and must be harmless.
     planner.rs     the slot is linked only for Inner, and Semi/Anti whose build side is the LEFT input
                    (Eligible); LEFT/RIGHT/FULL and build-right Semi/Anti never get a filter.

   Join kinds are expressed relative to (build, probe):
     inner        pairs
     build_semi   build rows with a match        (SEMI, build = left)
     build_anti   build rows without a match     (ANTI, build = left)
     build_outer  pairs + unmatched build rows   (outer join preserving the build side)
     probe_outer  pairs + unmatched probe rows   (outer join preserving the PROBE side)
     full         pairs + both
     probe_semi   probe rows with a match        (SEMI, build = right)
     probe_anti   probe rows without a match     (ANTI, build = right)

   Keys are small ints, NULL == -1073741824 never matches anything.  *)
EXTENDS Naturals, Integers, Sequences, FiniteSets, TLC, Json, VerifIO

CONSTANTS Keys,          \* non-NULL key domain (contains a negative key)
          NB, MaxBB,     \* build batches, max rows per build batch
          NP, MaxPB,     \* probe batches (row groups), max rows per probe batch
          Kinds,         \* join kinds explored
          BitmapMaxBits, \* model-sized BITMAP_MAX_BITS (2^31 in the code)
          SetMaxKeys,    \* model-sized 4_000_000
          Mutant,        \* "none" or the name of a seeded mistake
          EmitCases      \* TRUE: print the value-level contains() cases once at start-up

K3 == {-1, 0, 2}       \* cfg files cannot spell negative numbers: Keys <- K3 / K4
K4 == {-2, 0, 1, 3}
KeysN == Keys \cup {NULL}
AllKinds == {"inner", "build_semi", "build_anti", "build_outer", "probe_outer", "full", "probe_semi", "probe_anti"}
ASSUME Kinds \subseteq AllKinds

(* ---------------- value level: payload construction and contains ---------------- *)
MinOf(S) == CHOOSE m \in S : \A x \in S : m <= x
MaxOf(S) == CHOOSE m \in S : \A x \in S : m >= x
NoFilter == [k |-> "none", min |-> 0, nbits |-> 0, on |-> {}, keys |-> {}]

\* hash_join.rs l.1050-1085 over the set S of non-NULL build keys in drain order `first` = first key seen
MkPayload(S, first) ==
  IF S = {} THEN NoFilter
  ELSE LET mn == IF Mutant = "MinIsFirstKey" THEN first ELSE MinOf(S)
           mx == MaxOf(S)
       IN IF (mx - MinOf(S)) >= BitmapMaxBits /\ Cardinality(S) > SetMaxKeys THEN NoFilter
          ELSE IF (mx - MinOf(S)) < BitmapMaxBits
               THEN [k |-> "bitmap", min |-> mn, nbits |-> (mx - mn) + 1,
                     on |-> {x - mn : x \in {y \in S : y >= mn}}, keys |-> {}]
               ELSE [k |-> "set", min |-> 0, nbits |-> 0, on |-> {}, keys |-> S]

Abs(x) == IF x < 0 THEN 0 - x ELSE x
\* streaming_parquet_scan.rs RuntimeFilterPayload::contains
Contains(f, v) ==
  CASE f.k = "bitmap" ->
         LET off == v - f.min IN
         IF off < 0 THEN (IF Mutant = "ContainsBelowMin" THEN Abs(off) \in f.on ELSE FALSE)
         ELSE IF off >= 64 * ((f.nbits + 63) \div 64) THEN FALSE   \* bits.get(off >> 6) == None
         ELSE off \in f.on
    [] f.k = "set" -> v \in f.keys
    [] OTHER -> TRUE

\* the scan's row predicate with the Option it cloned
Passes(seen, key) == IF seen.k = "none" THEN TRUE
                     ELSE IF key = NULL THEN (Mutant = "NullPasses") ELSE Contains(seen, key)

(* planner.rs l.1388: which kinds get a slot *)
Eligible(kd) == \/ kd \in {"inner", "build_semi", "build_anti"}
                \/ (Mutant = "AttachProbeOuter" /\ kd = "probe_outer")
                \/ (Mutant = "AttachProbeAnti" /\ kd = "probe_anti")
                \/ (Mutant = "AttachFull" /\ kd = "full")

(* ---------------- the join (reference semantics over bags of keys) ---------------- *)
Flat(bs) == LET RECURSIVE F(_) F(i) == IF i > Len(bs) THEN <<>> ELSE bs[i] \o F(i + 1) IN F(1)
Cnt(rows, key) == Cardinality({i \in DOMAIN rows : rows[i] = key})
PreservesProbe(kd) == kd \in {"probe_outer", "full", "probe_anti"}
PreservesBuild(kd) == kd \in {"build_outer", "full", "build_anti"}

Answer(kd, brows, prows) ==
  LET cb(x) == Cnt(brows, x)
      cp(x) == Cnt(prows, x)
      hasP(x) == x # NULL /\ cp(x) > 0
      hasB(x) == x # NULL /\ cb(x) > 0
  IN [pairs |-> [x \in Keys |-> IF kd \in {"inner", "build_outer", "probe_outer", "full"} THEN cb(x) * cp(x) ELSE 0],
      bout  |-> [x \in KeysN |-> CASE kd = "build_semi" -> (IF hasP(x) THEN cb(x) ELSE 0)
                                   [] PreservesBuild(kd) -> (IF hasP(x) THEN 0 ELSE cb(x))
                                   [] OTHER -> 0],
      pout  |-> [x \in KeysN |-> CASE kd = "probe_semi" -> (IF hasB(x) THEN cp(x) ELSE 0)
                                   [] PreservesProbe(kd) -> (IF hasB(x) THEN 0 ELSE cp(x))
                                   [] OTHER -> 0]]

(* ---------------- the state machine ---------------- *)
VARIABLES kind, build, probe,      \* fixed per behaviour
          bi, bkeys, bfirst, bpc,  \* builder: batches drained, non-NULL keys seen, first key, pc
          cell,                    \* the shared slot  Arc<Mutex<Option<Arc<Payload>>>>
          pi, seen, spc, delivered \* scanner: row groups emitted, Option cloned, pc, what reached the join
vars == <<kind, build, probe, bi, bkeys, bfirst, bpc, cell, pi, seen, spc, delivered>>

Batches(n, mx) == [1..n -> SeqsOf(KeysN, 0, mx)]

Init == /\ kind \in Kinds
        /\ build \in Batches(NB, MaxBB)
        /\ probe \in Batches(NP, MaxPB)
        /\ bi = 0 /\ bkeys = {} /\ bfirst = NULL /\ bpc = "drain"
        /\ cell = NoFilter
        /\ pi = 0 /\ seen = NoFilter /\ spc = "read" /\ delivered = <<>>

NonNull(b) == {b[i] : i \in {j \in DOMAIN b : b[j] # NULL}}
FirstNonNull(b) == LET idx == {j \in DOMAIN b : b[j] # NULL} IN
                   IF idx = {} THEN NULL ELSE b[MinOf(idx)]

ConsumeBuild == /\ bpc = "drain" /\ bi < NB
                /\ bi' = bi + 1
                /\ bkeys' = bkeys \cup NonNull(build[bi + 1])
                /\ bfirst' = IF bfirst = NULL THEN FirstNonNull(build[bi + 1]) ELSE bfirst
                /\ UNCHANGED <<kind, build, probe, bpc, cell, pi, seen, spc, delivered>>

CanPublish == IF Mutant = "PublishEarly" THEN bi >= 1 ELSE bi = NB

\* one critical section: the slot goes from None to the complete payload
Publish == /\ bpc = "drain" /\ CanPublish
           /\ IF Eligible(kind)
              THEN IF Mutant = "PublishTorn"
                   THEN LET p == MkPayload(bkeys, bfirst) IN
                        /\ cell' = IF p.k = "bitmap" THEN [p EXCEPT !.on = {}] ELSE p
                        /\ bpc' = "fill"
                   ELSE cell' = MkPayload(bkeys, bfirst) /\ bpc' = "probe"
              ELSE cell' = cell /\ bpc' = "probe"
           /\ UNCHANGED <<kind, build, probe, bi, bkeys, bfirst, pi, seen, spc, delivered>>

\* only reachable under the PublishTorn mutant: the bits are filled in after the slot became visible
Fill == /\ bpc = "fill"
        /\ cell' = MkPayload(bkeys, bfirst) /\ bpc' = "probe"
        /\ UNCHANGED <<kind, build, probe, bi, bkeys, bfirst, pi, seen, spc, delivered>>

\* scan, per row group: lock; clone the Option; unlock   (only a linked scan has a slot to look at)
ScanRead == /\ spc = "read" /\ pi < NP
            /\ seen' = IF Eligible(kind) THEN cell ELSE NoFilter
            /\ spc' = "emit"
            /\ UNCHANGED <<kind, build, probe, bi, bkeys, bfirst, bpc, cell, pi, delivered>>

ScanEmit == /\ spc = "emit"
            /\ LET b == probe[pi + 1] IN
               delivered' = Append(delivered, SelectSeq(b, LAMBDA x : Passes(seen, x)))
            /\ pi' = pi + 1 /\ spc' = "read"
            /\ UNCHANGED <<kind, build, probe, bi, bkeys, bfirst, bpc, cell, seen>>

Next == ConsumeBuild \/ Publish \/ Fill \/ ScanRead \/ ScanEmit

Spec == Init /\ [][Next]_vars

(* ---------------- properties ---------------- *)
BuildKeys == UNION {NonNull(build[i]) : i \in 1..NB}
HasMatch(x) == x # NULL /\ x \in BuildKeys
\* a probe row the join needs: it has a build match, or the kind outputs unmatched probe rows
Needed(x) == HasMatch(x) \/ PreservesProbe(kind)

TypeOK == /\ bi \in 0..NB /\ pi \in 0..NP /\ Len(delivered) = pi
          /\ bpc \in {"drain", "fill", "probe"} /\ spc \in {"read", "emit"}
          /\ cell.k \in {"none", "bitmap", "set"} /\ seen.k \in {"none", "bitmap", "set"}

\* (1) a filter is visible only after the COMPLETE build side has been drained
PublishedImpliesComplete == (cell.k # "none" \/ seen.k # "none") => bi = NB

\* (3) whatever is visible has no false negative for any build key ...
FilterSound == \A f \in {cell, seen} : f.k # "none" => \A x \in BuildKeys : Contains(f, x)
\* ... and (fidelity; the value-level replay pins it on the real contains()) no false positive either
FilterExact == \A f \in {cell, seen} : f.k # "none" =>
                 \A x \in Keys \cup {MinOf(Keys) - 1, MaxOf(Keys) + 1, MaxOf(Keys) + 70} :
                     Contains(f, x) <=> x \in BuildKeys

\* (2)+(3)+(4) under EVERY interleaving every needed probe row of every emitted row group reaches the join
NoNeededRowLost == \A j \in 1..Len(delivered) : \A x \in KeysN :
                      Needed(x) => Cnt(delivered[j], x) = Cnt(probe[j], x)

\* a scan that is not linked delivers everything
UnlinkedDeliversAll == ~Eligible(kind) => \A j \in 1..Len(delivered) : delivered[j] = probe[j]

Done == bpc = "probe" /\ pi = NP /\ spc = "read"
\* the answer with runtime filters equals the answer without
FinalAnswer == Done => Answer(kind, Flat(build), Flat(delivered)) = Answer(kind, Flat(build), Flat(probe))

\* vacuity witnesses (must be VIOLATED = reachable; checked by the driver with separate cfgs)
NeverDropsWithStaleNone == ~(Done /\ cell.k # "none" /\ \E j \in 1..NP : delivered[j] = probe[j] /\ \E i \in DOMAIN probe[j] : ~Passes(cell, probe[j][i]))
NeverDrops == ~(Done /\ \E j \in 1..NP : Len(delivered[j]) < Len(probe[j]))
NeverSet == cell.k # "set"
NeverSkips == ~(bpc = "probe" /\ Eligible(kind) /\ BuildKeys # {} /\ cell.k = "none")

(* ---------------- value-level cases for the real RuntimeFilterPayload::contains ---------------- *)
ProbeVals == Keys \cup {MinOf(Keys) - 1, MinOf(Keys) - 64, MaxOf(Keys) + 1, MaxOf(Keys) + 62, MaxOf(Keys) + 64, MaxOf(Keys) + 200}
EmitAll == \A S \in (SUBSET Keys) \ {{}} :
             LET p == MkPayload(S, MinOf(S)) IN
             p.k = "none" \/
             \A v \in ProbeVals :
                EmitCase(IF p.k = "bitmap"
                         THEN [kind |-> "bitmap", min |-> p.min, nbits |-> p.nbits, on |-> p.on, keys |-> S, v |-> v,
                               exp |-> IF Contains(p, v) THEN 1 ELSE 0, member |-> IF v \in S THEN 1 ELSE 0]
                         ELSE [kind |-> "set", min |-> 0, nbits |-> 0, on |-> {}, keys |-> S, v |-> v,
                               exp |-> IF Contains(p, v) THEN 1 ELSE 0, member |-> IF v \in S THEN 1 ELSE 0])
ASSUME EmitCases => EmitAll
====
