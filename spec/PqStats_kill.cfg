CONSTANTS Impls = {"fixed", "asbuilt", "nulls_first_file", "wrong_fold", "rowcount_heuristic", "stale_cache"}
          AllowPartial = TRUE
          DoEmit = FALSE
          Strata <- StrataSmall
INIT Init
NEXT Next
INVARIANT RowCountExact
INVARIANT NullCountExactWhenPresent
INVARIANT MinMaxBound
INVARIANT FootersAreFacts
INVARIANT FixedIsAsBuiltOffShape
INVARIANT FixedIsTight
INVARIANT Emit
CHECK_DEADLOCK FALSE
