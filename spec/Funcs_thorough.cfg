CONSTANTS K1 = 3
          K2 = 3
          K3 = 2
          Wide = 1
INIT Init
NEXT Next
INVARIANT Lemmas
INVARIANT Emit
INVARIANT Count
CHECK_DEADLOCK FALSE
