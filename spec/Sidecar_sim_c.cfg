\* (R) random complete behaviours, ONE builder process x 3 threads (the mutex path); run with -simulate
CONSTANTS NProcs = 1
          ThreadsPer = 3
          AutoProcs = {}
          NRg = 2
          Inits = {0, 1, 2}
          Variant = 0
          AtomicRemove = TRUE
          EmitOn = TRUE
          Sim = TRUE
INIT Init
NEXT NextSim
INVARIANT TypeOk
INVARIANT NoPartialRead
INVARIANT NoWrongAnswer
INVARIANT MutualExclusion
INVARIANT LockHeldWhileBuilding
INVARIANT AutoNeverBuilds
INVARIANT Quiescent
INVARIANT NoDeadlock
INVARIANT NoReaderError
INVARIANT FreshMeansComplete
INVARIANT Emit
CHECK_DEADLOCK FALSE
