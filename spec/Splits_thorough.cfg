CONSTANTS MIN = 4
          MAX = 64
          SPN = 2
          MaxFiles = 3
          MaxRgs = 3
          MaxRows = 4
          ByteVals = {0, 1, 3, 6}
          NodeVals = {1, 2, 3, 4}
          AllowDup = FALSE
          EmitMode = 0
          Regimes = {"small", "minclamp", "ideal"}
INIT Init
NEXT Next
INVARIANT AllProps
CHECK_DEADLOCK FALSE
