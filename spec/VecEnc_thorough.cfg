CONSTANTS Fams = {"un", "untile", "fil", "filtile", "bin", "bintile"}
          MaxUn = 5
          MaxFil = 4
          MaxBin = 3
          TileP = 3
          TileQ = 2
          TileM = 3
          Mutant = "none"
INIT Init
NEXT Next
INVARIANT RoundTrip
INVARIANT EncLen
INVARIANT KernelLaws
INVARIANT Emit
CHECK_DEADLOCK FALSE
