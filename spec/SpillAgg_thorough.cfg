CONSTANTS MaxRows = 4
          MaxBatches = 3
          NKeyVals = 2
          MaxVal = 2
          P = 2
          DoubleCount = FALSE
          HashAll = TRUE
          EmitMod = 1
INIT Init
NEXT Next
INVARIANT Conserves
INVARIANT KeyHome
INVARIANT TotalIsMem
INVARIANT AtDone
INVARIANT Emit
CHECK_DEADLOCK FALSE
