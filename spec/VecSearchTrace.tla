---- MODULE VecSearchTrace ----
(***************************************************************************)
(* C43 trace validation.  One line = one statement run on the real engine: *)
(*   [rows, metric, dir, k, m, shape, q,                                   *)
(*    node    : 1 iff the optimized plan contains a VectorSearch node,     *)
(*    answers : the DISTINCT id sequences returned along the exact paths   *)
(*              (default context, one row per batch, rule removed, no      *)
(*              optimizer, index-advertising stub provider in the default  *)
(*              mode, Indexed mode over a provider without an index),      *)
(*    second  : per answer, the second output column (id + 1, or the       *)
(*              distance * 10^4) or <<>>]                                  *)
(* Accepted iff  node = 1 => Canonical(st)  and every answer is one that   *)
(* VecSearch!Accept allows (full sort by the exact key, then OFFSET/LIMIT, *)
(* ties free).  DRIFT (fidelity): node differs from the as-built gates.    *)
(***************************************************************************)
EXTENDS Naturals, Integers, Sequences, FiniteSets, TLC, Json, IOUtils

Fam == "trace"
MaxN == 0
NTab == 0
Syms == {}
Ks == {}
Ms == {}
EmitMod == 1
Gate == "asbuilt"
VARIABLES ph, vrows, vst, node, cfg, ans
INSTANCE VecSearch

Rec == ndJsonDeserialize(IOEnv.TRACE)
VARIABLE l

St(r) == [metric |-> r.metric, dir |-> r.dir, k |-> r.k, m |-> r.m, shape |-> r.shape, q |-> r.q]
Abs(x) == IF x < 0 THEN -x ELSE x
SecondOk(r, a, s) ==
  CASE r.shape = "computed" -> Len(s) = Len(a) /\ \A p \in DOMAIN a : s[p] = a[p] + 1
    [] r.shape = "distsel" ->
         /\ Len(s) = Len(a)
         /\ \A p \in DOMAIN a :
              LET v == r.rows[a[p]]  d == s[p] IN
              IF IsNullVec(v) THEN d = NULL
              ELSE /\ d # NULL
                   /\ (r.metric = "l2" => d >= 0 /\ Abs(d * d - L2Sq(v, r.q) * 100000000) <= 2 * d + 1)
                   /\ (r.metric = "dot" => d = Dot(v, r.q) * 10000)
    [] OTHER -> TRUE
LineOk(r) ==
  /\ r.node = 1 => Canonical(St(r))
  /\ \A j \in DOMAIN r.answers : Accept(St(r), r.rows, r.answers[j]) /\ SecondOk(r, r.answers[j], r.second[j])
LineDrift(r) == (r.node = 1) # RuleFires(St(r))

TInit == l = 1 /\ ph = "trace" /\ vrows = <<>> /\ vst = NoSt /\ node = NoNode /\ cfg = NoCfg /\ ans = <<>>
Call == /\ l <= Len(Rec)
        /\ LineOk(Rec[l])
        /\ LineDrift(Rec[l]) => EmitTag("DRIFT", [line |-> l])
        /\ l' = l + 1 /\ UNCHANGED <<ph, vrows, vst, node, cfg, ans>>
TNext == Call
Accepted == LET d == TLCGet("stats").diameter - 1 IN
            IF d = Len(Rec) THEN EmitTag("ACCEPT", [n |-> d])
            ELSE EmitTag("REJECT", [line |-> d + 1]) /\ FALSE
====
