---- MODULE JoinGraphTrace ----
(***************************************************************************)
(* Trace validation for C32: one line = the join tree the real optimizer   *)
(* produced (JoinReorder alone / production pipeline) for a statement      *)
(* whose inner-join graph is known: rels (aliases), edges (pairs of        *)
(* aliases), and the reported plan: joins [kind, left, right, on] where    *)
(* `on` lists, per equi-condition, the aliases mentioned by its two sides; *)
(* filters [rels].  The contract is JoinGraph's: for a connected graph     *)
(* every join has an equality across its two inputs and is not Cross;      *)
(* every relation occurs exactly once; every original equality is still    *)
(* applied somewhere (a join condition, or a filter over both relations).  *)
(***************************************************************************)
EXTENDS Naturals, FiniteSets, Sequences, TLC, Json, IOUtils

Rec == ndJsonDeserialize(IOEnv.TRACE)
VARIABLE l

ToSet(s) == {s[i] : i \in DOMAIN s}
Count(s, x) == Cardinality({i \in DOMAIN s : s[i] = x})

RECURSIVE ReachS(_, _, _)
ReachS(S, E, R) == LET nxt == S \cup {r \in R : \E i \in DOMAIN E : r \in ToSet(E[i]) /\ ToSet(E[i]) \cap S # {}}
                   IN IF nxt = S THEN S ELSE ReachS(nxt, E, R)
ConnectedG(r) == r.rels = <<>> \/ ReachS({r.rels[1]}, r.edges, ToSet(r.rels)) = ToSet(r.rels)

JoinOk(j) ==
  /\ j.kind # "cross"
  /\ \E k \in DOMAIN j.on :
        LET a == ToSet(j.on[k][1])  b == ToSet(j.on[k][2])  L == ToSet(j.left)  R == ToSet(j.right)
        IN a # {} /\ b # {} /\ ((a \subseteq L /\ b \subseteq R) \/ (a \subseteq R /\ b \subseteq L))

EdgeKept(r, e) ==
  \/ \E i \in DOMAIN r.joins : \E k \in DOMAIN r.joins[i].on :
        ToSet(e) \subseteq (ToSet(r.joins[i].on[k][1]) \cup ToSet(r.joins[i].on[k][2]))
  \/ \E i \in DOMAIN r.joins : ToSet(e) \subseteq ToSet(r.joins[i].filter_rels)
  \/ \E i \in DOMAIN r.filters : ToSet(e) \subseteq ToSet(r.filters[i].rels)

TreeOk(r) ==
  /\ \A i \in DOMAIN r.joins : JoinOk(r.joins[i])                           \* no cross product
  /\ \A i \in DOMAIN r.rels : Count(r.planrels, r.rels[i]) = 1             \* every input relation, once
  /\ Len(r.planrels) = Len(r.rels)
  /\ \A i \in DOMAIN r.edges : EdgeKept(r, r.edges[i])                      \* every predicate still present

Judge(r) == IF ~ConnectedG(r) \/ r.planned = 0 \/ TreeOk(r) THEN TRUE
            ELSE PrintT(<<"REJECT", ToJson([line |-> l, id |-> r.id, cfg |-> r.cfg])>>)

TInit == l = 1
TNext == l <= Len(Rec) /\ Judge(Rec[l]) /\ l' = l + 1
Accepted == LET d == TLCGet("stats").diameter - 1 IN
            IF d = Len(Rec) THEN PrintT(<<"ACCEPT", ToJson([n |-> d])>>)
            ELSE PrintT(<<"STUCK", ToJson([line |-> d + 1])>>) /\ FALSE
====
