---- MODULE MorselTrace ----
(***************************************************************************)
(* X03 (parent C07) — trace validation: what REAL threads saw when they    *)
(* called the public methods of a real ParallelParquetSource concurrently  *)
(* (qev morsel-free) must be a behaviour of Morsel.tla's shared object.    *)
(*                                                                         *)
(* One trace line = one history                                            *)
(*   [T, R, mode, rows, calls, fin]                                        *)
(*   rows[r]   sorted ids of row group r as the driver generated the table *)
(*   calls[t]  the calls of thread t in program order, each                *)
(*             [op, s, e, r, c, t, ids]  op 1 get_work (r = row group       *)
(*             ordinal in queue order, 0 = None), 2 read_row_group (ids =  *)
(*             what it delivered), 3 complete_work, 4 progress (c, t);     *)
(*             s / e = global tickets drawn before / after the call        *)
(*   fin       progress() after all threads were joined                    *)
(*   mode 1    every thread runs the engine's worker loop                  *)
(*             (get -> read -> complete, progress now and then)            *)
(*   mode 2    threads only hammer get_work (and progress); the last       *)
(*             thread then reads and completes everything handed out       *)
(*                                                                         *)
(* Linearizability search: a state is a cut (pos[t] = next call of thread  *)
(* t not yet linearized) plus the object state.  A call may be linearized  *)
(* next iff no other pending call RETURNED before it was INVOKED           *)
(* (e < s), and it is the object's atomic step with exactly the recorded   *)
(* result: PopFront / FetchAdd / Progress of Morsel.tla.  read_row_group   *)
(* touches no shared state (it commutes with everything) and is taken      *)
(* eagerly; it must deliver exactly the rows of a row group that was       *)
(* handed out (in mode 1: to this thread, by its preceding get_work).      *)
(* A history is accepted iff every call is linearized and at the end every *)
(* row group was handed out exactly once and read exactly once (so the     *)
(* union of the rows read is the table) and progress() = (total, total).   *)
(* Accepted iff the search reaches the end of the last history.            *)
(***************************************************************************)
EXTENDS Naturals, Integers, Sequences, FiniteSets, TLC, Json, IOUtils

W == 17
R == 64
RowChoices == {0}
Filter == FALSE
Fault == FALSE
Agg == FALSE
Hist == FALSE
Mutant == "none"
VARIABLES rg, queue, completed, total, pc, held, tmp, handed, readcnt, got, obs, anyfail, part, final, pending, hist
INSTANCE Morsel

Rec == ndJsonDeserialize(IOEnv.TRACE)
VARIABLES h, ph, pos
unused == <<rg, pc, held, tmp, got, obs, anyfail, part, final, pending, hist>>
tvars == <<rg, queue, completed, total, pc, held, tmp, handed, readcnt, got, obs, anyfail, part, final, pending, hist, h, ph, pos>>

TInit == /\ h = 1 /\ ph = 0 /\ pos = [t \in Workers |-> 1]
         /\ rg = <<>> /\ queue = <<>> /\ completed = 0 /\ total = 0
         /\ pc = <<>> /\ held = <<>> /\ tmp = <<>> /\ got = <<>> /\ obs = <<>> /\ anyfail = FALSE
         /\ part = <<>> /\ final = <<>> /\ pending = {} /\ hist = <<>>
         /\ handed = [r \in RGs |-> 0] /\ readcnt = [r \in RGs |-> 0]

Begin == /\ ph = 0 /\ h <= Len(Rec)
         /\ Rec[h].T <= W /\ Rec[h].R <= R /\ Len(Rec[h].rows) = Rec[h].R
         /\ queue' = [i \in 1..Rec[h].R |-> i] /\ completed' = 0 /\ total' = Rec[h].R
         /\ handed' = [r \in RGs |-> 0] /\ readcnt' = [r \in RGs |-> 0]
         /\ pos' = [t \in Workers |-> 1] /\ ph' = 1
         /\ UNCHANGED h /\ UNCHANGED unused

NoCall == [op |-> 0, s |-> 0, e |-> 0, r |-> 0, c |-> 0, t |-> 0, ids |-> <<>>]
Adv(t) == pos' = [pos EXCEPT ![t] = @ + 1]

\* One step = one recorded call.  hd[t] is the next call of thread t (NoCall when t is through); everything is read off
\* the current history once per state.
Calls ==
  /\ ph = 1
  /\ LET H == Rec[h]
         TT == 1..H.T
         hd == [t \in TT |-> IF pos[t] <= Len(H.calls[t]) THEN H.calls[t][pos[t]] ELSE NoCall]
         prev(t) == IF pos[t] > 1 THEN H.calls[t][pos[t] - 1] ELSE NoCall
         \* a read whose row group has been handed out is ready: it touches no shared state and is taken eagerly
         ready == {t \in TT : hd[t].op = 2 /\ hd[t].r \in 1..total /\ handed[hd[t].r] >= 1}
         \* no other pending call returned before this one was invoked
         RealTimeOk(t) == \A u \in TT \ {t} : hd[u].op # 0 => hd[u].e > hd[t].s
     IN IF ready # {}
        THEN LET t == CHOOSE x \in ready : \A y \in ready : x <= y
                 c == hd[t]
             IN \* ReadStep: read_row_group delivers exactly the rows of the row group (mode 1: the one this thread was just handed)
                /\ c.ids = H.rows[c.r]
                /\ H.mode = 1 => prev(t).op = 1 /\ prev(t).r = c.r
                /\ readcnt' = [readcnt EXCEPT ![c.r] = @ + 1]
                /\ Adv(t) /\ UNCHANGED <<h, ph, queue, completed, total, handed>> /\ UNCHANGED unused
        ELSE \E t \in TT :
               /\ hd[t].op \in {1, 3, 4} /\ RealTimeOk(t)
               /\ LET c == hd[t] IN
                    CASE c.op = 1 ->      \* GetStep: get_work() = PopFront with the recorded result
                           /\ c.r \in 0..R
                           /\ PopFront(c.r)
                           /\ handed' = IF c.r = 0 THEN handed ELSE [handed EXCEPT ![c.r] = @ + 1]
                           /\ UNCHANGED <<completed, readcnt>>
                      [] c.op = 3 ->      \* CompleteStep: complete_work() = FetchAdd, after a read of this thread
                           /\ prev(t).op = 2
                           /\ FetchAdd
                           /\ UNCHANGED <<queue, handed, readcnt>>
                      [] c.op = 4 ->      \* ProgressStep: progress() = Progress with the recorded reading
                           /\ Progress(c.c, c.t)
                           /\ UNCHANGED <<queue, completed, handed, readcnt>>
               /\ Adv(t) /\ UNCHANGED <<h, ph, total>> /\ UNCHANGED unused

End ==
  /\ ph = 1 /\ \A t \in 1..Rec[h].T : pos[t] > Len(Rec[h].calls[t])
  /\ queue = <<>>
  /\ \A r \in 1..total : handed[r] = 1 /\ readcnt[r] = 1
  /\ completed = total
  /\ Rec[h].fin = <<completed, total>>
  /\ h' = h + 1 /\ ph' = 0
  /\ UNCHANGED <<queue, completed, total, handed, readcnt, pos>> /\ UNCHANGED unused

TNext == Begin \/ End \/ Calls
TSpec == TInit /\ [][TNext]_tvars

NC(H) == FoldLeft(LAMBDA a, cs : a + Len(cs), 0, H.calls)
Cost(H) == NC(H) + 2
TotalCost == FoldLeft(LAMBDA a, H : a + Cost(H), 0, Rec)
\* <<history index, steps taken inside it, found>> for a search that stopped at depth d
Locate(d) == FoldLeft(LAMBDA acc, H : IF acc[3] = 1 THEN acc
                                      ELSE IF acc[2] < Cost(H) THEN <<acc[1], acc[2], 1>>
                                      ELSE <<acc[1] + 1, acc[2] - Cost(H), 0>>,
                      <<1, d, 0>>, Rec)
Accepted == LET d == TLCGet("stats").diameter - 1 IN
            IF d = TotalCost THEN EmitTag("ACCEPT", [n |-> d, histories |-> Len(Rec)])
            ELSE LET at == Locate(d) IN
                 EmitTag("REJECT", [line |-> at[1], linearized |-> at[2] - 1, of |-> NC(Rec[at[1]]), cid |-> Rec[at[1]].cid]) /\ FALSE
====
