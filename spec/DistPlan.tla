---- MODULE DistPlan ----
(***************************************************************************)
(* X02 "DistPlan" (sub-model of C09): the distribution PLANNER.            *)
(*                                                                         *)
(* src/distributed/plan.rs decides, per statement, HOW it is distributed:  *)
(*   Concat   - every shard runs the statement verbatim, answers are        *)
(*              concatenated                                               *)
(*   TopN     - every shard runs the statement sorted and pre-truncated to *)
(*              LIMIT+OFFSET, the initiator re-sorts and applies the exact *)
(*              LIMIT/OFFSET                                               *)
(*   TwoPhase - shards compute partial aggregates per group, the initiator *)
(*              regroups and merges (COUNT->SUM, AVG as SUM/COUNT), then   *)
(*              HAVING / ORDER BY / LIMIT / OFFSET                         *)
(*   Refuse   - NotImplemented; execute_any_distributed then gathers        *)
(* This module models that decision procedure step by step (Structural ->  *)
(* Capability/census + election -> PlainPlan/AggPlan with the Rewriter) on *)
(* a FEATURE RECORD f of the statement, and - independently of the code -  *)
(* says when a strategy is exact: Exact(P, f) evaluates the strategy's     *)
(* fragment query on every shard of every sharding of every small table    *)
(* with the SQL semantics of SqlSem, merges, and requires the result to be *)
(* an answer SqlSem allows for the statement itself.  TLC checks           *)
(*     \A f, P \in Plans(f) : P.shape = "Refuse" \/ Exact(P, f)            *)
(* (invariant Sound) and that a chosen plan's merge query binds (Runs).    *)
(* Named planner mutants (constant Mutant) must violate Sound.             *)
(*                                                                         *)
(* Statement model: sharded fact table t(k, v), replicated dimension       *)
(* d(k2, w).  Feature record f:                                            *)
(*   fam     plain | agg (aggregates / GROUP BY present)                    *)
(*   src     FROM shape: t | t JOIN d (tjd) | CROSS (txd) | t LEFT d (tld)  *)
(*           | d LEFT t (dlt) | t RIGHT d (trd) | FULL (tfd) | self join    *)
(*           | derived table: plain (der), filtered (derw), aggregated      *)
(*           (dera), LIMITed (derl), DISTINCT (derd)                        *)
(*   sub     WHERE subquery: scalar over d / t (sd, st), IN over d / t      *)
(*           (ind, int), correlated EXISTS over d (exd)                     *)
(*   wrap    cte | union | distinct | window                                *)
(*   wh      a plain filter;  proj / selform: select list (k,v | v) written *)
(*           as names, aliases, qualified names or *                        *)
(*   grp, grpform  GROUP BY k written as the column, an ordinal, or an      *)
(*           alias that SHADOWS the column (SELECT k * 0 AS k .. GROUP BY k)*)
(*   aggs    the select list's aggregates [fn, dist, arg]; selx: items are  *)
(*           the aggregates, agg + 1, or agg1 + agg2                        *)
(*   hav     HAVING COUNT(*) >= 2 | SUM(v) >= 2 | k >= 1 | <alias> >= 2      *)
(*   ord, ordform, desc   ORDER BY key(s), written as output name, ordinal, *)
(*           qualified name, expression, or a column not in the select list *)
(*   lim, off   LIMIT / OFFSET.  They are u64 in the code; here they live   *)
(*           in 0..U-1 with U = 8, U-1 stands for u64::MAX and addition     *)
(*           wraps modulo U as u64 addition wraps modulo 2^64.              *)
(* Open findings of the unchanged planner are the shapes KnownShape names  *)
(* (C09/distplan-*): excluded from Space = "sound", and each explored by   *)
(* its own DistPlan_asbuilt_*.cfg, which TLC must reject.                  *)
(***************************************************************************)
EXTENDS SqlSem, Json

CONSTANTS Tier,      \* "quick" | "thorough": size of the feature space
          Data,      \* "small" | "pairs" | "nullkey" | "rows3": which tables are explored
          Mutant,    \* "none" or the name of a planner mutant
          Space,     \* "sound" (known-defective shapes excluded) | "all" | "shadow" | "wrap" | "qualtopn"
          Mode       \* "check" | "emit"
VARIABLE c

U == 8
NShards == 2

\* ------------------------------------------------------------- AST helpers ----
Col(i) == [k |-> "col", d |-> 0, i |-> i]
OCol(i) == [k |-> "col", d |-> 1, i |-> i]          \* column of the enclosing query's row
Lit(v) == [k |-> "lit", v |-> v]
Cmp(op, a, b) == [k |-> "cmp", op |-> op, a |-> a, b |-> b]
Ar(op, a, b) == [k |-> "arith", op |-> op, a |-> a, b |-> b]
AndE(a, b) == [k |-> "and", a |-> a, b |-> b]
TRUEX == Lit(1)
Agg(fn, dist, a) == [f |-> fn, a |-> a, distinct |-> dist]
NoGroup == [on |-> 0]
TabT == [k |-> "table", name |-> "t"]
TabD == [k |-> "table", name |-> "d"]
Join(kind, l, r, on) == [k |-> "join", kind |-> kind, l |-> l, r |-> r, ln |-> 2, rn |-> 2, on |-> on]
Sel(from, where, group, proj, distinct, order, limit, offset) ==
  [k |-> "select", from |-> from, where |-> where, group |-> group, proj |-> proj, distinct |-> distinct,
   order |-> order, limit |-> limit, offset |-> offset]
OrdItem(e, desc) == [e |-> e, desc |-> desc, nf |-> 0]
Env0 == [db |-> <<>>, outer |-> <<>>, ctes |-> <<>>, dict |-> <<>>, dev |-> {}]
EnvTD(T, D) == [Env0 EXCEPT !.db = [t |-> [rows |-> T], d |-> [rows |-> D]]]

RECURSIVE SumLens(_, _)
SumLens(ss, n) == IF n = 0 THEN 0 ELSE Len(ss[n]) + SumLens(ss, n - 1)

\* ------------------------------------------------------------- features -------
F0 == [fam |-> "plain", src |-> "t", sub |-> "none", wrap |-> "none", wh |-> 0, proj |-> "kv", selform |-> "name",
       grp |-> 0, grpform |-> "col", aggs |-> <<>>, hav |-> "none", selx |-> "plain",
       ord |-> "none", ordform |-> "name", desc |-> 0, lim |-> -1, off |-> 0]
A(fn, dist, arg) == [fn |-> fn, dist |-> dist, arg |-> arg]

HasD(src) == src \in {"tjd", "txd", "tld", "dlt", "trd", "tfd"}
IsDerived(src) == src \in {"der", "derw", "dera", "derl", "derd"}
iK(src) == IF src = "dlt" THEN 3 ELSE 1
iV(src) == IF src \in {"dlt", "self"} THEN 4 ELSE 2
iW(src) == IF src = "dlt" THEN 2 ELSE 4
UsesD(f) == HasD(f.src) \/ f.sub \in {"sd", "ind", "exd"} \/ f.wrap = "union"

\* ---- the feature space (union of slices; the product of all fields is never needed: ORDER/LIMIT only act at
\* ---- the merge stage of an aggregate, syntactic forms do not interact with the source shape, ...)
Lims == {-1, 0, 1, 2, U - 1}
Offs == {0, 1, 2}
PlainOrders ==   \* <<proj, ord, ordform, desc>>
  {<<p, "none", "name", 0>> : p \in {"kv", "v"}}
  \cup {<<"kv", o, fm, d>> : o \in {"v", "k"}, fm \in {"name", "ord", "qual", "expr"}, d \in {0, 1}}
  \cup {<<"kv", "kv", fm, d>> : fm \in {"name", "ord"}, d \in {0, 1}}
  \cup {<<"v", "v", fm, d>> : fm \in {"name", "ord"}, d \in {0, 1}}
  \cup {<<"v", "k", "hidden", d>> : d \in {0, 1}}
PlainCore ==
  {[F0 EXCEPT !.wh = w, !.proj = po[1], !.ord = po[2], !.ordform = po[3], !.desc = po[4], !.lim = l, !.off = x, !.selform = sf] :
     w \in {0, 1}, po \in PlainOrders, l \in Lims, x \in Offs, sf \in {"name", "alias", "qual", "star"}}
PlainCoreQ ==
  {[F0 EXCEPT !.wh = w, !.proj = po[1], !.ord = po[2], !.ordform = po[3], !.desc = po[4], !.lim = l, !.off = x, !.selform = sf] :
     w \in {0}, po \in {q \in PlainOrders : q[3] \in {"name", "expr", "hidden"} /\ q[2] # "kv"}, l \in {-1, 1, 2, U - 1}, x \in {0, 1},
     sf \in {"name", "qual"}}

Singles == {<<A(fn, 0, "v")>> : fn \in {"count*", "count", "sum", "min", "max", "avg"}}
Distincts == {<<A(fn, 1, "v")>> : fn \in {"count", "sum", "avg", "min"}}
Pairs == {<<A("sum", 0, "v"), A("count*", 0, "v")>>, <<A("avg", 0, "v"), A("count", 0, "v")>>, <<A("min", 0, "v"), A("max", 0, "v")>>,
          <<A("count", 1, "v"), A("count*", 0, "v")>>}
AggCore ==
  {[F0 EXCEPT !.fam = "agg", !.grp = g, !.wh = w, !.aggs = a, !.hav = h, !.selx = sx] :
     g \in {0, 1}, w \in {0, 1}, a \in Singles \cup Distincts \cup Pairs, h \in {"none", "cnt", "sum", "key", "alias"}, sx \in {"plain", "plus1", "sumpair"}}
AggCoreQ ==
  {[F0 EXCEPT !.fam = "agg", !.grp = g, !.wh = 0, !.aggs = a, !.hav = h, !.selx = sx] :
     g \in {0, 1}, a \in Singles \cup {<<A("count", 1, "v")>>, <<A("avg", 0, "v"), A("count", 0, "v")>>}, h \in {"none", "cnt", "alias"}, sx \in {"plain", "plus1"}}
AggOrder ==
  {[F0 EXCEPT !.fam = "agg", !.grp = 1, !.aggs = a, !.hav = h, !.ord = o, !.ordform = fm, !.desc = d, !.lim = l, !.off = x] :
     a \in {<<A("sum", 0, "v")>>, <<A("avg", 0, "v")>>, <<A("count*", 0, "v")>>}, h \in {"none", "cnt"}, o \in {"none", "k", "a1"},
     fm \in {"name", "ord", "expr"}, d \in {0, 1}, l \in Lims, x \in Offs}
  \cup {[F0 EXCEPT !.fam = "agg", !.aggs = <<A("count*", 0, "v")>>, !.lim = l, !.off = x] : l \in {-1, 0, 1}, x \in {0, 1}}
AggOrderQ ==
  {[F0 EXCEPT !.fam = "agg", !.grp = 1, !.aggs = a, !.hav = h, !.ord = o, !.ordform = fm, !.desc = d, !.lim = l, !.off = x] :
     a \in {<<A("sum", 0, "v")>>, <<A("avg", 0, "v")>>}, h \in {"cnt"}, o \in {"k", "a1"},
     fm \in {"name", "expr"}, d \in {1}, l \in {-1, 1, U - 1}, x \in {0, 1}}
GrpForms ==
  {[F0 EXCEPT !.fam = "agg", !.grp = 1, !.aggs = a, !.grpform = gf, !.wh = w] :
     a \in {<<A("count*", 0, "v")>>, <<A("sum", 0, "v")>>, <<A("avg", 0, "v")>>}, gf \in {"ord", "shadow"}, w \in {0, 1}}     \* (GROUP BY <fresh alias> is not bound by the local engine: not a statement it answers)
Bodies ==   \* representative statement bodies crossed with source shapes / subqueries / wrappers
  {F0, [F0 EXCEPT !.ord = "v", !.lim = 1, !.off = 1], [F0 EXCEPT !.ord = "v", !.desc = 1, !.lim = 2],
   [F0 EXCEPT !.fam = "agg", !.grp = 1, !.aggs = <<A("sum", 0, "v")>>],
   [F0 EXCEPT !.fam = "agg", !.aggs = <<A("count*", 0, "v")>>]}
BodiesD == Bodies \cup {[F0 EXCEPT !.fam = "agg", !.grp = 1, !.aggs = <<A("count", 0, "w"), A("count*", 0, "v")>>],
                        [F0 EXCEPT !.fam = "agg", !.aggs = <<A("sum", 0, "w")>>]}
BodiesDQ == {F0, [F0 EXCEPT !.ord = "v", !.lim = 1, !.off = 1],
             [F0 EXCEPT !.fam = "agg", !.grp = 1, !.aggs = <<A("count", 0, "w"), A("count*", 0, "v")>>],
             [F0 EXCEPT !.fam = "agg", !.aggs = <<A("sum", 0, "w")>>]}
SrcSlice ==
  {[b EXCEPT !.src = s] : b \in (IF Tier = "thorough" THEN BodiesD ELSE BodiesDQ), s \in {"tjd", "txd", "tld", "dlt", "trd", "tfd"}}
  \cup {[b EXCEPT !.src = s] : b \in Bodies, s \in {"self", "der", "derw", "dera", "derl", "derd"}}
SubSlice ==
  {[b EXCEPT !.sub = s] : b \in Bodies, s \in {"sd", "st", "ind", "exd", "int"}}
  \cup {[b EXCEPT !.sub = s, !.src = "tjd"] : b \in Bodies, s \in {"sd", "st"}}
WrapSlice ==
  {[b EXCEPT !.wrap = w] : b \in {F0, [F0 EXCEPT !.ord = "v", !.lim = 1, !.off = 1], [F0 EXCEPT !.proj = "v"], [F0 EXCEPT !.proj = "v", !.ord = "v", !.lim = 2]},
                           w \in {"cte", "union", "distinct", "window"}}
  \cup {[F0 EXCEPT !.fam = "agg", !.grp = 1, !.aggs = <<A("sum", 0, "v")>>, !.wrap = "cte"]}

GatherSub ==    \* refused (gathered) statements with a subquery over the dimension table
  {[b EXCEPT !.sub = s] : b \in {[F0 EXCEPT !.wrap = "distinct"], [F0 EXCEPT !.fam = "agg", !.aggs = <<A("count", 1, "v")>>],
                                  [F0 EXCEPT !.fam = "agg", !.grp = 1, !.aggs = <<A("count*", 0, "v")>>, !.hav = "alias"]},
                          s \in {"sd", "ind", "exd"}}

Off2 ==         \* OFFSET 2 / LIMIT 2 only bite on tables of >= 3 rows: a small slice that the 3-row configuration explores
  {[F0 EXCEPT !.ord = o, !.desc = d, !.lim = l, !.off = 2] : o \in {"none", "v"}, d \in {0, 1}, l \in {-1, 1, 2, U - 1}}
  \cup {[F0 EXCEPT !.fam = "agg", !.grp = 1, !.aggs = <<A("sum", 0, "v")>>, !.ord = "a1", !.desc = 1, !.lim = l, !.off = 2] : l \in {-1, 1}}

WellFormed(f) ==
  /\ (f.hav = "key" => f.grp = 1)
  /\ (f.selx = "sumpair" => Len(f.aggs) = 2)
  /\ (f.hav = "alias" => f.selx = "plain")
  /\ (f.selform = "star" => f.proj = "kv")
  \* AVG values live at scale AVGSCALE in SqlSem: no arithmetic / literal comparison over them
  /\ (f.selx # "plain" => \A j \in DOMAIN f.aggs : f.aggs[j].fn # "avg")
  /\ (f.hav = "alias" => f.aggs[1].fn # "avg")
AllFeatures ==
  {f \in (IF Tier = "thorough" THEN PlainCore \cup AggCore \cup AggOrder ELSE PlainCoreQ \cup AggCoreQ \cup AggOrderQ)
         \cup GrpForms \cup SrcSlice \cup SubSlice \cup WrapSlice \cup GatherSub \cup Off2 : WellFormed(f)}

\* ------------------------------------------------------------- Stmt(f) --------
\* the statement a feature record denotes, as a SqlSem AST (the single-node meaning)
SubT(where, distinct, order, limit) == [k |-> "sub", q |-> Sel(TabT, where, NoGroup, <<Col(1), Col(2)>>, distinct, order, limit, 0)]
FromOf(src) ==
  CASE src = "t" -> TabT
    [] src = "tjd" -> Join("inner", TabT, TabD, Cmp("=", Col(1), Col(3)))
    [] src = "txd" -> Join("cross", TabT, TabD, TRUEX)
    [] src = "tld" -> Join("left", TabT, TabD, Cmp("=", Col(1), Col(3)))
    [] src = "trd" -> Join("right", TabT, TabD, Cmp("=", Col(1), Col(3)))
    [] src = "tfd" -> Join("full", TabT, TabD, Cmp("=", Col(1), Col(3)))
    [] src = "dlt" -> Join("left", TabD, TabT, Cmp("=", Col(3), Col(1)))
    [] src = "self" -> Join("inner", TabT, TabT, Cmp("=", Col(1), Col(3)))
    [] src = "der" -> SubT(TRUEX, 0, <<>>, -1)
    [] src = "derw" -> SubT(Cmp(">=", Col(2), Lit(1)), 0, <<>>, -1)
    [] src = "derd" -> SubT(TRUEX, 1, <<>>, -1)
    [] src = "derl" -> SubT(TRUEX, 0, <<OrdItem(Col(2), 0), OrdItem(Col(1), 0)>>, 1)
    [] src = "dera" -> [k |-> "sub", q |-> Sel(TabT, TRUEX, [on |-> 1, keys |-> <<Col(1)>>, aggs |-> <<Agg("count*", 0, Col(1))>>, having |-> TRUEX, sets |-> <<>>],
                                               <<Col(1), Col(2)>>, 0, <<>>, -1, 0)]
GlobalAgg(tab, fn, i) == Sel(tab, TRUEX, [on |-> 1, keys |-> <<>>, aggs |-> <<Agg(fn, 0, Col(i))>>, having |-> TRUEX, sets |-> <<>>], <<Col(1)>>, 0, <<>>, -1, 0)
SubPred(f) ==
  LET K == iK(f.src)  V == iV(f.src) IN
  CASE f.sub = "sd" -> Cmp(">=", Col(V), [k |-> "scalar", q |-> GlobalAgg(TabD, "min", 2)])
    [] f.sub = "st" -> Cmp(">=", Col(V), [k |-> "scalar", q |-> GlobalAgg(TabT, "min", 2)])
    [] f.sub = "ind" -> [k |-> "insub", a |-> Col(K), neg |-> 0, q |-> Sel(TabD, TRUEX, NoGroup, <<Col(1)>>, 0, <<>>, -1, 0)]
    [] f.sub = "int" -> [k |-> "insub", a |-> Col(K), neg |-> 0, q |-> Sel(TabT, Cmp(">=", Col(2), Lit(2)), NoGroup, <<Col(1)>>, 0, <<>>, -1, 0)]
    [] f.sub = "exd" -> [k |-> "exists", neg |-> 0, q |-> Sel(TabD, Cmp("=", Col(1), OCol(K)), NoGroup, <<Lit(1)>>, 0, <<>>, -1, 0)]
WhereOf(f) ==
  LET base == Cmp(">=", Col(iV(f.src)), Lit(1)) IN
  IF f.sub = "none" THEN (IF f.wh = 1 THEN base ELSE TRUEX)
  ELSE IF f.wh = 1 THEN AndE(base, SubPred(f)) ELSE SubPred(f)

ArgCol(f, a) == IF a.arg = "w" THEN Col(iW(f.src)) ELSE Col(iV(f.src))
SelAggs(f) == [j \in DOMAIN f.aggs |-> Agg(f.aggs[j].fn, f.aggs[j].dist, ArgCol(f, f.aggs[j]))]
HavAggs(f) == CASE f.hav = "cnt" -> <<Agg("count*", 0, Col(1))>> [] f.hav = "sum" -> <<Agg("sum", 0, Col(iV(f.src)))>> [] OTHER -> <<>>
StmtAggs(f) == SelAggs(f) \o HavAggs(f)
NK(f) == f.grp
AggItems(f) ==   \* select items over the group row (keys ++ aggregates)
  LET nk == NK(f)
      keyItem == IF nk = 0 THEN <<>> ELSE IF f.grpform = "shadow" THEN <<Ar("*", Col(1), Lit(0))>> ELSE <<Col(1)>>
      aggItems == CASE f.selx = "plus1" -> <<Ar("+", Col(nk + 1), Lit(1))>> \o [j \in 1..(Len(f.aggs) - 1) |-> Col(nk + 1 + j)]
                    [] f.selx = "sumpair" -> <<Ar("+", Col(nk + 1), Col(nk + 2))>>
                    [] OTHER -> [j \in DOMAIN f.aggs |-> Col(nk + j)]
  IN keyItem \o aggItems
HavingOf(f) ==
  LET nk == NK(f)  na == Len(f.aggs) IN
  CASE f.hav = "cnt" -> Cmp(">=", Col(nk + na + 1), Lit(2))
    [] f.hav = "sum" -> Cmp(">=", Col(nk + na + 1), Lit(2))
    [] f.hav = "key" -> Cmp(">=", Col(1), Lit(1))
    [] f.hav = "alias" -> Cmp(">=", Col(nk + 1), Lit(2))
    [] OTHER -> TRUEX
AggOrderOf(f) ==
  CASE f.ord = "k" -> <<OrdItem(Col(1), f.desc)>>
    [] f.ord = "a1" -> <<OrdItem(AggItems(f)[NK(f) + 1], f.desc)>>
    [] OTHER -> <<>>
PlainProj(f) ==
  LET K == Col(iK(f.src))  V == Col(iV(f.src)) IN
  IF f.proj = "v" THEN <<V>> ELSE IF HasD(f.src) THEN <<K, V, Col(iW(f.src))>> ELSE <<K, V>>
PlainOrderOf(f) ==
  LET K == Col(iK(f.src))  V == Col(iV(f.src))
      x(e) == IF f.ordform = "expr" THEN Ar("+", e, Lit(0)) ELSE e IN
  CASE f.ord = "v" -> <<OrdItem(x(V), f.desc)>>
    [] f.ord = "k" -> <<OrdItem(x(K), f.desc)>>
    [] f.ord = "kv" -> <<OrdItem(K, f.desc), OrdItem(V, f.desc)>>
    [] OTHER -> <<>>

Body(f) ==
  IF f.fam = "plain"
  THEN Sel(FromOf(f.src), WhereOf(f), NoGroup, PlainProj(f), 0, PlainOrderOf(f), f.lim, f.off)
  ELSE Sel(FromOf(f.src), WhereOf(f),
           [on |-> 1, keys |-> IF f.grp = 1 THEN <<Col(iK(f.src))>> ELSE <<>>, aggs |-> StmtAggs(f), having |-> HavingOf(f), sets |-> <<>>],
           AggItems(f), 0, AggOrderOf(f), f.lim, f.off)
Stmt(f) ==
  LET b == Body(f) IN
  CASE f.wrap = "cte" -> [k |-> "with", ctes |-> << [name |-> "c", q |-> Sel(TabT, TRUEX, NoGroup, <<Col(1), Col(2)>>, 0, <<>>, -1, 0)] >>,
                          body |-> [b EXCEPT !.from = [k |-> "cte", name |-> "c"]]]
    [] f.wrap = "union" -> [k |-> "setop", op |-> "union", all |-> 1,
                            l |-> [b EXCEPT !.order = <<>>, !.limit = -1, !.offset = 0],
                            r |-> Sel(TabD, TRUEX, NoGroup, IF f.proj = "v" THEN <<Col(2)>> ELSE <<Col(1), Col(2)>>, 0, <<>>, -1, 0),
                            order |-> [i \in DOMAIN b.order |-> [b.order[i] EXCEPT !.e = Col(IF f.proj = "v" THEN 1 ELSE b.order[i].e.i)]],
                            limit |-> b.limit, offset |-> b.offset]
    [] f.wrap = "distinct" ->       \* under DISTINCT the ORDER BY is evaluated on the OUTPUT row
         [b EXCEPT !.distinct = 1, !.order = [i \in DOMAIN b.order |-> [b.order[i] EXCEPT !.e = Col(IF f.proj = "v" THEN 1 ELSE b.order[i].e.i)]]]
    [] f.wrap = "window" -> [k |-> "select", from |-> b.from, where |-> b.where, group |-> b.group, proj |-> b.proj \o <<Col(3)>>,
                             distinct |-> 0, order |-> b.order, limit |-> b.limit, offset |-> b.offset,
                             wins |-> << [f |-> "sum", a |-> Col(2), k |-> 0, dflt |-> Lit(NULL), part |-> <<Col(1)>>, ord |-> <<>>,
                                          frame |-> [mode |-> "default"]] >>]
    [] OTHER -> b

\* ------------------------------------------------------------- the planner ----
\* A plan: [shape, why, table, partial (SqlSem query each shard runs), final (merge specification), binds]
\* final = [gon, keys, aggs, divs, having, proj, order, limit, offset]:
\*   gon = 1: regroup the partial rows by columns `keys`, merge aggregates aggs[j] = [f, i] over partial column i;
\*   divs[j] = [n, d, raw]: extra column merged[n] / merged[d] (AVG carried as SUM/COUNT; raw = 1: operands already at AVG scale);
\*   having / proj / order are expressions over the extended merged row (keys ++ aggs ++ divs); then LIMIT / OFFSET.
NoFinal == [gon |-> 0, keys |-> <<>>, aggs |-> <<>>, divs |-> <<>>, having |-> TRUEX, proj |-> <<>>, order |-> <<>>, limit |-> -1, offset |-> 0]
Refuse(why) == [shape |-> "Refuse", why |-> why, table |-> "t", partial |-> Sel(TabT, TRUEX, NoGroup, <<>>, 0, <<>>, -1, 0), final |-> NoFinal, binds |-> TRUE]
\* plan_gather moves the tables the OPTIMIZED plan scans; an uncorrelated scalar subquery stays an expression, so a table
\* referenced only there is not gathered and the statement does not bind on the initiator
GatherBinds(f) == ~(f.sub = "sd" /\ ~HasD(f.src))

\* ---- net 1: structure of the parsed statement
Structural(f) ==
  CASE f.wrap = "cte" -> "common table expressions"
    [] f.wrap = "union" -> "set operations"
    [] f.wrap = "distinct" /\ Mutant # "DistinctAsConcat" -> "SELECT DISTINCT"
    [] OTHER -> "ok"

\* ---- net 2: capability of the bound plan: census of table references, shard-safe sides, election
Cnt(f, x) ==
  IF x = "t" THEN (IF f.src = "self" THEN 2 ELSE 1) + (IF f.sub \in {"st", "int"} THEN 1 ELSE 0)
  ELSE (IF HasD(f.src) THEN 1 ELSE 0) + (IF f.sub \in {"sd", "ind", "exd"} THEN 1 ELSE 0)
\* does SOME reference of x sit in the main FROM tree on a shard-safe (row-preserving) side
SafeSide(f, x) ==
  IF x = "t" THEN f.src \in {"t", "tjd", "txd", "tld", "self", "der", "derw", "dera", "derl", "derd"}
                  \/ (Mutant = "NullSideSharded" /\ f.src \in {"dlt", "trd"})
  ELSE f.src \in {"tjd", "txd", "dlt", "trd"} \/ (Mutant = "NullSideSharded" /\ f.src = "tld")
Eligible(f) == {x \in {"t", "d"} : SafeSide(f, x) /\ (Cnt(f, x) = 1 \/ (Mutant = "SubqueryTableSharded" /\ Cnt(f, x) >= 1 /\ f.src # "self"))}
Decomposable(a) == a.distinct = 0 \/ (Mutant = "CountDistinctSummed" /\ a.f = "count")
Capability(f) ==
  CASE f.wrap = "window" -> "window functions"
    [] f.src = "dera" -> "aggregates inside derived tables"
    [] f.src = "derl" /\ Mutant # "DerivedLimitAllowed" -> "LIMIT inside a derived table"
    [] f.src = "derd" -> "SELECT DISTINCT"
    [] f.fam = "agg" /\ \E j \in DOMAIN StmtAggs(f) : ~Decomposable(StmtAggs(f)[j]) -> "no exact partial/final split"
    [] Eligible(f) = {} -> "no shard-eligible table"
    [] OTHER -> "ok"

\* ---- plain statements: Concat, or TopN with per-shard pre-truncation
OutIdx(proj, e) == IF \E j \in DOMAIN proj : proj[j] = e THEN CHOOSE j \in DOMAIN proj : proj[j] = e ELSE 0
PlainPlan(f, S, tab) ==
  IF S.order = <<>> /\ f.lim = -1 /\ f.off = 0
  THEN [shape |-> "Concat", why |-> "", table |-> tab, partial |-> S, final |-> NoFinal, binds |-> TRUE]
  ELSE IF \/ S.distinct = 0 /\ \E i \in DOMAIN S.order : S.order[i].e.k # "col" \/ OutIdx(S.proj, S.order[i].e) = 0
          \/ S.order # <<>> /\ f.ordform = "qual" /\ f.selform = "alias"      \* `t.k` is matched against the OUTPUT names by its last part
  THEN Refuse("ORDER BY over an expression not in the SELECT list")
  ELSE LET oidx(e) == IF S.distinct = 1 THEN e.i ELSE OutIdx(S.proj, e)
           keep == IF Mutant = "OffsetNotAdded" THEN f.lim ELSE (f.lim + f.off) % U      \* u64 wrapping addition
           partial == IF f.lim = -1 THEN [S EXCEPT !.order = <<>>, !.limit = -1, !.offset = 0]
                      ELSE [S EXCEPT !.order = IF Mutant = "TopNNoShardOrder" THEN <<>> ELSE S.order, !.limit = keep, !.offset = 0]
           final == [NoFinal EXCEPT !.proj = [j \in DOMAIN S.proj |-> Col(j)],
                                    !.order = [i \in DOMAIN S.order |-> [S.order[i] EXCEPT !.e = Col(oidx(S.order[i].e))]],
                                    !.limit = f.lim, !.offset = f.off]
       IN [shape |-> "TopN", why |-> "", table |-> tab, partial |-> partial, final |-> final,
           binds |-> f.selform \in {"name", "alias"}]     \* the merge query names the OUTPUT columns; `*` / `t.k` fragments carry other names

\* ---- aggregated statements: the Rewriter
\* split of one statement aggregate: parts (per-shard aggregates), merges ([f, p]: merge function over part p), out
SplitOf(a) ==
  CASE a.f = "avg" /\ Mutant = "AvgOfAvgs" -> [parts |-> <<a>>, merges |-> <<[f |-> "sum", p |-> 1], [f |-> "count", p |-> 1]>>, div |-> 1, raw |-> 1]
    [] a.f = "avg" -> [parts |-> <<[a EXCEPT !.f = "sum"], [a EXCEPT !.f = "count"]>>, merges |-> <<[f |-> "sum", p |-> 1], [f |-> "sum", p |-> 2]>>, div |-> 1, raw |-> 0]
    [] a.f \in {"count", "count*"} -> [parts |-> <<a>>, merges |-> <<[f |-> IF Mutant = "CountByCount" THEN "count" ELSE "sum", p |-> 1]>>, div |-> 0, raw |-> 0]
    [] OTHER -> [parts |-> <<a>>, merges |-> <<[f |-> a.f, p |-> 1]>>, div |-> 0, raw |-> 0]

RECURSIVE RwOk(_), Rw(_, _), Subst(_, _)
RwOk(e) == CASE e.k \in {"col", "lit"} -> TRUE
             [] e.k \in {"cmp", "arith", "and", "or"} -> RwOk(e.a) /\ RwOk(e.b)
             [] e.k \in {"not", "neg", "isnull"} -> RwOk(e.a)
             [] OTHER -> FALSE
\* m: group-row column -> expression over the extended merged row
Rw(e, m) == CASE e.k = "col" -> m[e.i]
              [] e.k = "lit" -> e
              [] e.k \in {"cmp", "arith", "and", "or"} -> [e EXCEPT !.a = Rw(e.a, m), !.b = Rw(e.b, m)]
              [] OTHER -> [e EXCEPT !.a = Rw(e.a, m)]
\* a select item (over the group row) read as an expression over the SOURCE row: key references replaced by the key expressions
Subst(e, keys) == CASE e.k = "col" -> keys[e.i]
                    [] e.k = "lit" -> e
                    [] e.k \in {"cmp", "arith", "and", "or"} -> [e EXCEPT !.a = Subst(e.a, keys), !.b = Subst(e.b, keys)]
                    [] OTHER -> [e EXCEPT !.a = Subst(e.a, keys)]

AggPlan(f, S, tab) ==
  LET g == S.group
      nk == Len(g.keys)
      na == Len(g.aggs)
      sp == [j \in 1..na |-> SplitOf(g.aggs[j])]
      partsOf == [j \in 1..na |-> sp[j].parts]
      mergesOf == [j \in 1..na |-> sp[j].merges]
      np == SumLens(partsOf, na)
      nm == SumLens(mergesOf, na)
      pOff(j) == nk + SumLens(partsOf, j - 1)
      mOff(j) == nk + SumLens(mergesOf, j - 1)
      divNo(j) == Cardinality({i \in 1..j : sp[i].div = 1})
      \* resolve_group_item: GROUP BY <identifier> that equals a projection alias takes the aliased EXPRESSION
      rkeys == IF nk = 1 /\ f.grpform \in {"alias", "shadow"} THEN <<Subst(S.proj[1], g.keys)>> ELSE g.keys
      mapCol == [i \in 1..(nk + na) |-> IF i <= nk THEN Col(i)
                                        ELSE LET j == i - nk IN IF sp[j].div = 1 THEN Col(nk + nm + divNo(j)) ELSE Col(mOff(j) + 1)]
      item(j) == IF nk = 1 /\ j = 1 /\ f.grpform \in {"alias", "shadow"} THEN Col(1) ELSE Rw(S.proj[j], mapCol)   \* text equal to a group key -> its alias
      ok == /\ \A j \in DOMAIN S.proj : RwOk(S.proj[j])
            /\ f.hav # "alias"                   \* HAVING <output alias>: "column is neither grouped nor aggregated"
            /\ RwOk(g.having)
            /\ \A i \in DOMAIN S.order : RwOk(S.order[i].e)
      \* mutants that push work below the merge translate a group-row column to the first part of its aggregate
      toPart == [i \in 1..(nk + na) |-> IF i <= nk THEN Col(i) ELSE Col(pOff(i - nk) + 1)]
      pushTop == Mutant = "GroupedTopNPushdown" /\ f.lim >= 0 /\ S.order # <<>>
      partial == Sel(S.from, S.where,
                     [on |-> 1, keys |-> rkeys, aggs |-> Flat(partsOf),
                      having |-> IF Mutant = "HavingPerShard" THEN Rw(g.having, toPart) ELSE TRUEX, sets |-> <<>>],
                     [i \in 1..(nk + np) |-> Col(i)], 0,
                     IF pushTop THEN [i \in DOMAIN S.order |-> [S.order[i] EXCEPT !.e = Rw(S.order[i].e, toPart)]] ELSE <<>>,
                     IF pushTop THEN (f.lim + f.off) % U ELSE -1, 0)
      final == [gon |-> 1, keys |-> [i \in 1..nk |-> i],
                aggs |-> Flat([j \in 1..na |-> [x \in DOMAIN sp[j].merges |-> [f |-> sp[j].merges[x].f, i |-> pOff(j) + sp[j].merges[x].p]]]),
                divs |-> Flat([j \in 1..na |-> IF sp[j].div = 1 THEN <<[n |-> mOff(j) + 1, d |-> mOff(j) + 2, raw |-> sp[j].raw]>> ELSE <<>>]),
                having |-> Rw(g.having, mapCol),
                proj |-> [j \in DOMAIN S.proj |-> item(j)],
                order |-> [i \in DOMAIN S.order |-> [S.order[i] EXCEPT !.e = Rw(S.order[i].e, mapCol)]],
                limit |-> f.lim, offset |-> f.off]
  IN IF ~ok THEN Refuse("expression cannot be split into partial and final phases")
     ELSE [shape |-> "TwoPhase", why |-> "", table |-> tab, partial |-> partial, final |-> final, binds |-> TRUE]

\* ---- plan_distributed: every plan the planner may produce for f (the election picks the LARGEST eligible table;
\* ---- sizes are not modelled, so every eligible table is a possible outcome)
Plans0(f) ==
  IF Structural(f) # "ok" THEN <<Refuse(Structural(f))>>
  ELSE IF Capability(f) # "ok" THEN <<Refuse(Capability(f))>>
  ELSE LET S == Stmt(f)
           E == Eligible(f)
           els == IF E = {"t", "d"} THEN <<"t", "d">> ELSE IF E = {"t"} THEN <<"t">> ELSE <<"d">>
       IN [i \in DOMAIN els |-> IF f.fam = "plain" THEN PlainPlan(f, S, els[i]) ELSE AggPlan(f, S, els[i])]
Plans(f) == LET ps == Plans0(f) IN [i \in DOMAIN ps |-> IF ps[i].shape = "Refuse" THEN [ps[i] EXCEPT !.binds = GatherBinds(f)] ELSE ps[i]]

\* shapes on which the UNCHANGED planner is known to be wrong (open findings C09/distplan-*): excluded from the
\* "sound" space, explored on their own by the *_asbuilt_* configurations, which TLC must reject
ShadowShape(f) == f.fam = "agg" /\ f.grpform = "shadow"                       \* GROUP BY <alias that shadows a column>
WrapShape(f) == f.lim >= 0 /\ f.lim + f.off >= U /\ f.fam = "plain" /\ Plans(f)[1].shape = "TopN"   \* LIMIT + OFFSET overflows u64 in plan_topn
QualTopNShape(f) == f.fam = "plain" /\ f.selform \in {"qual", "star"} /\ Plans(f)[1].shape = "TopN"   \* merge query names columns the fragments do not carry
GatherSubqShape(f) == Plans(f)[1].shape = "Refuse" /\ ~GatherBinds(f)            \* gather misses a scalar-subquery table
KnownShape(f) == ShadowShape(f) \/ WrapShape(f) \/ QualTopNShape(f) \/ GatherSubqShape(f)
\* the statements a planner mutant can affect at all (mutant configurations explore only these)
HasAgg(f, fns) == \E j \in DOMAIN f.aggs : f.aggs[j].fn \in fns
Focus(f) == CASE Mutant = "AvgOfAvgs" -> f.fam = "agg" /\ HasAgg(f, {"avg"})
              [] Mutant = "GroupedTopNPushdown" -> f.fam = "agg" /\ f.lim >= 0 /\ f.ord # "none"
              [] Mutant = "HavingPerShard" -> f.hav \in {"cnt", "sum"}
              [] Mutant = "CountByCount" -> f.fam = "agg" /\ HasAgg(f, {"count", "count*"})
              [] Mutant = "CountDistinctSummed" -> f.fam = "agg" /\ \E j \in DOMAIN f.aggs : f.aggs[j].dist = 1
              [] Mutant \in {"OffsetNotAdded", "TopNNoShardOrder"} -> f.fam = "plain" /\ f.lim >= 0
              [] Mutant = "DistinctAsConcat" -> f.wrap = "distinct"
              [] Mutant = "NullSideSharded" -> f.src \in {"tld", "dlt", "trd"}
              [] Mutant = "SubqueryTableSharded" -> f.sub \in {"st", "int"}
              [] Mutant = "DerivedLimitAllowed" -> f.src = "derl"
              [] OTHER -> TRUE
FeatSpace == CASE Space = "sound" -> {f \in AllFeatures : ~KnownShape(f)}
               [] Space = "focus" -> {f \in AllFeatures : ~KnownShape(f) /\ Focus(f)}
               [] Space = "shadow" -> {f \in AllFeatures : ShadowShape(f)}
               [] Space = "wrap" -> {f \in AllFeatures : WrapShape(f) /\ ~QualTopNShape(f)}
               [] Space = "qualtopn" -> {f \in AllFeatures : QualTopNShape(f) /\ ~WrapShape(f)}
               [] Space = "gathersubq" -> {f \in AllFeatures : GatherSubqShape(f)}
               [] OTHER -> AllFeatures

\* ------------------------------------------------------------- exactness -------
ShardOf(R, g, s) == LET idx == SelectSeq([i \in DOMAIN R |-> i], LAMBDA i : g[i] = s) IN [j \in DOMAIN idx |-> R[idx[j]]]

Div(r, dv) == LET n == r[dv.n]  cn == r[dv.d] IN
              IF n = NULL \/ cn = NULL \/ cn = 0 THEN NULL ELSE IF dv.raw = 1 THEN n \div cn ELSE (n * AVGSCALE) \div cn

\* the merge stage: an ordinary query over the collected partial rows
RunFinal(fs, rows) ==
  LET g1 == [on |-> 1, keys |-> [i \in DOMAIN fs.keys |-> Col(fs.keys[i])],
             aggs |-> [j \in DOMAIN fs.aggs |-> Agg(fs.aggs[j].f, 0, Col(fs.aggs[j].i))], having |-> TRUEX, sets |-> <<>>]
      m == IF fs.gon = 1 THEN LET gr == GroupRows(g1, rows, Env0) IN [i \in DOMAIN gr |-> SubSeq(gr[i], 1, Len(gr[i]) - 1)] ELSE rows
      ext == [i \in DOMAIN m |-> m[i] \o [j \in DOMAIN fs.divs |-> Div(m[i], fs.divs[j])]]
      q2 == Sel([k |-> "table", name |-> "x"], fs.having, NoGroup, fs.proj, 0, fs.order, fs.limit, fs.offset)
  IN Answer(q2, [Env0 EXCEPT !.db = [x |-> [rows |-> ext]]])

\* what the cluster answers under plan P when the elected table's rows are placed by g (row index -> shard).
\* skip = 1: a participant that owns no row is not sent a fragment (if nobody owns a row, one empty fragment runs locally)
PipeAnswer(P, T, D, g, skip) ==
  LET R == IF P.table = "t" THEN T ELSE D
      sh(s) == ShardOf(R, g, s)
      envS(s) == IF P.table = "t" THEN EnvTD(sh(s), D) ELSE EnvTD(T, sh(s))
      act0 == {s \in 1..NShards : skip = 0 \/ sh(s) # <<>>}
      act == SetToSortSeq(IF act0 = {} THEN {1} ELSE act0, LAMBDA a, b : a < b)
      parts == Flat([i \in DOMAIN act |-> Answer(P.partial, envS(act[i]))])
  IN IF P.shape = "Concat" THEN parts ELSE RunFinal(P.final, parts)

\* gather: every shard ships its rows, the initiator runs the statement over their union
GatherAnswer(q, tab, T, D, g) ==
  LET R == IF tab = "t" THEN T ELSE D
      all == Flat([s \in 1..NShards |-> ShardOf(R, g, s)])
  IN Answer(q, IF tab = "t" THEN EnvTD(all, D) ELSE EnvTD(T, all))

Skips == IF Data \in {"small", "pairs"} THEN {0, 1} ELSE {1}
\* the big-table configurations fix the first row on shard 1 (the two shards are interchangeable up to concatenation order)
Shardings(P, T, D) == LET n == Len(IF P.table = "t" THEN T ELSE D) IN
                      {g \in [1..n -> 1..NShards] : Data \in {"small", "pairs"} \/ n = 0 \/ g[1] = 1}
ExactOn(q, P, T, D) ==
  \A g \in Shardings(P, T, D) : \A skip \in Skips :
     IF P.shape = "Refuse" THEN Allowed(q, EnvTD(T, D), GatherAnswer(q, P.table, T, D, g))
     ELSE Allowed(q, EnvTD(T, D), PipeAnswer(P, T, D, g, skip))

\* ---- explored tables
KeysOf(data) == IF data = "nullkey" THEN {NULL, 0, 1} ELSE {0, 1}
ValsOf(data) == IF data = "nullkey" THEN {NULL, 0, 1, 2} ELSE {NULL, 1, 2}
MaxRows(data) == IF data = "rows3" THEN 3 ELSE 2
\* "small": every SEQUENCE of rows (row order decides which of several tied rows a shard keeps); the bigger domains explore
\* one sequence per multiset (rows in non-decreasing order), placements still range over every assignment of rows to shards
RowLe(a, b) == a[1] < b[1] \/ (a[1] = b[1] /\ a[2] <= b[2])
TabsOf(data) == LET all == UNION {[1..n -> {<<k, v>> : k \in KeysOf(data), v \in ValsOf(data)}] : n \in 0..MaxRows(data)}
                IN IF data = "small" THEN all ELSE {T \in all : \A i \in 1..(Len(T) - 1) : RowLe(T[i], T[i + 1])}     \* ("pairs" = "small" up to row order)
Tabs == TabsOf(Data)
DimTabs == IF Tier = "thorough" /\ Data = "small"
           THEN {<<>>, << <<0, 1>> >>, << <<0, 1>>, <<0, 2>>, <<2, 1>> >>, << <<1, 1>>, <<NULL, 2>> >>}
           ELSE {<< <<0, 1>>, <<0, 2>>, <<2, 1>> >>, << <<1, 1>>, <<NULL, 2>> >>}
Dims(usesd) == IF usesd THEN DimTabs ELSE {<<>>}

\* Exact(P, f): the strategy P is exact for the statement f denotes, on every explored database and placement
Exact(P, f) == \A T \in Tabs, D \in Dims(UsesD(f)) : ExactOn(Stmt(f), P, T, D)

\* ------------------------------------------------------------- exploration -----
\* st 0 -> (a statement and one of its plans; the feature record is dropped so equal (statement, plan) pairs are explored once)
\*      -> (a database) : the invariant judges every placement.  Refusals are judged as gathers in the thorough tier.
Summary(P) == [shape |-> P.shape, why |-> P.why, table |-> P.table, binds |-> P.binds,
               shardlimit |-> IF P.shape = "Refuse" THEN -1 ELSE P.partial.limit,
               shardorder |-> IF P.shape = "Refuse" THEN 0 ELSE Len(P.partial.order),
               nparts |-> IF P.shape = "TwoPhase" THEN Len(P.partial.group.aggs) ELSE 0,
               merges |-> [j \in DOMAIN P.final.aggs |-> P.final.aggs[j].f], ndivs |-> Len(P.final.divs),
               flimit |-> P.final.limit, foffset |-> P.final.offset]
KnownNames(f) == (IF ShadowShape(f) THEN <<"shadow">> ELSE <<>>) \o (IF WrapShape(f) THEN <<"wrap">> ELSE <<>>)
                 \o (IF QualTopNShape(f) THEN <<"qualtopn">> ELSE <<>>) \o (IF GatherSubqShape(f) THEN <<"gathersubq">> ELSE <<>>)
Emit(f) == PrintT(<<"CASE", ToJson([f |-> f, q |-> Stmt(f), usesd |-> B(UsesD(f)), known |-> KnownNames(f),
                                    plans |-> [i \in DOMAIN Plans(f) |-> Summary(Plans(f)[i])]])>>)

Init == c = [st |-> 0]
Pick == /\ c.st = 0
        /\ \E f \in FeatSpace :
             IF Mode = "emit" THEN Emit(f) /\ c' = [st |-> 9]
             ELSE \E i \in DOMAIN Plans(f) :
                    LET P == Plans(f)[i] IN
                    \* refusals are judged as gathers for the non-core slices of the thorough space
                    c' = [st |-> IF P.shape = "Refuse" /\ ~(Tier = "thorough" /\ (f.wrap # "none" \/ f.src # "t" \/ f.sub # "none")) THEN 3 ELSE 1,
                          q |-> Stmt(f), p |-> P, usesd |-> UsesD(f)]
Place == /\ c.st = 1
         /\ \E T \in Tabs, D \in Dims(c.usesd) : c' = [st |-> 2, q |-> c.q, p |-> c.p, T |-> T, D |-> D]
Next == Pick \/ Place

Sound == c.st = 2 => ExactOn(c.q, c.p, c.T, c.D)
Runs == c.st \in {1, 3} => c.p.binds
====
