CONSTANTS Fam = "shapes"
          MaxN = 0
          NTab = 1
          Syms <- SymsSmall
          Ks <- KsMut
          Ms <- MsShapes
          EmitMod = 1
          Gate = "limit_before_sort"
INIT Init
NEXT Next
INVARIANT FiresOnlyOnCanonical
INVARIANT ExactWhenAsked
INVARIANT AcceptLaws

CHECK_DEADLOCK FALSE
