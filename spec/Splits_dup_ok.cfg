CONSTANTS MIN = 4
          MAX = 64
          SPN = 2
          MaxFiles = 2
          MaxRgs = 2
          MaxRows = 2
          ByteVals = {1, 2}
          NodeVals = {1, 2}
          AllowDup = TRUE
          EmitMode = 0
          Regimes = {"small"}
INIT Init
NEXT Next
INVARIANT AllButListing
CHECK_DEADLOCK FALSE
