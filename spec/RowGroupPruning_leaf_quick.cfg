CONSTANTS Profiles = {"i64.small", "i64.big53", "i64.wrap32", "f64.zeros", "str.uni", "date.small", "i32.edge"}
          Family = "leaf"
          MaxRows = 2
          Impl = "asbuilt"
          Strict = FALSE
          EmitOn = TRUE
          FlipOps = {"lt", "ge"}
          SecLits = {1, 2, 4}
          BtwToks = {1, 4}
          InToks = {0, 3}
          Depth2 = FALSE
INIT Init
NEXT Next
INVARIANT PruneSound
INVARIANT AllTrueSound
INVARIANT StatsAreBounds
INVARIANT Emit
CHECK_DEADLOCK FALSE
