CONSTANTS MIN = 4
          MAX = 64
          SPN = 2
          MaxFiles = 3
          MaxRgs = 3
          MaxRows = 3
          ByteVals = {1, 3}
          NodeVals = {1}
          AllowDup = FALSE
          EmitMode = 1
          Regimes = {"small"}
INIT Init
NEXT Next
INVARIANT Emit
CHECK_DEADLOCK FALSE
