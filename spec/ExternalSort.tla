---- MODULE ExternalSort ----
(***************************************************************************)
(* C08 — the external merge sort of ExternalSortExec                       *)
(* (src/physical/operators/spillable.rs), one action per implementation    *)
(* step:                                                                   *)
(*   FillBatch   choose the content of the next input batch                *)
(*   Decide      total > threshold ?  spill path : in-memory SortExec      *)
(*   TakeFlush / TakeAppend   generate_runs: a batch arrives; the buffer   *)
(*               is flushed as a sorted run first iff                      *)
(*               buffer_size + batch_size > threshold /\ buffer not empty  *)
(*   EndGen      the remaining buffer becomes the last run                 *)
(*   Merge       merge_runs: 0 runs / 1 run / single k-way merge / go      *)
(*               multi-pass when runs > FanIn                              *)
(*   MergeChunk  multi_pass_merge: one chunk of FanIn runs becomes one run *)
(*               (a chunk of one run is carried over unmerged)             *)
(*   EndPass     next pass; from the second pass on the files of the       *)
(*               previous pass are deleted — INCLUDING a carried run       *)
(*               (as built: CleanupCarried = TRUE), which then fails to    *)
(*               open: an explicit error                                   *)
(*   FinalMerge  the last k-way merge                                      *)
(*   ApplyFetch  truncate to `fetch` rows AFTER the merge                  *)
(*                                                                         *)
(* Sizes are counted in rows (the harness scales the byte threshold so the *)
(* engine's own flush rule yields the same run partition).                 *)
(*                                                                         *)
(* CONTRACT (invariants): no row is lost or duplicated by any step; every  *)
(* run is sorted; the outcome is an explicit error or a row sequence whose *)
(* KEY sequence is the (unique) sorted key sequence of the input under the *)
(* ORDER BY (direction, NULLS FIRST/LAST, several keys) cut to             *)
(* min(fetch, n) rows, made of distinct input rows (tied rows are free).   *)
(*                                                                         *)
(* MergeCmp = "spec": the merge compares like the ORDER BY.                *)
(* MergeCmp = "asbuilt": the merge comparison as it was built before /repo *)
(* commit 8429288 (compare_array_values: NULL greater than every value,    *)
(* DESC reverses the whole comparison, so NULLS FIRST/LAST is ignored by   *)
(* the merge while flush_run sorts every run correctly): TLC refutes       *)
(* AtDone (ExternalSort_asbuilt_cex.cfg) — kept as the seeded mistake that *)
(* shows the invariant is sensitive to the merge order.                    *)
(***************************************************************************)
EXTENDS VerifIO, SequencesExt

CONSTANTS MaxRows,        \* rows in the input
          MaxBatches,     \* input batches (family "splits")
          NKeyVals,       \* key codes 0..NKeyVals-1, plus NULL
          NKeys,          \* sort keys per row
          SpecCodes,      \* ORDER BY variants: bit 2(i-1) = key i DESC, bit 2(i-1)+1 = key i NULLS FIRST
          SplitFanIns,    \* merge fan-ins tried in family "splits" (MAX_MERGE_FANIN is 8 in the code)
          Singles,        \* family "singles": set of codes 100 * fan-in + n: n single-row batches, threshold 0 (n runs;
                          \* multi-pass when n > fan-in; fan-in 2 or 3 reaches the deeper pass structures with few rows)
          Fetches,        \* fetch values tried at the end; NoFetch = none
          NoFetch,
          MergeCmp,       \* "spec" | "asbuilt"
          CleanupCarried, \* TRUE: as built (a carried run is deleted with the previous pass)
          AllowEmpty,     \* zero-row batches in family "splits"
          EmitMod         \* emit a case iff its checksum % EmitMod = 0 (1 = all)

VARIABLES input,   \* Seq of batches; a batch is a Seq of rows [k |-> <<k1..>>, id |-> i]
          sizes,   \* row count per batch (the shape, chosen in Init)
          T,       \* threshold in rows
          fam,     \* "splits": every split of <= MaxRows rows into <= MaxBatches batches under every threshold | "singles"
          FanIn,   \* the merge fan-in of this behaviour
          spec,    \* Seq of [desc, nf]
          pc, pos,
          buffer, bufn,   \* rows buffered / number of batches buffered
          runs,    \* Seq of [rows, live, c]  (live: the file exists; c: carried over in this pass)
          runb,    \* batches per generated run
          nxt, ci, pass,
          path,    \* "none" | "mem" | "spill"
          res,     \* rows before fetch
          fetch,
          out      \* [k |-> "none" | "rows" | "error", rows |-> Seq]

vars == <<input, sizes, T, fam, FanIn, spec, pc, pos, buffer, bufn, runs, runb, nxt, ci, pass, path, res, fetch, out>>

KeyDom == (0..(NKeyVals - 1)) \cup {NULL}
KeyTuples == [1..NKeys -> KeyDom]
\* a fixed enumeration of the key tuples (batches are filled as non-decreasing index sequences: one
\* representative per multiset; the harness permutes the rows inside a batch)
TupleSeq == SetToSeq(KeyTuples)
NT == Len(TupleSeq)
TupleIdx(t) == CHOOSE i \in 1..NT : TupleSeq[i] = t

Bit(n, b) == (n \div (2 ^ b)) % 2
SpecOf(code) == [i \in 1..NKeys |-> [desc |-> Bit(code, 2 * (i - 1)), nf |-> Bit(code, 2 * (i - 1) + 1)]]

\* ---- comparators -----------------------------------------------------------
\* the ORDER BY comparison of two key values under one sort item
KCmp(a, b, it) == IF a = b THEN 0
                  ELSE IF a = NULL THEN (IF it.nf = 1 THEN -1 ELSE 1)
                  ELSE IF b = NULL THEN (IF it.nf = 1 THEN 1 ELSE -1)
                  ELSE IF (a < b) = (it.desc = 0) THEN -1 ELSE 1
\* compare_array_values + `.reverse()` for DESC, as the merge did it before /repo 8429288
AsBuiltKCmp(a, b, it) == LET base == IF a = b THEN 0
                                     ELSE IF a = NULL THEN 1
                                     ELSE IF b = NULL THEN -1
                                     ELSE IF a < b THEN -1 ELSE 1
                         IN IF it.desc = 1 THEN 0 - base ELSE base
MinOfSet(S) == CHOOSE x \in S : \A y \in S : x <= y
RowCmpWith(K(_, _, _), x, y, sp) ==
  LET d == {i \in 1..Len(sp) : K(x.k[i], y.k[i], sp[i]) # 0}
  IN IF d = {} THEN 0 ELSE K(x.k[MinOfSet(d)], y.k[MinOfSet(d)], sp[MinOfSet(d)])
RowCmp(x, y, sp) == RowCmpWith(KCmp, x, y, sp)
MCmp(x, y, sp) == IF MergeCmp = "asbuilt" THEN RowCmpWith(AsBuiltKCmp, x, y, sp) ELSE RowCmpWith(KCmp, x, y, sp)

\* flush_run / SortExec: arrow lexsort with the ORDER BY's options (ties: by arrival, any order is acceptable)
SortRows(rows, sp) == SortSeq(rows, LAMBDA a, b : RowCmp(a, b, sp) < 0 \/ (RowCmp(a, b, sp) = 0 /\ a.id < b.id))
SortedBy(rows, sp) == \A i \in 1..(Len(rows) - 1) : RowCmp(rows[i], rows[i + 1], sp) <= 0

\* streaming_k_way_merge: repeatedly take the head that is strictly Less than every earlier candidate
\* (the first run wins ties)
RECURSIVE KMerge(_, _, _)
KMerge(rs, sp, acc) ==
  LET live == {i \in DOMAIN rs : rs[i] # <<>>}
  IN IF live = {} THEN acc
     ELSE LET m == CHOOSE i \in live : \A j \in live :
                      \/ MCmp(Head(rs[i]), Head(rs[j]), sp) < 0
                      \/ (MCmp(Head(rs[i]), Head(rs[j]), sp) = 0 /\ i <= j)
          IN KMerge([rs EXCEPT ![m] = Tail(@)], sp, Append(acc, Head(rs[m])))
MergeOf(rr, sp) == KMerge([i \in DOMAIN rr |-> rr[i].rows], sp, <<>>)

\* ---- shapes -------------------------------------------------------------------
RECURSIVE SumS(_)
SumS(s) == IF s = <<>> THEN 0 ELSE Head(s) + SumS(Tail(s))
MinSize == IF AllowEmpty THEN 0 ELSE 1
SplitShapes == {s \in UNION {[1..m -> MinSize..MaxRows] : m \in 1..MaxBatches} : SumS(s) <= MaxRows /\ SumS(s) >= 1}

N == SumS(sizes)
AllRows == IF input = <<>> THEN <<>> ELSE FoldLeft(LAMBDA a, b : a \o b, <<>>, input)
Offset(b) == SumS(SubSeq(sizes, 1, b - 1))

Init == /\ \/ /\ fam = "splits"
              /\ FanIn \in SplitFanIns
              /\ sizes \in SplitShapes
              /\ T = 1                      \* family tag only; the threshold is chosen in Decide
           \/ /\ fam = "singles"
              /\ \E fn \in Singles : FanIn = fn \div 100 /\ sizes = [i \in 1..(fn % 100) |-> 1]
              /\ T = 0
        /\ spec = <<>>                      \* chosen in Decide (the input does not depend on it)
        /\ input = <<>> /\ pc = "fill" /\ pos = 1
        /\ buffer = <<>> /\ bufn = 0 /\ runs = <<>> /\ runb = <<>>
        /\ nxt = <<>> /\ ci = 0 /\ pass = 0 /\ path = "none" /\ res = <<>> /\ fetch = NoFetch
        /\ out = [k |-> "none", rows |-> <<>>]

\* ---- input ----------------------------------------------------------------------
FillBatch == /\ pc = "fill" /\ pos <= Len(sizes)
             /\ \E s \in [1..sizes[pos] -> 1..NT] :
                  /\ \A i \in 1..(sizes[pos] - 1) : s[i] <= s[i + 1]
                  \* family "singles": every batch is its own run, so only the multiset matters (the harness permutes the batches)
                  /\ (fam = "singles" /\ pos > 1) => TupleIdx(input[pos - 1][1].k) <= s[1]
                  /\ input' = Append(input, [i \in 1..sizes[pos] |-> [k |-> TupleSeq[s[i]], id |-> Offset(pos) + i]])
             /\ pos' = pos + 1
             /\ UNCHANGED <<sizes, T, fam, FanIn, spec, pc, buffer, bufn, runs, runb, nxt, ci, pass, path, res, fetch, out>>

\* ---- execute(): which path ---------------------------------------------------------
Decide == /\ pc = "fill" /\ pos > Len(sizes)
          /\ \E c \in SpecCodes, t \in (IF fam = "singles" THEN {0} ELSE 0..N) :
               /\ spec' = SpecOf(c) /\ T' = t
               /\ IF N > t
                  THEN /\ path' = "spill" /\ pc' = "gen" /\ pos' = 1 /\ UNCHANGED res
                  ELSE /\ path' = "mem" /\ pc' = "fetch" /\ res' = SortRows(AllRows, SpecOf(c)) /\ UNCHANGED pos
          /\ UNCHANGED <<input, sizes, fam, FanIn, buffer, bufn, runs, runb, nxt, ci, pass, fetch, out>>

\* ---- generate_runs ------------------------------------------------------------------
NewRun(rows) == [rows |-> SortRows(rows, spec), live |-> TRUE, c |-> FALSE]
MustFlush == Len(buffer) + Len(input[pos]) > T /\ bufn > 0
TakeFlush == /\ pc = "gen" /\ pos <= Len(input) /\ MustFlush
             /\ runs' = Append(runs, NewRun(buffer)) /\ runb' = Append(runb, bufn)
             /\ buffer' = input[pos] /\ bufn' = 1 /\ pos' = pos + 1
             /\ UNCHANGED <<input, sizes, T, fam, FanIn, spec, pc, nxt, ci, pass, path, res, fetch, out>>
TakeAppend == /\ pc = "gen" /\ pos <= Len(input) /\ ~MustFlush
              /\ buffer' = buffer \o input[pos] /\ bufn' = bufn + 1 /\ pos' = pos + 1
              /\ UNCHANGED <<input, sizes, T, fam, FanIn, spec, pc, runs, runb, nxt, ci, pass, path, res, fetch, out>>
EndGen == /\ pc = "gen" /\ pos > Len(input)
          /\ IF bufn > 0
             THEN runs' = Append(runs, NewRun(buffer)) /\ runb' = Append(runb, bufn)
             ELSE UNCHANGED <<runs, runb>>
          /\ buffer' = <<>> /\ bufn' = 0 /\ pc' = "merge"
          /\ UNCHANGED <<input, sizes, T, fam, FanIn, spec, pos, nxt, ci, pass, path, res, fetch, out>>

\* ---- merge_runs ------------------------------------------------------------------------
Merge == /\ pc = "merge"
         /\ IF Len(runs) = 0 THEN res' = <<>> /\ pc' = "fetch" /\ UNCHANGED <<ci, nxt>>
            ELSE IF Len(runs) = 1 THEN res' = runs[1].rows /\ pc' = "fetch" /\ UNCHANGED <<ci, nxt>>
            ELSE IF Len(runs) > FanIn THEN pc' = "pass" /\ ci' = 1 /\ nxt' = <<>> /\ UNCHANGED res
            ELSE res' = MergeOf(runs, spec) /\ pc' = "fetch" /\ UNCHANGED <<ci, nxt>>
         /\ UNCHANGED <<input, sizes, T, fam, FanIn, spec, pos, buffer, bufn, runs, runb, pass, path, fetch, out>>

NChunks == (Len(runs) + FanIn - 1) \div FanIn
Chunk(i) == SubSeq(runs, (i - 1) * FanIn + 1, Min2(i * FanIn, Len(runs)))
Fail == /\ out' = [k |-> "error", rows |-> <<>>] /\ pc' = "done"
MergeChunk == /\ pc = "pass" /\ ci <= NChunks
              /\ LET ch == Chunk(ci) IN
                 IF Len(ch) = 1
                 THEN /\ nxt' = Append(nxt, [ch[1] EXCEPT !.c = TRUE]) /\ ci' = ci + 1 /\ UNCHANGED <<pc, out>>
                 ELSE IF \E i \in DOMAIN ch : ~ch[i].live
                 THEN Fail /\ UNCHANGED <<nxt, ci>>                           \* "Failed to open run file"
                 ELSE LET m == MergeOf(ch, spec) IN
                      /\ nxt' = IF m = <<>> THEN nxt ELSE Append(nxt, [rows |-> m, live |-> TRUE, c |-> FALSE])
                      /\ ci' = ci + 1 /\ UNCHANGED <<pc, out>>
              /\ UNCHANGED <<input, sizes, T, fam, FanIn, spec, pos, buffer, bufn, runs, runb, pass, path, res, fetch>>
EndPass == /\ pc = "pass" /\ ci > NChunks
           /\ LET kept == [i \in DOMAIN nxt |->
                             [nxt[i] EXCEPT !.c = FALSE,
                                            !.live = IF pass > 0 /\ CleanupCarried /\ nxt[i].c THEN FALSE ELSE @]]
              IN /\ runs' = kept
                 /\ IF Len(kept) > FanIn THEN pc' = "pass" /\ ci' = 1 ELSE pc' = "final" /\ ci' = 0
           /\ nxt' = <<>> /\ pass' = pass + 1
           /\ UNCHANGED <<input, sizes, T, fam, FanIn, spec, pos, buffer, bufn, runb, path, res, fetch, out>>
FinalMerge == /\ pc = "final"
              /\ IF \E i \in DOMAIN runs : ~runs[i].live
                 THEN Fail /\ UNCHANGED res
                 ELSE res' = MergeOf(runs, spec) /\ pc' = "fetch" /\ UNCHANGED out
              /\ UNCHANGED <<input, sizes, T, fam, FanIn, spec, pos, buffer, bufn, runs, runb, nxt, ci, pass, path, fetch>>

\* ---- fetch: after the merge ---------------------------------------------------------------
ApplyFetch == /\ pc = "fetch"
              /\ \E f \in Fetches :
                   /\ fetch' = f
                   /\ out' = [k |-> "rows", rows |-> IF f = NoFetch THEN res ELSE SubSeq(res, 1, Min2(f, Len(res)))]
              /\ pc' = "done"
              /\ UNCHANGED <<input, sizes, T, fam, FanIn, spec, pos, buffer, bufn, runs, runb, nxt, ci, pass, path, res>>

Next == FillBatch \/ Decide \/ TakeFlush \/ TakeAppend \/ EndGen \/ Merge \/ MergeChunk \/ EndPass \/ FinalMerge \/ ApplyFetch

\* ---- invariants ----------------------------------------------------------------------------
Ids(rows) == {rows[i].id : i \in DOMAIN rows}
RunRows(rr) == IF rr = <<>> THEN <<>> ELSE FoldLeft(LAMBDA a, r : a \o r.rows, <<>>, rr)
Pending == IF pos > Len(input) THEN <<>> ELSE FoldLeft(LAMBDA a, b : a \o b, <<>>, SubSeq(input, pos, Len(input)))
\* no row lost, none duplicated, in run generation ...
GenConserves == pc = "gen" =>
   LET held == RunRows(runs) \o buffer \o Pending
   IN Len(held) = N /\ Ids(held) = 1..N
\* ... and in every merge pass
PassConserves == (pc \in {"merge", "pass", "final"}) =>
   LET todo == IF pc = "pass" THEN RunRows(SubSeq(runs, (ci - 1) * FanIn + 1, Len(runs))) ELSE RunRows(runs)
       held == todo \o RunRows(nxt)
   IN Len(held) = N /\ Ids(held) = 1..N
RunsSorted == /\ (\A i \in DOMAIN runs : (MergeCmp = "spec" \/ pc \in {"gen", "merge"}) => SortedBy(runs[i].rows, spec))
              /\ (\A j \in DOMAIN nxt : MergeCmp = "spec" => SortedBy(nxt[j].rows, spec))
\* the run partition is what the flush rule says: every run but the last would overflow with the next batch
RunShape == pc = "merge" => /\ SumS(runb) = Len(input)
                            /\ Len(runb) = Len(runs)

Keys(rows) == [i \in DOMAIN rows |-> rows[i].k]
Want(f) == LET full == SortRows(AllRows, spec) IN Keys(IF f = NoFetch THEN full ELSE SubSeq(full, 1, Min2(f, N)))
\* tie-tolerant acceptance: the key sequence is fixed, the rows are distinct input rows
Accept(rows, f) == /\ Keys(rows) = Want(f)
                   /\ Cardinality(Ids(rows)) = Len(rows)
                   /\ \A i \in DOMAIN rows : \E j \in DOMAIN AllRows : AllRows[j] = rows[i]
AtDone == pc = "done" =>
   /\ out.k = "rows" => Accept(out.rows, fetch)
   /\ out.k = "error" => (CleanupCarried /\ path = "spill" /\ pass >= 1)     \* the only error: the as-built cleanup of a carried run
   /\ out.k # "none"

Checksum == SumS([i \in DOMAIN AllRows |-> (i * 7 + 3) * (IF AllRows[i].k[1] = NULL THEN 5 ELSE AllRows[i].k[1] + 1)]) + T * 11 + Len(sizes)
Emit == (pc = "done" /\ Checksum % EmitMod = 0) =>
   EmitCase([batches |-> [b \in DOMAIN input |-> Keys(input[b])],
             T |-> T, fam |-> fam, fanin |-> FanIn, spec |-> spec, fetch |-> IF fetch = NoFetch THEN -1 ELSE fetch,
             path |-> path, runs |-> runb, passes |-> pass, outcome |-> out.k,
             exp |-> Want(fetch)])
====
