CONSTANTS Family = "strings"
          Alphabet = {48, 49, 102, 59, 13, 10, 120}
          MaxLen = 6
          BodySyms = {120}
          MaxBody = 0
INIT Init
NEXT Next
INVARIANT RoundTrip
INVARIANT OutBounded
INVARIANT Emit
CHECK_DEADLOCK FALSE
