---- MODULE Iceberg ----
(***************************************************************************)
(* C17 — An Iceberg snapshot reads exactly its live data files.            *)
(*                                                                         *)
(* State = the table directory as writers leave it:                        *)
(*   manifests   Avro manifest files: a set of entries                     *)
(*               [file, status, content, format, uri] + the URI form under *)
(*               which the manifest list names the manifest                *)
(*   snapshots   [ts, mlist (set of manifest indexes), uri (form of the    *)
(*               manifest-list path in the metadata JSON), counts (per     *)
(*               manifest-list entry: how the OPTIONAL summary counts      *)
(*               added/existing/deleted_files_count are written:           *)
(*               0 = fields absent, 1 = present and truthful, 2 = present  *)
(*               in the schema but null = unknown)]                        *)
(*   metas       the *.metadata.json files in commit order                 *)
(*               [ts = last-updated-ms, cur = current-snapshot (0 = none), *)
(*                snaps = the snapshots this file lists]                   *)
(*   hint        version-hint.text: 0 = absent, i = names metas[i]         *)
(* plus ghost state `truth` (what the table logically contains at each     *)
(* snapshot, maintained by the writer actions, never by the reader) and    *)
(* `hist` (the action names, for evidence).                                *)
(*                                                                         *)
(* Writer actions are valid Iceberg commits, one action per commit (every  *)
(* commit writes a new metadata file; the hint is a separate file write,   *)
(* so it can be stale).  The reader is ONE public call, modelled as the    *)
(* operator Accept(target): the set of outcomes the property allows for    *)
(* open(table, target).  Where the property text does not pin a choice     *)
(* (equal last-updated-ms, a never-written table, DELETED entries that     *)
(* name something unreadable) the set has several members / is lenient.    *)
(*                                                                         *)
(* All model values are ints (TLC compares only like with like):           *)
(*   status   0 EXISTING 1 ADDED 2 DELETED      (Iceberg's own codes)      *)
(*   content  0 data 1 position deletes 2 equality deletes                 *)
(*   format   0 PARQUET 1 anything else                                    *)
(*   uri      0 file:///abs 1 file:/abs 2 /abs 3 relative-to-table 4 s3:// *)
(*   files    1..MaxFiles plain data files; 11/12 delete files; 21 a       *)
(*            non-Parquet data file; 31 a data file behind a remote URI    *)
(***************************************************************************)
EXTENDS VerifIO

CONSTANTS MaxFiles,     \* plain data files 1..MaxFiles
          MaxActions,   \* histories of at most MaxActions commits / hint writes
          Styles,       \* set of ints 10*ubase + scheme: URI-form rotation base 0..3, naming scheme
                        \*   scheme 0 = HadoopCatalog (vN.metadata.json, may have version-hint.text)
                        \*   scheme 1 = NNNNN-<uuid>.metadata.json (name order = commit order)
                        \*   scheme 2 = names whose order is the reverse of commit order
          TieAll,       \* TRUE: any commit may reuse the previous last-updated-ms; FALSE: only RewriteMetadata
          EmitOn        \* TRUE: print one CASE line per reachable directory

EXISTING == 0
ADDED == 1
DELETED == 2
DATA == 0
PARQUET == 0
OTHERFMT == 1
REMOTE == 4
OrcFile == 21
RemoteFile == 31
UnknownSnap == 99

\* rows of a file: ints; 1 occurs in two files so bags (not sets) are compared
RowsOf(f) == CASE f = 1 -> <<1>>
               [] f = 2 -> <<1, 2>>
               [] f = 3 -> <<3>>
               [] f = 4 -> <<2, 4>>
               [] OTHER -> <<f * 10>>

VARIABLES manifests, snapshots, metas, hint, style, nuri, nact, used, special, truth, hist
vars == <<manifests, snapshots, metas, hint, style, nuri, nact, used, special, truth, hist>>

Last(s) == s[Len(s)]
SetMin(S) == CHOOSE x \in S : \A y \in S : x <= y
RECURSIVE RowsOfSet(_)
RowsOfSet(F) == IF F = {} THEN <<>> ELSE LET f == SetMin(F) IN RowsOf(f) \o RowsOfSet(F \ {f})

\* ---- what writers see -----------------------------------------------------
Base == Last(metas)                       \* the catalog's pointer: the newest commit
BaseMlist == IF Base.cur = 0 THEN {} ELSE snapshots[Base.cur].mlist
NoTruth == [data |-> {}, dels |-> {}]
BaseTruth == IF Base.cur = 0 THEN NoTruth ELSE truth[Base.cur]
EntriesOf(ms) == UNION {manifests[m].entries : m \in ms}
LiveOf(ms) == {e \in EntriesOf(ms) : e.status # DELETED}
NewM == Len(manifests) + 1
NewS == Len(snapshots) + 1
Entry(f, st, c, fmt, u) == [file |-> f, status |-> st, content |-> c, format |-> fmt, uri |-> u]
\* k-th URI written by this action: forms rotate so every position sees every accepted form
U(k) == ((style \div 10) + nuri + k) % 4
Ties(isMetaOnly) == IF TieAll \/ isMetaOnly THEN {0, 1} ELSE {0}

\* How the writer of manifest list s fills the optional summary counts of its entry for manifest m.  The
\* counts are advisory (the Iceberg spec makes them optional; null = unknown): liveness is decided by the
\* manifest ENTRIES alone, so the reader contract below never looks at them.  An Avro file has one schema, so
\* "absent" holds for a whole list; otherwise truthful and null entries alternate, so mixed lists occur, and
\* the rotation over ubase and s gives every snapshot of every history each of the three forms.
CountForm(s, m) == LET lm == ((style \div 10) + s) % 3 IN
                   IF lm = 0 THEN 0 ELSE IF (m + lm) % 2 = 0 THEN 1 ELSE 2

\* one commit that adds a snapshot: new manifests `newms`, manifest list `ml` (form `lu`)
CommitSnapshot(name, newms, ml, lu, t, tie) ==
  /\ nact < MaxActions
  /\ manifests' = manifests \o newms
  /\ snapshots' = Append(snapshots, [ts |-> Base.ts + 1 - tie, mlist |-> ml, uri |-> lu,
                                      counts |-> [m \in ml |-> CountForm(NewS, m)]])
  /\ metas' = Append(metas, [ts |-> Base.ts + 1 - tie, cur |-> NewS, snaps |-> Base.snaps \cup {NewS}])
  /\ truth' = Append(truth, t)
  /\ nuri' = nuri + 3
  /\ nact' = nact + 1
  /\ hist' = Append(hist, name)
  /\ UNCHANGED <<hint, style>>

\* ---- valid histories --------------------------------------------------------
AppendFiles(k, tie) ==
  /\ used + k <= MaxFiles
  /\ LET F == (used + 1)..(used + k) IN
     CommitSnapshot("append", <<[kind |-> 0, uri |-> U(1), entries |-> {Entry(f, ADDED, DATA, PARQUET, U(0)) : f \in F}]>>,
                    BaseMlist \cup {NewM}, U(2), [BaseTruth EXCEPT !.data = @ \cup F], tie)
  /\ used' = used + k
  /\ UNCHANGED special

\* the manifest holding f's live entry is rewritten: f DELETED, the rest EXISTING, old DELETED entries dropped
RemoveFile(f, tie) ==
  /\ f \in BaseTruth.data
  /\ LET m == CHOOSE m \in BaseMlist : \E e \in manifests[m].entries : e.file = f /\ e.status # DELETED
         keep == {e \in manifests[m].entries : e.status # DELETED}
         ents == {[e EXCEPT !.status = IF e.file = f THEN DELETED ELSE EXISTING] : e \in keep}
     IN CommitSnapshot("remove", <<[kind |-> 0, uri |-> U(1), entries |-> ents]>>,
                       (BaseMlist \ {m}) \cup {NewM}, U(2), [BaseTruth EXCEPT !.data = @ \ {f}], tie)
  /\ UNCHANGED <<used, special>>

\* compaction of the data manifests into one manifest of EXISTING entries (delete manifests are carried)
RewriteManifests(tie) ==
  /\ LET dm == {m \in BaseMlist : manifests[m].kind = 0}
         live == LiveOf(dm)
     IN /\ live # {}
        /\ CommitSnapshot("rewrite_manifests", <<[kind |-> 0, uri |-> U(1), entries |-> {[e EXCEPT !.status = EXISTING] : e \in live}]>>,
                          (BaseMlist \ dm) \cup {NewM}, U(2), BaseTruth, tie)
  /\ UNCHANGED <<used, special>>

\* a metadata-only commit: same content, rollback to another listed snapshot, or expiry of the others
RewriteMetadata(cur2, snaps2, tie) ==
  /\ nact < MaxActions
  /\ metas' = Append(metas, [ts |-> Base.ts + 1 - tie, cur |-> cur2, snaps |-> snaps2])
  /\ nact' = nact + 1
  /\ hist' = Append(hist, IF cur2 # Base.cur THEN "rollback" ELSE IF snaps2 # Base.snaps THEN "expire" ELSE "rewrite_metadata")
  /\ UNCHANGED <<manifests, snapshots, hint, style, nuri, used, special, truth>>
MetadataRewrites ==
  \E tie \in Ties(TRUE) :
     \/ RewriteMetadata(Base.cur, Base.snaps, tie)
     \/ \E s \in Base.snaps \ {Base.cur} : RewriteMetadata(s, Base.snaps, tie)
     \/ Base.cur # 0 /\ Base.snaps # {Base.cur} /\ RewriteMetadata(Base.cur, {Base.cur}, tie)

\* HadoopCatalog writes the hint after the metadata file; a crash in between leaves it stale
WriteHint ==
  /\ nact < MaxActions
  /\ (style % 10) = 0
  /\ hint # Len(metas)
  /\ hint' = Len(metas)
  /\ nact' = nact + 1
  /\ hist' = Append(hist, "write_hint")
  /\ UNCHANGED <<manifests, snapshots, metas, style, nuri, used, special, truth>>

\* ---- histories the reader must refuse -----------------------------------------
AddDeleteFile(c, tie) ==
  /\ BaseTruth.data # {}
  /\ (10 + c) \notin special
  /\ CommitSnapshot("add_delete_file", <<[kind |-> 1, uri |-> U(1), entries |-> {Entry(10 + c, ADDED, c, PARQUET, U(0))}]>>,
                    BaseMlist \cup {NewM}, U(2), [BaseTruth EXCEPT !.dels = @ \cup {10 + c}], tie)
  /\ special' = special \cup {10 + c}
  /\ UNCHANGED used

AddNonParquet(tie) ==
  /\ OrcFile \notin special
  /\ CommitSnapshot("add_non_parquet", <<[kind |-> 0, uri |-> U(1), entries |-> {Entry(OrcFile, ADDED, DATA, OTHERFMT, U(0))}]>>,
                    BaseMlist \cup {NewM}, U(2), [BaseTruth EXCEPT !.data = @ \cup {OrcFile}], tie)
  /\ special' = special \cup {OrcFile}
  /\ UNCHANGED used

\* w = 1: a data file path, 2: a manifest path, 3: a manifest-list path is an s3:// URI
UseRemoteUri(w, tie) ==
  \/ /\ w = 1
     /\ RemoteFile \notin special
     /\ CommitSnapshot("remote_data", <<[kind |-> 0, uri |-> U(1), entries |-> {Entry(RemoteFile, ADDED, DATA, PARQUET, REMOTE)}]>>,
                       BaseMlist \cup {NewM}, U(2), [BaseTruth EXCEPT !.data = @ \cup {RemoteFile}], tie)
     /\ special' = special \cup {RemoteFile}
     /\ UNCHANGED used
  \/ /\ w \in {2, 3}
     /\ used < MaxFiles
     /\ CommitSnapshot(IF w = 2 THEN "remote_manifest" ELSE "remote_mlist",
                       <<[kind |-> 0, uri |-> IF w = 2 THEN REMOTE ELSE U(1), entries |-> {Entry(used + 1, ADDED, DATA, PARQUET, U(0))}]>>,
                       BaseMlist \cup {NewM}, IF w = 3 THEN REMOTE ELSE U(2), [BaseTruth EXCEPT !.data = @ \cup {used + 1}], tie)
     /\ used' = used + 1
     /\ UNCHANGED special

\* a snapshot whose manifest list is empty (everything overwritten by nothing)
EmptySnapshot(tie) ==
  /\ CommitSnapshot("empty_snapshot", <<>>, {}, U(2), NoTruth, tie)
  /\ UNCHANGED <<used, special>>

Init == /\ manifests = <<>> /\ snapshots = <<>> /\ truth = <<>> /\ hist = <<>>
        /\ metas = <<[ts |-> 1, cur |-> 0, snaps |-> {}]>>      \* created, never written to
        /\ hint = 0 /\ nuri = 0 /\ nact = 0 /\ used = 0 /\ special = {}
        /\ style \in Styles

AppendAny == \E k \in 1..2, tie \in Ties(FALSE) : AppendFiles(k, tie)
RemoveAny == \E f \in BaseTruth.data, tie \in Ties(FALSE) : RemoveFile(f, tie)
CompactAny == \E tie \in Ties(FALSE) : RewriteManifests(tie)
DeleteFileAny == \E c \in 1..2, tie \in Ties(FALSE) : AddDeleteFile(c, tie)
NonParquetAny == \E tie \in Ties(FALSE) : AddNonParquet(tie)
RemoteAny == \E w \in 1..3, tie \in Ties(FALSE) : UseRemoteUri(w, tie)
EmptyAny == \E tie \in Ties(FALSE) : EmptySnapshot(tie)

Next == \/ AppendAny \/ RemoveAny \/ CompactAny \/ MetadataRewrites \/ WriteHint
        \/ DeleteFileAny \/ NonParquetAny \/ RemoteAny \/ EmptyAny
Spec == Init /\ [][Next]_vars

\* ---- the reader: open(table, target) -------------------------------------------
\* why: 1 unknown snapshot, 2 no live data file, 3 delete file, 4 non-Parquet, 5 remote URI, 6 never written
Refuse(w) == [refuse |-> 1, why |-> w, lenient |-> 0, files |-> {}, rows |-> <<>>]

\* what snapshot s serves, from the directory alone (manifest list -> manifests -> entries)
SnapOutcome(s) ==
  LET sn == snapshots[s]
      ents == EntriesOf(sn.mlist)
      live == {e \in ents : e.status # DELETED}
      dead == ents \ live
      files == {e.file : e \in live}
  IN IF sn.uri = REMOTE \/ (\E m \in sn.mlist : manifests[m].uri = REMOTE) \/ (\E e \in live : e.uri = REMOTE) THEN Refuse(5)
     ELSE IF \E e \in live : e.content # DATA THEN Refuse(3)
     ELSE IF \E e \in live : e.format # PARQUET THEN Refuse(4)
     ELSE IF live = {} THEN Refuse(2)
     ELSE [refuse |-> 0, why |-> 0, files |-> files, rows |-> RowsOfSet(files),
           \* a DELETED entry naming something unreadable: the property does not say whether that is refused
           lenient |-> IF \E e \in dead : e.uri = REMOTE \/ e.format # PARQUET \/ e.content # DATA THEN 1 ELSE 0]

\* "current metadata file found by version-hint or by newest update"; equal last-updated-ms is not pinned
Candidates == IF hint # 0 THEN {hint}
              ELSE {i \in DOMAIN metas : \A j \in DOMAIN metas : metas[j].ts <= metas[i].ts}

OpenWith(mi, t) ==
  LET M == metas[mi] IN
  IF t = 0 THEN (IF M.cur = 0 THEN [Refuse(6) EXCEPT !.lenient = 1] ELSE SnapOutcome(M.cur))
  ELSE IF t \in M.snaps THEN SnapOutcome(t)
  ELSE Refuse(1)

Targets == {0} \cup DOMAIN snapshots \cup {UnknownSnap}
Accept(t) == {OpenWith(mi, t) : mi \in Candidates}

\* ---- properties of the design (checked by TLC in every reachable state) ---------
AllSnaps == DOMAIN snapshots
LiveFiles(s) == {e.file : e \in LiveOf(snapshots[s].mlist)}
DeadFiles(s) == {e.file : e \in EntriesOf(snapshots[s].mlist) \ LiveOf(snapshots[s].mlist)}

\* the status bookkeeping of the writers keeps exactly the logical content live
LiveIsTruth == \A s \in AllSnaps : LiveFiles(s) = truth[s].data \cup truth[s].dels
\* the live set of a snapshot never contains a file the snapshot marks DELETED, and no file is live twice
LiveNeverDeleted == \A s \in AllSnaps : LiveFiles(s) \cap DeadFiles(s) = {}
LiveOnce == \A s \in AllSnaps : \A e1, e2 \in LiveOf(snapshots[s].mlist) : e1.file = e2.file => e1 = e2
\* whenever rows are served they are exactly the rows of the logical content, and that content is plain
RowsExactlyLive == \A s \in AllSnaps : LET o == SnapOutcome(s) IN
    o.refuse = 0 => /\ o.files = truth[s].data /\ truth[s].dels = {} /\ o.files \subseteq 1..MaxFiles
                    /\ o.files # {} /\ o.rows = RowsOfSet(truth[s].data)
\* ... and whatever must be refused is refused
RefusedWhenDue == \A s \in AllSnaps :
    (truth[s].dels # {} \/ truth[s].data = {} \/ OrcFile \in truth[s].data \/ RemoteFile \in truth[s].data)
       => SnapOutcome(s).refuse = 1
\* the current metadata file is always defined; without a hint and without a tie it is the newest commit
CurrentDefined == /\ Candidates # {} /\ Candidates \subseteq DOMAIN metas
                  /\ (hint = 0 /\ Cardinality(Candidates) = 1 => Candidates = {Len(metas)})
                  /\ \A i \in DOMAIN metas : metas[i].cur \in metas[i].snaps \cup {0} /\ metas[i].snaps \subseteq AllSnaps
                  /\ \A i \in 1..(Len(metas) - 1) : metas[i].ts <= metas[i + 1].ts
\* every target has at least one allowed outcome, exactly one when the metadata choice is pinned
AcceptPinned == \A t \in Targets : Accept(t) # {} /\ (Cardinality(Candidates) = 1 => Cardinality(Accept(t)) = 1)
UnknownRefused == \A o \in Accept(UnknownSnap) : o.refuse = 1 /\ o.why = 1
\* summary counts: one form per entry of the list, "absent" only for a whole list (one Avro schema per file)
CountsWellFormed == \A s \in AllSnaps : LET sn == snapshots[s] IN
    /\ DOMAIN sn.counts = sn.mlist
    /\ \A m \in sn.mlist : sn.counts[m] \in 0..2
    /\ (\E m \in sn.mlist : sn.counts[m] = 0) => (\A m \in sn.mlist : sn.counts[m] = 0)
Bounded == nact = Len(hist) /\ nact <= MaxActions /\ Len(truth) = Len(snapshots)

\* time travel: nothing a later action does changes what an existing snapshot serves
TimeTravelStable == [][\A s \in AllSnaps : SnapOutcome(s)' = SnapOutcome(s)]_vars

\* ---- case emission: the directory + the allowed outcomes per open target ---------
CaseRec ==
  [ubase |-> (style \div 10), scheme |-> (style % 10), hint |-> hint, hist |-> hist,
   manifests |-> manifests,
   snapshots |-> [i \in DOMAIN snapshots |-> [ts |-> snapshots[i].ts, uri |-> snapshots[i].uri, mlist |-> snapshots[i].mlist,
                                               counts |-> {[m |-> m, c |-> snapshots[i].counts[m]] : m \in snapshots[i].mlist}]],
   metas |-> metas,
   cands |-> Candidates,
   opens |-> {[target |-> t, accept |-> Accept(t)] : t \in Targets}]
Emit == EmitOn => EmitCase(CaseRec)
====
