---- MODULE Tpch ----
(***************************************************************************)
(* C39 — the TPC-H generator is deterministic and self-consistent.         *)
(*                                                                         *)
(* A generation Generate(sf, seed, thread, sink, out) is ACCEPTED iff      *)
(*   * purity: no earlier accepted generation of the same (sf, seed) - on  *)
(*     any thread, into any sink (memory | Parquet read back), in any      *)
(*     repetition - produced a different digest (history variable `seen`); *)
(*   * the row counts follow the TPC-H cardinalities as integer relations  *)
(*     of N = sf * 1000: supplier 10N, part 200N, partsupp 4 * part,       *)
(*     customer 150N, orders 10 * customer, 1..7 lineitems per order,      *)
(*     nation 25, region 5;                                                *)
(*   * every one of the ten foreign keys refers to existing rows.          *)
(* Digests are compared for equality only.  The listed known findings are  *)
(* named deviations D under which the count / foreign-key clauses are      *)
(* weakened to exactly what the defect produces; purity has no deviation.  *)
(*                                                                         *)
(* (M) TLC runs abstract generator implementations - a pure one and the    *)
(* mutants the property is about (a thread_rng slipping in, hash-map       *)
(* iteration order in the output, row-count rounding drift, order keys     *)
(* beyond orders, a sink that panics) - through every short history of     *)
(* runs: the pure one is always accepted, every mutant is rejected         *)
(* somewhere, and whatever is accepted is a function of (sf, seed).        *)
(***************************************************************************)
EXTENDS VerifIO

DevTrunc == "rowcount-float-truncation"
DevCust == "orders-custkey-dangling"
AllDevs == {DevTrunc, DevCust}

Scaled == {"supplier", "part", "partsupp", "customer", "orders"}
Exact(N) == [nation |-> 25, region |-> 5, supplier |-> 10 * N, part |-> 200 * N, partsupp |-> 800 * N,
             customer |-> 150 * N, orders |-> 1500 * N, lineitem |-> 6000 * N]

\* row counts: TPC-H ratios (contract); under DevTrunc each scaled count may be one short
CountsOk(N, c, D) ==
  /\ c.nation = 25 /\ c.region = 5
  /\ c.lineitem >= c.orders /\ c.lineitem <= 7 * c.orders
  /\ IF DevTrunc \in D
     THEN \A t \in Scaled : c[t] \in {Exact(N)[t], Exact(N)[t] - 1}
     ELSE /\ c.supplier = 10 * N /\ c.part = 200 * N /\ c.partsupp = 4 * c.part
          /\ c.customer = 150 * N /\ c.orders = 10 * c.customer

FkNames == {"l_orderkey", "l_partkey", "l_suppkey", "l_partsupp", "o_custkey",
            "c_nationkey", "s_nationkey", "n_regionkey", "ps_partkey", "ps_suppkey"}
\* one foreign key: every referenced key exists; deviations:
\*  DevCust  - o_custkey is drawn from 1 .. 1.5 * |customer|: the missing keys all lie above |customer|
\*  DevTrunc - when part # 20 * supplier the (partkey, suppkey) cycle of lineitem leaves partsupp's
FkOneOk(f, k, c, D) ==
  \/ k.missing = 0 /\ k.missing_rows = 0
  \/ f = "o_custkey" /\ DevCust \in D /\ k.min_missing > c.customer /\ 2 * k.max_missing <= 3 * c.customer
  \/ f = "l_partsupp" /\ DevTrunc \in D /\ c.part # 20 * c.supplier
FkOk(r, D) == \A f \in FkNames : FkOneOk(f, r.fk[f], r.counts, D)
\* when the key sets were sent, TLC recomputes the summary itself
SetsAgree(k) == k.sets = 0 \/
  LET R == SeqRange(k.refset)  E == SeqRange(k.exset)  M == R \ E
  IN /\ Cardinality(M) = k.missing /\ Cardinality(R) = k.refs /\ Cardinality(E) = k.existing
     /\ (M # {} => (\A x \in M : x >= k.min_missing /\ x <= k.max_missing) /\ k.min_missing \in M /\ k.max_missing \in M)
SummariesAgree(r) == \A f \in FkNames : SetsAgree(r.fk[f])

Key(r) == <<r.sf, r.seed>>
Pure(seen, r) == Key(r) \notin DOMAIN seen \/ seen[Key(r)] = r.digest
Remember(seen, r) == IF Key(r) \in DOMAIN seen THEN seen ELSE seen @@ (Key(r) :> r.digest)

Explains(r, Open) == {D \in SUBSET Open : CountsOk(r.sf, r.counts, D) /\ FkOk(r, D)}
Smallest(Ex) == CHOOSE D \in Ex : \A E \in Ex : Cardinality(D) <= Cardinality(E)
\* verdict of one generation given the history
Verdict(seen, r, Open) ==
  IF r.panic # 0 THEN [v |-> "reject", why |-> "panic", devs |-> {}]
  ELSE IF ~SummariesAgree(r) THEN [v |-> "tool", why |-> "harness summary of a foreign key disagrees with its key sets", devs |-> {}]
  ELSE IF ~Pure(seen, r) THEN [v |-> "reject", why |-> "impure", devs |-> {}]
  ELSE IF CountsOk(r.sf, r.counts, {}) /\ FkOk(r, {}) THEN [v |-> "accept", why |-> "", devs |-> {}]
  ELSE IF Explains(r, Open) # {} THEN [v |-> "known", why |-> "", devs |-> Smallest(Explains(r, Open))]
  ELSE [v |-> "reject", why |-> (IF CountsOk(r.sf, r.counts, Open) THEN "fk" ELSE "counts"), devs |-> {}]
CountsVerdict(N, c, Open) ==
  IF CountsOk(N, c, {}) THEN [v |-> "accept", why |-> "", devs |-> {}]
  ELSE IF DevTrunc \in Open /\ CountsOk(N, c, {DevTrunc}) THEN [v |-> "known", why |-> "", devs |-> {DevTrunc}]
  ELSE [v |-> "reject", why |-> "counts", devs |-> {}]

\* ---- (M): abstract implementations through every short history ------------------------
CONSTANTS SFs, Seeds, Threads, Sinks, Reps, MaxRuns, IMPLS
VARIABLES impl, seen, acc, nruns, last
vars == <<impl, seen, acc, nruns, last>>

NoFk == [missing |-> 0, missing_rows |-> 0, min_missing |-> -1, max_missing |-> -1, sets |-> 0]
GoodFks == [f \in FkNames |-> NoFk]
Base(N, seed) == N * 1000 + seed
ImplRun(i, N, seed, th, sink, rep) ==
  LET good == [sf |-> N, seed |-> seed, panic |-> 0, digest |-> Base(N, seed), counts |-> Exact(N), fk |-> GoodFks] IN
  CASE i = "pure" -> good
    [] i = "thread_rng" -> [good EXCEPT !.digest = Base(N, seed) + 100000 * (th + 10 * rep)]      \* entropy per call
    [] i = "hashmap_order" -> [good EXCEPT !.digest = Base(N, seed) + 100000 * rep]               \* order differs between runs
    [] i = "sink_dependent" -> [good EXCEPT !.digest = Base(N, seed) + 100000 * sink]             \* Parquet read back differs
    [] i = "rounding" -> [good EXCEPT !.counts = [Exact(N) EXCEPT !.part = 200 * N - (N % 2)]]     \* part drifts, partsupp does not
    [] i = "fk_beyond" -> [good EXCEPT !.fk = [GoodFks EXCEPT !["l_orderkey"] =
                             [missing |-> 1, missing_rows |-> 3, min_missing |-> 1500 * N + 1, max_missing |-> 1500 * N + 1, sets |-> 0]]]
    [] OTHER -> [good EXCEPT !.panic = IF sink = 2 THEN 1 ELSE 0]

Init == impl \in IMPLS /\ seen = <<>> /\ acc = {} /\ nruns = 0 /\ last = "none"
Generate(N, seed, th, sink, rep) ==
  LET r == ImplRun(impl, N, seed, th, sink, rep)
      v == Verdict(seen, r, {}) IN
  /\ nruns < MaxRuns
  /\ nruns' = nruns + 1
  /\ last' = v.v
  /\ IF v.v = "accept" THEN seen' = Remember(seen, r) /\ acc' = acc \cup {<<N, seed, r.digest>>}
     ELSE UNCHANGED <<seen, acc>>
  /\ (v.v # "accept" => EmitTag("KILL", [impl |-> impl, why |-> v.why]))
  /\ UNCHANGED impl
Next == \E N \in SFs, seed \in Seeds, th \in Threads, sink \in Sinks, rep \in Reps : Generate(N, seed, th, sink, rep)
Spec == Init /\ [][Next]_vars

\* the pure generator is never rejected
PureAccepted == impl = "pure" => last \in {"none", "accept"}
\* whatever is accepted is a function of (sf, seed) - across runs, threads and sinks
Purity == \A a \in acc, b \in acc : (a[1] = b[1] /\ a[2] = b[2]) => a[3] = b[3]
SeenIsAcc == \A a \in acc : <<a[1], a[2]>> \in DOMAIN seen /\ seen[<<a[1], a[2]>>] = a[3]
====
