---- MODULE LptTrace ----
(***************************************************************************)
(* C12 trace validation: one line = one call of the real `assign_lpt`      *)
(*   [sizes, rows, n, panic, det, nodes, per_node, node_bytes, node_rows,  *)
(*    node_splits, total_bytes, idle, opt, chk, arr, mowner]               *)
(* det = 1 iff the call repeated on the same set, on a deep copy and from  *)
(* 4 threads returned bit-identical assignments.  opt = the optimum Lpt.tla*)
(* computed for the instance (times the scale factor applied to it);       *)
(* chk = 1: the optimum is recomputed here by enumerating all assignments. *)
(* Accepted iff the CONTRACT holds: partition, per-node sums, total,       *)
(* determinism, and the (4/3 - 1/(3N)) bound.                              *)
(* Fidelity only (DRIFT): equality with the modelled greedy choice         *)
(* (mowner, when the canonical order is the index order) and idle_nodes(). *)
(***************************************************************************)
EXTENDS Naturals, Integers, Sequences, FiniteSets, TLC, Json, IOUtils
INSTANCE LptOps

Rec == ndJsonDeserialize(IOEnv.TRACE)
VARIABLE l

A(r) == [nodes |-> r.nodes, per_node |-> r.per_node, node_bytes |-> r.node_bytes, node_rows |-> r.node_rows,
         node_splits |-> r.node_splits, total_bytes |-> r.total_bytes]
OptFor(r) == IF r.chk = 1 THEN OptSym(r.sizes, r.n) ELSE r.opt

CallOk(r) ==
  /\ r.panic = 0
  /\ r.det = 1                                            \* identical inputs, bit-identical assignments
  /\ AssignOk(r.sizes, r.rows, r.n, A(r))                 \* partition, sums, total
  /\ (r.chk = 1 \/ r.opt >= 0) => BoundOk(r.n, MaxOf(r.node_bytes), OptFor(r))   \* LPT bound against the optimum
                                                          \* (opt < 0, chk = 0: optimum unknown, contract only)
  /\ (r.chk = 1 /\ r.opt >= 0) => OptFor(r) = r.opt       \* the two ways of knowing the optimum agree

OwnerOf(r) == [i \in DOMAIN r.sizes |-> (CHOOSE n \in DOMAIN r.per_node : \E p \in DOMAIN r.per_node[n] : r.per_node[n][p] = i - 1) - 1]
Drift(r) == \/ (r.arr = 0 /\ Len(r.mowner) = Len(r.sizes) /\ OwnerOf(r) # r.mowner)
            \/ ~IdleOk(A(r), r.idle)

TInit == l = 1
Call == /\ l <= Len(Rec)
        /\ CallOk(Rec[l])
        /\ Drift(Rec[l]) => EmitTag("DRIFT", [line |-> l])
        /\ l' = l + 1
TNext == Call
Accepted == LET d == TLCGet("stats").diameter - 1 IN
            IF d = Len(Rec) THEN EmitTag("ACCEPT", [n |-> d])
            ELSE EmitTag("REJECT", [line |-> d + 1, rec |-> Rec[d + 1]]) /\ FALSE
====
