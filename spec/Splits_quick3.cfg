CONSTANTS MIN = 4
          MAX = 64
          SPN = 2
          MaxFiles = 3
          MaxRgs = 3
          MaxRows = 2
          ByteVals = {2}
          NodeVals = {3}
          AllowDup = FALSE
          EmitMode = 0
          Regimes = {"small"}
INIT Init
NEXT Next
INVARIANT AllProps
INVARIANT MutantSensitive
CHECK_DEADLOCK FALSE
