\* (R) one environment history per reachable node state (states identified modulo the history)
CONSTANTS Peers <- EnvPeers
          Sizes <- EnvSizes
          Eps <- EnvEps
          Fmts <- EnvFmts
          Mutant <- EnvMutant
          Emit <- EnvEmit
          MaxDepth <- EnvDepth
INIT Init
NEXT EnvNext
VIEW SView
INVARIANT TypeOK
INVARIANT EmitStates
CHECK_DEADLOCK FALSE
