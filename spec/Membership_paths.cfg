\* (R) all paths: every behaviour of exactly MaxDepth operations (hist is part of the state),
\* emitted as CASE lines for `qev member-replay`
CONSTANTS Addr <- EnvAddr
          Self <- EnvSelf
          SelfSpellings <- EnvSelfSpellings
          NodeIds <- EnvNodeIds
          ErrCodes <- EnvErrCodes
          Variants <- EnvVariants
          Record = TRUE
          MaxFails <- EnvMaxFails
          MaxGen <- EnvMaxGen
          MaxDepth <- EnvMaxDepth
INIT Init
NEXT Next
CONSTRAINT PathBound
INVARIANT EmitPaths
CHECK_DEADLOCK FALSE
