CONSTANTS Tier = "quick"
 Data = "small"
 Mutant = "none"
 Space = "all"
 Mode = "check"
 Rec <- RecFile
INIT TInit
NEXT TNext
POSTCONDITION Done
CHECK_DEADLOCK FALSE
