CONSTANTS Families = {"d1u", "d1b", "d1p", "wide", "big", "uu", "ub"}
          Tier = "quick"
          MaxKey = 2
INIT Init
NEXT Next
INVARIANT NoError
INVARIANT AnswerAllowed
INVARIANT Sorted
INVARIANT GuardRejects
INVARIANT ConsumedOnce
INVARIANT Emit
CHECK_DEADLOCK FALSE
