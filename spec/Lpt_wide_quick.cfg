CONSTANTS MaxK = 5
          MaxSize = 3
          Ns = {5, 8, 33, 64}
          Brute = FALSE
INIT Init
NEXT Next
INVARIANT LoadIsSum
INVARIANT Gap
INVARIANT PlacedOnce
INVARIANT AtDone
INVARIANT Emit
CHECK_DEADLOCK FALSE
