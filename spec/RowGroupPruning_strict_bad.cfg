\* the as-built model WITHOUT the deviation escape: TLC must print a counterexample (PruneSound or AllTrueSound)
CONSTANTS Profiles = {"f64.zeros", "i64.big53", "i64.wrap32"}
          Family = "leaf"
          MaxRows = 2
          Impl = "asbuilt"
          Strict = TRUE
          EmitOn = FALSE
          FlipOps = {"lt", "ge"}
          SecLits = {1, 2, 4}
          BtwToks = {1, 4}
          InToks = {0, 3}
          Depth2 = FALSE
INIT Init
NEXT Next
INVARIANT PruneSound
INVARIANT AllTrueSound
INVARIANT StatsAreBounds
CHECK_DEADLOCK FALSE
