CONSTANTS Family = "pairs"
          Dims = {1, 2, 3, 4}
          Amp = 2
INIT Init
NEXT Next
INVARIANT Laws
INVARIANT Emit
CHECK_DEADLOCK FALSE
