CONSTANTS Impls = {"asbuilt"}
          AllowPartial = FALSE
          DoEmit = FALSE
          Strata <- StrataQuick
INIT Init
NEXT Next
INVARIANT RowCountExact
INVARIANT NullCountExactWhenPresent
INVARIANT MinMaxBound
INVARIANT FootersAreFacts
INVARIANT FixedIsAsBuiltOffShape
INVARIANT FixedIsTight
INVARIANT Emit
CHECK_DEADLOCK FALSE
