\* (M) as built, 2 builder PROCESSES x 1 thread + an auto-mode reader process: NoReaderError is EXPECTED to be violated (known finding shape)
CONSTANTS NProcs = 3
          ThreadsPer = 1
          AutoProcs = {3}
          NRg = 2
          Inits = {0}
          Variant = 0
          AtomicRemove = TRUE
          EmitOn = FALSE
          Sim = FALSE
INIT Init
NEXT NextAll
INVARIANT TypeOk
INVARIANT NoReaderError
CHECK_DEADLOCK FALSE
