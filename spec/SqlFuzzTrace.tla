---- MODULE SqlFuzzTrace ----
(* Trace validation for C29: each recorded execution of a statement on the real engine
   (one line = statement hash + the outcome on each registered schema) must be a Submit followed by a Return of
   SqlFuzz's engine machine.  "panic", "abort" and "hang" are not outcomes of that machine. *)
EXTENDS Naturals, Integers, Sequences, FiniteSets, TLC, Json, IOUtils

MaxDepth == 0
SeedLo == 1
SeedHi == 0
Keywords == {}
VARIABLES toks, depth, seed, eng
INSTANCE SqlFuzz

Rec == ndJsonDeserialize(IOEnv.TRACE)
VARIABLE l
TInit == l = 1 /\ toks = <<>> /\ depth = 0 /\ seed = 0 /\ eng = "Idle"
Outcome(k) == CASE k = "ok" -> "RetOk" [] k = "err" -> "RetErr" [] k = "panic" -> "Panicked"
                [] k = "abort" -> "Aborted" [] OTHER -> "Hung"
\* one line: Submit, Return with the recorded outcome, and back to Idle for the next statement
Step == /\ l <= Len(Rec)
        /\ eng = "Idle"
        /\ \A j \in DOMAIN Rec[l].ks : Outcome(Rec[l].ks[j]) \in ReturnStates     \* Return's only successors
        /\ l' = l + 1
        /\ UNCHANGED <<toks, depth, seed, eng>>
TNext == Step
Accepted == LET d == TLCGet("stats").diameter - 1 IN
            IF d = Len(Rec) THEN EmitTag("ACCEPT", [n |-> d])
            ELSE EmitTag("REJECT", [line |-> d + 1, rec |-> Rec[d + 1]]) /\ FALSE
====
