---- MODULE VerifIO ----
(* Shared helpers: case emission to the driver, NULL sentinel, small folds. *)
EXTENDS Naturals, Integers, Sequences, FiniteSets, TLC, Json

NULL == -1073741824

\* One line per case on TLC's stdout: <<"CASE", "<json>">> ; the driver parses it.
EmitCase(rec) == PrintT(<<"CASE", ToJson(rec)>>)
EmitTag(tag, rec) == PrintT(<<tag, ToJson(rec)>>)

RECURSIVE SumSeq(_)
SumSeq(s) == IF s = <<>> THEN 0 ELSE Head(s) + SumSeq(Tail(s))

Max2(a, b) == IF a >= b THEN a ELSE b
Min2(a, b) == IF a <= b THEN a ELSE b

SeqRange(s) == {s[i] : i \in DOMAIN s}

\* all sequences over S of length lo..hi
SeqsOf(S, lo, hi) == UNION {[1..n -> S] : n \in lo..hi}
====
