CONSTANTS Keys <- K3
          NB = 2
          MaxBB = 1
          NP = 2
          MaxPB = 1
          Kinds = {"inner", "build_semi", "build_anti"}
          BitmapMaxBits = 3
          SetMaxKeys = 2
          Mutant = "none"
          EmitCases = FALSE
INIT Init
NEXT Next
INVARIANT NeverSet
CHECK_DEADLOCK FALSE
