CONSTANTS Threads = {1, 2}
          MaxOps = 2
          MaxSet <- MS_0_3_Top
          Sizes <- SZ_012_Top
          Kinds = {"try", "alloc", "resize", "drop"}
          Spurious = TRUE
          Buggy = "none"
          Hist = FALSE
          Canon = FALSE
INIT Init
NEXT Next
INVARIANTS TypeOK Exact NoWrapWhenFits NoUnderflow NoBadGrant Quiescent TryOnlyBounded
CHECK_DEADLOCK FALSE
PROPERTY CondGrant
VIEW View
