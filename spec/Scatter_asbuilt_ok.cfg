CONSTANTS
  MaxN = 3
  GatherMaxN = 2
  Shapes = {"scatter", "gather"}
  MaxFaults = 2
  Batches = 2
  Mutants = {"none"}
  Dev = 1
INIT Init
NEXT Next
INVARIANT TypeOK
INVARIANT Contract
INVARIANT NothingBeforeAll
CHECK_DEADLOCK TRUE
