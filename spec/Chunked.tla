---- MODULE Chunked ----
(***************************************************************************)
(* C41 — HTTP/1.1 chunked transfer decoding (RFC 7230 §4.1) as a reference *)
(* state machine over bytes, one action per consumed byte.                 *)
(*                                                                         *)
(*   chunked-body = *chunk last-chunk trailer-part CRLF                    *)
(*   chunk        = chunk-size [ chunk-ext ] CRLF chunk-data CRLF          *)
(*   last-chunk   = 1*"0" [ chunk-ext ] CRLF                               *)
(*                                                                         *)
(* Verdict of a byte string at end of input:                               *)
(*   valid(body)    complete message: decoder MUST return body             *)
(*   malformed      framing error before the last-chunk line: MUST reject  *)
(*   lenient(body)  last-chunk line seen but trailer/final CRLF missing or *)
(*                  irregular: reject, or return exactly body              *)
(*   unspecified    stray whitespace next to a size token: anything but a  *)
(*                  panic (the property does not pin it)                   *)
(* No input may make the decoder panic.                                    *)
(***************************************************************************)
EXTENDS VerifIO

CR == 13
LF == 10
SEMI == 59
HexVal(b) == IF b >= 48 /\ b <= 57 THEN b - 48
             ELSE IF b >= 97 /\ b <= 102 THEN b - 87
             ELSE IF b >= 65 /\ b <= 70 THEN b - 55
             ELSE -1
IsHex(b) == HexVal(b) >= 0
IsWs(b) == b = 32 \/ b = 9 \/ b = LF \/ b = CR

VARIABLES input, pos, mode, size, need, out
vars == <<input, pos, mode, size, need, out>>

\* one step of the reference decoder on byte b
Step(b) ==
  CASE mode = "size0" ->
         IF IsHex(b) THEN mode' = "size" /\ size' = HexVal(b) /\ UNCHANGED <<need, out>>
         ELSE IF IsWs(b) THEN mode' = "unspec" /\ UNCHANGED <<size, need, out>>
         ELSE mode' = "bad" /\ UNCHANGED <<size, need, out>>
    [] mode = "size" ->
         IF IsHex(b) THEN mode' = "size" /\ size' = Min2(size * 16 + HexVal(b), 1000000) /\ UNCHANGED <<need, out>>
         ELSE IF b = SEMI THEN mode' = "ext" /\ UNCHANGED <<size, need, out>>
         ELSE IF b = CR THEN mode' = "sizeLF" /\ UNCHANGED <<size, need, out>>
         ELSE IF IsWs(b) THEN mode' = "unspec" /\ UNCHANGED <<size, need, out>>
         ELSE mode' = "bad" /\ UNCHANGED <<size, need, out>>
    [] mode = "ext" ->          \* extension text is ignored; a bare CR/LF inside it is left unspecified
         IF b = CR THEN mode' = "extLF" /\ UNCHANGED <<size, need, out>>
         ELSE IF b = LF THEN mode' = "unspec" /\ UNCHANGED <<size, need, out>>
         ELSE UNCHANGED <<mode, size, need, out>>
    [] mode = "extLF" ->
         IF b = LF THEN (IF size = 0 THEN mode' = "trailer0" /\ UNCHANGED <<size, need, out>>
                          ELSE mode' = "data" /\ need' = size /\ UNCHANGED <<size, out>>)
         ELSE mode' = "unspec" /\ UNCHANGED <<size, need, out>>
    [] mode = "sizeLF" ->
         IF b = LF THEN (IF size = 0 THEN mode' = "trailer0" /\ UNCHANGED <<size, need, out>>
                          ELSE mode' = "data" /\ need' = size /\ UNCHANGED <<size, out>>)
         ELSE IF b = CR \/ b = SEMI THEN mode' = "unspec" /\ UNCHANGED <<size, need, out>>
         ELSE mode' = "bad" /\ UNCHANGED <<size, need, out>>
    [] mode = "data" ->
         /\ out' = Append(out, b)
         /\ need' = need - 1
         /\ mode' = IF need = 1 THEN "dataCR" ELSE "data"
         /\ UNCHANGED size
    [] mode = "dataCR" -> mode' = (IF b = CR THEN "dataLF" ELSE "bad") /\ UNCHANGED <<size, need, out>>
    [] mode = "dataLF" -> mode' = (IF b = LF THEN "size0" ELSE "bad") /\ UNCHANGED <<size, need, out>>
    [] mode = "trailer0" -> mode' = (IF b = CR THEN "finalLF" ELSE "lenient") /\ UNCHANGED <<size, need, out>>
    [] mode = "finalLF" -> mode' = (IF b = LF THEN "done" ELSE "lenient") /\ UNCHANGED <<size, need, out>>
    [] mode = "done" -> mode' = "lenient" /\ UNCHANGED <<size, need, out>>
    [] OTHER -> UNCHANGED <<mode, size, need, out>>     \* bad / lenient / unspec are sinks

Consume == /\ pos <= Len(input)
           /\ Step(input[pos])
           /\ pos' = pos + 1
           /\ input' = input

AtEnd == pos > Len(input)

Verdict == CASE mode = "done" -> "valid"
             [] mode \in {"trailer0", "finalLF", "lenient"} -> "lenient"
             [] mode = "unspec" -> "unspecified"
             [] OTHER -> "malformed"

\* ---- the encoder the round-trip law quantifies over --------------------------
HexDigit(n) == IF n < 10 THEN 48 + n ELSE 87 + n
HexDigitU(n) == IF n < 10 THEN 48 + n ELSE 55 + n
\* a chunk: data (non-empty), ext variant 0 none / 1 ";e" / 2 ";e=1", upper-case flag
ExtBytes(e) == CASE e = 0 -> <<>> [] e = 1 -> <<SEMI, 101>> [] OTHER -> <<SEMI, 101, 61, 49>>
SizeBytes(n, up) == IF n < 16 THEN << (IF up = 1 THEN HexDigitU(n) ELSE HexDigit(n)) >>
                    ELSE << (IF up = 1 THEN HexDigitU(n \div 16) ELSE HexDigit(n \div 16)),
                            (IF up = 1 THEN HexDigitU(n % 16) ELSE HexDigit(n % 16)) >>
EncChunk(ch) == SizeBytes(Len(ch.d), ch.up) \o ExtBytes(ch.e) \o <<CR, LF>> \o ch.d \o <<CR, LF>>
RECURSIVE EncChunks(_)
EncChunks(cs) == IF cs = <<>> THEN <<>> ELSE EncChunk(Head(cs)) \o EncChunks(Tail(cs))
Encode(cs, laste) == EncChunks(cs) \o <<48>> \o ExtBytes(laste) \o <<CR, LF, CR, LF>>
RECURSIVE BodyOf(_)
BodyOf(cs) == IF cs = <<>> THEN <<>> ELSE Head(cs).d \o BodyOf(Tail(cs))

\* ---- families (chosen by the cfg through Family) ------------------------------
CONSTANTS Family,     \* "strings" | "encodings"
          Alphabet,   \* byte values for the arbitrary-string family
          MaxLen,     \* max string length
          BodySyms,   \* byte values for bodies
          MaxBody     \* max body length

\* all compositions of a body into non-empty chunks
RECURSIVE Compositions(_)
Compositions(b) == IF b = <<>> THEN {<<>>}
                   ELSE UNION {{<<SubSeq(b, 1, k)>> \o rest : rest \in Compositions(SubSeq(b, k + 1, Len(b)))} : k \in 1..Len(b)}

Bodies == SeqsOf(BodySyms, 0, MaxBody)
\* one extension variant applied to chunk number x (or none), upper/lower hex
EncCases == {[cuts |-> cs, extAt |-> x, e |-> e, laste |-> le, up |-> 0] :
               cs \in UNION {Compositions(b) : b \in Bodies}, x \in 0..MaxBody, e \in 1..2, le \in 0..1}
ChunksOf(ec) == [i \in DOMAIN ec.cuts |-> [d |-> ec.cuts[i], e |-> IF i = ec.extAt THEN ec.e ELSE 0, up |-> ec.up]]
\* long chunks exercising two-digit and upper-case hex sizes
LongCases == {[cuts |-> <<[i \in 1..n |-> 120]>>, extAt |-> 0, e |-> 1, laste |-> 0, up |-> u] : n \in {10, 11, 15, 16, 17, 26}, u \in {0, 1}}

\* single-byte corruptions of valid encodings: replace by 'x', delete, or duplicate one byte
Mutate(b, i, m) == CASE m = 1 -> [b EXCEPT ![i] = 120]
                     [] m = 2 -> SubSeq(b, 1, i - 1) \o SubSeq(b, i + 1, Len(b))
                     [] OTHER -> SubSeq(b, 1, i) \o SubSeq(b, i, Len(b))

VARIABLE meta    \* for encodings: the expected body; for strings: <<>>
Init == /\ pos = 1 /\ mode = "size0" /\ size = 0 /\ need = 0 /\ out = <<>>
        /\ \/ /\ Family = "strings"
              /\ input \in SeqsOf(Alphabet, 0, MaxLen)
              /\ meta = [enc |-> 0, body |-> <<>>]
           \/ /\ Family = "encodings"
              /\ \E ec \in EncCases \cup LongCases :
                    /\ (ec.extAt <= Len(ec.cuts))
                    /\ input = Encode(ChunksOf(ec), ec.laste)
                    /\ meta = [enc |-> 1, body |-> BodyOf(ChunksOf(ec))]
           \/ /\ Family = "mutants"
              /\ \E ec \in EncCases :
                    /\ ec.extAt <= Len(ec.cuts) /\ ec.e = 1 /\ ec.laste = 0
                    /\ LET enc == Encode(ChunksOf(ec), ec.laste) IN
                       \E i \in 1..Len(enc), m \in 1..3 : input = Mutate(enc, i, m)
                    /\ meta = [enc |-> 0, body |-> <<>>]
Next == Consume /\ UNCHANGED meta
Spec == Init /\ [][Next]_<<vars, meta>>

\* ---- laws ------------------------------------------------------------------
\* Decode(Encode(body, cuts, exts)) = body, and the encoding is a valid message.
RoundTrip == (AtEnd /\ meta.enc = 1) => (Verdict = "valid" /\ out = meta.body)
\* out only ever grows by consumed data bytes
OutBounded == Len(out) <= Len(input)

Emit == AtEnd => EmitCase([bytes |-> input, verdict |-> Verdict, body |-> out, enc |-> meta.enc])
====
