CONSTANTS Tier = "quick"
 Data = "small"
 Mutant = "none"
 Space = "all"
 Mode = "emit"
INIT Init
NEXT Next
CHECK_DEADLOCK FALSE
