\* family "frames", thorough: every status-line kind x header set x Content-Length declaration x body length,
\* closed at every token boundary / line edge / every byte of the status line, stalls on the 200 streams
CONSTANTS SLKinds = {1, 2, 3, 4, 5}
          HdrKinds = {1, 2, 3, 4, 5}
          MaxHdrs = 2
          CLVals <- CLValsThorough
          CLNames = {0, 1}
          CLDups <- DupsThorough
          MaxBody = 4
          BodyByPos = TRUE
          BodyAlpha = {120}
          FragAll = {"sl", "end", "h", "cl"}
          FragDepth = 1
          StallSL = {1, 2, 3, 4, 5}
          StallFrags = FALSE
          Conforming = {"enforce", "truncate", "strict"}
          Others = {"as_built", "m_status200", "m_short", "m_bodyterm", "m_notimeout", "m_panic", "m_drophdr", "m_halfheader"}
INIT Init
NEXT Next
INVARIANT TypeOK
INVARIANT ViewOK
INVARIANT Conforms
INVARIANT NoShortBody
INVARIANT FramedOrRejected
INVARIANT NoPanicNoHang
INVARIANT EntriesSound
INVARIANT Emit
CHECK_DEADLOCK FALSE
