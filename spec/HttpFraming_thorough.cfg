\* thorough: families FramesThorough (5 status lines x 0..2 of 5 headers x Content-Length incl. duplicates and both spellings x bodies 0..4, stalls also inside lines) and BodiesThorough (every body over {x,CR,LF} up to 6 bytes)
CONSTANTS Fams <- FamsThorough
          Conforming = {"enforce", "truncate", "strict"}
          Others = {"as_built", "m_status200", "m_short", "m_bodyterm", "m_notimeout", "m_panic", "m_drophdr", "m_halfheader"}
INIT Init
NEXT Next
INVARIANT TypeOK
INVARIANT ViewOK
INVARIANT Conforms
INVARIANT NoShortBody
INVARIANT FramedOrRejected
INVARIANT NoPanicNoHang
INVARIANT EntriesSound
INVARIANT Emit
CHECK_DEADLOCK FALSE
