---- MODULE FrontDoor ----
(***************************************************************************)
(* C35 / C34 — the node's SQL front door: POST /sql, POST /fragment,       *)
(* GET /readyz over HTTP and GetFlightInfo + DoGet over Arrow Flight.      *)
(*                                                                         *)
(* State of ONE node (the node under test) and of its environment:         *)
(*   load      loading | loaded | failed      (the TableLoader's outcome)  *)
(*   draining  the shutdown signal has been seen (readiness withdrawn,     *)
(*             listener still serving for the drain window)                *)
(*   resolved  discovery completed one pass                                *)
(*   view[p]   absent | unknown | up | down   what the node believes       *)
(*   alive[p]  what is true (a dead peer refuses connections)              *)
(* Actions (src/distributed/server.rs, flight.rs; one per atomic step):    *)
(*   LoadDone LoadFail        the loader task stores context / load_error  *)
(*   Resolve(S)               resolve_once: set_members(S)                 *)
(*   ProbeUp(p) ProbeDown(p)  probe_once on one peer: record_up/down       *)
(*   Tick(S)                  one whole pass of discovery_loop after       *)
(*                            ServerHandle::set_peers(S): resolve + probe  *)
(*   PeerDies(p)              environment; also while a request is pending *)
(*   Drain                    accept_loop sees the shutdown signal         *)
(*   Decide(r) / Execute      a request: the decision is taken from the    *)
(*                            VIEW, the fan-out then meets what is ALIVE   *)
(* The as-built decision table is the definition of Respond(r); the        *)
(* properties (section CONTRACT) are stated over (state, request,          *)
(* response) only and are what the real node's responses are judged by     *)
(* (FrontDoorTrace.tla).  Named design mutants (constant Mutant) show that *)
(* each clause of the contract rejects something.                          *)
(***************************************************************************)
EXTENDS VerifIO

CONSTANTS Peers,     \* e.g. {1, 2}
          Sizes,     \* result sizes of the scatterable statements, e.g. {0, 1, 4096, 4097, 10000}
          Eps,       \* endpoints in the request alphabet: subset of {"sql","fragment","readyz","healthz","flight","both"}
          Fmts,      \* formats in the request alphabet (all four, except in the small kill-matrix runs)
          Mutant,    \* "none" = as built
          Emit,      \* "none" (exhaustive check) | "states" / "states_notick" (env histories, one per node state) | "walks"
          MaxDepth   \* walks: steps per walk

VARIABLES load, draining, resolved, view, alive, pending, resp, hist
vars == <<load, draining, resolved, view, alive, pending, resp, hist>>

None == [ep |-> "none", mode |-> "off", fmt |-> "arrow", st |-> [c |-> "none", n |-> 0], tamper |-> "none"]

\* ---- statements ------------------------------------------------------------------------------
\* class          local run   plan_distributed   plan_gather   physical_plan (GetFlightInfo)
\* scatter        ok          ok                 -             ok      exactly-mergeable shape
\* gather         ok          NotImplemented     ok            ok      DISTINCT, UNION, CTE, window ...
\* undist         ok          NotImplemented     NotImplemented ok     no base table (SELECT 1)
\* unsup          NotImpl.    NotImplemented     NotImplemented NotImpl. non-SELECT
\* parse          Parse       Parse              -             Parse
\* notfound       NotFound    NotFound           -             NotFound
\* rterr          Execution   ok                 -             ok      fails while running (division by zero)
\* empty          (the transports refuse an empty statement themselves)
Classes == {"scatter", "gather", "undist", "unsup", "parse", "notfound", "rterr", "empty"}
Stmts == {[c |-> "scatter", n |-> k] : k \in Sizes} \cup {[c |-> x, n |-> 5] : x \in Classes \ {"scatter"}}

LocalOutcome(c) == CASE c \in {"scatter", "gather", "undist"} -> "ok"
                     [] c = "unsup" -> "unimpl"
                     [] c = "parse" -> "invalid"
                     [] c = "empty" -> "invalid"
                     [] c = "notfound" -> "notfound"
                     [] c = "rterr" -> "internal"
PlanDist(c) == CASE c \in {"scatter", "rterr"} -> "ok"
                 [] c \in {"gather", "undist", "unsup"} -> "unimpl"
                 [] c = "parse" -> "invalid"
                 [] c = "empty" -> "invalid"
                 [] c = "notfound" -> "notfound"
PlanGather(c) == IF c = "gather" THEN "ok" ELSE "unimpl"
PhysPlan(c) == IF c = "rterr" THEN "ok" ELSE LocalOutcome(c)
Scatterable(c) == c \in {"scatter", "rterr"}       \* "exactly-mergeable shape"

Modes == {"auto", "force", "off", "bad"}
Formats == {"arrow", "json", "csv", "bad"}
Tampers == {"none", "forged", "replay", "malformed", "notjson", "oversized", "v0", "v2", "nov", "badmode"}
RefusedTampers == {"malformed", "notjson", "oversized", "v0", "v2", "nov", "badmode"}

\* ---- request alphabet -----------------------------------------------------------------------
Req(ep, mode, fmt, st, tamper) == [ep |-> ep, mode |-> mode, fmt |-> fmt, st |-> st, tamper |-> tamper]
Small == [c |-> "scatter", n |-> IF 1 \in Sizes \/ Sizes = {} THEN 1 ELSE CHOOSE k \in Sizes : TRUE]
Requests ==
  (IF "sql" \in Eps THEN {Req("sql", m, f, s, "none") : m \in Modes, f \in Fmts, s \in Stmts} ELSE {})
  \cup (IF "fragment" \in Eps THEN {Req("fragment", "off", "arrow", s, "none") : s \in {t \in Stmts : t.c \in {"scatter", "parse"}}} ELSE {})
  \cup (IF "readyz" \in Eps THEN {Req("readyz", "off", "arrow", Small, "none")} ELSE {})
  \cup (IF "healthz" \in Eps THEN {Req("healthz", "off", "arrow", Small, "none")} ELSE {})
  \cup (IF "both" \in Eps THEN {Req("both", m, "arrow", s, "none") : m \in Modes, s \in Stmts} ELSE {})
  \cup (IF "flight" \in Eps
        THEN {Req("flight", m, "arrow", s, t) : m \in Modes \ {"bad"}, t \in Tampers \ {"none"},
                                                s \in {x \in Stmts : x.c \in {"gather", "parse"} \/ x = Small}}
        ELSE {})

\* ---- what the node believes / what is true ---------------------------------------------------
Counted == IF Mutant = "count_down_peers" THEN {p \in Peers : view[p] # "absent"} ELSE {p \in Peers : view[p] = "up"}
Members == 1 + Cardinality(Counted)            \* participants(): self + peers last seen Up
DeadCounted == {p \in Counted : ~alive[p]}
Reached == IF {p \in Counted : alive[p]} # {} THEN 1 ELSE 0     \* some peer receives a fragment

\* ---- as-built decision table -----------------------------------------------------------------
HStatus(cls) == CASE cls = "ok" -> 200 [] cls = "notready" -> 503 [] cls = "unimpl" -> 501 [] OTHER -> 400
GCode(cls) == CASE cls = "ok" -> "ok" [] cls = "notready" -> "Unavailable" [] cls = "unimpl" -> "Unimplemented"
                [] cls = "notfound" -> "NotFound" [] cls = "internal" -> "Internal" [] OTHER -> "InvalidArgument"
NrKind == IF load = "failed" THEN "failed" ELSE "loading"

\* execute_statement(mode, st) on a loaded node: [cls, dist, reason, frags, exec]
Run(mode, st) ==
  LET c == st.c
      decision == IF mode = "off" THEN "local"
                  ELSE IF mode = "force" THEN "dist"
                  ELSE IF Members < 2 THEN "local"
                  ELSE IF PlanDist(c) = "ok" THEN "dist" ELSE "local"
      local == IF LocalOutcome(c) = "ok" THEN [cls |-> "ok", dist |-> 0, reason |-> 1, frags |-> 0, exec |-> 1]
               ELSE [cls |-> LocalOutcome(c), dist |-> 0, reason |-> 0, frags |-> 0, exec |-> 1]
      \* as built, a plain (non-aggregate) select without rows fails in merge() when this node is the only
      \* participant: its own shard contributes no batch and "no shard returned a schema" (remote shards
      \* always ship a schema-only placeholder).  An error in force mode is within C35; reported to C09.
      aloneEmpty == Counted = {} /\ c = "scatter" /\ st.n = 0
      fan == IF DeadCounted # {} \/ c = "rterr" \/ aloneEmpty
             THEN [cls |-> "internal", dist |-> 0, reason |-> 0, frags |-> Reached, exec |-> 1]
             ELSE [cls |-> "ok", dist |-> 1, reason |-> 0, frags |-> Reached, exec |-> 1]
      refuse(k) == [cls |-> k, dist |-> 0, reason |-> 0, frags |-> 0, exec |-> 1]
      dist == IF PlanDist(c) = "ok" THEN fan
              ELSE IF PlanDist(c) = "unimpl" THEN (IF PlanGather(c) = "ok" THEN fan ELSE refuse("unimpl"))
              ELSE refuse(PlanDist(c))
  IN IF decision = "local" THEN local
     ELSE IF Mutant = "auto_fallback" /\ mode = "auto" /\ dist.cls # "ok" THEN local
     ELSE IF Mutant = "force_local" /\ mode = "force" /\ dist.cls # "ok" /\ LocalOutcome(c) = "ok"
          THEN [local EXCEPT !.reason = 0]
     ELSE dist

NoH == [status |-> 0, dist |-> -1, reason |-> 0, nr |-> "", rows |-> -1, frags |-> 0, exec |-> 0]
HErr(cls) == [NoH EXCEPT !.status = HStatus(cls), !.nr = IF cls = "notready" THEN NrKind ELSE ""]
HOf(x, n) == [status |-> HStatus(x.cls), dist |-> x.dist, reason |-> x.reason, nr |-> "",
              rows |-> IF x.cls = "ok" THEN n ELSE -1, frags |-> x.frags, exec |-> x.exec]

HttpSql(r) ==
  IF r.fmt = "bad" \/ r.mode = "bad" THEN HErr("badreq")
  ELSE IF load # "loaded" THEN HErr("notready")
  ELSE IF r.st.c = "empty" THEN HErr("badreq")
  ELSE HOf(Run(r.mode, r.st), r.st.n)

HttpFragment(r) ==
  IF load # "loaded" /\ Mutant # "fragment_before_load" THEN HErr("notready")
  ELSE IF LocalOutcome(r.st.c) = "ok" THEN [NoH EXCEPT !.status = 200, !.rows = r.st.n, !.exec = 1]
  ELSE [NoH EXCEPT !.status = 400, !.exec = 1]

Ready == load = "loaded" /\ resolved /\ (~draining \/ Mutant = "ready_ignores_drain")
HttpReadyz == [NoH EXCEPT !.status = IF Ready THEN 200 ELSE 503]

\* Flight: the slices of encode_flight_stream over the engine's batches (8192-row batches, 4096-row slices)
RECURSIVE Chunks(_, _)
Chunks(n, k) == IF n <= 0 THEN <<>> ELSE IF n <= k THEN <<n>> ELSE <<k>> \o Chunks(n - k, k)
RECURSIVE FlatMap(_, _)
FlatMap(s, k) == IF s = <<>> THEN <<>> ELSE Chunks(Head(s), k) \o FlatMap(Tail(s), k)
Slices(n) == FlatMap(Chunks(n, 8192), 4096)

NoF == [gfi |-> "skipped", gexec |-> 0, dg |-> "skipped", dist |-> -1, reason |-> 0, rows |-> -1, trows |-> -1,
        trailers |-> 0, tlast |-> 0, maxslice |-> 0, dexec |-> 0, frags |-> 0]

GetFlightInfo(r) ==
  IF r.st.c = "empty" \/ r.mode = "bad" THEN "badreq"
  ELSE IF load # "loaded" THEN "notready"
  ELSE PhysPlan(r.st.c)

DoGet(r) ==
  LET t == r.tamper
      mode == IF Mutant = "doget_mode_auto" THEN "auto" ELSE r.mode
  IN IF t \in {"malformed", "notjson", "oversized", "nov", "badmode"} THEN [NoF EXCEPT !.dg = GCode("badreq")]
     ELSE IF t \in {"v0", "v2"} /\ Mutant # "no_version_check" THEN [NoF EXCEPT !.dg = GCode("badreq")]
     ELSE IF mode = "bad" THEN [NoF EXCEPT !.dg = GCode("badreq")]
     ELSE IF load # "loaded" THEN [NoF EXCEPT !.dg = GCode("notready")]
     ELSE LET x == Run(mode, r.st)
              sl == Slices(r.st.n)
          IN IF x.cls # "ok" THEN [NoF EXCEPT !.dg = GCode(x.cls), !.dexec = 1, !.frags = x.frags]
             ELSE [NoF EXCEPT !.dg = "ok", !.dist = x.dist, !.reason = x.reason, !.rows = SumSeq(sl),
                              !.trows = IF Mutant = "trailer_last_slice" /\ sl # <<>> THEN sl[Len(sl)] ELSE r.st.n,
                              !.trailers = 1, !.tlast = 1,
                              !.maxslice = IF sl = <<>> THEN 0 ELSE CHOOSE m \in SeqRange(sl) : \A j \in SeqRange(sl) : m >= j,
                              !.dexec = 1, !.frags = x.frags]

FlightPair(r) ==
  LET g == IF r.tamper = "forged" THEN "skipped" ELSE GCode(GetFlightInfo(r))
      gx == IF Mutant = "gfi_executes" /\ g = "ok" THEN 1 ELSE 0
  IN IF g \notin {"ok", "skipped"} /\ r.tamper = "none" THEN [NoF EXCEPT !.gfi = g]
     ELSE [DoGet(r) EXCEPT !.gfi = g, !.gexec = gx]

NoResp == [req |-> None, http |-> NoH, flight |-> NoF]
Respond(r) ==
  [req |-> r,
   http |-> CASE r.ep = "sql" -> HttpSql(r)
              [] r.ep = "both" -> HttpSql(r)
              [] r.ep = "fragment" -> HttpFragment(r)
              [] r.ep = "readyz" -> HttpReadyz
              [] r.ep = "healthz" -> [NoH EXCEPT !.status = 200]
              [] OTHER -> NoH,
   flight |-> IF r.ep \in {"flight", "both"} THEN FlightPair(r) ELSE NoF]

\* ---- actions ---------------------------------------------------------------------------------
Log(step) == hist' = IF Emit = "none" THEN hist ELSE Append(hist, step)
\* a response is looked at (the invariants of section CONTRACT), then acknowledged; nothing else happens
\* in between, so the state graph grows with |states| x |requests|, not with its square
Quiet == pending = None /\ resp = NoResp
Env == Quiet /\ resp' = NoResp /\ pending' = pending

Init == /\ load = "loading" /\ draining = FALSE /\ resolved = FALSE
        /\ view = [p \in Peers |-> "absent"] /\ alive = [p \in Peers |-> TRUE]
        /\ pending = None /\ resp = NoResp /\ hist = <<>>

\* environment steps as a guard and an effect on the node state (FrontDoorTrace.tla compares the real node
\* with exactly these): o = [a, S, p]
NodeState == [load |-> load, draining |-> draining, resolved |-> resolved, view |-> view, alive |-> alive]
ResolvedView(s, S) == [p \in Peers |-> IF p \in S THEN (IF s.view[p] = "absent" THEN "unknown" ELSE s.view[p]) ELSE "absent"]
TickView(s, S) == [p \in Peers |-> IF p \in S THEN (IF s.alive[p] THEN "up" ELSE "down") ELSE "absent"]
Guard(s, o) ==
  CASE o.a \in {"LoadDone", "LoadFail"} -> s.load = "loading"
    [] o.a = "Resolve" -> ~s.draining /\ (s.resolved => ResolvedView(s, o.S) # s.view)   \* re-resolving the same set changes nothing (C15)
    [] o.a = "Tick" -> ~s.draining /\ (s.resolved => TickView(s, o.S) # s.view) /\ Emit # "states_notick"
    [] o.a = "ProbeUp" -> ~s.draining /\ s.view[o.p] \notin {"absent", "up"} /\ s.alive[o.p]
    [] o.a = "ProbeDown" -> ~s.draining /\ s.view[o.p] \notin {"absent", "down"}
    [] o.a = "PeerDies" -> s.alive[o.p] /\ s.view[o.p] # "absent"
    [] o.a = "Drain" -> ~s.draining
    [] OTHER -> FALSE
Effect(s, o) ==
  CASE o.a = "LoadDone" -> [s EXCEPT !.load = "loaded"]
    [] o.a = "LoadFail" -> [s EXCEPT !.load = "failed"]
    [] o.a = "Resolve" -> [s EXCEPT !.resolved = TRUE, !.view = ResolvedView(s, o.S)]
    [] o.a = "Tick" -> [s EXCEPT !.resolved = TRUE, !.view = TickView(s, o.S)]
    [] o.a = "ProbeUp" -> [s EXCEPT !.view[o.p] = "up"]
    [] o.a = "ProbeDown" -> [s EXCEPT !.view[o.p] = "down"]
    [] o.a = "PeerDies" -> [s EXCEPT !.alive[o.p] = FALSE]
    [] o.a = "Drain" -> [s EXCEPT !.draining = TRUE]
SetState(t) == /\ load' = t.load /\ draining' = t.draining /\ resolved' = t.resolved /\ view' = t.view /\ alive' = t.alive
Op(a, S, p) == [a |-> a, S |-> S, p |-> p]
EnvAct(o) == /\ resp = NoResp /\ (pending = None \/ o.a = "PeerDies")     \* a peer may die while a request is pending
             /\ Guard(NodeState, o) /\ SetState(Effect(NodeState, o))
             /\ resp' = NoResp /\ pending' = pending /\ Log(o)
LoadDone == EnvAct(Op("LoadDone", {}, 0))
LoadFail == EnvAct(Op("LoadFail", {}, 0))
Drain == EnvAct(Op("Drain", {}, 0))
Resolve(S) == EnvAct(Op("Resolve", S, 0))
Tick(S) == EnvAct(Op("Tick", S, 0))
ProbeUp(p) == EnvAct(Op("ProbeUp", {}, p))
ProbeDown(p) == EnvAct(Op("ProbeDown", {}, p))
PeerDies(p) == EnvAct(Op("PeerDies", {}, p))
\* Flight stops with the shutdown signal; the HTTP listener keeps serving for the drain window
Sendable(r) == r.ep \in {"flight", "both"} => ~draining
Decide(r) == /\ Quiet /\ Sendable(r) /\ pending' = r /\ resp' = NoResp /\ Log([a |-> "Req", r |-> r])
             /\ UNCHANGED <<load, draining, resolved, view, alive>>
Execute == /\ pending # None /\ resp' = Respond(pending) /\ pending' = None /\ Log([a |-> "Exec"])
           /\ UNCHANGED <<load, draining, resolved, view, alive>>

\* (a state conjunct in front of every quantifier over a constant set: TLC must not split the
\*  action per constant value at start-up, its workers would share one value object)
Ack == /\ pending = None /\ resp # NoResp /\ resp' = NoResp
       /\ UNCHANGED <<load, draining, resolved, view, alive, pending, hist>>
EnvNext == \/ LoadDone \/ LoadFail \/ Drain
           \/ (Quiet /\ \E S \in SUBSET Peers : Resolve(S) \/ Tick(S))
           \/ (load \in {"loading", "loaded", "failed"} /\ \E p \in Peers : ProbeUp(p) \/ ProbeDown(p) \/ PeerDies(p))
Next == EnvNext \/ Execute \/ Ack \/ (Quiet /\ \E r \in Requests : Decide(r))

\* ---- CONTRACT: what C35 / C34 pin, over (state at the response, request, response) ------------
\* Every clause has a name; an operator ...V returns the names of the clauses a response violates.
\* (FrontDoorTrace.tla evaluates the same operators on what the real node answered.)
Violated(cl) == {k \in DOMAIN cl : ~cl[k]}
Up(v) == {p \in Peers : v[p] = "up"}
C35SqlV(ld, v, al, r, h, counted) ==
  LET ok == h.status = 200
      c == r.st.c
      wellformed == r.mode # "bad" /\ r.fmt # "bad"
      twoUp == Cardinality(Up(v)) + 1 >= 2
      deadUp == {p \in Up(v) : ~al[p]}
      aliveUp == {p \in Up(v) : al[p]}
  IN Violated([
     \* "answers /sql only once its tables are loaded"
     answered_before_load |-> (ld # "loaded" => ~ok),
     decision_reported |-> (ok => h.dist \in {0, 1}),
     off_is_local |-> (ok /\ r.mode = "off" => h.dist = 0),
     \* "in auto mode it distributes only exactly-mergeable shapes with at least two members up"
     auto_distributed_unmergeable_or_alone |-> (ok /\ r.mode = "auto" /\ h.dist = 1 => Scatterable(c) /\ twoUp),
     \* "and otherwise answers locally with a reason"
     auto_local_without_reason |-> (ok /\ r.mode = "auto" /\ h.dist = 0 => h.reason = 1),
     auto_otherwise_not_local |-> (ld = "loaded" /\ wellformed /\ r.mode = "auto" /\ LocalOutcome(c) = "ok" /\ ~(Scatterable(c) /\ twoUp)
                                     => ok /\ h.dist = 0),
     force_answered_locally |-> (ok /\ r.mode = "force" => h.dist = 1),
     \* "it never falls back to a local answer after a distributed execution failure"
     local_fallback_after_failure |-> (r.mode = "auto" /\ Scatterable(c) /\ twoUp /\ deadUp # {} => ~(ok /\ h.dist = 0)),
     \* x-qe-rows = the engine's row count; x-qe-distributed says what happened
     row_count_header |-> (ok => h.rows = r.st.n),
     local_answer_used_peers |-> (ok /\ counted /\ h.dist = 0 => h.frags = 0),
     distributed_answer_without_peers |-> (ok /\ counted /\ h.dist = 1 /\ aliveUp # {} => h.frags >= 1)])
C35FragmentV(ld, r, h) ==
  Violated([fragment_before_load |-> (ld # "loaded" => h.status # 200),
            fragment_row_count |-> (h.status = 200 => h.rows = r.st.n)])
C35ReadyzV(ld, res, dr, h) ==
  Violated([readyz_iff_loaded_resolved_not_draining |-> ((h.status = 200) <=> (ld = "loaded" /\ res /\ ~dr))])

FlightOk(f) == f.gfi \in {"ok", "skipped"} /\ f.dg = "ok"
C34FlightV(ld, r, f, counted) ==
  Violated([
     flight_answered_before_load |-> (ld # "loaded" => ~FlightOk(f)),
     \* "malformed, oversized or unknown-version tickets are refused" (and never executed)
     bad_ticket_accepted |-> (r.tamper \in RefusedTampers => f.dg \notin {"ok", "skipped"}),
     bad_ticket_executed |-> (r.tamper \in RefusedTampers /\ counted => f.dexec = 0 /\ f.frags = 0),
     \* "a metadata trailer matching the row count": exactly one, last, rows = what was streamed
     one_trailer_and_last |-> (FlightOk(f) => f.trailers = 1 /\ f.tlast = 1),
     trailer_row_count |-> (FlightOk(f) => f.trows = f.rows),
     flight_row_count |-> (FlightOk(f) => f.rows = r.st.n),
     flight_decision_reported |-> (FlightOk(f) => f.dist \in {0, 1}),
     get_flight_info_executed |-> (counted => f.gexec = 0)])
C34BothV(r, h, f) ==
  Violated([
     doors_disagree_on_outcome |-> ((h.status = 200) <=> FlightOk(f)),
     doors_disagree_on_decision |-> (h.status = 200 /\ FlightOk(f) => h.dist = f.dist),
     doors_disagree_on_row_count |-> (h.status = 200 /\ FlightOk(f) => h.rows = f.rows)])
\* finer (fidelity): both doors name the same class, as far as HTTP's status vocabulary can tell
SameClass(h, f) ==
  LET g == IF f.gfi \notin {"ok", "skipped"} THEN f.gfi ELSE f.dg
  IN CASE h.status = 200 -> g = "ok"
       [] h.status = 503 -> g = "Unavailable"
       [] h.status = 501 -> g = "Unimplemented"
       [] OTHER -> g \in {"InvalidArgument", "NotFound", "Internal"}

ViolatedNow ==
  IF resp.req = None THEN {}
  ELSE LET r == resp.req IN
       (IF r.ep \in {"sql", "both"} THEN C35SqlV(load, view, alive, r, resp.http, TRUE) ELSE {})
       \cup (IF r.ep = "fragment" THEN C35FragmentV(load, r, resp.http) ELSE {})
       \cup (IF r.ep = "readyz" THEN C35ReadyzV(load, resolved, draining, resp.http) ELSE {})
       \cup (IF r.ep \in {"flight", "both"} THEN C34FlightV(load, r, resp.flight, TRUE) ELSE {})
       \cup (IF r.ep = "both" THEN C34BothV(r, resp.http, resp.flight) ELSE {})
Contract == LET V == ViolatedNow IN V = {} \/ (EmitTag("VIOLATED", [clauses |-> V, req |-> resp.req]) /\ FALSE)
\* the doors agree class by class except on an empty statement sent to a node that is not ready
\* (HTTP checks readiness before it reads the body, Flight parses the command first): not pinned
DoorsSameClass ==
  resp.req # None /\ resp.req.ep = "both" /\ ~(resp.req.st.c = "empty" /\ load # "loaded")
    => SameClass(resp.http, resp.flight)
\* design facts worth keeping honest (not part of the contract)
SlicesBounded == resp.req # None /\ FlightOk(resp.flight) => resp.flight.maxslice <= 4096
NotReadySaysWhy == resp.req # None /\ resp.http.status = 503 /\ resp.req.ep # "readyz"
                     => resp.http.nr = (IF load = "failed" THEN "failed" ELSE "loading")
TypeOK == /\ load \in {"loading", "loaded", "failed"} /\ draining \in BOOLEAN /\ resolved \in BOOLEAN
          /\ view \in [Peers -> {"absent", "unknown", "up", "down"}] /\ alive \in [Peers -> BOOLEAN]
          /\ (~resolved => \A p \in Peers : view[p] = "absent")

\* ---- emission ----------------------------------------------------------------------------------
SView == <<load, draining, resolved, view, alive>>
\* (a) one environment history per reachable node state (Next = EnvNext, VIEW SView)
\*     ("states_notick": the same without whole discovery passes, so single probes carry the histories)
EmitStates == Emit \in {"states", "states_notick"} => EmitCase([h |-> hist, s |-> NodeState])
\* (b) random walks: weighted single-successor steps
RandomStep ==
  LET k == RandomElement(1..24)
      p == RandomElement(Peers)
      S == RandomElement(SUBSET Peers)
      try(o) == IF Guard(NodeState, o) THEN EnvAct(o)
                ELSE LET r == RandomElement(Requests)
                     IN IF Sendable(r) THEN Decide(r) ELSE Decide(Req("readyz", "off", "arrow", Small, "none"))
  IN IF resp # NoResp THEN Ack
     ELSE IF pending # None THEN (IF k <= 6 /\ Guard(NodeState, Op("PeerDies", {}, p)) THEN PeerDies(p) ELSE Execute)
     ELSE IF k <= 3 THEN try(Op("LoadDone", {}, 0))
     ELSE IF k = 4 THEN try(Op("LoadFail", {}, 0))
     ELSE IF k \in 5..6 THEN try(Op("Resolve", S, 0))
     ELSE IF k \in 7..8 THEN try(Op("Tick", S, 0))
     ELSE IF k \in 9..10 THEN try(Op("ProbeUp", {}, p))
     ELSE IF k = 11 THEN try(Op("ProbeDown", {}, p))
     ELSE IF k = 12 THEN try(Op("PeerDies", {}, p))
     ELSE IF k = 13 /\ RandomElement(1..3) = 1 THEN try(Op("Drain", {}, 0))
     ELSE try(Op("none", {}, 0))
NextWalk == RandomStep
EmitWalks == Emit = "walks" /\ Len(hist) >= MaxDepth /\ pending = None => EmitCase([h |-> hist])
WalkBound == Len(hist) < MaxDepth \/ pending # None
====
