---- MODULE CompiledExpr ----
(***************************************************************************)
(* C06 — compiled predicates are indistinguishable from the interpreter.   *)
(*                                                                         *)
(* A batch is a table of rows over the columns f, g (Float64), k (Int64),  *)
(* m (Int32), d (Date32).  Values are TOKENS:                              *)
(*   doubles : finite integers v as 10*v (|v| <= 64), -0.0 = -1, +0.0 = 1, *)
(*             -inf = -1000, +inf = 1000, NaN = 2000 (and -NaN = -2000, the*)
(*             result of invalid operations on x86-64) — the integer order *)
(*             of the codes IS Arrow's total order (-0.0 < +0.0, NaN       *)
(*             greatest);                                                  *)
(*   integers: -9 (the type's MIN), -1, 0, 1, 9 (the type's MAX);          *)
(*   NULL.                                                                 *)
(* The harness owns the concretization (code -> f64 / i64 / i32); the spec *)
(* owns the two comparison tables and IEEE-754 arithmetic on the tokens    *)
(* (exact on small integers, the special cases for 0, inf, NaN).           *)
(*                                                                         *)
(* Two evaluators are specified row by row over the same expression:       *)
(*   I — the interpreter (evaluate_expr): arrow kernels, null-strict       *)
(*       AND/OR/NOT, comparisons in the TOTAL order (CmpTotal)             *)
(*   C — the compiled register program as built: validity = AND of the     *)
(*       validity of every referenced column, comparisons by PartialOrd    *)
(*       (CmpIEEE)                                                         *)
(* The property: MaskI = MaskC and ValidI = ValidC on every row.  On the   *)
(* model it fails exactly where a Float64 comparison leaf sees NaN or the  *)
(* two zeros (Sig); Impl = "fixed" (total_cmp in CmpF64) agrees everywhere;*)
(* the mutant Impls are rejected.                                          *)
(*                                                                         *)
(* Steps: Compile (does the compiler accept the shape?), Eval (both        *)
(* evaluators over the token table).                                       *)
(***************************************************************************)
EXTENDS VerifIO, SequencesExt

CONSTANTS Families,   \* subset of {"f64leaf", "intleaf", "decline", "arith", "arith2", "bool", "bool3"}
          Variants,   \* subset of {"nulls", "nonull", "mixed"}: which columns of the table hold NULLs
          Impl,       \* "asbuilt" | "fixed" | mutants "m_valid_or" | "m_between_neg"
          Strict,     \* TRUE: no deviation escape in Agree
          ArithLits, CmpLits, ArithOps, ArithCmpOps    \* size knobs of the arithmetic families

VARIABLES pc, e, variant, compiled, out
vars == <<pc, e, variant, compiled, out>>

NI == -1000
PI == 1000
NZ == -1
PZ == 1
NaN == 2000            \* the positive quiet NaN (f64::NAN): what columns and literals hold; greatest in the total order
NNaN == -2000          \* the NaN an invalid operation produces on x86-64 (inf - inf, 0 * inf, 0 / 0): sign bit set, SMALLEST in the total order
UNaN == 2500           \* a NaN whose sign is not pinned (two NaNs of different sign met): IEEE comparisons are determined, total-order ones are not
OUT == 3000            \* a finite, nonzero arithmetic result outside the token domain (inexact quotient, |v| > 64): no expectation for that row
MaxFin == 64
Ops == {"eq", "ne", "lt", "le", "gt", "ge"}

\* ---------------------------------------------------------------- the token table (batch content)
FD == <<NI, -20, NZ, PZ, 10, PI, NaN, NULL>>          \* column domain of f and g
KD == <<-9, -1, 0, 1, 9, NULL>>                        \* column domain of k, m, d
R == 96     \* rows 0..63: full cross of f x g; (f, k) is a full cross over the 96 rows; m, d run through all their values
DeNull(v, repl, nullable) == IF v = NULL /\ ~nullable THEN repl ELSE v
RowAt(i, var) ==
  LET fn == var \in {"nulls", "mixed"}
      kn == var = "nulls"
  IN [f |-> DeNull(FD[(i % 8) + 1], 20, fn),
      g |-> DeNull(FD[((i \div 8) % 8) + 1], -10, fn),
      k |-> DeNull(KD[((i \div 8) % 6) + 1], 1, kn),
      m |-> DeNull(KD[((i + (i \div 8)) % 6) + 1], 0, kn),
      d |-> DeNull(KD[(((i \div 16) + 2 * i + (i \div 48)) % 6) + 1], -1, kn)]
Table(var) == [i \in 1..R |-> RowAt(i - 1, var)]

\* ---------------------------------------------------------------- IEEE-754 arithmetic on tokens
IsZero(c) == c \in {NZ, PZ}
IsInf(c) == c \in {NI, PI}
IsNeg(c) == c < 0
Val(c) == IF IsZero(c) THEN 0 ELSE c \div 10
Fin(v, negzero) == IF v = 0 THEN (IF negzero THEN NZ ELSE PZ) ELSE IF v > MaxFin \/ v < -MaxFin THEN OUT ELSE 10 * v
Inf(neg) == IF neg THEN NI ELSE PI
Zero(neg) == IF neg THEN NZ ELSE PZ
Xor(a, b) == (a /\ ~b) \/ (~a /\ b)
IsNaN(c) == c \in {NaN, NNaN, UNaN}
\* a NaN operand propagates (its sign with it); two NaNs of different sign: which one wins is not pinned
NaNOf(a, b) == IF IsNaN(a) /\ IsNaN(b) THEN (IF a = b THEN a ELSE UNaN) ELSE IF IsNaN(a) THEN a ELSE b
AddT(a, b) ==
  IF IsNaN(a) \/ IsNaN(b) THEN NaNOf(a, b)
  ELSE IF IsInf(a) /\ IsInf(b) THEN (IF a = b THEN a ELSE NNaN)
  ELSE IF IsInf(a) THEN a ELSE IF IsInf(b) THEN b
  ELSE Fin(Val(a) + Val(b), a = NZ /\ b = NZ)             \* x + (-x) = +0;  -0 + -0 = -0
SubT(a, b) == IF IsNaN(a) \/ IsNaN(b) THEN NaNOf(a, b) ELSE AddT(a, -b)
MulT(a, b) ==
  IF IsNaN(a) \/ IsNaN(b) THEN NaNOf(a, b)
  ELSE IF (IsInf(a) /\ IsZero(b)) \/ (IsZero(a) /\ IsInf(b)) THEN NNaN
  ELSE IF IsInf(a) \/ IsInf(b) THEN Inf(Xor(IsNeg(a), IsNeg(b)))
  ELSE Fin(Val(a) * Val(b), Xor(IsNeg(a), IsNeg(b)))
DivT(a, b) ==
  IF IsNaN(a) \/ IsNaN(b) THEN NaNOf(a, b)
  ELSE IF (IsInf(a) /\ IsInf(b)) \/ (IsZero(a) /\ IsZero(b)) THEN NNaN
  ELSE IF IsInf(a) \/ IsZero(b) THEN Inf(Xor(IsNeg(a), IsNeg(b)))
  ELSE IF IsInf(b) \/ IsZero(a) THEN Zero(Xor(IsNeg(a), IsNeg(b)))
  ELSE LET x == Val(a)  y == Val(b)
           ax == IF x < 0 THEN -x ELSE x   ay == IF y < 0 THEN -y ELSE y
       IN IF ax % ay # 0 THEN OUT ELSE Fin((IF Xor(x < 0, y < 0) THEN -1 ELSE 1) * (ax \div ay), FALSE)
Arith(op, a, b) ==
  IF a = NULL \/ b = NULL THEN NULL
  ELSE IF IsNaN(a) \/ IsNaN(b) THEN NaNOf(a, b)
  ELSE IF a = OUT \/ b = OUT THEN OUT
  ELSE CASE op = "add" -> AddT(a, b) [] op = "sub" -> SubT(a, b) [] op = "mul" -> MulT(a, b) [] op = "div" -> DivT(a, b)

\* ---------------------------------------------------------------- the two comparison tables
CmpTotal(op, a, b) == CASE op = "eq" -> a = b [] op = "ne" -> a # b [] op = "lt" -> a < b
                        [] op = "le" -> a <= b [] op = "gt" -> a > b [] op = "ge" -> a >= b
EqIeee(a, b) == ~IsNaN(a) /\ ~IsNaN(b) /\ (a = b \/ (IsZero(a) /\ IsZero(b)))
LtIeee(a, b) == ~IsNaN(a) /\ ~IsNaN(b) /\ a < b /\ ~(IsZero(a) /\ IsZero(b))
CmpIEEE(op, a, b) == CASE op = "eq" -> EqIeee(a, b) [] op = "ne" -> ~EqIeee(a, b)
                       [] op = "lt" -> LtIeee(a, b) [] op = "le" -> LtIeee(a, b) \/ EqIeee(a, b)
                       [] op = "gt" -> LtIeee(b, a) [] op = "ge" -> LtIeee(b, a) \/ EqIeee(a, b)

\* ---------------------------------------------------------------- expressions
\* value expressions: [k |-> "col", c], [k |-> "lit", t, v], [k |-> "ar", op, a, b]
\* boolean:           [k |-> "cmp", op, a, b], [k |-> "and"/"or", a, b], [k |-> "not", a], [k |-> "btw", x, lo, hi, neg]
ColType(c) == CASE c \in {"f", "g"} -> "f64" [] c = "k" -> "i64" [] c = "m" -> "i32" [] c = "d" -> "date"
RECURSIVE TypeOf(_)
TypeOf(x) == CASE x.k = "col" -> ColType(x.c) [] x.k = "lit" -> x.t [] x.k = "ar" -> "f64"
RECURSIVE ValOf(_, _)
ValOf(x, row) == CASE x.k = "col" -> row[x.c] [] x.k = "lit" -> x.v
                   [] x.k = "ar" -> Arith(x.op, ValOf(x.a, row), ValOf(x.b, row))
RECURSIVE ColsOfV(_)
ColsOfV(x) == CASE x.k = "col" -> {x.c} [] x.k = "lit" -> {} [] x.k = "ar" -> ColsOfV(x.a) \cup ColsOfV(x.b)
RECURSIVE ColsOf(_)
ColsOf(q) == CASE q.k = "cmp" -> ColsOfV(q.a) \cup ColsOfV(q.b)
               [] q.k = "btw" -> ColsOfV(q.x) \cup ColsOfV(q.lo) \cup ColsOfV(q.hi)
               [] q.k = "not" -> ColsOf(q.a)
               [] OTHER -> ColsOf(q.a) \cup ColsOf(q.b)

\* three results per row: 1 / 0 / NULL (invalid) / OUT (no expectation)
B(x) == IF x THEN 1 ELSE 0
Strict2(f(_, _), x, y) == IF x = NULL \/ y = NULL THEN NULL ELSE IF x = OUT \/ y = OUT THEN OUT ELSE f(x, y)
AndB(x, y) == IF x = 1 /\ y = 1 THEN 1 ELSE 0
OrB(x, y) == IF x = 1 \/ y = 1 THEN 1 ELSE 0
NotS(x) == IF x = NULL \/ x = OUT THEN x ELSE 1 - x
\* one comparison; sem = "total" | "ieee"
Cmp1(sem, op, ta, a, b) ==
  IF a = NULL \/ b = NULL THEN NULL
  ELSE IF ta = "f64" /\ sem = "ieee" /\ (IsNaN(a) \/ IsNaN(b)) THEN B(op = "ne")      \* determined whatever the other operand is
  ELSE IF a = OUT \/ b = OUT \/ a = UNaN \/ b = UNaN THEN OUT
  ELSE IF ta = "f64" /\ sem = "ieee" THEN B(CmpIEEE(op, a, b)) ELSE B(CmpTotal(op, a, b))
RECURSIVE Ev(_, _, _)
Ev(sem, q, row) ==
  CASE q.k = "cmp" -> Cmp1(sem, q.op, TypeOf(q.a), ValOf(q.a, row), ValOf(q.b, row))
    [] q.k = "btw" -> LET x == ValOf(q.x, row)
                          r == Strict2(AndB, Cmp1(sem, "ge", TypeOf(q.x), x, ValOf(q.lo, row)), Cmp1(sem, "le", TypeOf(q.x), x, ValOf(q.hi, row)))
                      IN IF q.neg = 1 /\ ~(Impl = "m_between_neg" /\ sem = "ieee") THEN NotS(r) ELSE r
    [] q.k = "not" -> NotS(Ev(sem, q.a, row))
    [] q.k = "and" -> Strict2(AndB, Ev(sem, q.a, row), Ev(sem, q.b, row))
    [] q.k = "or" -> Strict2(OrB, Ev(sem, q.a, row), Ev(sem, q.b, row))
\* the interpreter: kernel-by-kernel null propagation, total order
ResI(q, row) == Ev("total", q, row)
\* the compiled program: value bits by PartialOrd (total_cmp when repaired), validity computed separately as the AND of the
\* validity of every referenced column
ValidC(q, row) == IF Impl = "m_valid_or" THEN (ColsOf(q) = {} \/ \E c \in ColsOf(q) : row[c] # NULL)
                  ELSE \A c \in ColsOf(q) : row[c] # NULL
\* the value registers do not know about NULL: the slot under a NULL holds the array's raw value; model it as the
\* row with NULLs replaced (the result is masked by ValidC anyway)
ResC(q, row) ==
  IF ~ValidC(q, row) THEN NULL
  ELSE LET r == Ev(IF Impl = "fixed" THEN "total" ELSE "ieee", q, row) IN IF r = NULL THEN 0 ELSE r

\* where the as-built compiled evaluator is known to deviate: a Float64 comparison leaf with a NaN operand / the two zeros
LeafSig(ta, a, b) ==
  IF ta # "f64" \/ a = NULL \/ b = NULL THEN {}
  ELSE (IF IsNaN(a) \/ IsNaN(b) THEN {"nan"} ELSE {}) \cup (IF IsZero(a) /\ IsZero(b) /\ a # b THEN {"zero"} ELSE {})
RECURSIVE Sig(_, _)
Sig(q, row) ==
  CASE q.k = "cmp" -> LeafSig(TypeOf(q.a), ValOf(q.a, row), ValOf(q.b, row))
    [] q.k = "btw" -> LeafSig(TypeOf(q.x), ValOf(q.x, row), ValOf(q.lo, row)) \cup LeafSig(TypeOf(q.x), ValOf(q.x, row), ValOf(q.hi, row))
    [] q.k = "not" -> Sig(q.a, row)
    [] OTHER -> Sig(q.a, row) \cup Sig(q.b, row)

\* ---------------------------------------------------------------- which shapes the compiler accepts (compiled_expr.rs)
RECURSIVE NumOk(_)
NumOk(x) == CASE x.k = "col" -> ColType(x.c) = "f64" [] x.k = "lit" -> x.t = "f64" [] x.k = "ar" -> NumOk(x.a) /\ NumOk(x.b)
SideOk(x) == CASE x.k = "col" -> TRUE [] x.k = "lit" -> x.t \in {"f64", "i64", "i32", "date"} [] x.k = "ar" -> NumOk(x)
RECURSIVE InSubset(_)
InSubset(q) ==
  CASE q.k = "cmp" -> SideOk(q.a) /\ SideOk(q.b) /\ TypeOf(q.a) = TypeOf(q.b)
    [] q.k = "btw" -> SideOk(q.x) /\ SideOk(q.lo) /\ SideOk(q.hi) /\ TypeOf(q.x) = TypeOf(q.lo) /\ TypeOf(q.x) = TypeOf(q.hi)
    [] q.k = "not" -> InSubset(q.a)
    [] OTHER -> InSubset(q.a) /\ InSubset(q.b)

\* ---------------------------------------------------------------- expression families
Col(c) == [k |-> "col", c |-> c]
Lit(t, v) == [k |-> "lit", t |-> t, v |-> v]
Ar(op, a, b) == [k |-> "ar", op |-> op, a |-> a, b |-> b]
Cmp(op, a, b) == [k |-> "cmp", op |-> op, a |-> a, b |-> b]
FLits == {NI, -20, NZ, PZ, 10, PI, NaN}
KLits == {-9, -1, 0, 1, 9}
F64Leaf == {Cmp(op, Col("f"), Lit("f64", l)) : op \in Ops, l \in FLits}
           \cup {Cmp(op, Lit("f64", l), Col("g")) : op \in Ops, l \in FLits}
           \cup {Cmp(op, Col("f"), Col("g")) : op \in Ops} \cup {Cmp(op, Col("g"), Col("g")) : op \in Ops}
IntLeafOf(c, t) == {Cmp(op, Col(c), Lit(t, l)) : op \in Ops, l \in KLits} \cup {Cmp(op, Lit(t, l), Col(c)) : op \in {"lt", "ge", "eq"}, l \in KLits}
                   \cup {Cmp(op, Col(c), Col(c)) : op \in {"eq", "lt"}}
IntLeaf == IntLeafOf("k", "i64") \cup IntLeafOf("m", "i32") \cup IntLeafOf("d", "date")
\* shapes the compiler must DECLINE (the interpreter coerces): mixed types
Decline == {Cmp(op, Col("k"), Lit("f64", 10)) : op \in {"gt", "eq"}} \cup {Cmp(op, Col("m"), Lit("i64", 1)) : op \in {"lt", "ne"}}
           \cup {Cmp(op, Col("d"), Lit("i32", 0)) : op \in {"ge"}} \cup {Cmp(op, Col("f"), Lit("i64", 1)) : op \in {"gt", "le"}}
           \cup {Cmp("lt", Col("k"), Col("m")), Cmp("gt", Ar("add", Col("f"), Col("k")), Lit("f64", PZ))}
\* cfg files cannot hold negative numbers: the size knobs name the literals
Code(n) == CASE n = "ni" -> NI [] n = "m2" -> -20 [] n = "nz" -> NZ [] n = "pz" -> PZ [] n = "one" -> 10 [] n = "pi" -> PI [] n = "nan" -> NaN
ALits == {Code(n) : n \in ArithLits}
CLits == {Code(n) : n \in CmpLits}
ArithOperands == {<<Col("f"), Col("g")>>} \cup {<<Col("f"), Lit("f64", l)>> : l \in ALits} \cup {<<Lit("f64", l), Col("g")>> : l \in ALits}
ArithTerms == {Ar(op, xy[1], xy[2]) : op \in ArithOps, xy \in ArithOperands}
ArithFam == {Cmp(op, t, Lit("f64", l)) : op \in ArithCmpOps, t \in ArithTerms, l \in CLits}
            \cup {Cmp(op, Lit("f64", l), t) : op \in {"lt"}, t \in ArithTerms, l \in {PZ}}
Arith2Terms == {Ar(op2, Ar(op, Col("f"), Col("g")), Lit("f64", l)) : op \in ArithOps, op2 \in ArithOps, l \in ALits}
               \cup {Ar(op2, Col("g"), Ar(op, Col("f"), Lit("f64", l))) : op \in ArithOps, op2 \in {"sub", "div"}, l \in ALits}
Arith2Fam == {Cmp(op, t, Lit("f64", l)) : op \in {"le", "ne"}, t \in Arith2Terms, l \in {NZ, 10}}
             \cup {Cmp("gt", Ar("mul", Col("f"), Col("g")), Ar(op, Col("f"), Col("g"))) : op \in ArithOps}
BoolLeaves == {Cmp("lt", Col("f"), Lit("f64", PZ)), Cmp("ge", Col("f"), Lit("f64", NZ)), Cmp("eq", Col("g"), Lit("f64", 10)),
               Cmp("ne", Col("g"), Lit("f64", NaN)), Cmp("ge", Col("k"), Lit("i64", 0)), Cmp("eq", Col("k"), Lit("i64", 9)),
               Cmp("lt", Col("m"), Lit("i32", 1)), Cmp("ne", Col("d"), Lit("date", -1)),
               Cmp("gt", Ar("add", Col("f"), Col("g")), Lit("f64", PZ)), Cmp("eq", Ar("mul", Col("f"), Col("g")), Lit("f64", NZ))}
Btw(x, lo, hi, neg) == [k |-> "btw", x |-> x, lo |-> lo, hi |-> hi, neg |-> neg]
BtwFam == {Btw(Col(c), Lit("f64", lo), Lit("f64", hi), n) : c \in {"f", "g"}, lo \in {NZ, -20, NaN}, hi \in {PZ, 10, PI}, n \in {0, 1}}
          \cup {Btw(Col("k"), Lit("i64", lo), Lit("i64", hi), n) : lo \in {-1, -9}, hi \in {1, 9}, n \in {0, 1}}
          \cup {Btw(Col("d"), Lit("date", lo), Lit("date", hi), n) : lo \in {0}, hi \in {-1, 9}, n \in {0, 1}}
          \cup {Btw(Ar("add", Col("f"), Col("g")), Lit("f64", lo), Col("g"), n) : lo \in {NZ, -20}, n \in {0, 1}}
          \cup {Btw(Col("f"), Col("g"), Lit("f64", PI), n) : n \in {0, 1}}
Bin(A, Bs) == [k : {"and", "or"}, a : A, b : Bs]
NotOf(A) == [k : {"not"}, a : A]
BoolFam == NotOf(BoolLeaves) \cup Bin(BoolLeaves, BoolLeaves) \cup BtwFam
L4 == {Cmp("lt", Col("f"), Lit("f64", PZ)), Cmp("eq", Col("g"), Lit("f64", 10)), Cmp("ge", Col("k"), Lit("i64", 0)), Cmp("ne", Col("d"), Lit("date", -1))}
Bool3Fam == NotOf(Bin(L4, L4)) \cup Bin(Bin(L4, L4), L4) \cup Bin(NotOf(L4), L4) \cup NotOf(BtwFam) \cup Bin(L4, {b \in BtwFam : b.neg = 1 /\ b.x.k = "col"})
Exprs == (IF "f64leaf" \in Families THEN F64Leaf ELSE {}) \cup (IF "intleaf" \in Families THEN IntLeaf ELSE {})
         \cup (IF "decline" \in Families THEN Decline ELSE {}) \cup (IF "arith" \in Families THEN ArithFam ELSE {})
         \cup (IF "arith2" \in Families THEN Arith2Fam ELSE {}) \cup (IF "bool" \in Families THEN BoolFam ELSE {})
         \cup (IF "bool3" \in Families THEN Bool3Fam ELSE {})

\* ---------------------------------------------------------------- the state machine
NoOut == [ri |-> <<>>, rc |-> <<>>, sg |-> <<>>]
Init == /\ e \in Exprs /\ variant \in Variants
        /\ pc = "compile" /\ compiled = 0 /\ out = NoOut
Compile == /\ pc = "compile"
           /\ compiled' = B(InSubset(e))
           /\ pc' = "eval"
           /\ UNCHANGED <<e, variant, out>>
SigCode(s) == (IF "nan" \in s THEN 1 ELSE 0) + (IF "zero" \in s THEN 2 ELSE 0)
Eval == /\ pc = "eval"
        /\ LET T == Table(variant)
           IN out' = [ri |-> [i \in 1..R |-> IF compiled = 1 THEN ResI(e, T[i]) ELSE OUT],      \* declined shapes: the interpreter coerces; not specified here
                      rc |-> [i \in 1..R |-> IF compiled = 1 THEN ResC(e, T[i]) ELSE OUT],
                      sg |-> [i \in 1..R |-> SigCode(Sig(e, T[i]))]]      \* only read where the two differ
        /\ pc' = "done"
        /\ UNCHANGED <<e, variant, compiled>>
Next == Compile \/ Eval

\* ---------------------------------------------------------------- the property (on the model)
\* bit for bit: same validity, and same value on every valid row
Agree == pc = "done" =>
   \A i \in 1..R : \/ out.ri[i] = OUT \/ out.rc[i] = OUT
                   \/ out.ri[i] = out.rc[i]
                   \/ (~Strict /\ out.ri[i] # NULL /\ out.rc[i] # NULL /\ out.sg[i] # 0)
\* the interpreter is null-strict over the referenced columns too (what the compiled validity relies on)
InterpreterNullStrict == pc = "done" =>
   LET T == Table(variant) cs == ColsOf(e)
   IN \A i \in 1..R : out.ri[i] = OUT \/ ((out.ri[i] = NULL) <=> (\E c \in cs : T[i][c] = NULL))
Emit == pc = "done" => EmitCase([e |-> e, variant |-> variant, compiled |-> compiled, ri |-> out.ri, rc |-> out.rc, sg |-> out.sg])
ASSUME \A v \in Variants : EmitTag("TABLE", [variant |-> v, rows |-> R,
                                               f |-> [i \in 1..R |-> Table(v)[i].f], g |-> [i \in 1..R |-> Table(v)[i].g],
                                               k |-> [i \in 1..R |-> Table(v)[i].k], m |-> [i \in 1..R |-> Table(v)[i].m],
                                               d |-> [i \in 1..R |-> Table(v)[i].d]])
====
