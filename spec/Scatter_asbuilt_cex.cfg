CONSTANTS
  MaxN = 2
  GatherMaxN = 0
  Shapes = {"scatter"}
  MaxFaults = 1
  Batches = 2
  Mutants = {"short_stream"}
  MutMaxN = 4
  MutShapes = {"scatter", "gather"}
INIT Init
NEXT Next
INVARIANT NoPartial2
CHECK_DEADLOCK FALSE
