CONSTANTS
  MaxN = 2
  GatherMaxN = 0
  Shapes = {"scatter"}
  MaxFaults = 1
  Batches = 2
  Mutants = {"none"}
  Dev = 1
INIT Init
NEXT Next
INVARIANT NoPartial
CHECK_DEADLOCK FALSE
