---- MODULE Splits_TTrace_1790030126 ----
EXTENDS Sequences, TLCExt, Splits, Toolbox, Naturals, TLC

_expression ==
    LET Splits_TEExpression == INSTANCE Splits_TEExpression
    IN Splits_TEExpression!expression
----

_trace ==
    LET Splits_TETrace == INSTANCE Splits_TETrace
    IN Splits_TETrace!trace
----

_inv ==
    ~(
        TLCGet("level") = Len(_TETrace)
        /\
        inv = ([files |-> <<[name |-> 1, dir |-> 1, rgs |-> <<[rows |-> 1, bytes |-> 1]>>], [name |-> 1, dir |-> 2, rgs |-> <<[rows |-> 1, bytes |-> 2]>>]>>, nodes |-> 1])
        /\
        pc = ("done")
        /\
        shape = ([lens |-> <<1, 1>>, F |-> 2, n |-> 1])
    )
----

_init ==
    /\ pc = _TETrace[1].pc
    /\ shape = _TETrace[1].shape
    /\ inv = _TETrace[1].inv
----

_next ==
    /\ \E i,j \in DOMAIN _TETrace:
        /\ \/ /\ j = i + 1
              /\ i = TLCGet("level")
        /\ pc  = _TETrace[i].pc
        /\ pc' = _TETrace[j].pc
        /\ shape  = _TETrace[i].shape
        /\ shape' = _TETrace[j].shape
        /\ inv  = _TETrace[i].inv
        /\ inv' = _TETrace[j].inv

\* Uncomment the ASSUME below to write the states of the error trace
\* to the given file in Json format. Note that you can pass any tuple
\* to `JsonSerialize`. For example, a sub-sequence of _TETrace.
    \* ASSUME
    \*     LET J == INSTANCE Json
    \*         IN J!JsonSerialize("Splits_TTrace_1790030126.json", _TETrace)

=============================================================================

 Note that you can extract this module `Splits_TEExpression`
  to a dedicated file to reuse `expression` (the module in the 
  dedicated `Splits_TEExpression.tla` file takes precedence 
  over the module `Splits_TEExpression` below).

---- MODULE Splits_TEExpression ----
EXTENDS Sequences, TLCExt, Splits, Toolbox, Naturals, TLC

expression == 
    [
        \* To hide variables of the `Splits` spec from the error trace,
        \* remove the variables below.  The trace will be written in the order
        \* of the fields of this record.
        pc |-> pc
        ,shape |-> shape
        ,inv |-> inv
        
        \* Put additional constant-, state-, and action-level expressions here:
        \* ,_stateNumber |-> _TEPosition
        \* ,_pcUnchanged |-> pc = pc'
        
        \* Format the `pc` variable as Json value.
        \* ,_pcJson |->
        \*     LET J == INSTANCE Json
        \*     IN J!ToJson(pc)
        
        \* Lastly, you may build expressions over arbitrary sets of states by
        \* leveraging the _TETrace operator.  For example, this is how to
        \* count the number of times a spec variable changed up to the current
        \* state in the trace.
        \* ,_pcModCount |->
        \*     LET F[s \in DOMAIN _TETrace] ==
        \*         IF s = 1 THEN 0
        \*         ELSE IF _TETrace[s].pc # _TETrace[s-1].pc
        \*             THEN 1 + F[s-1] ELSE F[s-1]
        \*     IN F[_TEPosition - 1]
    ]

=============================================================================



Parsing and semantic processing can take forever if the trace below is long.
 In this case, it is advised to uncomment the module below to deserialize the
 trace from a generated binary file.

\*
\*---- MODULE Splits_TETrace ----
\*EXTENDS IOUtils, Splits, TLC
\*
\*trace == IODeserialize("Splits_TTrace_1790030126.bin", TRUE)
\*
\*=============================================================================
\*

---- MODULE Splits_TETrace ----
EXTENDS Splits, TLC

trace == 
    <<
    ([inv |-> [files |-> <<>>, nodes |-> 0],pc |-> "shape",shape |-> [lens |-> <<1, 1>>, F |-> 2, n |-> 1]]),
    ([inv |-> [files |-> <<[name |-> 1, dir |-> 1, rgs |-> <<[rows |-> 1, bytes |-> 1]>>], [name |-> 1, dir |-> 2, rgs |-> <<[rows |-> 1, bytes |-> 2]>>]>>, nodes |-> 1],pc |-> "done",shape |-> [lens |-> <<1, 1>>, F |-> 2, n |-> 1]])
    >>
----


=============================================================================

---- CONFIG Splits_TTrace_1790030126 ----
CONSTANTS
    MIN = 4
    MAX = 64
    SPN = 2
    MaxFiles = 2
    MaxRgs = 2
    MaxRows = 2
    ByteVals = { 1 , 2 }
    NodeVals = { 1 , 2 }
    AllowDup = TRUE
    EmitMode = 0
    Regimes = { "small" }

INVARIANT
    _inv

CHECK_DEADLOCK
    \* CHECK_DEADLOCK off because of PROPERTY or INVARIANT above.
    FALSE

INIT
    _init

NEXT
    _next

CONSTANT
    _TETrace <- _trace

ALIAS
    _expression
=============================================================================
\* Generated on Mon Sep 21 22:35:36 UTC 2026