CONSTANTS Threads = {1, 2}
          MaxOps = 2
          MaxSet <- MS_Top
          Sizes <- SZ_2
          Kinds = {"try", "alloc", "resize", "drop"}
          Spurious = FALSE
          Buggy = "none"
          Hist = TRUE
          Canon = TRUE
INIT Init
NEXT Next
INVARIANTS Exact NoWrapWhenFits NoUnderflow NoBadGrant Quiescent EmitDone
CHECK_DEADLOCK FALSE
