CONSTANTS K1 = 3
          K2 = 3
          K3 = 2
          Wide = 1
          Part = "b"
INIT Init
NEXT Next
INVARIANT Inv
CHECK_DEADLOCK FALSE
