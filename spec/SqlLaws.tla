---- MODULE SqlLaws ----
(***************************************************************************)
(* (M) Laws of the SQL semantics module, checked exhaustively by TLC over   *)
(* every small input.  They are the design-level half of the SQL           *)
(* properties: the identities the optimizer and the distributed planner    *)
(* rely on must hold of SqlSem (and the 2VL-only variants must NOT — the   *)
(* *_Bad invariants are expected to be violated; the driver's selftest     *)
(* checks that TLC reports them).                                          *)
(***************************************************************************)
EXTENDS SqlSem

CONSTANTS Family, N      \* N = max rows of the enumerated tables
VARIABLE c

TV == {1, 0, NULL}
Dom == {NULL, 0, 1}

\* ---------------------------------------------------------------- 3VL (C02) --
BoolCases == [a : TV, b : TV, x : Dom, y : Dom]

BoolLaws(k) ==
  /\ And3(k.a, k.b) = And3(k.b, k.a) /\ Or3(k.a, k.b) = Or3(k.b, k.a)
  /\ Not3(Not3(k.a)) = k.a
  /\ Not3(And3(k.a, k.b)) = Or3(Not3(k.a), Not3(k.b))              \* De Morgan holds in Kleene logic
  /\ Not3(Or3(k.a, k.b)) = And3(Not3(k.a), Not3(k.b))
  /\ And3(k.a, 0) = 0 /\ Or3(k.a, 1) = 1                           \* the folds ConstantFolding uses
  /\ And3(k.a, 1) = k.a /\ Or3(k.a, 0) = k.a
  /\ \A z \in TV : And3(k.a, And3(k.b, z)) = And3(And3(k.a, k.b), z)
  /\ \A z \in TV : Or3(k.a, And3(k.b, z)) = And3(Or3(k.a, k.b), Or3(k.a, z))
  \* IN-list and BETWEEN by their expansions
  /\ LET env == [db |-> <<>>, outer |-> <<>>, ctes |-> <<>>, dict |-> <<>>, dev |-> {}]
         lit(v) == [k |-> "lit", v |-> v]
         inl == EvalE([k |-> "in", a |-> lit(k.x), list |-> <<lit(k.y), lit(1)>>, neg |-> 0], <<>>, env)
         nin == EvalE([k |-> "in", a |-> lit(k.x), list |-> <<lit(k.y), lit(1)>>, neg |-> 1], <<>>, env)
         btw == EvalE([k |-> "between", a |-> lit(k.x), lo |-> lit(k.y), hi |-> lit(1), neg |-> 0], <<>>, env)
     IN /\ inl = Or3(Cmp3("=", k.x, k.y), Cmp3("=", k.x, 1))
        /\ nin = Not3(inl)
        /\ (k.y = NULL /\ k.x # 1 => nin # 1)                      \* NOT IN over a list with NULL is never TRUE unless decided
        /\ btw = And3(Cmp3(">=", k.x, k.y), Cmp3("<=", k.x, 1))
  \* a filter keeps a row iff the predicate is TRUE: NULL OR TRUE keeps, NOT (NULL AND FALSE) keeps
  /\ Or3(NULL, 1) = 1 /\ Not3(And3(NULL, 0)) = 1

\* expected to FAIL: null-strict AND/OR differs from Kleene
BoolStrictSame(k) == StrictAnd(k.a, k.b) = And3(k.a, k.b) /\ StrictOr(k.a, k.b) = Or3(k.a, k.b)

\* ------------------------------------------------------------ bags (C24) -----
Rows1 == {<<v>> : v \in Dom}
Bags == UNION {[1..n -> Rows1] : n \in 0..N}
SetCases == [L : Bags, R : Bags]

SetLaws(k) ==
  LET L == k.L  R == k.R
      ua == SetOp({}, "union", 1, L, R)      u == SetOp({}, "union", 0, L, R)
      ia == SetOp({}, "intersect", 1, L, R)  i == SetOp({}, "intersect", 0, L, R)
      ea == SetOp({}, "except", 1, L, R)     e == SetOp({}, "except", 0, L, R)
  IN /\ BagEq(ua, L \o R)
     /\ BagEq(u, DistinctSeq(L \o R))
     /\ SubBagOf(ia, L) /\ SubBagOf(ia, R)
     /\ BagEq(ia \o ea, L)                                          \* (L ∩all R) ⊎ (L −all R) = L
     /\ BagEq(i, DistinctSeq(ia)) /\ BagEq(SetOp({}, "intersect", 1, R, L), ia)
     /\ BagEq(e, SelectSeq(DistinctSeq(L), LAMBDA r : Mult(R, r) = 0))
     /\ \A j \in DOMAIN u : Mult(u, u[j]) = 1                       \* NULLs are not distinct from each other
     /\ (Mult(L, <<NULL>>) > 0 /\ Mult(R, <<NULL>>) > 0 => Mult(i, <<NULL>>) = 1)

\* expected to FAIL: the join-based lowering loses NULL rows
SetJoinSame(k) == BagEq(SetOp({"SetOpJoin"}, "intersect", 0, k.L, k.R), SetOp({}, "intersect", 0, k.L, k.R))

\* ----------------------------------------------------------- joins (C22) -----
Tabs == UNION {[1..n -> [1..2 -> Dom]] : n \in 0..N}
JoinCases == [L : Tabs, R : Tabs, res : {0, 1}]

JoinLaws(k) ==
  LET col(i) == [k |-> "col", d |-> 0, i |-> i]
      eq == [k |-> "cmp", op |-> "=", a |-> col(1), b |-> col(3)]
      resid == [k |-> "cmp", op |-> "<=", a |-> col(2), b |-> col(4)]
      on == IF k.res = 1 THEN [k |-> "and", a |-> eq, b |-> resid] ELSE eq
      env == [db |-> [l |-> [rows |-> k.L], r |-> [rows |-> k.R]], outer |-> <<>>, ctes |-> <<>>, dict |-> <<>>, dev |-> {}]
      T(n) == [k |-> "table", name |-> n]
      J(kind, a, b, o) == FromRows([k |-> "join", kind |-> kind, l |-> a, r |-> b, on |-> o, ln |-> 2, rn |-> 2], env)
      swap(rows) == [j \in DOMAIN rows |-> SubSeq(rows[j], 3, 4) \o SubSeq(rows[j], 1, 2)]
      onS == IF k.res = 1 THEN [k |-> "and", a |-> [k |-> "cmp", op |-> "=", a |-> col(3), b |-> col(1)],
                                b |-> [k |-> "cmp", op |-> "<=", a |-> col(4), b |-> col(2)]]
             ELSE [k |-> "cmp", op |-> "=", a |-> col(3), b |-> col(1)]
      inner == J("inner", T("l"), T("r"), on)
      left == J("left", T("l"), T("r"), on)
      right == J("right", T("l"), T("r"), on)
      full == J("full", T("l"), T("r"), on)
      cross == J("cross", T("l"), T("r"), [k |-> "lit", v |-> 1])
  IN /\ SubBagOf(inner, left) /\ SubBagOf(inner, right) /\ SubBagOf(left, full) /\ SubBagOf(right, full)
     /\ SubBagOf(inner, cross)
     /\ Len(full) = Len(left) + Len(right) - Len(inner)
     /\ BagEq(right, swap(J("left", T("r"), T("l"), onS)))           \* RIGHT = mirrored LEFT
     /\ \A j \in DOMAIN inner : inner[j][1] # NULL /\ inner[j][3] # NULL      \* NULL keys never match
     /\ \A j \in DOMAIN k.L : \E m \in DOMAIN left : SubSeq(left[m], 1, 2) = k.L[j]  \* every preserved row survives
     \* residual is part of the match (before match tracking): an unmatched-by-residual left row is NULL-extended
     /\ \A j \in DOMAIN left : (left[j][3] = NULL /\ left[j][4] = NULL) \/ Mult(inner, left[j]) > 0

\* expected to FAIL: applying the residual as a post-join filter of a LEFT join
JoinResidualPostFilterSame(k) ==
  LET col(i) == [k |-> "col", d |-> 0, i |-> i]
      eq == [k |-> "cmp", op |-> "=", a |-> col(1), b |-> col(3)]
      resid == [k |-> "cmp", op |-> "<=", a |-> col(2), b |-> col(4)]
      env == [db |-> [l |-> [rows |-> k.L], r |-> [rows |-> k.R]], outer |-> <<>>, ctes |-> <<>>, dict |-> <<>>, dev |-> {}]
      T(n) == [k |-> "table", name |-> n]
      J(o) == FromRows([k |-> "join", kind |-> "left", l |-> T("l"), r |-> T("r"), on |-> o, ln |-> 2, rn |-> 2], env)
  IN BagEq(J([k |-> "and", a |-> eq, b |-> resid]), SelectSeq(J(eq), LAMBDA r : EvalE(resid, r, env) = 1))

\* ------------------------------------------------------ aggregates (C21) -----
AggTabs == UNION {[1..n -> [1..2 -> Dom]] : n \in 0..N}
AggCases == [T : AggTabs, keyed : {0, 1}]

AggLaws(k) ==
  LET col(i) == [k |-> "col", d |-> 0, i |-> i]
      env == [db |-> <<>>, outer |-> <<>>, ctes |-> <<>>, dict |-> <<>>, dev |-> {}]
      A(f) == [f |-> f, a |-> col(2), distinct |-> 0]
      g == [on |-> 1, keys |-> IF k.keyed = 1 THEN <<col(1)>> ELSE <<>>,
            aggs |-> <<[f |-> "count*", a |-> col(2), distinct |-> 0], A("count"), A("sum"), A("min"), A("max"),
                      [f |-> "count", a |-> col(2), distinct |-> 1]>>,
            having |-> [k |-> "lit", v |-> 1], sets |-> <<>>]
      out == GroupRows(g, k.T, env)
      nk == k.keyed
  IN /\ (nk = 0 => Len(out) = 1)                                     \* global aggregate: exactly one row, even on no rows
     /\ (nk = 1 /\ k.T = <<>> => out = <<>>)                          \* grouped aggregate over no rows: no rows
     /\ SumS([j \in DOMAIN out |-> out[j][nk + 1]]) = Len(k.T)        \* groups partition the input
     /\ \A j \in DOMAIN out :
          LET r == out[j] IN
          /\ r[nk + 2] <= r[nk + 1]                                   \* COUNT(x) <= COUNT(*)
          /\ (r[nk + 2] = 0) = (r[nk + 3] = NULL)                     \* SUM is NULL exactly when no non-NULL input
          /\ (r[nk + 2] = 0) = (r[nk + 4] = NULL) /\ (r[nk + 2] = 0) = (r[nk + 5] = NULL)
          /\ (r[nk + 2] > 0 => r[nk + 4] <= r[nk + 5])
          /\ r[nk + 6] <= r[nk + 2]                                   \* COUNT(DISTINCT x) <= COUNT(x)
     /\ (nk = 1 => \A i, j \in DOMAIN out : i # j => out[i][1] # out[j][1])   \* NULL keys form ONE group

\* ---------------------------------------------------- ORDER/LIMIT (C25) ------
OrdTabs == UNION {[1..n -> [1..2 -> {NULL, 0, 1}]] : n \in 0..N}
OrdCases == [T : OrdTabs, desc : {0, 1}, nf : {0, 1}, lim : {-1, 0, 1, 2, 4}, off : {0, 1, 3}]

OrdQ(k) == [k |-> "select", from |-> [k |-> "table", name |-> "t"], where |-> [k |-> "lit", v |-> 1], group |-> [on |-> 0],
            proj |-> <<[k |-> "col", d |-> 0, i |-> 2], [k |-> "col", d |-> 0, i |-> 1]>>, distinct |-> 0,
            order |-> <<[e |-> [k |-> "col", d |-> 0, i |-> 1], desc |-> k.desc, nf |-> k.nf]>>, limit |-> k.lim, offset |-> k.off]
OrdEnv(k) == [db |-> [t |-> [rows |-> k.T]], outer |-> <<>>, ctes |-> <<>>, dict |-> <<>>, dev |-> {}]

OrdLaws(k) ==
  LET q == OrdQ(k)  env == OrdEnv(k)  ans == Answer(q, env)  n == Len(k.T)
      expect == IF k.lim < 0 THEN Max2(n - k.off, 0) ELSE Max2(Min2(k.lim, n - k.off), 0)
      nullsFirst == k.nf = 1
  IN /\ Allowed(q, env, ans)                                         \* the canonical answer is an allowed answer
     /\ Len(ans) = expect                                            \* LIMIT n OFFSET m = rows m+1..m+n
     /\ (k.lim < 0 /\ k.off = 0 => \A j \in 1..(Len(ans) - 1) :       \* sorted, NULLs where NULLS FIRST/LAST puts them
            LET a == ans[j][2]  b == ans[j + 1][2] IN
            IF a = NULL THEN (nullsFirst \/ b = NULL)
            ELSE IF b = NULL THEN ~nullsFirst
            ELSE IF k.desc = 1 THEN a >= b ELSE a <= b)
     \* a reversed answer is rejected whenever two adjacent keys differ
     /\ (Len(ans) >= 2 /\ ans[1][2] # ans[Len(ans)][2] => ~Allowed(q, env, Reverse(ans)))

\* --------------------------------------------------- subqueries (C23) --------
SubCases == [x : Dom, S : UNION {[1..n -> Dom] : n \in 0..3}]
SubLaws(k) ==
  LET env == [db |-> [s |-> [rows |-> [j \in DOMAIN k.S |-> <<k.S[j]>>]]], outer |-> <<>>, ctes |-> <<>>, dict |-> <<>>, dev |-> {}]
      q == [k |-> "select", from |-> [k |-> "table", name |-> "s"], where |-> [k |-> "lit", v |-> 1], group |-> [on |-> 0],
            proj |-> <<[k |-> "col", d |-> 0, i |-> 1]>>, distinct |-> 0, order |-> <<>>, limit |-> -1, offset |-> 0]
      lit(v) == [k |-> "lit", v |-> v]
      inn == EvalE([k |-> "insub", a |-> lit(k.x), q |-> q, neg |-> 0], <<>>, env)
      nin == EvalE([k |-> "insub", a |-> lit(k.x), q |-> q, neg |-> 1], <<>>, env)
      ex == EvalE([k |-> "exists", q |-> q, neg |-> 0], <<>>, env)
      hasNull == \E j \in DOMAIN k.S : k.S[j] = NULL
      hit == \E j \in DOMAIN k.S : k.S[j] # NULL /\ k.S[j] = k.x /\ k.x # NULL
  IN /\ (k.S = <<>> => inn = 0 /\ nin = 1 /\ ex = 0)                  \* empty set: IN false, NOT IN true
     /\ ex \in {0, 1}                                                \* EXISTS is two-valued
     /\ (hit => inn = 1 /\ nin = 0)
     /\ (~hit /\ (hasNull \/ (k.x = NULL /\ k.S # <<>>)) => inn = NULL /\ nin = NULL)   \* NOT IN over a set with NULL keeps no row
     /\ (~hit /\ ~hasNull /\ k.x # NULL => inn = 0 /\ nin = 1)

\* expected to FAIL: NOT IN as a plain anti join (skipping NULLs)
NotInAntiJoinSame(k) ==
  LET env(dev) == [db |-> [s |-> [rows |-> [j \in DOMAIN k.S |-> <<k.S[j]>>]]], outer |-> <<>>, ctes |-> <<>>, dict |-> <<>>, dev |-> dev]
      q == [k |-> "select", from |-> [k |-> "table", name |-> "s"], where |-> [k |-> "lit", v |-> 1], group |-> [on |-> 0],
            proj |-> <<[k |-> "col", d |-> 0, i |-> 1]>>, distinct |-> 0, order |-> <<>>, limit |-> -1, offset |-> 0]
      e == [k |-> "insub", a |-> [k |-> "lit", v |-> k.x], q |-> q, neg |-> 1]
  IN (EvalE(e, <<>>, env({})) = 1) = (EvalE(e, <<>>, env({"InSubSkipsNull"})) = 1)

\* ---------------------------------------------------------------- driver -----
Cases == CASE Family = "bool" -> BoolCases [] Family = "set" -> SetCases [] Family = "join" -> JoinCases
           [] Family = "agg" -> AggCases [] Family = "ord" -> OrdCases [] Family = "sub" -> SubCases
Init == c \in Cases
Next == FALSE /\ c' = c
Laws == CASE Family = "bool" -> BoolLaws(c) [] Family = "set" -> SetLaws(c) [] Family = "join" -> JoinLaws(c)
          [] Family = "agg" -> AggLaws(c) [] Family = "ord" -> OrdLaws(c) [] Family = "sub" -> SubLaws(c)
BadLaw == CASE Family = "bool" -> BoolStrictSame(c) [] Family = "set" -> SetJoinSame(c)
            [] Family = "join" -> JoinResidualPostFilterSame(c) [] Family = "sub" -> NotInAntiJoinSame(c) [] OTHER -> FALSE
====
