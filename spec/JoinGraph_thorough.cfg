CONSTANT N = 5
INIT Init
NEXT Next
INVARIANT EveryJoinHasEquality
INVARIANT RelationsOnce
INVARIANT AllPredicatesKept
INVARIANT TypeOK
