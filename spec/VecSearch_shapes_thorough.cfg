CONSTANTS Fam = "shapes"
          MaxN = 0
          NTab = 3
          Syms <- SymsSmall
          Ks <- KsAll
          Ms <- MsAll
          EmitMod = 1
          Gate = "asbuilt"
INIT Init
NEXT Next
INVARIANT FiresOnlyOnCanonical
INVARIANT ExactWhenAsked
INVARIANT AcceptLaws
INVARIANT Emit
CHECK_DEADLOCK FALSE
