---- MODULE Membership ----
(***************************************************************************)
(* C15 — the cluster membership view of one node                           *)
(* (/repo/src/distributed/membership.rs, driven by the discovery/probe     *)
(* loop of /repo/src/distributed/server.rs).                               *)
(*                                                                         *)
(* One action per public call of `Membership` (each runs under the state   *)
(* mutex, so a call is one atomic step):                                   *)
(*   SetMembers(S)     set_members(addresses)   a discovery result         *)
(*   RecordUp(a, id)   record_up(addr, id, _)   a successful probe         *)
(*   RecordDown(a, e)  record_down(addr, err)   a failed probe             *)
(*   ResolveError(e)   record_resolve_error(e)  discovery itself failed    *)
(*                                                                         *)
(* Addresses are integers: the RANK of the concrete "host:port" string in  *)
(* the byte-wise sorted universe, so "sorted by address" is integer order. *)
(* Which addresses denote this node (SelfSpellings) is a constant computed *)
(* by the harness independently of is_self_address.                        *)
(*                                                                         *)
(* Two layers (DESIGN 1.3):                                                *)
(*   Apply(o, s)        the MODEL: what the code does, deterministically   *)
(*                      (generation +1 on set change and on Up/Down flips) *)
(*   Contract(o, s, t)  the PROPERTY: what C15 pins for a step s -o-> t    *)
(*                      (only inequalities on the generation)              *)
(* TLC checks that every model step satisfies the contract (and the finer  *)
(* design-level step properties); MembershipTrace.tla judges steps of the  *)
(* real code with Contract (violation) and with Apply (fidelity).          *)
(***************************************************************************)
EXTENDS VerifIO, SequencesExt

CONSTANTS Addr,            \* set of address ranks (integers)
          Self,            \* this node's advertised address
          SelfSpellings,   \* every address in Addr that denotes this node (contains Self)
          NodeIds,         \* node ids a probe may report (NULL = the probe had none)
          ErrCodes,        \* error texts, as codes
          Variants,        \* how a set is handed to set_members: 0 asc, 1 desc, 2 doubled, 3 desc + repeat
          Record,          \* TRUE: carry the history variable (behaviour emission)
          MaxFails, MaxGen, MaxDepth    \* state constraint of the bounded runs

ASSUME /\ Self \in SelfSpellings /\ SelfSpellings \subseteq Addr
       /\ NULL \notin NodeIds /\ NULL \notin ErrCodes

UNKNOWN == 0
UP == 1
DOWN == 2
Fresh == [st |-> UNKNOWN, id |-> NULL, fails |-> 0, err |-> NULL]

\* ---- operations ------------------------------------------------------------
OpSet(S, v)  == [k |-> "set",  S |-> S,  v |-> v, a |-> 0, id |-> NULL, e |-> NULL]
OpUp(a, id)  == [k |-> "up",   S |-> {}, v |-> 0, a |-> a, id |-> id,   e |-> NULL]
OpDown(a, e) == [k |-> "down", S |-> {}, v |-> 0, a |-> a, id |-> NULL, e |-> e]
OpErr(e)     == [k |-> "err",  S |-> {}, v |-> 0, a |-> 0, id |-> NULL, e |-> e]
NoOp         == [k |-> "init", S |-> {}, v |-> 0, a |-> 0, id |-> NULL, e |-> NULL]

\* ---- the model: states are records [peers, resolved, gen, lastErr] ----------
InitSt == [peers |-> <<>>, resolved |-> 0, gen |-> 0, lastErr |-> NULL]
DomP(s) == DOMAIN s.peers

ApplySet(S, s) ==
  LET inc == S \ SelfSpellings
      np  == [a \in inc |-> IF a \in DomP(s) THEN s.peers[a] ELSE Fresh]
  IN [peers |-> np, resolved |-> 1,
      gen |-> IF inc # DomP(s) THEN s.gen + 1 ELSE s.gen,
      lastErr |-> NULL]

ApplyUp(a, id, s) ==
  IF a \notin DomP(s) THEN s
  ELSE LET p == s.peers[a]
           q == [st |-> UP, id |-> IF id # NULL THEN id ELSE p.id, fails |-> 0, err |-> NULL]
       IN [s EXCEPT !.peers = [s.peers EXCEPT ![a] = q],
                    !.gen = IF p.st # UP THEN s.gen + 1 ELSE s.gen]

ApplyDown(a, e, s) ==
  IF a \notin DomP(s) THEN s
  ELSE LET p == s.peers[a]
           q == [st |-> DOWN, id |-> p.id, fails |-> p.fails + 1, err |-> e]
       IN [s EXCEPT !.peers = [s.peers EXCEPT ![a] = q],
                    !.gen = IF p.st = UP THEN s.gen + 1 ELSE s.gen]

ApplyErr(e, s) == [s EXCEPT !.lastErr = e]

Apply(o, s) == CASE o.k = "set"  -> ApplySet(o.S, s)
                 [] o.k = "up"   -> ApplyUp(o.a, o.id, s)
                 [] o.k = "down" -> ApplyDown(o.a, o.e, s)
                 [] o.k = "err"  -> ApplyErr(o.e, s)
                 [] OTHER        -> s

\* what set_members returns: removals then additions, each sorted by address
Changes(S, s) ==
  LET inc == S \ SelfSpellings
      rm  == SetToSortSeq(DomP(s) \ inc, <)
      ad  == SetToSortSeq(inc \ DomP(s), <)
  IN [i \in 1..Len(rm) |-> <<0, rm[i]>>] \o [i \in 1..Len(ad) |-> <<1, ad[i]>>]

\* ---- the view ------------------------------------------------------------------
Asc(S) == SetToSortSeq(S, <)
View(s) == Asc(DomP(s) \cup {Self})               \* members(): peers plus this node, sorted
StrictlySorted(q) == \A i \in 1..(Len(q) - 1) : q[i] < q[i + 1]
Count(q, x) == Cardinality({i \in DOMAIN q : q[i] = x})

\* ---- C15, state part --------------------------------------------------------------
NoSelfPeerC(s) == DomP(s) \cap SelfSpellings = {}                  \* never as a peer
ViewOkC(s) == LET v == View(s) IN /\ StrictlySorted(v)               \* sorted and unique
                                   /\ Count(v, Self) = 1              \* this node exactly once
                                   /\ \A i \in DOMAIN v : v[i] \in SelfSpellings => v[i] = Self

\* ---- C15, step part: s -o-> t -------------------------------------------------------
GenMonoC(s, t)     == t.gen >= s.gen
GenOnChangeC(s, t) == DomP(t) # DomP(s) => t.gen > s.gen
ErrKeepsC(o, s, t) == o.k = "err" => DomP(s) \subseteq DomP(t)       \* never removes a member
SameSet(o, s)      == o.k = "set" /\ (o.S \ SelfSpellings) = DomP(s)
SameSetKeepsC(o, s, t) == SameSet(o, s) =>                             \* re-resolving the same set
                            \A a \in DomP(s) : a \in DomP(t) /\ t.peers[a] = s.peers[a]
Contract(o, s, t) == /\ GenMonoC(s, t) /\ GenOnChangeC(s, t)
                     /\ ErrKeepsC(o, s, t) /\ SameSetKeepsC(o, s, t)
                     /\ NoSelfPeerC(t) /\ ViewOkC(t)

\* ---- design-level step properties (finer than the property text: fidelity) ---------
ErrKeepsAllC(o, s, t)  == o.k = "err" => t.peers = s.peers /\ t.resolved = s.resolved /\ t.gen = s.gen
SetExactC(o, s, t)     == o.k = "set" => DomP(t) = o.S \ SelfSpellings /\ t.resolved = 1 /\ t.lastErr = NULL
SurvivorsKeepC(o, s, t) == o.k = "set" => \A a \in DomP(s) \cap DomP(t) : t.peers[a] = s.peers[a]
NewAreFreshC(o, s, t)  == o.k = "set" => \A a \in DomP(t) \ DomP(s) : t.peers[a] = Fresh
OnlyNamedC(o, s, t)    == o.k \in {"up", "down"} =>
                            /\ DomP(t) = DomP(s)
                            /\ \A b \in DomP(s) \ {o.a} : t.peers[b] = s.peers[b]
                            /\ t.resolved = s.resolved /\ t.lastErr = s.lastErr
GenStepC(s, t)         == t.gen \in {s.gen, s.gen + 1}
Design(o, s, t) == /\ ErrKeepsAllC(o, s, t) /\ SetExactC(o, s, t) /\ SurvivorsKeepC(o, s, t)
                   /\ NewAreFreshC(o, s, t) /\ OnlyNamedC(o, s, t) /\ GenStepC(s, t)

\* ---- the state machine ------------------------------------------------------------------
VARIABLES peers, resolved, gen, lastErr,
          op,      \* the operation of the last step (hidden by VIEW)
          hist     \* history of <<operation, state after it>> (only when Record; hidden by VIEW)
vars == <<peers, resolved, gen, lastErr, op, hist>>
St == [peers |-> peers, resolved |-> resolved, gen |-> gen, lastErr |-> lastErr]

\* the concrete argument vector of set_members for a set and a variant
Conc(S, v) == LET a == Asc(S) IN
              CASE v = 0 -> a
                [] v = 1 -> Reverse(a)
                [] v = 2 -> a \o a
                [] OTHER -> Reverse(a) \o SubSeq(a, 1, Min2(1, Len(a)))

\* compact, JSON-friendly rendering (NULL travels as -1 to keep lines short)
J(x) == IF x = NULL THEN -1 ELSE x
PeersSeq(p) == LET d == Asc(DOMAIN p)
               IN [i \in 1..Len(d) |-> <<d[i], p[d[i]].st, J(p[d[i]].id), p[d[i]].fails, J(p[d[i]].err)>>]
\* one history entry: <<k, L, a, id, e, peers, resolved, gen, lastErr>>
Entry(o, t) == <<o.k, Conc(o.S, o.v), o.a, J(o.id), J(o.e), PeersSeq(t.peers), t.resolved, t.gen, J(t.lastErr)>>

Init == /\ peers = <<>> /\ resolved = 0 /\ gen = 0 /\ lastErr = NULL
        /\ op = NoOp /\ hist = <<>>

Step(o) == LET t == Apply(o, St) IN
           /\ peers' = t.peers /\ resolved' = t.resolved /\ gen' = t.gen /\ lastErr' = t.lastErr
           /\ op' = o
           /\ hist' = IF Record THEN Append(hist, Entry(o, t)) ELSE hist

\* The leading state conjunct keeps TLC from splitting these into one action per constant
\* parameter value at start-up: split actions share ONE record value between all worker
\* threads, and TLC normalizes records in place when fingerprinting (observed race:
\* "Field name S occurs multiple times in record").  Evaluated per state, every
\* operation record is a fresh value.
Live == resolved \in {0, 1}
SetMembers   == Live /\ \E S \in SUBSET Addr, v \in Variants : Step(OpSet(S, v))
RecordUp     == Live /\ \E a \in Addr, id \in NodeIds \cup {NULL} : Step(OpUp(a, id))
RecordDown   == Live /\ \E a \in Addr, e \in ErrCodes : Step(OpDown(a, e))
ResolveError == Live /\ \E e \in ErrCodes : Step(OpErr(e))
Next == SetMembers \/ RecordUp \/ RecordDown \/ ResolveError
Spec == Init /\ [][Next]_vars

\* ---- what TLC checks on the model ---------------------------------------------------------
TypeOK == /\ DomP(St) \subseteq Addr
          /\ \A a \in DomP(St) : /\ peers[a].st \in {UNKNOWN, UP, DOWN}
                                 /\ peers[a].id \in NodeIds \cup {NULL}
                                 /\ peers[a].fails \in Nat
                                 /\ peers[a].err \in ErrCodes \cup {NULL}
                                 /\ (peers[a].st = UP => peers[a].fails = 0 /\ peers[a].err = NULL)
                                 /\ (peers[a].st = DOWN => peers[a].fails >= 1 /\ peers[a].err # NULL)
                                 /\ (peers[a].st = UNKNOWN => peers[a] = Fresh)
          /\ resolved \in {0, 1} /\ gen \in Nat /\ lastErr \in ErrCodes \cup {NULL}
          /\ (resolved = 0 => DomP(St) = {})
NoSelfPeer == NoSelfPeerC(St)
ViewOk     == ViewOkC(St)

GenMono      == [][GenMonoC(St, St')]_vars
GenOnChange  == [][GenOnChangeC(St, St')]_vars
ErrKeeps     == [][ErrKeepsC(op', St, St')]_vars
SameSetKeeps == [][SameSetKeepsC(op', St, St')]_vars
StepContract == [][Contract(op', St, St')]_vars
StepDesign   == [][Design(op', St, St')]_vars

\* VIEWs: the history variables never distinguish states
MView == <<peers, resolved, gen, lastErr>>
\* transition cover: the generation is a counter no operation reads, so states are
\* identified modulo its value (every operation commutes with shifting gen)
CView == <<peers, resolved, lastErr>>

MaxFailsIn(s) == \A a \in DomP(s) : s.peers[a].fails <= MaxFails
Bound == gen <= MaxGen /\ MaxFailsIn(St)
CoverBound == MaxFailsIn(St)

\* ---- behaviour emission (spec -> implementation replay) ---------------------------------------
\* (a) all paths: every behaviour of exactly MaxDepth steps (hist is part of the state)
PathBound == Len(hist) <= MaxDepth - 1            \* states at depth MaxDepth are generated, not expanded
EmitPaths == Len(hist) = MaxDepth => EmitCase(hist)
\* (b) transition cover: every edge of the (CView) state graph, with a shortest path to its source
NextCover == Next /\ EmitCase(hist')
\* (c) simulation: one random operation per step, biased towards what the property talks about
\*     (re-resolving the same set with self spellings mixed in, probes of current peers)
RandomSetOp ==
  LET r == RandomElement(1..10)
      v == RandomElement(Variants)
      cur == DomP(St)
  IN IF r <= 3 THEN OpSet(cur \cup RandomElement(SUBSET SelfSpellings), v)
     ELSE IF r <= 5 /\ cur # {} THEN OpSet((cur \ {RandomElement(cur)}) \cup RandomElement(SUBSET SelfSpellings), v)
     ELSE IF r <= 7 THEN OpSet(cur \cup {RandomElement(Addr)}, v)
     ELSE OpSet(RandomElement(SUBSET Addr), v)
RandomProbeAddr == LET cur == DomP(St) IN
                   IF cur # {} /\ RandomElement(1..10) <= 8 THEN RandomElement(cur) ELSE RandomElement(Addr)
RandomOp ==
  LET r == RandomElement(1..20)
  IN IF r <= 6 THEN RandomSetOp
     ELSE IF r <= 12 THEN OpUp(RandomProbeAddr, RandomElement(NodeIds \cup {NULL}))
     ELSE IF r <= 18 THEN OpDown(RandomProbeAddr, RandomElement(ErrCodes))
     ELSE OpErr(RandomElement(ErrCodes))
NextSim == \E o \in {RandomOp} : Step(o)
EmitSim == Len(hist) = MaxDepth => EmitCase(hist)
====
