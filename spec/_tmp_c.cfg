CONSTANTS
  MaxN = 4
  GatherMaxN = 4
  Shapes = {"scatter","gather"}
  MaxFaults = 2
  Batches = 1
  Mutants = {"none"}
  Dev = 0
INIT Init
NEXT Next
INVARIANT TypeOK
INVARIANT NoPartial
INVARIANT AnyFault
INVARIANT Contract
INVARIANT FaultFreeAnswers
INVARIANT NothingBeforeAll
INVARIANT BlameIsGuilty
INVARIANT Emit
CHECK_DEADLOCK TRUE
