\* (R) random walks of MaxDepth operations (run with -simulate num=N -depth MaxDepth+1)
CONSTANTS Addr <- EnvAddr
          Self <- EnvSelf
          SelfSpellings <- EnvSelfSpellings
          NodeIds <- EnvNodeIds
          ErrCodes <- EnvErrCodes
          Variants <- EnvVariants
          Record = TRUE
          MaxFails <- EnvMaxFails
          MaxGen <- EnvMaxGen
          MaxDepth <- EnvMaxDepth
INIT Init
NEXT NextSim
INVARIANT NoSelfPeer
INVARIANT ViewOk
INVARIANT EmitSim
CHECK_DEADLOCK FALSE
