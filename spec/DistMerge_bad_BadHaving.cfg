CONSTANTS N = 3
 NShards = 2
 Family = "twophase"
INIT Init
NEXT Next
INVARIANT BadHaving
CHECK_DEADLOCK FALSE
