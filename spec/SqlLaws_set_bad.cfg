CONSTANTS Family = "set"
          N = 3
INIT Init
NEXT Next
INVARIANT BadLaw
CHECK_DEADLOCK FALSE
