CONSTANTS MaxFiles = 4
          MaxActions = 6
          Styles = {0, 1, 2, 10, 11, 12, 20, 21, 22, 30, 31, 32}
          TieAll = TRUE
          EmitOn = TRUE
INIT Init
NEXT Next
INVARIANT LiveIsTruth
INVARIANT LiveNeverDeleted
INVARIANT LiveOnce
INVARIANT RowsExactlyLive
INVARIANT RefusedWhenDue
INVARIANT CurrentDefined
INVARIANT AcceptPinned
INVARIANT UnknownRefused
INVARIANT Bounded
INVARIANT CountsWellFormed
INVARIANT Emit
PROPERTY TimeTravelStable
CHECK_DEADLOCK FALSE
