CONSTANTS N = 2
 NShards = 2
 Family = "topn"
INIT Init
NEXT Next
INVARIANT Laws
CHECK_DEADLOCK FALSE
