\* (M) exhaustive: every history over the full universe, bounded by Bound (fails, gen)
CONSTANTS Addr <- EnvAddr
          Self <- EnvSelf
          SelfSpellings <- EnvSelfSpellings
          NodeIds <- EnvNodeIds
          ErrCodes <- EnvErrCodes
          Variants <- EnvVariants
          Record = FALSE
          MaxFails <- EnvMaxFails
          MaxGen <- EnvMaxGen
          MaxDepth <- EnvMaxDepth
INIT Init
NEXT Next
VIEW MView
CONSTRAINT Bound
INVARIANT TypeOK
INVARIANT NoSelfPeer
INVARIANT ViewOk
PROPERTY StepContract
PROPERTY StepDesign
CHECK_DEADLOCK FALSE
