CONSTANTS Fam = "answers"
          MaxN = 4
          NTab = 1
          Syms <- SymsSmall
          Ks <- KsAll
          Ms <- MsAll
          EmitMod = 41
          Gate = "asbuilt"
INIT Init
NEXT Next
INVARIANT FiresOnlyOnCanonical
INVARIANT ExactWhenAsked
INVARIANT AcceptLaws
INVARIANT Emit
CHECK_DEADLOCK FALSE
