CONSTANTS K1 = 3
          K2 = 2
          K3 = 1
          Wide = 0
          Part = "a"
INIT Init
NEXT Next
INVARIANT Inv
CHECK_DEADLOCK FALSE
