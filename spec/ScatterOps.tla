---- MODULE ScatterOps ----
(***************************************************************************)
(* C10 — vocabulary and the CONTRACT of "a failing fragment fails the      *)
(* whole query", shared by the model (Scatter.tla) and by the judge of     *)
(* recorded executions of the real coordinator (ScatterTrace.tla).         *)
(*                                                                         *)
(* What happened to one remote fragment (one shard of one table):          *)
(*   ok             the worker's complete response arrived                 *)
(*   transport      connect / read error (no HTTP response at all)         *)
(*   http           a complete non-2xx response (503, 500, 400 ...)        *)
(*   digest         the worker's own digest check refused (HTTP 400)       *)
(*   trunc_hdr      cut inside the status line / header block              *)
(*   trunc_term     cut exactly at the header terminator (empty body)      *)
(*   trunc_inmsg    body cut inside IPC message k (past its 4-byte         *)
(*                  continuation marker)                                   *)
(*   trunc_marker   body cut inside the 4-byte continuation marker that    *)
(*                  opens a message, rows still to come                    *)
(*   trunc_boundary body cut exactly at an IPC message boundary, rows      *)
(*                  still to come                                          *)
(*   trunc_eos      every message with rows arrived; only (part of) the    *)
(*                  8-byte end-of-stream marker - or trailing row-less     *)
(*                  messages - are lost                                    *)
(*   corrupt        all bytes arrived, but they are not the bytes sent     *)
(*                  (framing / metadata destroyed, foreign body)           *)
(* Outcome of the distributed query:                                       *)
(*   err   an error                                                        *)
(*   full  exactly the answer of the fault-free run                        *)
(*   short an answer that is NOT the full one (rows or partial aggregates  *)
(*         of some shard are missing)                                      *)
(***************************************************************************)
EXTENDS Naturals, Integers, Sequences, FiniteSets

ErrWire   == {"transport", "http", "digest", "trunc_hdr"}      \* the transport itself reports an error
CutKinds  == {"trunc_term", "trunc_inmsg", "trunc_marker", "trunc_boundary", "trunc_eos"}
FaultKinds == ErrWire \cup CutKinds \cup {"corrupt"}
Terminal  == {"ok"} \cup FaultKinds
Harmless  == {"ok", "trunc_eos"}                 \* every row of the shard reached the initiator
ShortCuts == {"trunc_boundary", "trunc_marker"}  \* a proper prefix of the messages, cut where a reader sees a clean end
LocalSt   == {"none", "ok", "err"}               \* the initiator's own shard of a table (none: it owns no split)

\* The property: any failed shard => error, never a partial answer.  For trunc_eos the
\* statement's "never a partial answer" is what is pinned (every row is there): err or full.
MustErr(kinds, locals) == (\E l \in locals : l = "err") \/ (\E k \in kinds : k \notin Harmless)

\* dev = 0: the contract.  dev = 1: the contract weakened by the listed deviation DevShortStream
\* (known finding C10/ipc-cut-at-message-boundary): a payload cut at a message boundary / inside the
\* following continuation marker is taken for a complete, shorter stream and merged: no error, and the
\* answer lacks what the lost rows contribute ("short") - or happens not to depend on them ("full":
\* DISTINCT, a filter above the gathered rows, a TopN the lost rows were not part of).
Allowed(kinds, locals, dev) ==
  IF MustErr(kinds, locals)
  THEN {"err"} \cup (IF dev = 1 /\ (\A l \in locals : l # "err") /\ kinds \subseteq (Harmless \cup ShortCuts)
                     THEN {"short", "full"} ELSE {})
  ELSE IF "trunc_eos" \in kinds THEN {"err", "full"} ELSE {"full"}

\* Recorded executions know one more thing that can happen to a response: "flip", ONE byte of the
\* payload changed.  Without a payload checksum a flipped value byte is not detectable by anyone, and a
\* flipped padding byte changes nothing; so for a flip the contract only rules out what a decoder can
\* rule out: an answer with other ROW COUNTS than the full one ("short"), and no answer at all.
\* "garbled" = the full row count with other cell values.
\* "flip_short" = a flip after which the payload still decodes, but to FEWER rows than its worker declared (e.g. a
\* message header turned into an end-of-stream marker): as detectable as a cut at a message boundary, and judged like one.
AllowedRec(kinds, locals, dev) ==
  LET ks == (kinds \ {"flip_short"}) \cup (IF "flip_short" \in kinds THEN {"trunc_boundary"} ELSE {}) IN
  IF "flip" \in ks
  THEN IF MustErr(ks \ {"flip"}, locals) THEN Allowed(ks \ {"flip"}, locals, dev)
       ELSE {"err", "full", "garbled"}
  ELSE Allowed(ks, locals, dev)

\* named mutants of the coordinator (each must be rejected by the contract in some state)
MutantNames == {"filter_ok", "retry_local", "http_empty", "ignore_decode", "skip_digest"}
====
