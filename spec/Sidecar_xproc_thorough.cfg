\* (M) as built, 3 processes (one in auto mode) x 2 threads, file-by-file removal: no partial read, no wrong answer, mutual exclusion per process
CONSTANTS NProcs = 3
          ThreadsPer = 2
          AutoProcs = {3}
          NRg = 2
          Inits = {0, 1, 2}
          Variant = 0
          AtomicRemove = FALSE
          EmitOn = FALSE
          Sim = FALSE
INIT Init
NEXT NextAll
INVARIANT TypeOk
INVARIANT NoPartialRead
INVARIANT NoWrongAnswer
INVARIANT MutualExclusion
INVARIANT LockHeldWhileBuilding
INVARIANT AutoNeverBuilds
INVARIANT Quiescent
INVARIANT NoDeadlock
CHECK_DEADLOCK FALSE
