\* (M) exhaustive: every order of LoadDone/LoadFail, Resolve, ProbeUp/ProbeDown, Tick, PeerDies (also while a
\* request is pending), Drain, and every request of the alphabet in every reachable node state.
\* quick and thorough differ in the constants file the check writes (peers, sizes, endpoints).
CONSTANTS Peers <- EnvPeers
          Sizes <- EnvSizes
          Eps <- EnvEps
          Fmts <- EnvFmts
          Mutant <- EnvMutant
          Emit <- EnvEmit
          MaxDepth <- EnvDepth
INIT Init
NEXT Next
INVARIANT TypeOK
INVARIANT Contract
INVARIANT DoorsSameClass
INVARIANT SlicesBounded
INVARIANT NotReadySaysWhy
CHECK_DEADLOCK FALSE
