CONSTANTS Family = "mutants"
          Alphabet = {48}
          MaxLen = 0
          BodySyms = {120, 48, 13}
          MaxBody = 2
INIT Init
NEXT Next
INVARIANT RoundTrip
INVARIANT OutBounded
INVARIANT Emit
CHECK_DEADLOCK FALSE
