CONSTANTS Family = "sub"
          N = 1
INIT Init
NEXT Next
INVARIANT BadLaw
CHECK_DEADLOCK FALSE
