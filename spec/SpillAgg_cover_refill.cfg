CONSTANTS MaxRows = 3
          MaxBatches = 3
          NKeyVals = 2
          MaxVal = 1
          P = 2
          DoubleCount = FALSE
          HashAll = FALSE
          EmitMod = 1000000
INIT Init
NEXT Next
INVARIANT Conserves
INVARIANT KeyHome
INVARIANT TotalIsMem
INVARIANT AtDone
INVARIANT CoverRefill
CHECK_DEADLOCK FALSE
