---- MODULE SqlTrace ----
(***************************************************************************)
(* Trace validation for the SQL properties.  One trace line = one case     *)
(* (database, statement) together with every outcome the real engine gave  *)
(* for it, one per configuration (layout, batch split, memory limit,       *)
(* optimizer setting, cluster size ... — the configuration never enters    *)
(* the judgement: the answer is a function of (statement, database) only). *)
(*                                                                         *)
(* An outcome is explained by the specification iff it is an error where   *)
(* the property permits one, or rows with Allowed(stmt, db, rows).  An     *)
(* outcome the ideal semantics does not explain is re-judged under the     *)
(* named deviations (known engine defects); the driver decides whether a   *)
(* deviation is a listed known finding.  Every line is consumed; verdicts  *)
(* of unexplained outcomes are printed as REJECT records.                  *)
(***************************************************************************)
EXTENDS SqlSem, Json, IOUtils

Rec == ndJsonDeserialize(IOEnv.TRACE)
VARIABLE l

KnownDevs == {"StrictBool", "InSubSkipsNull", "SetOpJoin", "DistinctKeepsNulls", "NullKeyGroupDropped", "MinMaxEmptySentinel"}

EnvFor(rec, dev) == [db |-> rec.db, outer |-> <<>>, ctes |-> <<>>, dict |-> rec.dict, dev |-> dev]

\* o.k = "rows" | "err" | "panic" | "hang"
Explained(rec, o, dev) ==
  CASE o.k = "rows" -> Allowed(rec.q, EnvFor(rec, dev), o.rows)
    [] o.k = "err" -> rec.errok = 1
    [] OTHER -> FALSE

\* smallest deviation sets that explain the outcome (as sequences of names), <<>> if none
Explaining(rec, o) ==
  LET cands == {D \in SUBSET KnownDevs : D # {} /\ Explained(rec, o, D)}
      mins == {D \in cands : ~\E E \in cands : E # D /\ E \subseteq D}
  IN SetToSeq({SetToSeq(D) : D \in mins})

JudgeOut(rec, i) ==
  LET o == rec.outs[i] IN
  IF Explained(rec, o, {}) THEN TRUE
  ELSE PrintT(<<"REJECT", ToJson([line |-> l, out |-> i, id |-> rec.id,
                                  devs |-> IF o.k = "rows" THEN Explaining(rec, o) ELSE <<>>,
                                  want |-> Answer(rec.q, EnvFor(rec, {}))])>>)

TInit == l = 1
TNext == /\ l <= Len(Rec)
         /\ \A i \in DOMAIN Rec[l].outs : JudgeOut(Rec[l], i)
         /\ l' = l + 1
Accepted == LET d == TLCGet("stats").diameter - 1 IN
            IF d = Len(Rec) THEN PrintT(<<"ACCEPT", ToJson([n |-> d])>>)
            ELSE PrintT(<<"STUCK", ToJson([line |-> d + 1])>>) /\ FALSE
====
