CONSTANTS Threads = {1, 2}
          MaxOps = 1
          MaxSet <- MS_3
          Sizes <- SZ_2
          Kinds = {"try", "alloc", "resize", "drop"}
          Spurious = FALSE
          Buggy = "hoist"
          Hist = FALSE
          Canon = FALSE
INIT Init
NEXT Next
INVARIANTS TypeOK Exact NoWrapWhenFits NoUnderflow NoBadGrant Quiescent TryOnlyBounded
CHECK_DEADLOCK FALSE
PROPERTY CondGrant
