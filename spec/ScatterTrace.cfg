CONSTANT DEV = 0
INIT TInit
NEXT TNext
POSTCONDITION Judged
CHECK_DEADLOCK FALSE
