\* (M) as built, ONE process, 4 query threads, 3 row groups: every property holds, file-by-file removal
CONSTANTS NProcs = 1
          ThreadsPer = 4
          AutoProcs = {}
          NRg = 3
          Inits = {0, 1, 2}
          Variant = 0
          AtomicRemove = FALSE
          EmitOn = FALSE
          Sim = FALSE
INIT Init
NEXT NextAll
INVARIANT TypeOk
INVARIANT NoPartialRead
INVARIANT NoWrongAnswer
INVARIANT MutualExclusion
INVARIANT LockHeldWhileBuilding
INVARIANT AutoNeverBuilds
INVARIANT Quiescent
INVARIANT NoDeadlock
INVARIANT NoReaderError
INVARIANT FreshMeansComplete
CHECK_DEADLOCK FALSE
