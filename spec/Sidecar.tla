---- MODULE Sidecar ----
(***************************************************************************)
(* C20 — IPC sidecars are invisible and safe to build concurrently.        *)
(*                                                                         *)
(* One Parquet file (never modified here: that is C19), its sidecar        *)
(* directory `final`, one staging directory per PROCESS (the name carries  *)
(* the pid), NProcs processes with ThreadsPer query threads each.  A query *)
(* thread runs ensure_sidecar and then reads every row group, one action   *)
(* per filesystem step (= per sync point of storage/ipc_cache.rs):         *)
(*                                                                         *)
(*   CheckFresh        read final/.complete, compare with the stamp        *)
(*   LockInProcess     BUILD_LOCK.lock()  (per process)                    *)
(*   RecheckFresh      the fresh check again, under the lock               *)
(*   MkStaging         remove + create  <file>.<pid>.building              *)
(*   WriteRg(i)        staging/rg_i.arrow                                  *)
(*   WriteComplete     staging/.complete                                   *)
(*   RemoveFinal       remove_dir_all(final): ONE action if AtomicRemove   *)
(*                     (the grain a sync-point scheduler can replay), else *)
(*                     RemoveFinalFile(f) file by file in any order +      *)
(*                     RemoveFinalDir (what the syscalls really do)        *)
(*   RenameStaging     rename(staging, final): fails if final is non-empty *)
(*   CleanupStaging    remove staging after a lost rename                  *)
(*   OpenRg(i)         File::open + mmap + decode of final/rg_i.arrow      *)
(*   (auto mode, sidecar not fresh: the query reads Parquet — ParquetRead) *)
(*                                                                         *)
(* File states: 0 absent, 1 partially written, 2 complete (current         *)
(* content), 3 complete (content of an OLDER version of the Parquet file). *)
(* `.complete`: 0 absent, 1 stamp of the current file, 2 stale stamp.      *)
(*                                                                         *)
(* Variant: 0 as built; mutants 1 `.complete` written first, 2 built in    *)
(* the final directory (no staging/rename), 3 no re-check under the lock,  *)
(* 4 reader skips the fresh check; repairs 5 the build lock is cross-      *)
(* process (flock), 6 a fresh final directory is never removed (check      *)
(* before remove_dir_all).                                                 *)
(*                                                                         *)
(* Properties: a query never decodes a partially written file, never       *)
(* answers from an older version, and never fails where the no-sidecar     *)
(* run answers (the last one is what the as-built design violates between  *)
(* PROCESSES: see NoReaderError).                                          *)
(***************************************************************************)
EXTENDS VerifIO

CONSTANTS NProcs, ThreadsPer, AutoProcs,   \* processes 1..NProcs; AutoProcs \subseteq them run with QE_IPC_CACHE unset
          NRg,                             \* row groups
          Inits,                           \* initial sidecar: 0 absent, 1 fresh, 2 stale (older content, stale stamp)
          Variant,
          AtomicRemove,                    \* TRUE: remove_dir_all is one action
          EmitOn,                          \* TRUE: keep the schedule and print one CASE per complete behaviour
          Sim                              \* TRUE: one random successor per state (-simulate)

Procs == 1..NProcs
Threads == 1..(NProcs * ThreadsPer)
ProcOf(t) == ((t - 1) \div ThreadsPer) + 1
Rgs == 1..NRg
LockOf(p) == IF Variant = 5 THEN 0 ELSE p      \* 5: one lock for all processes
Locks == IF Variant = 5 THEN {0} ELSE Procs

NoDir == [exists |-> 0, complete |-> 0, rg |-> [i \in Rgs |-> 0]]
EmptyDir == [NoDir EXCEPT !.exists = 1]
FullDir(c, k) == [exists |-> 1, complete |-> c, rg |-> [i \in Rgs |-> k]]
IsEmpty(d) == d.complete = 0 /\ \A i \in Rgs : d.rg[i] = 0
Fresh(d) == d.exists = 1 /\ d.complete = 1

VARIABLES final, staging, lock, pc, wi, ri, out, hist
vars == <<final, staging, lock, pc, wi, ri, out, hist>>

\* the schedule, with the directory state AFTER each step (compared with the real directories by the replay)
Summary(d) == [exists |-> d.exists, complete |-> d.complete, rgs |-> {i \in Rgs : d.rg[i] # 0}]
Log(t, a) == hist' = IF EmitOn THEN Append(hist, [t |-> t, a |-> a, final |-> Summary(final'),
                                                  staging |-> {p \in Procs : staging'[p].exists = 1}])
                     ELSE hist
Goto(t, l) == pc' = [pc EXCEPT ![t] = l]
Finish(t, o) == /\ pc' = [pc EXCEPT ![t] = "done"] /\ out' = [out EXCEPT ![t] = o]
Unlock(t) == [lock EXCEPT ![LockOf(ProcOf(t))] = IF @ = t THEN 0 ELSE @]
StartRead(t) == IF NRg = 0 THEN "done" ELSE "read"

\* ---- ensure_sidecar ---------------------------------------------------------------
CheckFresh(t) ==
  /\ pc[t] = "start"
  /\ IF Variant = 4 /\ final.exists = 1
     THEN Goto(t, "read")                                           \* mutant: no fresh check before reading
     ELSE IF Fresh(final) THEN Goto(t, "read")
     ELSE IF ProcOf(t) \in AutoProcs THEN Goto(t, "parquet")
     ELSE Goto(t, "lock")
  /\ UNCHANGED <<final, staging, lock, wi, ri, out>>
  /\ Log(t, "CheckFresh")

ParquetRead(t) ==
  /\ pc[t] = "parquet"
  /\ Finish(t, "parquet")
  /\ UNCHANGED <<final, staging, lock, wi, ri>>
  /\ Log(t, "ParquetRead")

LockInProcess(t) ==
  /\ pc[t] = "lock"
  /\ lock[LockOf(ProcOf(t))] = 0
  /\ lock' = [lock EXCEPT ![LockOf(ProcOf(t))] = t]
  /\ Goto(t, IF Variant = 3 THEN "mkstaging" ELSE "recheck")          \* mutant 3: no re-check
  /\ UNCHANGED <<final, staging, wi, ri, out>>
  /\ Log(t, "LockInProcess")

RecheckFresh(t) ==
  /\ pc[t] = "recheck"
  /\ IF Fresh(final)
     THEN /\ Goto(t, "read") /\ lock' = Unlock(t)
     ELSE /\ Goto(t, "mkstaging") /\ UNCHANGED lock
  /\ UNCHANGED <<final, staging, wi, ri, out>>
  /\ Log(t, "RecheckFresh")

\* ---- build_sidecar ----------------------------------------------------------------
InFinal == Variant = 2
MkStaging(t) ==
  /\ pc[t] = "mkstaging"
  /\ IF InFinal THEN /\ final' = EmptyDir /\ UNCHANGED staging          \* mutant 2: wipe and build in place
     ELSE /\ staging' = [staging EXCEPT ![ProcOf(t)] = EmptyDir] /\ UNCHANGED final
  /\ wi' = [wi EXCEPT ![t] = 1]
  /\ Goto(t, IF Variant = 1 THEN "complete" ELSE IF NRg = 0 THEN "complete" ELSE "write")
  /\ UNCHANGED <<lock, ri, out>>
  /\ Log(t, "MkStaging")

AfterWrites(t) == IF Variant = 1 THEN (IF InFinal THEN "published" ELSE "remove") ELSE "complete"
WriteRg(t) ==
  /\ pc[t] = "write"
  /\ LET i == wi[t] IN
     IF InFinal
     THEN \* in place the write is visible while it happens: create (partial), then finish
          /\ final.exists = 1
          /\ final' = [final EXCEPT !.rg[i] = IF @ = 1 THEN 2 ELSE 1]
          /\ IF final.rg[i] = 1
             THEN /\ wi' = [wi EXCEPT ![t] = i + 1] /\ Goto(t, IF i = NRg THEN AfterWrites(t) ELSE "write")
             ELSE UNCHANGED <<wi, pc>>
          /\ UNCHANGED staging
     ELSE /\ staging' = [staging EXCEPT ![ProcOf(t)].rg[i] = 2]
          /\ wi' = [wi EXCEPT ![t] = i + 1]
          /\ Goto(t, IF i = NRg THEN AfterWrites(t) ELSE "write")
          /\ UNCHANGED final
  /\ UNCHANGED <<lock, ri, out>>
  /\ Log(t, "WriteRg")

WriteComplete(t) ==
  /\ pc[t] = "complete"
  /\ IF InFinal THEN /\ final.exists = 1 /\ final' = [final EXCEPT !.complete = 1] /\ UNCHANGED staging
     ELSE /\ staging' = [staging EXCEPT ![ProcOf(t)].complete = 1] /\ UNCHANGED final
  /\ Goto(t, IF Variant = 1 /\ NRg > 0 THEN "write" ELSE IF InFinal THEN "published" ELSE "remove")
  /\ UNCHANGED <<lock, wi, ri, out>>
  /\ Log(t, "WriteComplete")

\* mutant 2 has nothing to publish: ensure_sidecar returns
Published(t) ==
  /\ pc[t] = "published"
  /\ lock' = Unlock(t) /\ Goto(t, StartRead(t))
  /\ UNCHANGED <<final, staging, wi, ri, out>>
  /\ Log(t, "Published")

RemoveFinal(t) ==
  /\ pc[t] = "remove"
  /\ IF Variant = 6 /\ Fresh(final)
     THEN /\ Goto(t, "cleanup") /\ UNCHANGED final                     \* repair 6: never delete a fresh sidecar
     ELSE IF AtomicRemove \/ final.exists = 0
          THEN /\ final' = NoDir /\ Goto(t, "rename")
          ELSE /\ Goto(t, "removing") /\ UNCHANGED final
  /\ UNCHANGED <<staging, lock, wi, ri, out>>
  /\ Log(t, "RemoveFinal")

RemoveFinalFile(t, f) ==          \* f = 0: .complete, f in Rgs: rg file
  /\ pc[t] = "removing" /\ final.exists = 1
  /\ IF f = 0 THEN final.complete # 0 /\ final' = [final EXCEPT !.complete = 0]
     ELSE final.rg[f] # 0 /\ final' = [final EXCEPT !.rg[f] = 0]
  /\ UNCHANGED <<staging, lock, pc, wi, ri, out>>
  /\ Log(t, "RemoveFinalFile")

RemoveFinalDir(t) ==
  /\ pc[t] = "removing"
  /\ (final.exists = 0 \/ IsEmpty(final))
  /\ final' = NoDir /\ Goto(t, "rename")
  /\ UNCHANGED <<staging, lock, wi, ri, out>>
  /\ Log(t, "RemoveFinalDir")

RenameStaging(t) ==
  /\ pc[t] = "rename"
  /\ LET p == ProcOf(t) IN
     IF final.exists = 0 \/ IsEmpty(final)
     THEN /\ final' = staging[p] /\ staging' = [staging EXCEPT ![p] = NoDir]
          /\ lock' = Unlock(t) /\ Goto(t, StartRead(t))
     ELSE /\ Goto(t, "cleanup") /\ UNCHANGED <<final, staging, lock>>
  /\ UNCHANGED <<wi, ri, out>>
  /\ Log(t, "RenameStaging")

CleanupStaging(t) ==
  /\ pc[t] = "cleanup"
  /\ staging' = [staging EXCEPT ![ProcOf(t)] = NoDir]
  /\ lock' = Unlock(t) /\ Goto(t, StartRead(t))
  /\ UNCHANGED <<final, wi, ri, out>>
  /\ Log(t, "CleanupStaging")

\* ---- read_row_group ----------------------------------------------------------------
OpenRg(t) ==
  /\ pc[t] = "read"
  /\ LET i == ri[t]
         st == IF final.exists = 1 THEN final.rg[i] ELSE 0
     IN IF st = 0 THEN Finish(t, "error") /\ UNCHANGED ri              \* File::open fails: the query fails
        ELSE IF st = 1 THEN Finish(t, "partial") /\ UNCHANGED ri       \* decodes a half-written file
        ELSE IF st = 3 THEN Finish(t, "wrong") /\ UNCHANGED ri         \* rows of an older version
        ELSE IF i = NRg THEN Finish(t, "ok") /\ UNCHANGED ri
        ELSE ri' = [ri EXCEPT ![t] = i + 1] /\ UNCHANGED <<pc, out>>
  /\ UNCHANGED <<final, staging, lock, wi>>
  /\ Log(t, "OpenRg")

InitDir(k) == IF k = 0 THEN NoDir ELSE IF k = 1 THEN FullDir(1, 2) ELSE FullDir(2, 3)
Init == /\ \E k \in Inits :
             /\ final = InitDir(k)
             /\ hist = IF EmitOn THEN <<[t |-> k, a |-> "Init"]>> ELSE <<>>
        /\ staging = [p \in Procs |-> NoDir]
        /\ lock = [l \in Locks |-> 0]
        /\ pc = [t \in Threads |-> "start"]
        /\ wi = [t \in Threads |-> 1] /\ ri = [t \in Threads |-> 1]
        /\ out = [t \in Threads |-> "none"]

Step(t) == \/ CheckFresh(t) \/ ParquetRead(t) \/ LockInProcess(t) \/ RecheckFresh(t) \/ MkStaging(t) \/ WriteRg(t)
           \/ WriteComplete(t) \/ Published(t) \/ RemoveFinal(t) \/ (\E f \in 0..NRg : RemoveFinalFile(t, f)) \/ RemoveFinalDir(t)
           \/ RenameStaging(t) \/ CleanupStaging(t) \/ OpenRg(t)
Running == \E t \in Threads : pc[t] # "done"
NextAll == \E t \in Threads : Step(t)          \* (every action needs pc[t] # "done")
\* a thread can always move unless it waits for the lock
CanMove(t) == pc[t] # "done" /\ (pc[t] = "lock" => lock[LockOf(ProcOf(t))] = 0)
NextSim == Running /\ LET c == {t \in Threads : CanMove(t)} IN c # {} /\ LET t == RandomElement(c) IN Step(t)
\* cfg files name NextAll (TLC then reports coverage per action) or NextSim directly
Spec == Init /\ [][NextAll]_vars

\* ---- properties -------------------------------------------------------------------------
TypeOk == /\ \A t \in Threads : out[t] \in {"none", "ok", "error", "partial", "wrong", "parquet"}
          /\ \A l \in Locks : lock[l] \in {0} \cup Threads
NoPartialRead == \A t \in Threads : out[t] # "partial"
NoWrongAnswer == \A t \in Threads : out[t] # "wrong"
NoReaderError == \A t \in Threads : out[t] # "error"
\* a published fresh stamp means every row-group file is there and complete
FreshMeansComplete == Fresh(final) => \A i \in Rgs : final.rg[i] = 2
\* at most one builder per lock domain, and only the lock holder is between lock and publication
Building(t) == pc[t] \in {"recheck", "mkstaging", "write", "complete", "remove", "removing", "rename", "cleanup", "published"}
MutualExclusion == \A t1, t2 \in Threads : (t1 # t2 /\ Building(t1) /\ Building(t2)) => LockOf(ProcOf(t1)) # LockOf(ProcOf(t2))
LockHeldWhileBuilding == \A t \in Threads : Building(t) => lock[LockOf(ProcOf(t))] = t
\* auto-mode processes never write
AutoNeverBuilds == \A t \in Threads : ProcOf(t) \in AutoProcs => ~Building(t) /\ pc[t] # "lock"
\* nothing is left locked or staged when everybody is done
Quiescent == (\A t \in Threads : pc[t] = "done") => (\A l \in Locks : lock[l] = 0) /\ (\A p \in Procs : staging[p] = NoDir)
\* liveness-as-safety: no deadlock before everybody is done
NoDeadlock == Running => \E t \in Threads : CanMove(t)

\* ---- case emission: one complete behaviour per line --------------------------------------
Emit == (EmitOn /\ ~Running) =>
          EmitCase([nprocs |-> NProcs, per |-> ThreadsPer, auto |-> AutoProcs, nrg |-> NRg,
                    init |-> hist[1].t, steps |-> Tail(hist), out |-> out, final |-> Summary(final)])
====
