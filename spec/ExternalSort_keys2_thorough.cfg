CONSTANTS MaxRows = 3
          MaxBatches = 3
          NKeyVals = 2
          NKeys = 2
          SpecCodes = {0, 1, 2, 3, 4, 5, 6, 7, 8, 9, 10, 11, 12, 13, 14, 15}
          SplitFanIns = {8}
          Singles = {}
          Fetches = {99, 2}
          NoFetch = 99
          AllowEmpty = FALSE
          EmitMod = 5
          MergeCmp = "spec"
          CleanupCarried = TRUE
INIT Init
NEXT Next
INVARIANT GenConserves
INVARIANT PassConserves
INVARIANT RunsSorted
INVARIANT RunShape
INVARIANT AtDone
INVARIANT Emit
CHECK_DEADLOCK FALSE
