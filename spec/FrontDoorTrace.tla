---- MODULE FrontDoorTrace ----
(***************************************************************************)
(* Trace validation for C35 / C34: what REAL nodes did (`qev node-replay`) *)
(* judged by FrontDoor.tla.  One ND-JSON line = one event:                 *)
(*  {"ev":"reset"}                     a fresh node (loading, unresolved)  *)
(*  {"ev":"env","a":..,"S":[..],"p":n,"o":O}   an environment step and the *)
(*                                     node state observed after it        *)
(*  {"ev":"req","r":R,"o":O,"h":H,"f":F,"x":X}  a request, the node state  *)
(*        observed when it was sent, and the projected response(s)         *)
(*   O = {load, resolved, draining, view:[..], alive:[0|1..]}              *)
(*   R = {ep, mode, fmt, c, tamper, counted, refn}                         *)
(*   H = {status, dist, reason, nr, rows, body, body_ok, rows_eq, frags,   *)
(*        exec}      F = {gfi, gexec, dg, dist, reason, rows, trows,       *)
(*        trailers, tlast, maxslice, dexec, frags, rows_eq}                *)
(*   X = {schema_eq, rows_eq}                                              *)
(* The state is BOUND to what was observed after every line.  A request   *)
(* line is accepted iff no clause of the C35/C34 contract (FrontDoor       *)
(* section CONTRACT) and no data clause below is violated: a rejection is  *)
(* a VIOLATION.  Independently every line is compared with the as-built    *)
(* model (the named action is enabled and leads to the observed state; the *)
(* response is Respond(r)); a difference is printed as a DRIFT line - spec *)
(* drift (fidelity), not a verdict - and validation goes on.               *)
(***************************************************************************)
EXTENDS Naturals, Integers, Sequences, FiniteSets, TLC, Json, IOUtils

EnvC == ndJsonDeserialize(IOEnv.FD_CONSTS)[1]
Peers == 1..EnvC.peers
Sizes == {}
Eps == {}
Fmts == {}
Mutant == "none"
Emit == "none"
MaxDepth == 0

VARIABLES load, draining, resolved, view, alive, pending, resp, hist
INSTANCE FrontDoor

Rec == ndJsonDeserialize(IOEnv.TRACE)
VARIABLE l
tvars == <<load, draining, resolved, view, alive, pending, resp, hist, l>>

SetOf(q) == {q[i] : i \in DOMAIN q}
OView(o) == [p \in Peers |-> o.view[p]]
OAlive(o) == [p \in Peers |-> o.alive[p] = 1]
Bind(o) == /\ load' = o.load /\ draining' = (o.draining = 1) /\ resolved' = (o.resolved = 1)
           /\ view' = OView(o) /\ alive' = OAlive(o)
Same(o) == /\ load = o.load /\ draining = (o.draining = 1) /\ resolved = (o.resolved = 1)
           /\ view = OView(o) /\ alive = OAlive(o)
Idle == UNCHANGED <<pending, resp, hist>>

\* ---- a request line -> the spec's request / response records ---------------------------------------
\* the engine's own row count is the reference for a local answer; a distributed answer is a second
\* execution whose equality with the single-node answer is C09's business, so its own header counts
NOf(rec) == LET own == IF rec.r.ep = "flight" THEN rec.f.rows ELSE rec.h.rows
                dist == IF rec.r.ep = "flight" THEN rec.f.dist ELSE rec.h.dist
            IN IF dist = 1 THEN own ELSE rec.r.refn
ReqOf(rec) == [ep |-> rec.r.ep, mode |-> rec.r.mode, fmt |-> rec.r.fmt, st |-> [c |-> rec.r.c, n |-> NOf(rec)], tamper |-> rec.r.tamper]
HOfRec(h) == [status |-> h.status, dist |-> h.dist, reason |-> h.reason, nr |-> h.nr, rows |-> h.rows, frags |-> h.frags, exec |-> h.exec]
FOfRec(f) == [gfi |-> f.gfi, gexec |-> f.gexec, dg |-> f.dg, dist |-> f.dist, reason |-> f.reason, rows |-> f.rows,
              trows |-> f.trows, trailers |-> f.trailers, tlast |-> f.tlast, maxslice |-> f.maxslice, dexec |-> f.dexec, frags |-> f.frags]

\* data clauses: the bodies decode to exactly the engine's rows (computed by the harness, judged here)
DataV(rec) ==
  LET r == rec.r  h == rec.h  f == rec.f  x == rec.x
      hok == h.status = 200
      fok == FlightOk(FOfRec(f))
  IN Violated([
     body_undecodable |-> (r.ep \in {"sql", "both", "fragment"} /\ hok => h.body_ok = 1),
     body_row_count_differs_from_header |-> (r.ep \in {"sql", "both", "fragment"} /\ hok /\ h.body_ok = 1 => h.body = h.rows),
     body_rows_differ_from_engine |-> (r.ep \in {"sql", "both", "fragment"} /\ hok /\ h.body_ok = 1 /\ h.dist # 1 => h.rows_eq = 1),
     flight_rows_differ_from_engine |-> (r.ep \in {"flight", "both"} /\ fok /\ f.dist # 1 => f.rows_eq = 1),
     doors_disagree_on_schema |-> (r.ep = "both" /\ hok /\ fok => x.schema_eq = 1),
     doors_disagree_on_rows |-> (r.ep = "both" /\ hok /\ fok => x.rows_eq = 1)])

ContractV(rec) ==
  LET o == rec.o
      r == ReqOf(rec)
      h == HOfRec(rec.h)
      f == FOfRec(rec.f)
      counted == rec.r.counted = 1
  IN (IF r.ep \in {"sql", "both"} THEN C35SqlV(o.load, OView(o), OAlive(o), r, h, counted) ELSE {})
     \cup (IF r.ep = "fragment" THEN C35FragmentV(o.load, r, h) ELSE {})
     \cup (IF r.ep = "readyz" THEN C35ReadyzV(o.load, o.resolved = 1, o.draining = 1, h) ELSE {})
     \cup (IF r.ep \in {"flight", "both"} THEN C34FlightV(o.load, r, f, counted) ELSE {})
     \cup (IF r.ep = "both" THEN C34BothV(r, h, f) ELSE {})
     \cup DataV(rec)

\* strict: the response is the as-built model's (fields the model pins)
Pos(n) == IF n > 0 THEN 1 ELSE 0
HMatches(m, h, counted) ==
  /\ h.status = m.status
  /\ h.nr = m.nr
  /\ (m.status = 200 => h.dist = m.dist /\ h.reason = m.reason /\ h.rows = m.rows)
  /\ (counted => Pos(h.frags) = m.frags /\ Pos(h.exec) = m.exec)
FMatches(m, f, counted) ==
  /\ f.gfi = m.gfi /\ f.dg = m.dg
  /\ (m.dg = "ok" => f.dist = m.dist /\ f.reason = m.reason /\ f.rows = m.rows /\ f.trows = m.trows
                     /\ f.trailers = m.trailers /\ f.tlast = m.tlast /\ f.maxslice <= 4096)
  /\ (counted => Pos(f.frags) = m.frags /\ Pos(f.dexec) = m.dexec /\ Pos(f.gexec) = m.gexec)
ModelMatches(rec) ==
  LET r == ReqOf(rec)
      m == Respond(r)
      counted == rec.r.counted = 1
  IN /\ Sendable(r)
     /\ (r.ep \notin {"flight"} => HMatches(m.http, HOfRec(rec.h), counted /\ r.ep \in {"sql", "both"}))
     /\ (r.ep \in {"flight", "both"} => FMatches(m.flight, FOfRec(rec.f), counted))
     /\ (r.ep = "both" /\ ~(r.st.c = "empty" /\ load # "loaded") => SameClass(HOfRec(rec.h), FOfRec(rec.f)))

\* ---- steps ----------------------------------------------------------------------------------------
TInit == Init /\ l = 1

Reset == /\ l <= Len(Rec) /\ Rec[l].ev = "reset"
         /\ load' = "loading" /\ draining' = FALSE /\ resolved' = FALSE
         /\ view' = [p \in Peers |-> "absent"] /\ alive' = [p \in Peers |-> TRUE]
         /\ pending' = None /\ resp' = NoResp /\ hist' = <<>>
         /\ l' = l + 1

OpOf(rec) == Op(rec.a, SetOf(rec.S), rec.p)
OState(o) == [load |-> o.load, draining |-> o.draining = 1, resolved |-> o.resolved = 1, view |-> OView(o), alive |-> OAlive(o)]
ModelStepOk(rec) == Guard(NodeState, OpOf(rec)) /\ Effect(NodeState, OpOf(rec)) = OState(rec.o)

EnvStep == /\ l <= Len(Rec) /\ Rec[l].ev = "env"
           /\ Bind(Rec[l].o) /\ Idle
           /\ (IF ModelStepOk(Rec[l]) THEN TRUE
               ELSE EmitTag("DRIFT", [line |-> l, ev |-> "env", a |-> Rec[l].a, before |-> NodeState, after |-> Rec[l].o]))
           /\ l' = l + 1

ReqStep == /\ l <= Len(Rec) /\ Rec[l].ev = "req"
           /\ ContractV(Rec[l]) = {}
           /\ Bind(Rec[l].o) /\ Idle
           /\ (IF Same(Rec[l].o) /\ ModelMatches(Rec[l]) THEN TRUE
               ELSE EmitTag("DRIFT", [line |-> l, ev |-> "req", state |-> NodeState, model |-> Respond(ReqOf(Rec[l]))]))
           /\ l' = l + 1

TNext == Reset \/ EnvStep \/ ReqStep
Accepted == LET d == TLCGet("stats").diameter - 1 IN
            IF d = Len(Rec) THEN EmitTag("ACCEPT", [n |-> d])
            ELSE LET bad == Rec[d + 1] IN
                 EmitTag("REJECT", [line |-> d + 1, ev |-> bad.ev,
                                    clauses |-> IF bad.ev = "req" THEN ContractV(bad) ELSE {}]) /\ FALSE
====
