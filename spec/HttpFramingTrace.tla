---- MODULE HttpFramingTrace ----
(***************************************************************************)
(* Trace validation for C16: every recorded exchange of the REAL client    *)
(* (what the peer put on the wire -> what the client returned) must be     *)
(* allowed by the contract of HttpFramingContract.  One line = one         *)
(* exchange:  {"o": observation, "r": result}.                             *)
(*                                                                         *)
(* IOEnv.C16_DEVS names the deviations that are OPEN known findings        *)
(* ("none" | "ignore_cl" | "hdr_as_status" | "ignore_cl,hdr_as_status").   *)
(* A record that is only explained by such a deviation is accepted and     *)
(* reported on a DEV line (the driver prints KNOWN-FINDING); a record       *)
(* explained by nothing stops the trace: REJECT.                           *)
(***************************************************************************)
EXTENDS HttpFramingContract, IOUtils

Rec == ndJsonDeserialize(IOEnv.TRACE)
Enabled == CASE IOEnv.C16_DEVS = "ignore_cl" -> {"ignore_cl"}
             [] IOEnv.C16_DEVS = "hdr_as_status" -> {"hdr_as_status"}
             [] IOEnv.C16_DEVS = "ignore_cl,hdr_as_status" -> Devs
             [] OTHER -> {}

ObsOf(x) == [hc |-> x.hc, status |-> x.status, hdrs |-> x.hdrs, clnums |-> SeqRange(x.clnums),
             clbad |-> x.clbad, allwf |-> x.allwf, body |-> x.body, end |-> x.end,
             alt |-> x.alt, althdrs |-> x.althdrs,
             altclnums |-> SeqRange(x.altclnums), altclbad |-> x.altclbad]

VARIABLE l
TInit == l = 1
Exchange == /\ l <= Len(Rec)
            /\ LET o == ObsOf(Rec[l].o)
                   r == Rec[l].r
                   ex == Explains(o, r, Enabled)
               IN /\ ex # {}
                  /\ IF {} \in ex THEN TRUE ELSE EmitTag("DEV", [line |-> l, devs |-> CHOOSE D \in ex : TRUE])
            /\ l' = l + 1
TNext == Exchange
TSpec == TInit /\ [][TNext]_l
Accepted == LET d == TLCGet("stats").diameter - 1 IN
            IF d = Len(Rec) THEN EmitTag("ACCEPT", [n |-> d])
            ELSE EmitTag("REJECT", [line |-> d + 1]) /\ FALSE
====
