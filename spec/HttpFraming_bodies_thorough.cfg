\* family "bodies", thorough: every body over {x, CR, LF} up to 6 bytes (so CRLFCRLF inside the body), with no /
\* exact / smaller / larger Content-Length, closed or stalled after every body byte
CONSTANTS SLKinds = {1}
          HdrKinds = {1}
          MaxHdrs = 1
          CLVals <- CLValsBodies
          CLNames = {0}
          CLDups <- NoDups
          MaxBody = 6
          BodyByPos = FALSE
          BodyAlpha = {120, 13, 10}
          FragAll = {"end"}
          FragDepth = 0
          StallSL = {1}
          StallFrags = FALSE
          Conforming = {"enforce", "truncate", "strict"}
          Others = {"as_built", "m_status200", "m_short", "m_bodyterm", "m_notimeout", "m_panic", "m_drophdr", "m_halfheader"}
INIT Init
NEXT Next
INVARIANT TypeOK
INVARIANT ViewOK
INVARIANT Conforms
INVARIANT NoShortBody
INVARIANT FramedOrRejected
INVARIANT NoPanicNoHang
INVARIANT EntriesSound
INVARIANT Emit
CHECK_DEADLOCK FALSE
