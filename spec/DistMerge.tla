---- MODULE DistMerge ----
(***************************************************************************)
(* C09 design level: exact partial/final splits of the scatter-gather      *)
(* shapes, checked by TLC over EVERY sharding of every small table.        *)
(*                                                                         *)
(* A table is a sequence of rows <<key, value>>; a sharding assigns each   *)
(* row to one of NShards shards (empty shards allowed, idle nodes).        *)
(*   Concat   : union of the shard answers of a filter                     *)
(*   TwoPhase : COUNT -> SUM of counts, SUM -> SUM, MIN/MAX -> MIN/MAX,    *)
(*              AVG -> SUM of sums / SUM of counts, GROUP BY key,          *)
(*              HAVING evaluated after the merge                           *)
(*   TopN     : every shard pre-truncated to limit+offset rows of its own  *)
(*              order; the merge re-sorts and applies LIMIT/OFFSET         *)
(* Each must equal the single-node answer of SqlSem.  The *_Bad variants   *)
(* (average of averages, COUNT merged by COUNT, HAVING per shard, TopN     *)
(* pre-truncated to `limit` only) are expected to be violated.             *)
(***************************************************************************)
EXTENDS SqlSem

CONSTANTS N, NShards, Family
Dom == {NULL, 0, 1, 2}
Keys == {NULL, 0, 1}
Tabs == UNION {[1..n -> {<<k, v>> : k \in Keys, v \in Dom}] : n \in 0..N}
VARIABLE c

Shard(T, f, s) == LET idx == SelectSeq([i \in DOMAIN T |-> i], LAMBDA i : f[i] = s) IN [j \in DOMAIN idx |-> T[idx[j]]]
Shards(T, f) == [s \in 1..NShards |-> Shard(T, f, s)]

env0 == [db |-> <<>>, outer |-> <<>>, ctes |-> <<>>, dict |-> <<>>, dev |-> {}]
col(i) == [k |-> "col", d |-> 0, i |-> i]
A(f, i) == [f |-> f, a |-> col(i), distinct |-> 0]
TRUEX == [k |-> "lit", v |-> 1]

\* ---- TwoPhase: GROUP BY key: COUNT(*), COUNT(v), SUM(v), MIN(v), MAX(v) ------------------
G1 == [on |-> 1, keys |-> <<col(1)>>, aggs |-> <<A("count*", 2), A("count", 2), A("sum", 2), A("min", 2), A("max", 2)>>,
       having |-> TRUEX, sets |-> <<>>]
\* partial rows: <<key, cnt*, cnt, sum, min, max, mask>>; final: group by key again, SUM the counts, SUM the sums, MIN/MAX
G2 == [on |-> 1, keys |-> <<col(1)>>, aggs |-> <<A("sum", 2), A("sum", 3), A("sum", 4), A("min", 5), A("max", 6)>>,
       having |-> TRUEX, sets |-> <<>>]
G2bad == [G2 EXCEPT !.aggs = <<A("count", 2), A("sum", 3), A("sum", 4), A("min", 5), A("max", 6)>>]   \* COUNT merged by COUNT
Single(T) == GroupRows(G1, T, env0)
Merged(T, f, g2) == GroupRows(g2, Flat([s \in 1..NShards |-> GroupRows(G1, Shard(T, f, s), env0)]), env0)
StripMask(rows) == [i \in DOMAIN rows |-> SubSeq(rows[i], 1, Len(rows[i]) - 1)]

TwoPhaseOk(T, f) == BagEq(StripMask(Merged(T, f, G2)), StripMask(Single(T)))
TwoPhaseCountByCountOk(T, f) == BagEq(StripMask(Merged(T, f, G2bad)), StripMask(Single(T)))

\* AVG = SUM(sum)/SUM(count), not the average of shard averages (compared as cross-multiplied integers)
AvgOk(T, f) ==
  \A i \in DOMAIN Single(T) :
    LET r == Single(T)[i]
        m == CHOOSE j \in DOMAIN Merged(T, f, G2) : Merged(T, f, G2)[j][1] = r[1]
        mr == Merged(T, f, G2)[m]
    IN (r[3] = 0 /\ mr[3] = 0) \/ (r[3] > 0 /\ mr[3] > 0 /\ r[4] * mr[3] = mr[4] * r[3])
AvgOfAveragesOk(T, f) ==      \* expected to fail: mean of per-shard means, all groups merged (global aggregate)
  LET nn(rows) == SelectSeq([i \in DOMAIN rows |-> rows[i][2]], LAMBDA v : v # NULL)
      all == nn(T)
      parts == SelectSeq([s \in 1..NShards |-> nn(Shard(T, f, s))], LAMBDA p : p # <<>>)
  IN all = <<>> \/ \* sum(all)/len(all) = (1/|parts|) * sum_s sum(p_s)/len(p_s)   with every |p_s| in {1,2}: multiply through by 2
       SumS(all) * 2 * Len(parts) = Len(all) * SumS([j \in DOMAIN parts |-> (SumS(parts[j]) * 2) \div Len(parts[j])])

\* HAVING after the merge (COUNT(*) >= 2), not per shard
HavingAfterMergeOk(T, f) ==
  LET keep(rows) == SelectSeq(rows, LAMBDA r : r[2] >= 2)
  IN BagEq([i \in DOMAIN keep(StripMask(Merged(T, f, G2))) |-> keep(StripMask(Merged(T, f, G2)))[i][1]],
           [i \in DOMAIN keep(StripMask(Single(T))) |-> keep(StripMask(Single(T)))[i][1]])
HavingPerShardOk(T, f) ==
  LET keep(rows) == SelectSeq(rows, LAMBDA r : r[2] >= 2)
      per == GroupRows(G2, Flat([s \in 1..NShards |-> keep(GroupRows(G1, Shard(T, f, s), env0))]), env0)
  IN BagEq([i \in DOMAIN per |-> per[i][1]], [i \in DOMAIN keep(StripMask(Single(T))) |-> keep(StripMask(Single(T)))[i][1]])

\* ---- TopN: ORDER BY v [DESC] LIMIT l OFFSET o -----------------------------------------
Ord(desc) == <<[e |-> col(2), desc |-> desc, nf |-> 0]>>
SortBy(rows, desc) == SortSeq(rows, LAMBDA x, y : LexLt(KeyT(x, Ord(desc), env0), KeyT(y, Ord(desc), env0)))
Take(rows, n) == SubSeq(rows, 1, Min2(n, Len(rows)))
TopQ(desc, lim, off) == [k |-> "select", from |-> [k |-> "table", name |-> "t"], where |-> TRUEX, group |-> [on |-> 0],
                         proj |-> <<col(1), col(2)>>, distinct |-> 0, order |-> Ord(desc), limit |-> lim, offset |-> off]
TopEnv(T) == [env0 EXCEPT !.db = [t |-> [rows |-> T]]]
TopMerged(T, f, desc, lim, off, pre) ==
  LET parts == Flat([s \in 1..NShards |-> Take(SortBy(Shard(T, f, s), desc), pre)])
      srt == SortBy(parts, desc)
  IN SubSeq(srt, Min2(off + 1, Len(srt) + 1), Min2(off + lim, Len(srt)))
TopNOk(T, f, desc, lim, off) == Allowed(TopQ(desc, lim, off), TopEnv(T), TopMerged(T, f, desc, lim, off, lim + off))
TopNLimitOnlyOk(T, f, desc, lim, off) == Allowed(TopQ(desc, lim, off), TopEnv(T), TopMerged(T, f, desc, lim, off, lim))

\* ---- Concat: filter v >= 1 -------------------------------------------------------------
ConcatOk(T, f) == LET p(r) == r[2] # NULL /\ r[2] >= 1
                  IN BagEq(Flat([s \in 1..NShards |-> SelectSeq(Shard(T, f, s), p)]), SelectSeq(T, p))

\* ---- driver ------------------------------------------------------------------------------
\* two-level enumeration so TLC's workers share the work: first a table, then (in parallel) its shardings
Init == c = [st |-> 0, T |-> <<>>, f |-> <<>>]
Next == \/ c.st = 0 /\ \E T \in Tabs : c' = [st |-> 1, T |-> T, f |-> <<>>]
        \/ c.st = 1 /\ \E f \in [1..Len(c.T) -> 1..NShards] : c' = [st |-> 2, T |-> c.T, f |-> f]
Judged == c.st = 2
Laws == ~Judged \/ CASE Family = "twophase" -> TwoPhaseOk(c.T, c.f) /\ AvgOk(c.T, c.f) /\ HavingAfterMergeOk(c.T, c.f) /\ ConcatOk(c.T, c.f)
          [] Family = "topn" -> \A desc \in {0, 1}, lim \in 0..3, off \in 0..2 : TopNOk(c.T, c.f, desc, lim, off)
BadCount == ~Judged \/ TwoPhaseCountByCountOk(c.T, c.f)
BadHaving == ~Judged \/ HavingPerShardOk(c.T, c.f)
BadTopN == ~Judged \/ \A desc \in {0, 1}, lim \in 0..3, off \in 0..2 : TopNLimitOnlyOk(c.T, c.f, desc, lim, off)
====
