---- MODULE Funcs ----
(***************************************************************************)
(* C36 — scalar functions compute their documented (Trino) values.         *)
(*                                                                         *)
(* The specifiable subset of the engine's function table, defined over     *)
(* integers and strings-as-code-point-sequences:                           *)
(*   math         ABS SIGN MOD GREATEST LEAST (ints, order-only boundary   *)
(*                tokens), CEIL FLOOR ROUND TRUNCATE ABS SIGN on dyadic     *)
(*                doubles k/2 held as k                                     *)
(*   conditional  COALESCE NULLIF IF CASE (searched, simple) TRY            *)
(*   string       LENGTH UPPER LOWER TRIM LTRIM RTRIM REVERSE CHR CODEPOINT *)
(*                ASCII SUBSTRING/SUBSTR (1-based, negative start) LEFT     *)
(*                RIGHT REPEAT LPAD RPAD SPLIT_PART CONCAT || CONCAT_WS     *)
(*                POSITION STRPOS STARTS_WITH ENDS_WITH REPLACE TRANSLATE   *)
(*                HAMMING_DISTANCE LEVENSHTEIN_DISTANCE                     *)
(*   bitwise      BITWISE_AND/OR/XOR/NOT BIT_COUNT shifts (8-bit two's      *)
(*                complement arithmetic, valid for operands in -128..127)   *)
(*   calendar     YEAR MONTH DAY QUARTER DAY_OF_WEEK DAY_OF_YEAR WEEK       *)
(*                YEAR_OF_WEEK LAST_DAY_OF_MONTH EXTRACT DATE_TRUNC         *)
(*                DATE_ADD DATE_DIFF on day numbers (civil-from-days)       *)
(* plus the NULL rule (NULL in => NULL out) for every null-strict function *)
(* of the binder's table, including the ones whose VALUES are out of reach *)
(* (trig/log, hashes, regex, JSON, URL, codecs, formatting).               *)
(*                                                                         *)
(* A value is a record [t, n, i, s]: type tag, null flag, integer payload  *)
(* (int / date = days since 1970-01-01 / dbl = twice the value / bool 0|1),*)
(* string payload (sequence of Unicode code points).  TLC enumerates the   *)
(* argument tuples of every function and emits one case                    *)
(*   [f, tmpl, args, exp, pin]                                             *)
(* where tmpl is the SQL text with $k placeholders, exp the documented     *)
(* value and pin = 1 iff the documentation pins the value for these        *)
(* arguments (pin = 0: edge the documentation is silent about; a mismatch  *)
(* is recorded as drift, never as a violation).                            *)
(***************************************************************************)
EXTENDS VerifIO, SequencesExt

CONSTANTS K1,      \* max length of the string argument of one-string functions
          K2,      \* max length of both arguments of two-string functions
          K3,      \* max length of the 2nd/3rd argument of three-string functions (1st: K1)
          Wide,    \* 0 quick / 1 thorough: wider integer and date domains
          Part     \* "all", or one of "a" "b" "c" "d": the slice of the family this TLC process enumerates
                   \* (the driver runs the slices as concurrent TLC processes)

\* ---- values -----------------------------------------------------------------
V(t, n, i, s) == [t |-> t, n |-> n, i |-> i, s |-> s]
I(x) == V("int", 0, x, <<>>)
S(q) == V("str", 0, 0, q)
D(x) == V("date", 0, x, <<>>)
H(x) == V("dbl", 0, x, <<>>)
B(x) == V("bool", 0, x, <<>>)
N(t) == V(t, 1, 0, <<>>)
IsN(v) == v.n = 1
Bool(b) == B(IF b THEN 1 ELSE 0)

\* order-only boundary tokens (the harness owns the concretization):
\*   +-T1 = +-(2^31-1)   +-T2 = +-2^31   +-T3 = +-(2^63-1)   TMIN = -2^63
T1 == 1000001
T2 == 1000002
T3 == 1000003
TMIN == -1000004
Toks == {T1, T2, T3, -T1, -T2, -T3, TMIN}
IsTok(x) == x >= 1000000 \/ x <= -1000000

Abs(x) == IF x < 0 THEN -x ELSE x
Sgn(x) == IF x > 0 THEN 1 ELSE IF x < 0 THEN -1 ELSE 0
\* remainder with the sign of the dividend (Trino / Java %)
TruncMod(n, m) == LET r == Abs(n) % Abs(m) IN IF n < 0 THEN -r ELSE r
TruncDiv(n, m) == LET q == Abs(n) \div Abs(m) IN IF (n < 0) # (m < 0) THEN -q ELSE q

\* ---- strings ------------------------------------------------------------------
Alphabet == {97, 66, 32, 233}          \* a  B  space  e-acute
Strs(k) == SeqsOf(Alphabet, 0, k)
UpperC(c) == IF c >= 97 /\ c <= 122 THEN c - 32 ELSE IF c = 233 THEN 201 ELSE c
LowerC(c) == IF c >= 65 /\ c <= 90 THEN c + 32 ELSE IF c = 201 THEN 233 ELSE c
UpperS(s) == [k \in DOMAIN s |-> UpperC(s[k])]
LowerS(s) == [k \in DOMAIN s |-> LowerC(s[k])]
IsWs(c) == c = 32
RECURSIVE LTrimS(_)
LTrimS(s) == IF s # <<>> /\ IsWs(Head(s)) THEN LTrimS(Tail(s)) ELSE s
RECURSIVE RTrimS(_)
RTrimS(s) == IF s # <<>> /\ IsWs(s[Len(s)]) THEN RTrimS(SubSeq(s, 1, Len(s) - 1)) ELSE s
TrimS(s) == LTrimS(RTrimS(s))
ReverseS(s) == [k \in DOMAIN s |-> s[Len(s) + 1 - k]]
RECURSIVE RepeatS(_, _)
RepeatS(s, k) == IF k <= 0 THEN <<>> ELSE s \o RepeatS(s, k - 1)

\* substr(string, start): positions start with 1; a negative start is relative to the end
SubstrFrom(s, st) == LET len == Len(s) IN
    IF st > 0 THEN (IF st > len THEN <<>> ELSE SubSeq(s, st, len))
    ELSE IF st < 0 THEN (IF -st > len THEN <<>> ELSE SubSeq(s, len + st + 1, len))
    ELSE <<>>
SubstrFor(s, st, ln) == LET len == Len(s)
                            b == IF st > 0 THEN st ELSE len + st + 1 IN
    IF st = 0 \/ ln <= 0 \/ b < 1 \/ b > len THEN <<>> ELSE SubSeq(s, b, Min2(len, b + ln - 1))
\* pinned iff the start lies inside the string (or just behind it, where every reading gives '')
SubstrPinned(s, st) == (st >= 1) \/ (st <= -1 /\ -st <= Len(s))

IsPrefixS(p, s) == Len(p) <= Len(s) /\ SubSeq(s, 1, Len(p)) = p
IsSuffixS(p, s) == Len(p) <= Len(s) /\ SubSeq(s, Len(s) - Len(p) + 1, Len(s)) = p
\* first 1-based position of sub in s (0 when absent; '' occurs at 1)
PosS(s, sub) == LET hits == {k \in 1..(Len(s) - Len(sub) + 1) : SubSeq(s, k, k + Len(sub) - 1) = sub} IN
    IF sub = <<>> THEN 1 ELSE IF hits = {} THEN 0 ELSE CHOOSE k \in hits : \A j \in hits : k <= j

\* fields of s split on the non-empty delimiter d
RECURSIVE SplitS(_, _)
SplitS(s, d) == LET p == PosS(s, d) IN
    IF p = 0 THEN <<s>> ELSE <<SubSeq(s, 1, p - 1)>> \o SplitS(SubSeq(s, p + Len(d), Len(s)), d)

RECURSIVE JoinS(_, _)
JoinS(parts, sep) == IF parts = <<>> THEN <<>>
                     ELSE IF Len(parts) = 1 THEN parts[1]
                     ELSE parts[1] \o sep \o JoinS(Tail(parts), sep)

\* replace(string, search, replace): all non-overlapping instances, left to right;
\* empty search: replace is inserted in front of every character and at the end
RECURSIVE ReplNE(_, _, _)
ReplNE(s, from, to) == LET p == PosS(s, from) IN
    IF p = 0 THEN s ELSE SubSeq(s, 1, p - 1) \o to \o ReplNE(SubSeq(s, p + Len(from), Len(s)), from, to)
RECURSIVE ReplEmpty(_, _)
ReplEmpty(s, to) == IF s = <<>> THEN to ELSE to \o <<Head(s)>> \o ReplEmpty(Tail(s), to)
ReplaceS(s, from, to) == IF from = <<>> THEN ReplEmpty(s, to) ELSE ReplNE(s, from, to)

\* lpad/rpad(string, size, padstring): size >= 0, padstring non-empty; truncates to size
PadOf(p, k) == SubSeq(RepeatS(p, k), 1, k)
LpadS(s, size, p) == IF Len(s) >= size THEN SubSeq(s, 1, size) ELSE PadOf(p, size - Len(s)) \o s
RpadS(s, size, p) == IF Len(s) >= size THEN SubSeq(s, 1, size) ELSE s \o PadOf(p, size - Len(s))

\* translate(source, from, to): first occurrence in from decides; beyond to's length => dropped
FirstIdx(from, c) == LET hits == {k \in DOMAIN from : from[k] = c} IN
    IF hits = {} THEN 0 ELSE CHOOSE k \in hits : \A j \in hits : k <= j
RECURSIVE TranslateS(_, _, _)
TranslateS(s, from, to) == IF s = <<>> THEN <<>> ELSE
    LET k == FirstIdx(from, Head(s))
        rest == TranslateS(Tail(s), from, to) IN
    IF k = 0 THEN <<Head(s)>> \o rest ELSE IF k <= Len(to) THEN <<to[k]>> \o rest ELSE rest

HammingS(a, b) == Cardinality({k \in DOMAIN a : a[k] # b[k]})
Min3(a, b, c) == Min2(a, Min2(b, c))
RECURSIVE Lev(_, _)
Lev(a, b) == IF a = <<>> THEN Len(b) ELSE IF b = <<>> THEN Len(a) ELSE
    Min3(Lev(Tail(a), b) + 1, Lev(a, Tail(b)) + 1, Lev(Tail(a), Tail(b)) + (IF Head(a) = Head(b) THEN 0 ELSE 1))

\* lexicographic order on code-point sequences (= byte order of UTF-8)
RECURSIVE LtS(_, _)
LtS(a, b) == IF b = <<>> THEN FALSE ELSE IF a = <<>> THEN TRUE
             ELSE IF Head(a) # Head(b) THEN Head(a) < Head(b) ELSE LtS(Tail(a), Tail(b))

\* ---- 8-bit two's complement -----------------------------------------------------
U8(x) == x % 256
S8(u) == IF u >= 128 THEN u - 256 ELSE u
RECURSIVE BitOp(_, _, _, _)
\* op: 1 and, 2 or, 3 xor on naturals, k bits
BitOp(op, a, b, k) == IF k = 0 THEN 0 ELSE
    LET x == a % 2
        y == b % 2
        z == CASE op = 1 -> (IF x = 1 /\ y = 1 THEN 1 ELSE 0)
               [] op = 2 -> (IF x = 1 \/ y = 1 THEN 1 ELSE 0)
               [] OTHER -> (IF x # y THEN 1 ELSE 0) IN
    z + 2 * BitOp(op, a \div 2, b \div 2, k - 1)
Bit8(op, a, b) == S8(BitOp(op, U8(a), U8(b), 8))
RECURSIVE Pop(_)
Pop(u) == IF u = 0 THEN 0 ELSE (u % 2) + Pop(u \div 2)
\* bit_count(x, bits): ones of x as a bits-wide two's complement number
BitCountW(x, bits) == IF x >= 0 THEN Pop(x) ELSE bits - Pop(-x - 1)
TokNot(x) == CASE x = T1 -> -T2 [] x = -T2 -> T1 [] x = T3 -> TMIN [] x = TMIN -> T3 [] OTHER -> 0
TokNotDefined(x) == x \in {T1, -T2, T3, TMIN}
TokBits64(x) == CASE x = T1 -> 31 [] x = T2 -> 1 [] x = T3 -> 63 [] x = TMIN -> 1
                  [] x = -T2 -> 33 [] x = -T1 -> 34 [] OTHER -> 2       \* -T3
RECURSIVE Pow2(_)
Pow2(k) == IF k = 0 THEN 1 ELSE 2 * Pow2(k - 1)

\* ---- calendar (proleptic Gregorian, days since 1970-01-01) ------------------------
Civil(days) == LET z == days + 719468
                   era == z \div 146097
                   doe == z - era * 146097
                   yoe == (doe - doe \div 1460 + doe \div 36524 - doe \div 146096) \div 365
                   doy == doe - (365 * yoe + yoe \div 4 - yoe \div 100)
                   mp == (5 * doy + 2) \div 153
                   m == IF mp < 10 THEN mp + 3 ELSE mp - 9 IN
    [y |-> yoe + era * 400 + (IF m <= 2 THEN 1 ELSE 0), m |-> m, d |-> doy - (153 * mp + 2) \div 5 + 1]
Days(y, m, d) == LET yy == IF m <= 2 THEN y - 1 ELSE y
                     era == yy \div 400
                     yoe == yy - era * 400
                     mp == IF m > 2 THEN m - 3 ELSE m + 9
                     doy == (153 * mp + 2) \div 5 + d - 1
                     doe == yoe * 365 + yoe \div 4 - yoe \div 100 + doy IN
    era * 146097 + doe - 719468
IsLeap(y) == (y % 4 = 0 /\ y % 100 # 0) \/ y % 400 = 0
Dim(y, m) == IF m = 2 THEN (IF IsLeap(y) THEN 29 ELSE 28) ELSE IF m \in {4, 6, 9, 11} THEN 30 ELSE 31
YearOf(x) == Civil(x).y
MonthOf(x) == Civil(x).m
DayOf(x) == Civil(x).d
QuarterOf(x) == (Civil(x).m - 1) \div 3 + 1
DowIso(x) == ((x + 3) % 7) + 1                       \* Monday = 1 .. Sunday = 7
DoyOf(x) == x - Days(Civil(x).y, 1, 1) + 1
LastDom(x) == LET c == Civil(x) IN Days(c.y, c.m, Dim(c.y, c.m))
PW(y) == (y + y \div 4 - y \div 100 + y \div 400) % 7
LongYear(y) == PW(y) = 4 \/ PW(y - 1) = 3
IsoWeek(x) == LET w == (DoyOf(x) - DowIso(x) + 10) \div 7
                  y == YearOf(x) IN
    IF w < 1 THEN (IF LongYear(y - 1) THEN 53 ELSE 52)
    ELSE IF w = 53 /\ ~LongYear(y) THEN 1 ELSE w
IsoYear(x) == LET w == (DoyOf(x) - DowIso(x) + 10) \div 7
                  y == YearOf(x) IN
    IF w < 1 THEN y - 1 ELSE IF w = 53 /\ ~LongYear(y) THEN y + 1 ELSE y
AddMonths(x, k) == LET c == Civil(x)
                       tot == c.y * 12 + (c.m - 1) + k
                       ny == tot \div 12
                       nm == (tot % 12) + 1 IN
    Days(ny, nm, Min2(c.d, Dim(ny, nm)))
TruncTo(u, x) == LET c == Civil(x) IN
    CASE u = "day" -> x
      [] u = "week" -> x - (DowIso(x) - 1)
      [] u = "month" -> Days(c.y, c.m, 1)
      [] u = "quarter" -> Days(c.y, ((c.m - 1) \div 3) * 3 + 1, 1)
      [] OTHER -> Days(c.y, 1, 1)
AddUnit(u, k, x) == CASE u = "day" -> x + k
                      [] u = "week" -> x + 7 * k
                      [] u = "month" -> AddMonths(x, k)
                      [] u = "quarter" -> AddMonths(x, 3 * k)
                      [] OTHER -> AddMonths(x, 12 * k)
\* complete months from a to b (a <= b)
MonthsUp(a, b) == LET ca == Civil(a)
                      cb == Civil(b) IN
    (cb.y * 12 + cb.m) - (ca.y * 12 + ca.m) - (IF cb.d < ca.d THEN 1 ELSE 0)
MonthsBetween(a, b) == IF a <= b THEN MonthsUp(a, b) ELSE -MonthsUp(b, a)
\* the documentation is silent on whether reaching the LAST day of a shorter month completes the month
MonthsPinned(a, b) == LET lo == Min2(a, b)
                          hi == Max2(a, b) IN
    ~(DayOf(hi) < DayOf(lo) /\ hi = LastDom(hi))
DiffUnit(u, a, b) == CASE u = "day" -> b - a
                       [] u = "week" -> TruncDiv(b - a, 7)
                       [] u = "month" -> MonthsBetween(a, b)
                       [] u = "quarter" -> TruncDiv(MonthsBetween(a, b), 3)
                       [] OTHER -> TruncDiv(MonthsBetween(a, b), 12)

\* ---- argument domains ----------------------------------------------------------------
SV(k) == {S(q) : q \in Strs(k)} \cup {N("str")}
NES(k) == {S(q) : q \in Strs(k) \ {<<>>}}
SmallInts == IF Wide = 1 THEN {-3, -2, -1, 0, 1, 2, 3, 7} ELSE {-2, -1, 0, 1, 2, 7}
IV == {I(x) : x \in SmallInts} \cup {N("int")}
IVB == IV \cup {I(x) : x \in Toks}
Starts == {I(x) : x \in (IF Wide = 1 THEN -4..5 ELSE -4..4)} \cup {N("int")}
Lens == {I(x) : x \in (IF Wide = 1 THEN -1..4 ELSE {-1, 0, 1, 2, 4})} \cup {N("int")}
SubTmpl2 == IF Wide = 1 THEN {"SUBSTRING($1, $2)", "SUBSTR($1, $2)", "SUBSTRING($1 FROM $2)"} ELSE {"SUBSTRING($1, $2)"}
SubTmpl3 == IF Wide = 1 THEN {"SUBSTRING($1, $2, $3)", "SUBSTR($1, $2, $3)", "SUBSTRING($1 FROM $2 FOR $3)"} ELSE {"SUBSTRING($1, $2, $3)"}
SubAlt2 == {"SUBSTR($1, $2)", "SUBSTRING($1 FROM $2)"}
SubAlt3 == {"SUBSTR($1, $2, $3)", "SUBSTRING($1 FROM $2 FOR $3)"}
Sizes == {I(x) : x \in 0..5} \cup {N("int")}
HV == {H(x) : x \in {-5, -4, -3, -2, -1, 0, 1, 2, 3, 4, 5, 7}} \cup {N("dbl")}
BV == {B(0), B(1), N("bool")}
DateList == <<Days(1900, 1, 1), Days(1900, 2, 28), Days(1900, 3, 1), Days(1969, 12, 31), Days(1970, 1, 1),
              Days(1999, 12, 31), Days(2000, 2, 29), Days(2000, 3, 1), Days(2020, 1, 31), Days(2020, 2, 29),
              Days(2020, 12, 31), Days(2021, 1, 3), Days(2021, 1, 4), Days(2023, 2, 28), Days(2024, 2, 29),
              Days(2024, 3, 31), Days(2024, 12, 30), Days(2026, 8, 30), Days(2100, 2, 28), Days(2100, 3, 1),
              Days(2100, 12, 31)>>
DateListQuick == <<Days(1900, 3, 1), Days(1969, 12, 31), Days(1970, 1, 1), Days(2000, 2, 29), Days(2020, 1, 31),
                   Days(2020, 2, 29), Days(2021, 1, 3), Days(2023, 2, 28), Days(2024, 3, 31), Days(2024, 12, 30),
                   Days(2100, 12, 31)>>
DatesRaw == IF Wide = 1 THEN SeqRange(DateList) ELSE SeqRange(DateListQuick)
DV == {D(x) : x \in DatesRaw} \cup {N("date")}
AddAmounts == {I(x) : x \in (IF Wide = 1 THEN {-25, -13, -12, -1, 0, 1, 2, 11, 12, 13, 48} ELSE {-13, -1, 0, 1, 12})} \cup {N("int")}

\* ---- cases ------------------------------------------------------------------------------
On(p) == Part = "all" \/ Part = p
C(f, tmpl, args, exp, pin) == [f |-> f, tmpl |-> tmpl, args |-> args, exp |-> exp, pin |-> IF pin THEN 1 ELSE 0]
AnyN(args) == \E k \in DOMAIN args : IsN(args[k])

\* one string
Str1(f, tmpl, R(_)) == {C(f, tmpl, <<a>>, IF IsN(a) THEN N("str") ELSE S(R(a.s)), TRUE) : a \in SV(K1)}
Str1Int(f, tmpl, R(_)) == {C(f, tmpl, <<a>>, IF IsN(a) THEN N("int") ELSE I(R(a.s)), TRUE) : a \in SV(K1)}
LenS(s) == Len(s)
CasesStr1 == IF ~On("d") THEN {} ELSE
    Str1Int("LENGTH", "LENGTH($1)", LenS) \cup Str1Int("CHAR_LENGTH", "CHAR_LENGTH($1)", LenS)
    \cup Str1("UPPER", "UPPER($1)", UpperS) \cup Str1("LOWER", "LOWER($1)", LowerS)
    \cup Str1("TRIM", "TRIM($1)", TrimS) \cup Str1("LTRIM", "LTRIM($1)", LTrimS) \cup Str1("RTRIM", "RTRIM($1)", RTrimS)
    \cup Str1("TRIM", "TRIM(BOTH FROM $1)", TrimS) \cup Str1("LTRIM", "TRIM(LEADING FROM $1)", LTrimS)
    \cup Str1("RTRIM", "TRIM(TRAILING FROM $1)", RTrimS)
    \cup Str1("REVERSE", "REVERSE($1)", ReverseS)
    \cup {C("CODEPOINT", "CODEPOINT($1)", <<a>>, IF IsN(a) THEN N("int") ELSE I(a.s[1]), TRUE) :
             a \in {x \in SV(1) : IsN(x) \/ Len(x.s) = 1}}
    \cup {C("ASCII", "ASCII($1)", <<a>>, IF IsN(a) THEN N("int") ELSE I(a.s[1]), TRUE) :
             a \in {x \in SV(2) : IsN(x) \/ Len(x.s) >= 1}}
    \cup {C("CHR", "CHR($1)", <<a>>, IF IsN(a) THEN N("str") ELSE S(<<a.i>>), TRUE) :
             a \in {I(97), I(66), I(32), I(233), I(8364), N("int")}}

\* string + integers
CasesStrInt == IF ~On("a") THEN {} ELSE
    UNION {{C("SUBSTRING", t, <<a, st>>, IF AnyN(<<a, st>>) THEN N("str") ELSE S(SubstrFrom(a.s, st.i)),
                AnyN(<<a, st>>) \/ SubstrPinned(a.s, st.i)) : a \in SV(K1), st \in Starts}
             : t \in SubTmpl2}
    \cup UNION {{C("SUBSTRING", t, <<a, st, ln>>,
                   IF AnyN(<<a, st, ln>>) THEN N("str") ELSE S(SubstrFor(a.s, st.i, ln.i)),
                   AnyN(<<a, st, ln>>) \/ (SubstrPinned(a.s, st.i) /\ ln.i >= 0)) : a \in SV(IF Wide = 1 THEN K1 ELSE 2), st \in Starts, ln \in Lens}
             : t \in SubTmpl3}
    \* the alternative spellings on a smaller string domain (quick)
    \cup UNION {{C("SUBSTRING", t, <<a, st>>, IF AnyN(<<a, st>>) THEN N("str") ELSE S(SubstrFrom(a.s, st.i)),
                AnyN(<<a, st>>) \/ SubstrPinned(a.s, st.i)) : a \in SV(2), st \in Starts} : t \in SubAlt2}
    \cup UNION {{C("SUBSTRING", t, <<a, st, ln>>,
                   IF AnyN(<<a, st, ln>>) THEN N("str") ELSE S(SubstrFor(a.s, st.i, ln.i)),
                   AnyN(<<a, st, ln>>) \/ (SubstrPinned(a.s, st.i) /\ ln.i >= 0)) : a \in SV(IF Wide = 1 THEN 2 ELSE 1), st \in Starts, ln \in Lens} : t \in SubAlt3}
    \cup {C("LEFT", "LEFT($1, $2)", <<a, k>>, IF AnyN(<<a, k>>) THEN N("str") ELSE S(SubSeq(a.s, 1, Min2(k.i, Len(a.s)))), TRUE)
             : a \in SV(K1), k \in Sizes}
    \cup {C("RIGHT", "RIGHT($1, $2)", <<a, k>>,
             IF AnyN(<<a, k>>) THEN N("str") ELSE S(SubSeq(a.s, Len(a.s) - Min2(k.i, Len(a.s)) + 1, Len(a.s))), TRUE)
             : a \in SV(K1), k \in Sizes}
    \cup {C("REPEAT", "REPEAT($1, $2)", <<a, k>>, IF AnyN(<<a, k>>) THEN N("str") ELSE S(RepeatS(a.s, k.i)), TRUE)
             : a \in SV(Min2(K1, 2)), k \in {I(x) : x \in 0..3} \cup {N("int")}}
    \cup {C("LPAD", "LPAD($1, $2, $3)", <<a, k, p>>,
             IF AnyN(<<a, k, p>>) THEN N("str") ELSE S(LpadS(a.s, k.i, p.s)), TRUE)
             : a \in SV(K2), k \in Sizes, p \in NES(K3) \cup {N("str")}}
    \cup {C("RPAD", "RPAD($1, $2, $3)", <<a, k, p>>,
             IF AnyN(<<a, k, p>>) THEN N("str") ELSE S(RpadS(a.s, k.i, p.s)), TRUE)
             : a \in SV(K2), k \in Sizes, p \in NES(K3) \cup {N("str")}}
    \cup {C("SPLIT_PART", "SPLIT_PART($1, $2, $3)", <<a, d, k>>,
             IF AnyN(<<a, d, k>>) THEN N("str")
             ELSE (LET parts == SplitS(a.s, d.s) IN IF k.i > Len(parts) THEN N("str") ELSE S(parts[k.i])), TRUE)
             : a \in SV(IF Wide = 1 THEN K1 ELSE 2) \cup {S(<<97, 32, 97>>), S(<<233, 66, 233>>), S(<<32, 32, 32>>)},
               d \in NES(K3) \cup {N("str")}, k \in {I(x) : x \in 1..4} \cup {N("int")}}

\* two / three strings
Str2(f, tmpl, R(_, _), rt) == {C(f, tmpl, <<a, b>>, IF AnyN(<<a, b>>) THEN N(rt) ELSE R(a.s, b.s), TRUE) : a \in SV(K2), b \in SV(K2)}
ConcatR(a, b) == S(a \o b)
PosR(a, b) == I(PosS(a, b))
PosInR(a, b) == I(PosS(b, a))
StartsR(a, b) == Bool(IsPrefixS(b, a))
EndsR(a, b) == Bool(IsSuffixS(b, a))
LevR(a, b) == I(Lev(a, b))
CasesStr2 == IF ~On("b") THEN {} ELSE
    Str2("CONCAT", "CONCAT($1, $2)", ConcatR, "str") \cup Str2("CONCAT", "$1 || $2", ConcatR, "str")
    \cup Str2("STRPOS", "STRPOS($1, $2)", PosR, "int") \cup Str2("POSITION", "POSITION($1 IN $2)", PosInR, "int")
    \cup Str2("STARTS_WITH", "STARTS_WITH($1, $2)", StartsR, "bool") \cup Str2("ENDS_WITH", "ENDS_WITH($1, $2)", EndsR, "bool")
    \cup Str2("LEVENSHTEIN_DISTANCE", "LEVENSHTEIN_DISTANCE($1, $2)", LevR, "int")
    \cup UNION {{C("HAMMING_DISTANCE", "HAMMING_DISTANCE($1, $2)", <<a, b>>,
                    IF AnyN(<<a, b>>) THEN N("int") ELSE I(HammingS(a.s, b.s)), TRUE)
                    : b \in {x \in SV(K2) : IsN(a) \/ IsN(x) \/ Len(x.s) = Len(a.s)}} : a \in SV(K2)}
    \cup {C("REPLACE", "REPLACE($1, $2)", <<a, b>>, IF AnyN(<<a, b>>) THEN N("str") ELSE S(ReplaceS(a.s, b.s, <<>>)), TRUE)
             : a \in SV(K1), b \in SV(K3)}
    \cup {C("CONCAT", "CONCAT($1, $2, $3)", <<a, b, c>>, IF AnyN(<<a, b, c>>) THEN N("str") ELSE S(a.s \o b.s \o c.s), TRUE)
             : a \in SV(K3), b \in SV(K3), c \in SV(K3)}
    \cup {C("CONCAT_WS", "CONCAT_WS($1, $2, $3)", <<sep, a, b>>,
             IF IsN(sep) THEN N("str")
             ELSE S(JoinS(LET nn == SelectSeq(<<a, b>>, LAMBDA x : ~IsN(x)) IN [k \in DOMAIN nn |-> nn[k].s], sep.s)), TRUE)
             : sep \in SV(K3), a \in SV(K3), b \in SV(K3)}
CasesStr3 == IF ~On("c") THEN {} ELSE
    {C("REPLACE", "REPLACE($1, $2, $3)", <<a, b, c>>,
        IF AnyN(<<a, b, c>>) THEN N("str") ELSE S(ReplaceS(a.s, b.s, c.s)), TRUE)
        : a \in SV(IF Wide = 1 THEN K1 ELSE 2) \cup {S(<<97, 66, 97>>), S(<<233, 233, 233>>), S(<<97, 97, 97>>)}, b \in SV(K3), c \in SV(K3)}
    \cup {C("TRANSLATE", "TRANSLATE($1, $2, $3)", <<a, b, c>>,
        IF AnyN(<<a, b, c>>) THEN N("str") ELSE S(TranslateS(a.s, b.s, c.s)), TRUE) : a \in SV(IF Wide = 1 THEN K1 ELSE 2), b \in SV(2), c \in SV(K3)}


\* integer math (order-only tokens where the definition needs nothing but order / sign)
IntMax(a, b) == IF a >= b THEN a ELSE b
IntMin(a, b) == IF a <= b THEN a ELSE b
CasesNum == IF ~On("d") THEN {} ELSE
    {C("ABS", "ABS($1)", <<a>>, IF IsN(a) THEN N("int") ELSE I(Abs(a.i)), TRUE) : a \in IVB \ {I(TMIN)}}
    \cup {C("SIGN", "SIGN($1)", <<a>>, IF IsN(a) THEN N("int") ELSE I(Sgn(a.i)), TRUE) : a \in IVB}
    \cup {C("MOD", "MOD($1, $2)", <<a, b>>, IF AnyN(<<a, b>>) THEN N("int") ELSE I(TruncMod(a.i, b.i)), TRUE)
             : a \in IV, b \in IV \ {I(0)}}
    \cup {C("MOD", "MOD($1, $2)", <<a, I(b)>>, IF IsN(a) THEN N("int") ELSE a, TRUE) : a \in IV, b \in {T1, T2, T3, -T2}}
    \cup {C("MOD", "MOD($1, $2)", <<I(a), I(b)>>, I(0), TRUE) : a \in Toks \ {TMIN}, b \in {1, -1}}
    \cup {C("GREATEST", "GREATEST($1, $2)", <<a, b>>, IF AnyN(<<a, b>>) THEN N("int") ELSE I(IntMax(a.i, b.i)), TRUE) : a \in IVB, b \in IVB}
    \cup {C("LEAST", "LEAST($1, $2)", <<a, b>>, IF AnyN(<<a, b>>) THEN N("int") ELSE I(IntMin(a.i, b.i)), TRUE) : a \in IVB, b \in IVB}
    \cup {C("GREATEST", "GREATEST($1, $2, $3)", <<a, b, c>>,
             IF AnyN(<<a, b, c>>) THEN N("int") ELSE I(IntMax(a.i, IntMax(b.i, c.i))), TRUE) : a \in IV, b \in IV, c \in IV}
    \cup {C("LEAST", "LEAST($1, $2, $3)", <<a, b, c>>,
             IF AnyN(<<a, b, c>>) THEN N("int") ELSE I(IntMin(a.i, IntMin(b.i, c.i))), TRUE) : a \in IV, b \in IV, c \in IV}
    \cup {C("GREATEST", "GREATEST($1, $2)", <<a, b>>,
             IF AnyN(<<a, b>>) THEN N("str") ELSE (IF LtS(a.s, b.s) THEN b ELSE a), TRUE) : a \in SV(Min2(K2, 2)), b \in SV(Min2(K2, 2))}
    \cup {C("LEAST", "LEAST($1, $2)", <<a, b>>,
             IF AnyN(<<a, b>>) THEN N("str") ELSE (IF LtS(b.s, a.s) THEN b ELSE a), TRUE) : a \in SV(Min2(K2, 2)), b \in SV(Min2(K2, 2))}
    \* dyadic doubles k/2 held as k
    \cup {C("ABS", "ABS($1)", <<a>>, IF IsN(a) THEN N("dbl") ELSE H(Abs(a.i)), TRUE) : a \in HV}
    \cup {C("SIGN", "SIGN($1)", <<a>>, IF IsN(a) THEN N("dbl") ELSE H(2 * Sgn(a.i)), TRUE) : a \in HV}
    \cup UNION {{C("CEIL", t, <<a>>, IF IsN(a) THEN N("dbl") ELSE H(2 * (-((-a.i) \div 2))), TRUE) : a \in HV}
                 : t \in {"CEIL($1)", "CEILING($1)"}}
    \cup {C("FLOOR", "FLOOR($1)", <<a>>, IF IsN(a) THEN N("dbl") ELSE H(2 * (a.i \div 2)), TRUE) : a \in HV}
    \cup {C("ROUND", "ROUND($1)", <<a>>,
             IF IsN(a) THEN N("dbl") ELSE H(IF a.i >= 0 THEN 2 * ((a.i + 1) \div 2) ELSE -2 * ((-a.i + 1) \div 2)), TRUE) : a \in HV}
    \cup {C("TRUNCATE", "TRUNCATE($1)", <<a>>, IF IsN(a) THEN N("dbl") ELSE H(2 * TruncDiv(a.i, 2)), TRUE) : a \in HV}
    \cup UNION {{C(f, f \o "($1)", <<a>>, a, TRUE) : a \in IV} : f \in {"CEIL", "FLOOR", "ROUND"}}

\* conditional
IfR(c, a, b) == IF c.n = 0 /\ c.i = 1 THEN a ELSE b
CondPairs == {<<I(1), I(2), "int">>, <<S(<<97>>), S(<<66, 233>>), "str">>, <<S(<<>>), S(<<32>>), "str">>,
              <<D(Days(2020, 2, 29)), D(Days(1969, 12, 31)), "date">>, <<H(3), H(-1), "dbl">>, <<I(T3), I(TMIN), "int">>}
WithNulls(p) == {<<x, y>> : x \in {p[1], p[2], N(p[3])}, y \in {p[1], p[2], N(p[3])}}
CasesCond == IF ~On("d") THEN {} ELSE
    UNION {{C("COALESCE", "COALESCE($1, $2)", <<q[1], q[2]>>, IF IsN(q[1]) THEN q[2] ELSE q[1], TRUE) : q \in WithNulls(p)} : p \in CondPairs}
    \cup UNION {{C("COALESCE", "COALESCE($1, $2, $3)", <<q[1], q[2], r>>,
                    IF ~IsN(q[1]) THEN q[1] ELSE IF ~IsN(q[2]) THEN q[2] ELSE r, TRUE) : q \in WithNulls(p), r \in {p[1], N(p[3])}} : p \in CondPairs}
    \cup UNION {{C("NULLIF", "NULLIF($1, $2)", <<q[1], q[2]>>,
                    IF IsN(q[1]) THEN N(p[3]) ELSE IF ~IsN(q[2]) /\ q[1] = q[2] THEN N(p[3]) ELSE q[1], TRUE) : q \in WithNulls(p)} : p \in CondPairs}
    \cup UNION {{C("IF", "IF($1, $2, $3)", <<c, q[1], q[2]>>, IfR(c, q[1], q[2]), TRUE) : q \in WithNulls(p), c \in BV} : p \in CondPairs}
    \cup UNION {{C("IF", "IF($1, $2)", <<c, x>>, IfR(c, x, N(p[3])), TRUE) : x \in {p[1], N(p[3])}, c \in BV} : p \in CondPairs}
    \cup UNION {{C("CASE", "CASE WHEN $1 THEN $2 ELSE $3 END", <<c, q[1], q[2]>>, IfR(c, q[1], q[2]), TRUE) : q \in WithNulls(p), c \in BV} : p \in CondPairs}
    \cup UNION {{C("CASE", "CASE WHEN $1 THEN $2 END", <<c, x>>, IfR(c, x, N(p[3])), TRUE) : x \in {p[1], N(p[3])}, c \in BV} : p \in CondPairs}
    \cup UNION {{C("CASE", "CASE WHEN $1 THEN $3 WHEN $2 THEN $4 ELSE $5 END", <<c1, c2, p[1], p[2], N(p[3])>>,
                    IfR(c1, p[1], IfR(c2, p[2], N(p[3]))), TRUE) : c1 \in BV, c2 \in BV} : p \in CondPairs}
    \cup {C("CASE", "CASE $1 WHEN $2 THEN $3 WHEN $4 THEN $5 ELSE $6 END", <<x, a, I(10), b, I(20), e>>,
             IF ~IsN(x) /\ ~IsN(a) /\ x = a THEN I(10) ELSE IF ~IsN(x) /\ ~IsN(b) /\ x = b THEN I(20) ELSE e, TRUE)
             : x \in {I(1), I(2), I(7), N("int")}, a \in {I(1), N("int")}, b \in {I(1), I(2), N("int")}, e \in {I(30), N("int")}}
    \cup UNION {{C("TRY", "TRY($1)", <<x>>, x, TRUE) : x \in {p[1], p[2], N(p[3])}} : p \in CondPairs}

\* bitwise (BIGINT semantics; 8-bit model exact for operands in -128..127)
BitInts == IF Wide = 1 THEN {-128, -8, -7, -2, -1, 0, 1, 2, 3, 5, 6, 7, 9, 127} ELSE {-8, -7, -1, 0, 1, 2, 5, 6, 7, 9}
BIV == {I(x) : x \in BitInts} \cup {N("int")}
BitFn(f, op) == {C(f, f \o "($1, $2)", <<a, b>>, IF AnyN(<<a, b>>) THEN N("int") ELSE I(Bit8(op, a.i, b.i)), TRUE) : a \in BIV, b \in BIV}
CasesBit == IF ~On("d") THEN {} ELSE
    BitFn("BITWISE_AND", 1) \cup BitFn("BITWISE_OR", 2) \cup BitFn("BITWISE_XOR", 3)
    \cup {C("BITWISE_NOT", "BITWISE_NOT($1)", <<a>>, IF IsN(a) THEN N("int") ELSE I(-a.i - 1), TRUE) : a \in BIV}
    \cup {C("BITWISE_NOT", "BITWISE_NOT($1)", <<I(a)>>, I(TokNot(a)), TRUE) : a \in {x \in Toks : TokNotDefined(x)}}
    \cup {C("BITWISE_AND", "BITWISE_AND($1, $2)", <<I(a), I(b)>>, I(IF b = 0 THEN 0 ELSE a), TRUE) : a \in Toks, b \in {0, -1}}
    \cup {C("BITWISE_OR", "BITWISE_OR($1, $2)", <<I(a), I(b)>>, I(IF b = 0 THEN a ELSE -1), TRUE) : a \in Toks, b \in {0, -1}}
    \cup {C("BITWISE_XOR", "BITWISE_XOR($1, $2)", <<I(a), I(0)>>, I(a), TRUE) : a \in Toks}
    \cup {C("BIT_COUNT", "BIT_COUNT($1, $2)", <<a, I(w)>>, IF IsN(a) THEN N("int") ELSE I(BitCountW(a.i, w)), TRUE)
             : a \in BIV, w \in {64}}
    \cup {C("BIT_COUNT", "BIT_COUNT($1, $2)", <<I(a), I(8)>>, I(BitCountW(a, 8)), TRUE) : a \in {x \in BitInts : x >= -128 /\ x <= 127}}
    \cup {C("BIT_COUNT", "BIT_COUNT($1, $2)", <<I(a), I(64)>>, I(TokBits64(a)), TRUE) : a \in Toks}
    \cup {C("BIT_COUNT", "BIT_COUNT($1, $2)", <<I(5), N("int")>>, N("int"), TRUE)}
    \cup {C("BITWISE_LEFT_SHIFT", "BITWISE_LEFT_SHIFT($1, $2)", <<a, k>>,
             IF AnyN(<<a, k>>) THEN N("int") ELSE I(a.i * Pow2(k.i)), TRUE) : a \in BIV, k \in {I(0), I(1), I(3), N("int")}}
    \cup {C("BITWISE_RIGHT_SHIFT", "BITWISE_RIGHT_SHIFT($1, $2)", <<a, k>>,
             IF AnyN(<<a, k>>) THEN N("int") ELSE I(a.i \div Pow2(k.i)), TRUE)
             : a \in {x \in BIV : IsN(x) \/ x.i >= 0}, k \in {I(0), I(1), I(3), N("int")}}
    \cup {C("BITWISE_RIGHT_SHIFT_ARITHMETIC", "BITWISE_RIGHT_SHIFT_ARITHMETIC($1, $2)", <<a, k>>,
             IF AnyN(<<a, k>>) THEN N("int") ELSE I(a.i \div Pow2(k.i)), TRUE) : a \in BIV, k \in {I(0), I(1), I(3), N("int")}}

\* calendar
Date1(f, tmpl, R(_)) == {C(f, tmpl, <<a>>, IF IsN(a) THEN N("int") ELSE I(R(a.i)), TRUE) : a \in DV}
Units == {"day", "week", "month", "quarter", "year"}
CasesDate == IF ~On("d") THEN {} ELSE
    Date1("YEAR", "YEAR($1)", YearOf) \cup Date1("MONTH", "MONTH($1)", MonthOf) \cup Date1("DAY", "DAY($1)", DayOf)
    \cup Date1("QUARTER", "QUARTER($1)", QuarterOf)
    \cup Date1("DAY_OF_WEEK", "DAY_OF_WEEK($1)", DowIso) \cup Date1("DAY_OF_WEEK", "DOW($1)", DowIso)
    \cup Date1("DAY_OF_YEAR", "DAY_OF_YEAR($1)", DoyOf) \cup Date1("DAY_OF_YEAR", "DOY($1)", DoyOf)
    \cup Date1("WEEK", "WEEK($1)", IsoWeek) \cup Date1("WEEK", "WEEK_OF_YEAR($1)", IsoWeek)
    \cup Date1("YEAR_OF_WEEK", "YEAR_OF_WEEK($1)", IsoYear)
    \cup Date1("EXTRACT", "EXTRACT(YEAR FROM $1)", YearOf) \cup Date1("EXTRACT", "EXTRACT(MONTH FROM $1)", MonthOf)
    \cup Date1("EXTRACT", "EXTRACT(DAY FROM $1)", DayOf) \cup Date1("EXTRACT", "EXTRACT(QUARTER FROM $1)", QuarterOf)
    \cup Date1("EXTRACT", "EXTRACT(DOW FROM $1)", DowIso) \cup Date1("EXTRACT", "EXTRACT(DOY FROM $1)", DoyOf)
    \cup Date1("EXTRACT", "EXTRACT(WEEK FROM $1)", IsoWeek)
    \cup {C("LAST_DAY_OF_MONTH", "LAST_DAY_OF_MONTH($1)", <<a>>, IF IsN(a) THEN N("date") ELSE D(LastDom(a.i)), TRUE) : a \in DV}
    \cup UNION {{C("DATE_TRUNC", "DATE_TRUNC('" \o u \o "', $1)", <<a>>, IF IsN(a) THEN N("date") ELSE D(TruncTo(u, a.i)), TRUE) : a \in DV} : u \in Units}
    \cup UNION {{C("DATE_ADD", "DATE_ADD('" \o u \o "', $1, $2)", <<k, a>>,
                    IF AnyN(<<k, a>>) THEN N("date") ELSE D(AddUnit(u, k.i, a.i)), TRUE) : k \in AddAmounts, a \in DV} : u \in Units}
    \cup UNION {{C("DATE_DIFF", "DATE_DIFF('" \o u \o "', $1, $2)", <<a, b>>,
                    IF AnyN(<<a, b>>) THEN N("int") ELSE I(DiffUnit(u, a.i, b.i)),
                    AnyN(<<a, b>>) \/ u \in {"day", "week"} \/ MonthsPinned(a.i, b.i)) : a \in DV, b \in DV} : u \in Units}
    \cup {C("DATE_ADD", "$1 + INTERVAL '1' MONTH", <<a>>, IF IsN(a) THEN N("date") ELSE D(AddMonths(a.i, 1)), TRUE) : a \in DV}
    \cup {C("DATE_ADD", "$1 - INTERVAL '1' MONTH", <<a>>, IF IsN(a) THEN N("date") ELSE D(AddMonths(a.i, -1)), TRUE) : a \in DV}
    \cup {C("DATE_ADD", "$1 + INTERVAL '1' YEAR", <<a>>, IF IsN(a) THEN N("date") ELSE D(AddMonths(a.i, 12)), TRUE) : a \in DV}
    \cup {C("DATE_ADD", "$1 + INTERVAL '3' DAY", <<a>>, IF IsN(a) THEN N("date") ELSE D(a.i + 3), TRUE) : a \in DV}

\* ---- NULL rule for the rest of the binder's table ------------------------------------------
\* <<function, template with exactly one placeholder, type of the NULL argument>>; every listed
\* function is null-strict in Trino ("like most other functions, they return null if any argument is null")
NullRule == {
  <<"SQRT", "SQRT($1)", "dbl">>, <<"CBRT", "CBRT($1)", "dbl">>, <<"POWER", "POWER($1, 2)", "dbl">>, <<"POWER", "POWER(2, $1)", "dbl">>,
  <<"POW", "POW($1, 2)", "dbl">>, <<"LN", "LN($1)", "dbl">>, <<"LOG", "LOG(2, $1)", "dbl">>, <<"LOG2", "LOG2($1)", "dbl">>,
  <<"LOG10", "LOG10($1)", "dbl">>, <<"EXP", "EXP($1)", "dbl">>, <<"SIN", "SIN($1)", "dbl">>, <<"COS", "COS($1)", "dbl">>,
  <<"TAN", "TAN($1)", "dbl">>, <<"ASIN", "ASIN($1)", "dbl">>, <<"ACOS", "ACOS($1)", "dbl">>, <<"ATAN", "ATAN($1)", "dbl">>,
  <<"ATAN2", "ATAN2($1, 1.5)", "dbl">>, <<"ATAN2", "ATAN2(1.5, $1)", "dbl">>, <<"SINH", "SINH($1)", "dbl">>, <<"COSH", "COSH($1)", "dbl">>,
  <<"TANH", "TANH($1)", "dbl">>, <<"COT", "COT($1)", "dbl">>, <<"DEGREES", "DEGREES($1)", "dbl">>, <<"RADIANS", "RADIANS($1)", "dbl">>,
  <<"IS_FINITE", "IS_FINITE($1)", "dbl">>, <<"IS_NAN", "IS_NAN($1)", "dbl">>, <<"IS_INFINITE", "IS_INFINITE($1)", "dbl">>,
  <<"ROUND", "ROUND($1, 1)", "dbl">>, <<"TRUNCATE", "TRUNC($1)", "dbl">>,
  <<"FROM_BASE", "FROM_BASE($1, 16)", "str">>, <<"FROM_BASE", "FROM_BASE('ff', $1)", "int">>,
  <<"TO_BASE", "TO_BASE($1, 16)", "int">>, <<"TO_BASE", "TO_BASE(255, $1)", "int">>,
  <<"WIDTH_BUCKET", "WIDTH_BUCKET($1, 0, 10, 5)", "dbl">>,
  <<"NORMAL_CDF", "NORMAL_CDF(0, 1, $1)", "dbl">>, <<"INVERSE_NORMAL_CDF", "INVERSE_NORMAL_CDF(0, 1, $1)", "dbl">>,
  <<"BETA_CDF", "BETA_CDF(2, 3, $1)", "dbl">>, <<"INVERSE_BETA_CDF", "INVERSE_BETA_CDF(2, 3, $1)", "dbl">>,
  <<"T_CDF", "T_CDF(3, $1)", "dbl">>, <<"T_PDF", "T_PDF(3, $1)", "dbl">>,
  <<"WILSON_INTERVAL_LOWER", "WILSON_INTERVAL_LOWER($1, 10, 1.96)", "int">>,
  <<"WILSON_INTERVAL_UPPER", "WILSON_INTERVAL_UPPER($1, 10, 1.96)", "int">>,
  <<"SOUNDEX", "SOUNDEX($1)", "str">>, <<"LUHN_CHECK", "LUHN_CHECK($1)", "str">>, <<"NORMALIZE", "NORMALIZE($1)", "str">>,
  <<"TO_UTF8", "TO_UTF8($1)", "str">>, <<"WORD_STEM", "WORD_STEM($1)", "str">>, <<"SPLIT", "SPLIT($1, ',')", "str">>,
  <<"HOUR", "HOUR($1)", "ts">>, <<"MINUTE", "MINUTE($1)", "ts">>, <<"SECOND", "SECOND($1)", "ts">>, <<"MILLISECOND", "MILLISECOND($1)", "ts">>,
  <<"YEAR", "YEAR($1)", "ts">>, <<"MONTH", "MONTH($1)", "ts">>, <<"DAY", "DAY($1)", "ts">>, <<"QUARTER", "QUARTER($1)", "ts">>,
  <<"WEEK", "WEEK($1)", "ts">>, <<"DAY_OF_WEEK", "DAY_OF_WEEK($1)", "ts">>, <<"DAY_OF_YEAR", "DAY_OF_YEAR($1)", "ts">>,
  <<"DATE_TRUNC", "DATE_TRUNC('hour', $1)", "ts">>, <<"DATE_ADD", "DATE_ADD('hour', 1, $1)", "ts">>,
  <<"DATE_DIFF", "DATE_DIFF('hour', $1, $1)", "ts">>, <<"DATE_PART", "DATE_PART('year', $1)", "date">>,
  <<"FROM_UNIXTIME", "FROM_UNIXTIME($1)", "dbl">>, <<"TO_UNIXTIME", "TO_UNIXTIME($1)", "ts">>,
  <<"FROM_ISO8601_TIMESTAMP", "FROM_ISO8601_TIMESTAMP($1)", "str">>, <<"FROM_ISO8601_DATE", "FROM_ISO8601_DATE($1)", "str">>,
  <<"TO_ISO8601", "TO_ISO8601($1)", "date">>, <<"DATE_FORMAT", "DATE_FORMAT($1, '%Y')", "ts">>, <<"DATE_FORMAT", "DATE_FORMAT($1, '%Y')", "date">>,
  <<"DATE_PARSE", "DATE_PARSE($1, '%Y-%m-%d')", "str">>, <<"PARSE_DATETIME", "PARSE_DATETIME($1, 'yyyy-MM-dd')", "str">>,
  <<"HUMAN_READABLE_SECONDS", "HUMAN_READABLE_SECONDS($1)", "dbl">>,
  <<"FORMAT_NUMBER", "FORMAT_NUMBER($1)", "int">>, <<"PARSE_DATA_SIZE", "PARSE_DATA_SIZE($1)", "str">>,
  <<"REGEXP_LIKE", "REGEXP_LIKE($1, 'a')", "str">>, <<"REGEXP_LIKE", "REGEXP_LIKE('a', $1)", "str">>,
  <<"REGEXP_EXTRACT", "REGEXP_EXTRACT($1, 'a')", "str">>, <<"REGEXP_EXTRACT", "REGEXP_EXTRACT('a', $1)", "str">>,
  <<"REGEXP_EXTRACT_ALL", "REGEXP_EXTRACT_ALL($1, 'a')", "str">>,
  <<"REGEXP_REPLACE", "REGEXP_REPLACE($1, 'a', 'b')", "str">>, <<"REGEXP_REPLACE", "REGEXP_REPLACE('a', $1, 'b')", "str">>,
  <<"REGEXP_REPLACE", "REGEXP_REPLACE('a', 'a', $1)", "str">>,
  <<"REGEXP_SPLIT", "REGEXP_SPLIT($1, 'a')", "str">>, <<"REGEXP_COUNT", "REGEXP_COUNT($1, 'a')", "str">>,
  <<"REGEXP_COUNT", "REGEXP_COUNT('a', $1)", "str">>, <<"REGEXP_POSITION", "REGEXP_POSITION($1, 'a')", "str">>,
  <<"TO_HEX", "TO_HEX($1)", "str">>, <<"FROM_HEX", "FROM_HEX($1)", "str">>, <<"TO_BASE64", "TO_BASE64($1)", "str">>,
  <<"FROM_BASE64", "FROM_BASE64($1)", "str">>, <<"TO_BASE64URL", "TO_BASE64URL($1)", "str">>, <<"FROM_BASE64URL", "FROM_BASE64URL($1)", "str">>,
  <<"TO_BASE32", "TO_BASE32($1)", "str">>, <<"FROM_BASE32", "FROM_BASE32($1)", "str">>,
  <<"MD5", "MD5($1)", "str">>, <<"SHA1", "SHA1($1)", "str">>, <<"SHA256", "SHA256($1)", "str">>, <<"SHA512", "SHA512($1)", "str">>,
  <<"CRC32", "CRC32($1)", "str">>, <<"XXHASH64", "XXHASH64($1)", "str">>, <<"MURMUR3", "MURMUR3($1)", "str">>,
  <<"SPOOKY_HASH_V2_32", "SPOOKY_HASH_V2_32($1)", "str">>, <<"SPOOKY_HASH_V2_64", "SPOOKY_HASH_V2_64($1)", "str">>,
  <<"HMAC_MD5", "HMAC_MD5($1, 'k')", "str">>, <<"HMAC_MD5", "HMAC_MD5('a', $1)", "str">>,
  <<"HMAC_SHA1", "HMAC_SHA1($1, 'k')", "str">>, <<"HMAC_SHA256", "HMAC_SHA256($1, 'k')", "str">>, <<"HMAC_SHA256", "HMAC_SHA256('a', $1)", "str">>,
  <<"HMAC_SHA512", "HMAC_SHA512($1, 'k')", "str">>,
  <<"TO_BIG_ENDIAN_32", "TO_BIG_ENDIAN_32($1)", "int">>, <<"TO_BIG_ENDIAN_64", "TO_BIG_ENDIAN_64($1)", "int">>,
  <<"TO_IEEE754_32", "TO_IEEE754_32($1)", "dbl">>, <<"TO_IEEE754_64", "TO_IEEE754_64($1)", "dbl">>,
  <<"URL_EXTRACT_HOST", "URL_EXTRACT_HOST($1)", "str">>, <<"URL_EXTRACT_PATH", "URL_EXTRACT_PATH($1)", "str">>,
  <<"URL_EXTRACT_PORT", "URL_EXTRACT_PORT($1)", "str">>, <<"URL_EXTRACT_PROTOCOL", "URL_EXTRACT_PROTOCOL($1)", "str">>,
  <<"URL_EXTRACT_QUERY", "URL_EXTRACT_QUERY($1)", "str">>, <<"URL_EXTRACT_FRAGMENT", "URL_EXTRACT_FRAGMENT($1)", "str">>,
  <<"URL_EXTRACT_PARAMETER", "URL_EXTRACT_PARAMETER($1, 'k')", "str">>, <<"URL_EXTRACT_PARAMETER", "URL_EXTRACT_PARAMETER('http://a/b?k=1', $1)", "str">>,
  <<"URL_ENCODE", "URL_ENCODE($1)", "str">>, <<"URL_DECODE", "URL_DECODE($1)", "str">>,
  <<"JSON_EXTRACT", "JSON_EXTRACT($1, '$.a')", "str">>, <<"JSON_EXTRACT", "JSON_EXTRACT('{\"a\":1}', $1)", "str">>,
  <<"JSON_EXTRACT_SCALAR", "JSON_EXTRACT_SCALAR($1, '$.a')", "str">>, <<"JSON_EXTRACT_SCALAR", "JSON_EXTRACT_SCALAR('{\"a\":1}', $1)", "str">>,
  <<"JSON_SIZE", "JSON_SIZE($1, '$')", "str">>, <<"JSON_ARRAY_LENGTH", "JSON_ARRAY_LENGTH($1)", "str">>,
  <<"JSON_ARRAY_GET", "JSON_ARRAY_GET($1, 0)", "str">>, <<"JSON_ARRAY_GET", "JSON_ARRAY_GET('[1,2]', $1)", "int">>,
  <<"JSON_ARRAY_CONTAINS", "JSON_ARRAY_CONTAINS($1, 1)", "str">>, <<"JSON_ARRAY_CONTAINS", "JSON_ARRAY_CONTAINS('[1,2]', $1)", "int">>,
  <<"IS_JSON_SCALAR", "IS_JSON_SCALAR($1)", "str">>, <<"JSON_FORMAT", "JSON_FORMAT($1)", "str">>, <<"JSON_PARSE", "JSON_PARSE($1)", "str">>
}
CasesNull == IF ~On("d") THEN {} ELSE {C(r[1], r[2], <<N(r[3])>>, N("any"), TRUE) : r \in NullRule}

\* ---- model: the case family is a constant; TLC's workers emit it chunk by chunk --------------
AllCases == SetToSeq(CasesStr1) \o SetToSeq(CasesStrInt) \o SetToSeq(CasesStr2) \o SetToSeq(CasesStr3) \o SetToSeq(CasesNum)
            \o SetToSeq(CasesCond) \o SetToSeq(CasesBit) \o SetToSeq(CasesDate) \o SetToSeq(CasesNull)
NCases == Len(AllCases)
Chunk == 400
NChunks == (NCases + Chunk - 1) \div Chunk
VARIABLE idx
Init == idx = 0
Next == idx = 0 /\ idx' \in 1..NChunks
Spec == Init /\ [][Next]_idx

\* ---- lemmas TLC checks on the definitions themselves (the spec is not taken on faith) ------
DateLemmas == \A x \in DatesRaw :
    /\ Days(Civil(x).y, Civil(x).m, Civil(x).d) = x
    /\ Civil(x).m \in 1..12 /\ Civil(x).d \in 1..Dim(Civil(x).y, Civil(x).m)
    /\ DowIso(Days(2024, 1, 1)) = 1 /\ DowIso(Days(1970, 1, 1)) = 4
    /\ IsoWeek(Days(2021, 1, 3)) = 53 /\ IsoWeek(Days(2024, 12, 30)) = 1 /\ IsoYear(Days(2024, 12, 30)) = 2025
    /\ AddMonths(Days(2020, 1, 31), 1) = Days(2020, 2, 29) /\ AddMonths(Days(2020, 3, 31), -1) = Days(2020, 2, 29)
    /\ LastDom(x) >= x /\ MonthOf(LastDom(x) + 1) # MonthOf(x)
    /\ \A y \in DatesRaw : MonthsBetween(x, y) = -MonthsBetween(y, x)
    /\ \A u \in Units : TruncTo(u, x) <= x /\ TruncTo(u, TruncTo(u, x)) = TruncTo(u, x)
StringLemmas == \A s \in Strs(2) :
    /\ ReverseS(ReverseS(s)) = s
    /\ \A t \in Strs(2) : /\ PosS(s \o t, t) # 0
                          /\ Lev(s, t) = Lev(t, s) /\ (Lev(s, t) = 0) = (s = t)
                          /\ t # <<>> => JoinS(SplitS(s, t), t) = s
                          /\ SubstrFor(s \o t, Len(s) + 1, Len(t)) = t
    /\ SubstrFrom(s, 1) = s /\ (s # <<>> => SubstrFrom(s, -1) = <<s[Len(s)]>>)
    /\ LpadS(s, Len(s), <<97>>) = s /\ Len(LpadS(s, 4, <<97, 66>>)) = 4 /\ Len(RpadS(s, 1, <<97>>)) = 1
    /\ TranslateS(<<97, 66, 97>>, <<97, 66>>, <<233>>) = <<233, 233>>
    /\ ReplaceS(<<97, 66>>, <<>>, <<32>>) = <<32, 97, 32, 66, 32>>
NumLemmas == /\ TruncMod(-7, 2) = -1 /\ TruncMod(7, -2) = 1 /\ TruncDiv(-7, 2) = -3
             /\ Bit8(1, -7, 6) = 0 /\ Bit8(2, -8, 7) = -1 /\ Bit8(3, -1, 5) = -6 /\ Bit8(1, 9, 5) = 1
             /\ BitCountW(9, 64) = 2 /\ BitCountW(-7, 64) = 62 /\ BitCountW(-7, 8) = 6 /\ BitCountW(-1, 8) = 8
Lemmas == idx = 0 => (DateLemmas /\ StringLemmas /\ NumLemmas)

Emit == idx > 0 => \A k \in ((idx - 1) * Chunk + 1)..Min2(idx * Chunk, NCases) : EmitCase(AllCases[k])
Count == idx = 0 => EmitTag("COUNT", [n |-> NCases])
Inv == Lemmas /\ Count /\ Emit
====
