---- MODULE MorselAggOps ----
(***************************************************************************)
(* X03 (parent C07) — the algebra of the morsel aggregation consumer       *)
(* (src/physical/morsel_agg.rs: AccumulatorState::{update*, merge,         *)
(* finalize}, AggregationState::{process_batch, merge, build_output}).     *)
(*                                                                         *)
(* A row is <<k, v>>: group key and aggregated value, either may be NULL.  *)
(* One accumulator record carries every aggregate the code keeps state for *)
(*   cnt   COUNT(v)        AccumulatorState::Count   (non-NULL inputs)     *)
(*   star  COUNT-star        Count over a never-NULL input                   *)
(*   sum,seen  SUM(v)      SumInt(i64, seen): NULL when nothing was seen   *)
(*   mn, mx    MIN/MAX(v)  Min/Max(Option<ScalarValue>)                    *)
(*   as, ac    AVG(v)      Avg {sum, count}: kept as a PAIR, finalized as  *)
(*                         as/ac (NULL when ac = 0)                        *)
(* A partial state is a function  group key -> accumulator  whose domain   *)
(* is the set of keys the thread has seen (NULL is a key of its own:       *)
(* raw_null / GroupKey[Null] in the code).                                 *)
(*                                                                         *)
(* `m` selects a seeded merge mistake (see MorselLaw.tla); "none" is the   *)
(* code as read.                                                           *)
(***************************************************************************)
EXTENDS VerifIO, SequencesExt

EmptyAcc == [cnt |-> 0, star |-> 0, sum |-> 0, seen |-> 0, mn |-> NULL, mx |-> NULL, as |-> 0, ac |-> 0]

\* AccumulatorState::update_i64 / update (NULL inputs only count for COUNT-star)
Upd(a, v) ==
  IF v = NULL THEN [a EXCEPT !.star = @ + 1]
  ELSE [cnt |-> a.cnt + 1, star |-> a.star + 1, sum |-> a.sum + v, seen |-> 1,
        mn |-> IF a.mn = NULL THEN v ELSE Min2(a.mn, v),
        mx |-> IF a.mx = NULL THEN v ELSE Max2(a.mx, v),
        as |-> a.as + v, ac |-> a.ac + 1]

OptMin(x, y) == IF x = NULL THEN y ELSE IF y = NULL THEN x ELSE Min2(x, y)
OptMax(x, y) == IF x = NULL THEN y ELSE IF y = NULL THEN x ELSE Max2(x, y)

\* AccumulatorState::merge(self = a, other = b)
MergeAcc(m, a, b) ==
  [cnt  |-> a.cnt + b.cnt,
   star |-> a.star + b.star,
   sum  |-> a.sum + b.sum,
   seen |-> IF m = "SumSeenLost" THEN b.seen ELSE Max2(a.seen, b.seen),
   mn   |-> IF m = "MinOverwrite" THEN (IF b.mn = NULL THEN a.mn ELSE b.mn) ELSE OptMin(a.mn, b.mn),
   mx   |-> OptMax(a.mx, b.mx),
   \* AvgOfAvgs keeps the running AVERAGE (as a fraction as/ac) and averages the two averages
   as   |-> IF m = "AvgOfAvgs" /\ a.ac # 0 /\ b.ac # 0 THEN a.as * b.ac + b.as * a.ac ELSE a.as + b.as,
   ac   |-> IF m = "AvgOfAvgs" /\ a.ac # 0 /\ b.ac # 0 THEN 2 * a.ac * b.ac ELSE a.ac + b.ac]

\* process_batch, row at a time (the batch fast paths are refinements of this)
UpdState(st, row) ==
  LET k == row[1] v == row[2] IN
  IF k \in DOMAIN st THEN [st EXCEPT ![k] = Upd(@, v)]
  ELSE [x \in DOMAIN st \cup {k} |-> IF x = k THEN Upd(EmptyAcc, v) ELSE st[x]]

EmptyState == [x \in {} |-> EmptyAcc]
FoldRows(st, rows) == FoldLeft(UpdState, st, rows)

\* AggregationState::merge(self = a, other = b): per key, pairwise
MergeState(m, a, b) ==
  LET db == IF m = "NullKeyDropped" THEN DOMAIN b \ {NULL} ELSE DOMAIN b IN
  [x \in DOMAIN a \cup db |->
     IF x \in DOMAIN a /\ x \in db THEN MergeAcc(m, a[x], b[x])
     ELSE IF x \in DOMAIN a THEN a[x] ELSE b[x]]

\* finalize(): what the answer shows.  AVG is the fraction as/ac; two accumulators show the
\* same AVG iff both are NULL or the fractions are equal (cross-multiplied: ints only).
SameShown(a, b) ==
  /\ a.cnt = b.cnt /\ a.star = b.star
  /\ a.seen = b.seen /\ (a.seen = 1 => a.sum = b.sum)
  /\ a.mn = b.mn /\ a.mx = b.mx
  /\ (a.ac = 0) = (b.ac = 0)
  /\ (a.ac # 0 => a.as * b.ac = b.as * a.ac)

SameAnswer(s, t) == DOMAIN s = DOMAIN t /\ \A x \in DOMAIN s : SameShown(s[x], t[x])

\* the SQL reading of the grouped aggregate, stated without any fold: per key, over the bag of values
ValuesOf(rows, k) == SelectSeq(rows, LAMBDA r : r[1] = k)
NonNull(rs) == SelectSeq(rs, LAMBDA r : r[2] # NULL)
SeqSum(rs) == FoldLeft(LAMBDA acc, r : acc + r[2], 0, rs)
SeqMin(rs) == FoldLeft(LAMBDA acc, r : OptMin(acc, r[2]), NULL, rs)
SeqMax(rs) == FoldLeft(LAMBDA acc, r : OptMax(acc, r[2]), NULL, rs)
SqlAcc(rows, k) ==
  LET g == ValuesOf(rows, k) nn == NonNull(g) IN
  [cnt |-> Len(nn), star |-> Len(g), sum |-> SeqSum(nn), seen |-> IF Len(nn) > 0 THEN 1 ELSE 0,
   mn |-> SeqMin(nn), mx |-> SeqMax(nn), as |-> SeqSum(nn), ac |-> Len(nn)]
SqlAnswer(rows) == [k \in {rows[i][1] : i \in DOMAIN rows} |-> SqlAcc(rows, k)]

\* JSON rendering of a state for the driver: one list per group, sorted by the driver
ShowAcc(k, a) == <<k, a.cnt, a.star, IF a.seen = 1 THEN a.sum ELSE NULL, a.mn, a.mx, a.as, a.ac>>
ShowState(s) == LET ks == SetToSortSeq(DOMAIN s, LAMBDA x, y : x < y) IN [i \in DOMAIN ks |-> ShowAcc(ks[i], s[ks[i]])]
====
