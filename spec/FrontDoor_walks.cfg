\* (R) random walks mixing environment steps and requests (run with -simulate num=N -depth MaxDepth+2)
CONSTANTS Peers <- EnvPeers
          Sizes <- EnvSizes
          Eps <- EnvEps
          Fmts <- EnvFmts
          Mutant <- EnvMutant
          Emit <- EnvEmit
          MaxDepth <- EnvDepth
INIT Init
NEXT NextWalk
CONSTRAINT WalkBound
INVARIANT Contract
INVARIANT EmitWalks
CHECK_DEADLOCK FALSE
