---- MODULE TpchTrace ----
(* C39 trace validation: every recorded call of the real generator (and of the declared
   cardinalities over the whole range of scale factors) is judged by Tpch.tla's Verdict with the
   history variable `seen` threaded through the trace.  Line 1: {"open": [open deviation ids]}. *)
EXTENDS Naturals, Integers, Sequences, FiniteSets, TLC, Json, IOUtils

SFs == {}
Seeds == {}
Threads == {}
Sinks == {}
Reps == {}
MaxRuns == 0
IMPLS == {}
VARIABLES impl, seen, acc, nruns, last
INSTANCE Tpch

Rec == ndJsonDeserialize(IOEnv.TRACE)
Open == {Rec[1].open[i] : i \in 1..Len(Rec[1].open)} \cap AllDevs
VARIABLE l
TInit == l = 2 /\ impl = "real" /\ seen = <<>> /\ acc = {} /\ nruns = 0 /\ last = "none"
Report(v) == CASE v.v = "accept" -> EmitTag("ACCEPT", [line |-> l])
               [] v.v = "known" -> EmitTag("KNOWN", [line |-> l, devs |-> v.devs])
               [] v.v = "tool" -> EmitTag("TOOL", [line |-> l, why |-> v.why])
               [] OTHER -> EmitTag("REJECT", [line |-> l, why |-> v.why])
Gen == /\ l <= Len(Rec) /\ Rec[l].ev = "gen"
       /\ LET r == Rec[l]
              v == IF r.panic # 0 THEN [v |-> "reject", why |-> "panic", devs |-> {}] ELSE Verdict(seen, r, Open) IN
          /\ Report(v)
          /\ seen' = IF v.v \in {"accept", "known"} THEN Remember(seen, r) ELSE seen
          /\ last' = v.v
       /\ nruns' = nruns + 1 /\ l' = l + 1 /\ UNCHANGED <<impl, acc>>
Counts == /\ l <= Len(Rec) /\ Rec[l].ev = "counts"
          /\ Report(CountsVerdict(Rec[l].sf, Rec[l].counts, Open))
          /\ l' = l + 1 /\ UNCHANGED <<impl, seen, acc, nruns, last>>
Done == /\ l = Len(Rec) + 1 /\ EmitTag("DONE", [lines |-> Len(Rec)])
        /\ l' = l + 1 /\ UNCHANGED <<impl, seen, acc, nruns, last>>
TNext == Gen \/ Counts \/ Done
TSpec == TInit /\ [][TNext]_<<impl, seen, acc, nruns, last, l>>
====
