\* selftest: the BodiesQuick family alone
CONSTANTS Fams <- FamsBodiesQuick
          Conforming = {"enforce", "truncate", "strict"}
          Others = {"as_built", "m_status200", "m_short", "m_bodyterm", "m_notimeout", "m_panic", "m_drophdr", "m_halfheader"}
INIT Init
NEXT Next
INVARIANT TypeOK
INVARIANT ViewOK
INVARIANT Conforms
INVARIANT NoShortBody
INVARIANT FramedOrRejected
INVARIANT NoPanicNoHang
INVARIANT EntriesSound
INVARIANT Emit
CHECK_DEADLOCK FALSE
