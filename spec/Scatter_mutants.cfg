CONSTANTS
  MaxN = 3
  GatherMaxN = 2
  Shapes = {"scatter", "gather"}
  MaxFaults = 1
  Batches = 2
  Mutants = {"filter_ok", "retry_local", "http_empty", "ignore_decode", "skip_digest"}
  Dev = 0
INIT Init
NEXT Next
INVARIANT TypeOK
INVARIANT Kill
CHECK_DEADLOCK TRUE
