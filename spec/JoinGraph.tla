---- MODULE JoinGraph ----
(***************************************************************************)
(* C32 — join reordering never introduces a cross product.                 *)
(*                                                                         *)
(* Design level (M): relations are nodes, equality predicates are edges.   *)
(* A reordering builds a join tree by repeatedly joining two already built *)
(* subtrees.  JoinStep is enabled only between subtrees connected by an    *)
(* edge (what a cross-product-free enumerator does).  TLC checks, for      *)
(* every connected graph on <= N relations, that such an enumerator never  *)
(* gets stuck before a single tree remains (deadlock freedom = a cross-    *)
(* product-free order always exists and any greedy choice can be           *)
(* completed), and that every join performed had an equality across its    *)
(* two inputs, all relations are used exactly once and every edge is       *)
(* applied at exactly one join.                                            *)
(***************************************************************************)
EXTENDS Naturals, FiniteSets, Sequences, TLC

CONSTANT N
Rels == 1..N
Pairs == {e \in SUBSET Rels : Cardinality(e) = 2}

VARIABLES edges, forest, joined, applied
vars == <<edges, forest, joined, applied>>

RECURSIVE Reach(_, _)
Reach(S, E) == LET nxt == S \cup {r \in Rels : \E e \in E : r \in e /\ e \cap S # {}}
               IN IF nxt = S THEN S ELSE Reach(nxt, E)
Connected(E) == Reach({1}, E) = Rels

Crossing(A, B) == {e \in edges : e \cap A # {} /\ e \cap B # {}}

Init == /\ edges \in {E \in SUBSET Pairs : Connected(E)}
        /\ forest = {{r} : r \in Rels}
        /\ joined = <<>>
        /\ applied = {}

JoinStep == \E A, B \in forest :
              /\ A # B
              /\ Crossing(A, B) # {}                      \* only along an equality: never a cross product
              /\ forest' = (forest \ {A, B}) \cup {A \cup B}
              /\ joined' = Append(joined, [l |-> A, r |-> B, on |-> Crossing(A, B)])
              /\ applied' = applied \cup Crossing(A, B)
              /\ UNCHANGED edges

Done == Cardinality(forest) = 1 /\ UNCHANGED vars
Next == JoinStep \/ Done
Spec == Init /\ [][Next]_vars

\* contract of a reordered tree
EveryJoinHasEquality == \A i \in DOMAIN joined : joined[i].on # {} /\ joined[i].l \cap joined[i].r = {}
RelationsOnce == /\ UNION forest = Rels
                 /\ \A A, B \in forest : A # B => A \cap B = {}
AllPredicatesKept == Cardinality(forest) = 1 => applied = edges
TypeOK == forest \subseteq SUBSET Rels
====
