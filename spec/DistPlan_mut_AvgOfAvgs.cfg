CONSTANTS Tier = "quick"
 Data = "rows3"
 Mutant = "AvgOfAvgs"
 Space = "focus"
 Mode = "check"
INIT Init
NEXT Next
INVARIANT Sound
CHECK_DEADLOCK FALSE
