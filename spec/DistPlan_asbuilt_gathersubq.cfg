CONSTANTS Tier = "quick"
 Data = "small"
 Mutant = "none"
 Space = "gathersubq"
 Mode = "check"
INIT Init
NEXT Next
INVARIANT Runs
CHECK_DEADLOCK FALSE
