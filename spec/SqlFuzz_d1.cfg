CONSTANTS MaxDepth = 1
          SeedLo = 1
          SeedHi = 247
          Keywords = {"SELECT", "FROM", "WHERE", "(", ")", ",", "NULL", "*", "AND", "1", "BY", "''"}
INIT Init
NEXT Next
INVARIANT TypeOK
INVARIANT NoCrash
INVARIANT Returns
INVARIANT Emit
CHECK_DEADLOCK FALSE
