---- MODULE CacheCoherence ----
(***************************************************************************)
(* C19 — rewritten files are never served from a stale cache.              *)
(*                                                                         *)
(* State: what is on disk and what ONE engine process remembers.           *)
(*   file[p]     the Parquet file at path p as stat() shows it:            *)
(*               [v content version, len length class, sec/ns mtime,      *)
(*                gen change generation (ctime / inode: no writer can      *)
(*                preserve it)]                                            *)
(*   sidecar[p]  the IPC sidecar directory next to p (on disk, shared by   *)
(*               every process): [has, key = the stamp in `.complete`,     *)
(*               v = the content it was decoded from; 0 = bytes of one     *)
(*               version decoded with the footer of another]               *)
(*   footer[p]   this process's footer metadata cache entry [has, key, v]   *)
(*   dictc[p]    this process's `sidecar_dict_cols` entry [has, key, d]    *)
(*   mode        QE_IPC_CACHE of this process: 0 off, 1 build, 2 auto      *)
(*                                                                         *)
(* Actions, one per step of a history (n counts them):                     *)
(*   Write(p,v,lc,tc)  p is replaced by content v # current;  lc: 0 same   *)
(*                     length / 1 other length; tc: 0 later second,        *)
(*                     1 same second later nanosecond, 2 mtime preserved,  *)
(*                     3 an EARLIER second, 4 same second earlier          *)
(*                     nanosecond (cp -p / rsync -t / restore of an older  *)
(*                     copy: mtimes need not grow; sec and ns may become   *)
(*                     negative in the model, the harness adds a base)     *)
(*   Query(p)          this process answers four statements over p (morsel *)
(*                     aggregate, streaming scan, eager filtered scan,     *)
(*                     dictionary-group morsel scan, in that order)        *)
(*   XQuery(p)         the same statements in a FRESH process of the same  *)
(*                     mode (restart / another node): empty footer cache;  *)
(*                     exhaustive runs take it as the last step only       *)
(*   Build(p)          another process with QE_IPC_CACHE=1 runs            *)
(*                     ensure_sidecar(p)                                   *)
(*                                                                         *)
(* The keys are a parameter (KeyModel):                                    *)
(*   0 ideal     every cache keyed by (len, mtime_ns, gen)                 *)
(*   1 as built  footer: mtime (ns exact); sidecar stamp: len + mtime      *)
(*               SECONDS; dict columns: per directory, never invalidated   *)
(*   2..5        mutants of 1: footer by path only / footer by seconds /   *)
(*               stamp without len / stamp without mtime                   *)
(* Property Fresh: every answer of every query is computed from file[p].v. *)
(* TLC proves it for KeyModel 0 and refutes it for 1..5; with KeyModel 1   *)
(* the module is also the GENERATOR of all histories in the bound and the  *)
(* PREDICTOR of which queries the as-built keys make stale (fstale: stale  *)
(* footer entry hit; sstale: stale sidecar accepted by its stamp) — the    *)
(* history shapes of the two known findings.                               *)
(***************************************************************************)
EXTENDS VerifIO

CONSTANTS Paths,        \* e.g. {1} or {1, 2}
          NVersions,    \* content versions 1..NVersions
          Modes,        \* subset of {0, 1, 2}
          MaxActions,   \* histories of exactly MaxActions steps, the last one a query
          KeyModel,
          VStep,        \* set of version increments a Write may pick (mod NVersions), e.g. {1} or {1, 2}
          TimeChoices,  \* subset of 0..4, the tc values a Write may pick
          WithX,        \* TRUE: XQuery steps are generated
          EmitOn,       \* TRUE: keep the history and print one CASE per complete history
          Sim           \* TRUE: Next picks ONE random successor (use with -simulate)

M_OFF == 0
M_BUILD == 1
M_AUTO == 2
Kinds == 1..4            \* 1 agg (morsel) 2 scan (streaming) 3 filter (eager) 4 group (morsel, dictionary key)
PlainVersions == {2}     \* versions whose string column is NOT dictionary encoded in Parquet
DictOf(v) == IF v = 0 \/ v \in PlainVersions THEN 0 ELSE 1
B2I(b) == IF b THEN 1 ELSE 0

VARIABLES mode, file, footer, sidecar, dictc, n, last, hist
vars == <<mode, file, footer, sidecar, dictc, n, last, hist>>

None == [has |-> 0, key |-> <<>>, v |-> 0]

\* ---- the keys -----------------------------------------------------------------
Full(f) == <<f.len, f.sec, f.ns, f.gen>>
FooterKey(f) == CASE KeyModel = 0 -> Full(f)
                  [] KeyModel = 2 -> <<>>
                  [] KeyModel = 3 -> <<f.sec>>
                  [] OTHER -> <<f.sec, f.ns>>
Stamp(f) == CASE KeyModel = 0 -> Full(f)
              [] KeyModel = 4 -> <<f.sec>>
              [] KeyModel = 5 -> <<f.len>>
              [] OTHER -> <<f.len, f.sec>>
DictKey(sc) == IF KeyModel = 0 THEN sc.key ELSE <<>>

FooterHit(ft, f) == ft.has = 1 /\ ft.key = FooterKey(f)
FooterView(ft, f) == IF FooterHit(ft, f) THEN ft.v ELSE f.v
FooterLoad(ft, f) == IF FooterHit(ft, f) THEN ft ELSE [has |-> 1, key |-> FooterKey(f), v |-> f.v]
ScFresh(sc, f) == sc.has = 1 /\ sc.key = Stamp(f)

\* ---- one query step of a process in mode m with footer entry ft and dict entry dc ---
Effect(m, f, ft, sc, dc) ==
  LET view == FooterView(ft, f)
      built == m = M_BUILD /\ ~ScFresh(sc, f)
      \* build_sidecar decodes through cached_metadata: a stale footer yields garbage (or a failed build)
      sc1 == IF built THEN [has |-> 1, key |-> Stamp(f), v |-> IF view = f.v THEN f.v ELSE 0] ELSE sc
      uses == m # M_OFF /\ ScFresh(sc1, f)
      fstale == view # f.v
      sstale == uses /\ sc1.v # f.v
      dhit == dc.has = 1 /\ dc.key = DictKey(sc1)
      dview == IF dhit THEN dc.v ELSE DictOf(sc1.v)
      dc1 == IF uses /\ ~dhit THEN [has |-> 1, key |-> DictKey(sc1), v |-> DictOf(sc1.v)] ELSE dc
      dstale == uses /\ dview # DictOf(sc1.v)
      guses == uses /\ dview = 1
      stale == [k \in Kinds |->
                  IF k = 1 THEN B2I(fstale \/ sstale)                      \* row groups listed from the cached footer
                  ELSE IF k = 4 THEN B2I(fstale \/ (guses /\ sc1.v # f.v))
                  ELSE B2I(IF uses THEN sstale ELSE fstale)]               \* row groups listed from a fresh footer
  IN [sc |-> sc1, ft |-> FooterLoad(ft, f), dc |-> dc1,
      res |-> [stale |-> stale, fs |-> B2I(fstale), ss |-> B2I(sstale), ds |-> B2I(dstale),
               uses |-> B2I(uses), built |-> B2I(built), v |-> f.v,
               sck |-> IF sc1.has = 1 THEN sc1.key ELSE <<>>, scv |-> IF sc1.has = 1 THEN sc1.v ELSE -1]]

Clean == [stale |-> [k \in Kinds |-> 0], fs |-> 0, ss |-> 0, ds |-> 0, uses |-> 0, built |-> 0, v |-> 0, sck |-> <<>>, scv |-> -1]
Log(e) == hist' = IF EmitOn THEN Append(hist, e) ELSE hist

\* ---- actions ------------------------------------------------------------------
Write(p, dv, lc, tc) ==
  /\ n < MaxActions - 1
  /\ LET f == file[p]
         f1 == [v |-> ((f.v - 1 + dv) % NVersions) + 1,
                len |-> IF lc = 0 THEN f.len ELSE 1 - f.len,
                sec |-> IF tc = 0 THEN f.sec + 1 ELSE IF tc = 3 THEN f.sec - 1 ELSE f.sec,
                ns |-> IF tc \in {0, 3} THEN 0 ELSE IF tc = 1 THEN f.ns + 1 ELSE IF tc = 4 THEN f.ns - 1 ELSE f.ns,
                gen |-> f.gen + 1]
     IN /\ file' = [file EXCEPT ![p] = f1]
        /\ Log([a |-> "write", p |-> p, v |-> f1.v, len |-> f1.len, sec |-> f1.sec, ns |-> f1.ns, lc |-> lc, tc |-> tc])
  /\ n' = n + 1 /\ last' = Clean
  /\ UNCHANGED <<mode, footer, sidecar, dictc>>

Query(p) ==
  /\ n < MaxActions
  /\ LET e == Effect(mode, file[p], footer[p], sidecar[p], dictc[p])
     IN /\ sidecar' = [sidecar EXCEPT ![p] = e.sc]
        /\ footer' = [footer EXCEPT ![p] = e.ft]
        /\ dictc' = [dictc EXCEPT ![p] = e.dc]
        /\ last' = e.res
        /\ Log([a |-> "query", p |-> p, pred |-> e.res])
  /\ n' = n + 1
  /\ UNCHANGED <<mode, file>>

XQuery(p) ==
  /\ WithX /\ n < MaxActions
  /\ (Sim \/ n = MaxActions - 1)      \* earlier in a history it is Build(p) (mode 1) or a no-op for the state
  /\ LET e == Effect(mode, file[p], None, sidecar[p], None)
     IN /\ sidecar' = [sidecar EXCEPT ![p] = e.sc]
        /\ last' = e.res
        /\ Log([a |-> "xquery", p |-> p, pred |-> e.res])
  /\ n' = n + 1
  /\ UNCHANGED <<mode, file, footer, dictc>>

Build(p) ==
  /\ n < MaxActions - 1
  /\ LET f == file[p]
         sc1 == IF ScFresh(sidecar[p], f) THEN sidecar[p] ELSE [has |-> 1, key |-> Stamp(f), v |-> f.v]
     IN /\ sidecar' = [sidecar EXCEPT ![p] = sc1]
        /\ Log([a |-> "build", p |-> p, sck |-> sc1.key, scv |-> sc1.v])
  /\ n' = n + 1 /\ last' = Clean
  /\ UNCHANGED <<mode, file, footer, dictc>>

Init == /\ mode \in Modes
        /\ file = [p \in Paths |-> [v |-> 1, len |-> 0, sec |-> 0, ns |-> 0, gen |-> 0]]
        /\ footer = [p \in Paths |-> None] /\ sidecar = [p \in Paths |-> None] /\ dictc = [p \in Paths |-> None]
        /\ n = 0 /\ last = Clean /\ hist = <<>>

Live == n < MaxActions
NextAll == \E p \in Paths :                    \* (every action needs n < MaxActions)
             \/ \E dv \in VStep, lc \in 0..1, tc \in TimeChoices : Write(p, dv, lc, tc)
             \/ Query(p) \/ XQuery(p) \/ Build(p)
\* -simulate: one weighted random successor per state (rewrites with preserved / same-second time are the point)
NextSim == Live /\ LET p == RandomElement(Paths)
                       r == RandomElement(1..10)
                   IN IF n = MaxActions - 1 THEN (IF WithX /\ r <= 2 THEN XQuery(p) ELSE Query(p))
                      ELSE IF r <= 4 THEN Write(p, RandomElement(VStep), RandomElement(0..1), RandomElement(TimeChoices))
                      ELSE IF r <= 7 THEN Query(p)
                      ELSE IF r = 8 /\ WithX THEN XQuery(p)
                      ELSE Build(p)
\* cfg files name NextAll (TLC then reports coverage per action) or NextSim directly
Spec == Init /\ [][NextAll]_vars

\* ---- properties ---------------------------------------------------------------
Fresh == \A k \in Kinds : last.stale[k] = 0
FooterFresh == last.fs = 0
SidecarFresh == last.ss = 0
DictFresh == last.ds = 0
\* a stale answer has a cause the model names (sanity of the predictor itself)
StaleHasCause == (\E k \in Kinds : last.stale[k] = 1) => (last.fs = 1 \/ last.ss = 1)
\* sidecars are never consulted with QE_IPC_CACHE=0 and never built in auto mode by the querying process
ModeRespected == /\ (mode = M_OFF => last.uses = 0 /\ last.built = 0)
                 /\ (mode = M_AUTO => last.built = 0)
TypeOk == /\ n \in 0..MaxActions
          /\ \A p \in Paths : file[p].v \in 1..NVersions /\ file[p].len \in 0..1 /\ file[p].gen <= n

\* ---- case emission: one complete history per line --------------------------------
Emit == (EmitOn /\ n = MaxActions) => EmitCase([mode |-> mode, steps |-> hist])
====
