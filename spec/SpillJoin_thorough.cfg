CONSTANTS MaxBuild = 3
          MaxProbe = 3
          MaxBatches = 2
          NKeyVals = 2
          P = 2
          JoinTypes = {1, 2, 3, 4, 5, 6}
          MissingFile = TRUE
          SilentOuter = FALSE
          HashAll = TRUE
          EmitMod = 1
INIT Init
NEXT Next
INVARIANT BuildConserves
INVARIANT KeyHome
INVARIANT TotalIsMem
INVARIANT AtDone
INVARIANT NonInnerNeverSpills
INVARIANT Emit
CHECK_DEADLOCK FALSE
