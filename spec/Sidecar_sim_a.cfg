\* (R) random complete behaviours, 2 builder processes x 2 threads, remove_dir_all as one step (replayable grain); run with -simulate
CONSTANTS NProcs = 2
          ThreadsPer = 2
          AutoProcs = {}
          NRg = 2
          Inits = {0, 1, 2}
          Variant = 0
          AtomicRemove = TRUE
          EmitOn = TRUE
          Sim = TRUE
INIT Init
NEXT NextSim
INVARIANT TypeOk
INVARIANT NoPartialRead
INVARIANT NoWrongAnswer
INVARIANT MutualExclusion
INVARIANT LockHeldWhileBuilding
INVARIANT AutoNeverBuilds
INVARIANT Quiescent
INVARIANT NoDeadlock
INVARIANT Emit
CHECK_DEADLOCK FALSE
