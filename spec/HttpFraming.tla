---- MODULE HttpFraming ----
(***************************************************************************)
(* C16 — peer HTTP responses are framed or rejected.                       *)
(*                                                                         *)
(* The peer (server) puts a token sequence on the wire                     *)
(*     StatusLine . Header* . CRLF . body-byte*                            *)
(* one token per ServerSend step, and at ANY point either closes the       *)
(* connection (optionally after a proper prefix of the next token, so      *)
(* every byte position inside a line is a truncation point) or stalls      *)
(* (sends nothing more and never closes).  The client is a state machine   *)
(* over the received tokens (phase status -> headers -> body, accumulating *)
(* what read_to_end accumulates); on Close (EOF) or Timeout it decides its *)
(* result.  Several client DESIGNS decide in the same run:                 *)
(*   conforming: enforce (Content-Length checked: the suggested fix),      *)
(*               truncate (reads exactly Content-Length bytes),            *)
(*               strict (rejects everything irregular)                     *)
(*   others:     as_built (the unchanged tree: Content-Length ignored, a   *)
(*               header line accepted as status line) and seven mutants.   *)
(* Invariant Conforms: every conforming design satisfies the contract of   *)
(* HttpFramingContract on every stream and truncation point (the contract  *)
(* admits all three, i.e. does not over-demand).  Each terminal state is   *)
(* emitted as a case: the concrete bytes, how the stream ends, the SET of  *)
(* allowed Ok shapes (ideal and per named deviation), the designs the      *)
(* contract rejects on this case ("kills"), and the as_built / enforce     *)
(* predictions (fidelity).  The harness replays the bytes over a real      *)
(* socket against the real client.                                         *)
(***************************************************************************)
EXTENDS HttpFramingContract

CONSTANTS Fams,         \* the families of streams explored in this run (parameter records, see FamsQuick below)
          Conforming,   \* client designs that must satisfy the contract
          Others        \* client designs the contract must reject somewhere (kill matrix)

GARB == -1      \* "abc"
HUGE == -2      \* "4294967296"  (more than any body; 2^32 does not fit TLC's ints)
OVF  == -3      \* "99999999999999999999" (does not fit u64): not pinned, see clbad
HugeNum == 1000000

\* A family fixes the grammar bounds.  Fields:
\*   sl     status-line kinds (subset of DOMAIN SLTab)      hk    other header kinds (subset of DOMAIN HTab)
\*   maxh   max number of those per response                cl    Content-Length value codes: n >= 0, GARB, HUGE, OVF
\*   nm     spellings of the name: 0 "Content-Length", 1 "content-length"
\*   dups   allowed <<first, second>> value pairs of a duplicated Content-Length
\*   maxb   body bytes sent: 0..maxb                        bypos TRUE: i-th body byte is 96+i; FALSE: any of alpha
\*   fragall, fragdepth   token types cut at every byte while fewer than fragdepth header lines were sent; every
\*                        other token is cut after 1, L-2 and L-1 bytes (L-1: between CR and LF)
\*   stallsl status-line kinds of the streams in which stalls are explored; stallfrags: also inside lines
FramesQuick == [name |-> "frames", sl |-> {1, 2, 3, 4, 5}, hk |-> {1, 2, 3}, maxh |-> 1,
                cl |-> {0, 1, 2, 3, GARB, HUGE, OVF}, nm |-> {0}, dups |-> {<<2, 2>>, <<1, 2>>, <<2, 1>>},
                maxb |-> 3, bypos |-> TRUE, alpha |-> {120},
                fragall |-> {"sl", "end", "h", "cl"}, fragdepth |-> 1, stallsl |-> {1}, stallfrags |-> FALSE]
BodiesQuick == [name |-> "bodies", sl |-> {1}, hk |-> {1}, maxh |-> 1,
                cl |-> {2, 4, 5}, nm |-> {0}, dups |-> {},
                maxb |-> 4, bypos |-> FALSE, alpha |-> {120, 13, 10},
                fragall |-> {"end"}, fragdepth |-> 0, stallsl |-> {1}, stallfrags |-> FALSE]
FramesThorough == [name |-> "frames", sl |-> {1, 2, 3, 4, 5}, hk |-> {1, 2, 3, 4, 5}, maxh |-> 2,
                cl |-> {0, 1, 2, 3, 4, 5, GARB, HUGE, OVF}, nm |-> {0, 1},
                dups |-> {<<2, 2>>, <<1, 2>>, <<2, 1>>, <<3, 4>>, <<4, 3>>, <<0, 0>>, <<0, 3>>, <<2, GARB>>, <<GARB, 2>>, <<HUGE, 1>>},
                maxb |-> 4, bypos |-> TRUE, alpha |-> {120},
                fragall |-> {"sl", "end", "h", "cl"}, fragdepth |-> 1, stallsl |-> {1, 5}, stallfrags |-> TRUE]
BodiesThorough == [name |-> "bodies", sl |-> {1}, hk |-> {1}, maxh |-> 1,
                cl |-> {0, 2, 4, 5}, nm |-> {0}, dups |-> {},
                maxb |-> 6, bypos |-> FALSE, alpha |-> {120, 13, 10},
                fragall |-> {"end"}, fragdepth |-> 0, stallsl |-> {1}, stallfrags |-> FALSE]
\* tiny families for the design-level counterexamples of the as-built client (HttpFraming_asbuilt*.cfg)
TinyCL == [name |-> "tiny", sl |-> {1}, hk |-> {1}, maxh |-> 0, cl |-> {0, 1, 2, 3, GARB, HUGE, OVF}, nm |-> {0}, dups |-> {},
           maxb |-> 2, bypos |-> TRUE, alpha |-> {120}, fragall |-> {"end"}, fragdepth |-> 0, stallsl |-> {1}, stallfrags |-> FALSE]
TinyNoStatus == [name |-> "tiny", sl |-> {5}, hk |-> {1}, maxh |-> 1, cl |-> {0, 2}, nm |-> {0}, dups |-> {},
           maxb |-> 1, bypos |-> TRUE, alpha |-> {120}, fragall |-> {"end"}, fragdepth |-> 0, stallsl |-> {1}, stallfrags |-> FALSE]
FamsQuick == {FramesQuick, BodiesQuick}
FamsThorough == {FramesThorough, BodiesThorough}
FamsBodiesQuick == {BodiesQuick}
FamsTinyCL == {TinyCL}
FamsTinyNoStatus == {TinyNoStatus}
AllCLVals == (0..6) \cup {GARB, HUGE, OVF}
AllCLNames == {0, 1}

Chars == " !\"#$%&'()*+,-./0123456789:;<=>?@ABCDEFGHIJKLMNOPQRSTUVWXYZ[\\]^_`abcdefghijklmnopqrstuvwxyz{|}~"
Ascii(s) == [i \in 1..Len(s) |-> CHOOSE c \in 32..126 : SubSeq(Chars, c - 31, c - 31) = SubSeq(s, i, i)]
CRLF == <<13, 10>>
TERM == <<13, 10, 13, 10>>

\* ---- what the peer can say ---------------------------------------------------
SLTab == <<
  [txt |-> "HTTP/1.1 200 OK",                  code |-> 200,  missing |-> FALSE],
  [txt |-> "HTTP/1.1 503 Service Unavailable", code |-> 503,  missing |-> FALSE],
  [txt |-> "HTTP/1.1 abc Nope",                code |-> NULL, missing |-> FALSE],   \* garbled: no numeric code
  [txt |-> "GARBAGE",                          code |-> NULL, missing |-> FALSE],   \* garbled: one token
  [txt |-> "",                                 code |-> NULL, missing |-> TRUE] >>  \* no status line at all
SLBytes == [k \in DOMAIN SLTab |-> IF SLTab[k].missing THEN <<>> ELSE Ascii(SLTab[k].txt) \o CRLF]

\* num: what a parser that takes this line for a status line would read as the code
HTab == <<
  [txt |-> "X-QE-Rows: 42",      wf |-> TRUE,  n |-> "x-qe-rows",    v |-> "42",          num |-> 42],
  [txt |-> "x-qe-Elapsed:  7 ",  wf |-> TRUE,  n |-> "x-qe-elapsed", v |-> "7",           num |-> 7],
  [txt |-> "nocolon",            wf |-> FALSE, n |-> "",             v |-> "",            num |-> NULL],
  [txt |-> "X-Empty:",           wf |-> TRUE,  n |-> "x-empty",      v |-> "",            num |-> NULL],
  [txt |-> "X-Url: http://a:1/", wf |-> TRUE,  n |-> "x-url",        v |-> "http://a:1/", num |-> NULL] >>
HBytes == [k \in DOMAIN HTab |-> Ascii(HTab[k].txt) \o CRLF]

CLValTxt(v) == CASE v = GARB -> "abc" [] v = HUGE -> "4294967296" [] v = OVF -> "99999999999999999999"
                 [] OTHER -> ToString(v)
CLNum(v) == IF v = HUGE THEN HugeNum ELSE v
CLTxt(v, nm) == (IF nm = 0 THEN "Content-Length" ELSE "content-length") \o ": " \o CLValTxt(v)
CLBytes == [p \in AllCLVals \X AllCLNames |-> Ascii(CLTxt(p[1], p[2])) \o CRLF]

\* tokens: [t, a, b]  t = "sl" (a = kind) | "h" (a = kind) | "cl" (a = value code, b = name) | "end" | "b" (a = byte)
Tok(t, a, b) == [t |-> t, a |-> a, b |-> b]
TokBytes(k) == CASE k.t = "sl" -> SLBytes[k.a]
                 [] k.t = "h" -> HBytes[k.a]
                 [] k.t = "cl" -> CLBytes[<<k.a, k.b>>]
                 [] k.t = "end" -> CRLF
                 [] OTHER -> <<k.a>>
RECURSIVE Flatten(_)
Flatten(s) == IF s = <<>> THEN <<>> ELSE TokBytes(Head(s)) \o Flatten(Tail(s))

IsHdrTok(k) == k.t \in {"h", "cl"}
IsWfTok(k) == k.t = "cl" \/ (k.t = "h" /\ HTab[k.a].wf)
HdrPair(k) == IF k.t = "cl" THEN <<"content-length", CLValTxt(k.a)>> ELSE <<HTab[k.a].n, HTab[k.a].v>>
WfHdrSeq(ts) == LET f == SelectSeq(ts, IsWfTok) IN [i \in 1..Len(f) |-> HdrPair(f[i])]
LineNum(k) == IF k.t = "cl" THEN (IF k.a >= 0 THEN k.a ELSE NULL) ELSE HTab[k.a].num
HdrToks(s) == SelectSeq(s, IsHdrTok)
IsBodyTok(k) == k.t = "b"
BodyOf(s) == LET bs == SelectSeq(s, IsBodyTok) IN [i \in 1..Len(bs) |-> bs[i].a]
IsCLTok(k) == k.t = "cl"

VARIABLES fam,     \* the family this behaviour belongs to (never changes)
          sent,    \* tokens completely delivered so far
          frag,    \* bytes of a partially delivered next token (set when the stream ends)
          chan,    \* "open" | "closed" | "stalled"
          cph,     \* client: "status" | "headers" | "body"
          csl,     \* client: kind of the status line received (0 = none yet)
          clines,  \* client: header-line tokens received
          cbd,     \* client: body bytes received
          done,    \* the client has answered
          result   \* design -> its answer
vars == <<fam, sent, frag, chan, cph, csl, clines, cbd, done, result>>

Designs == Conforming \cup Others

\* ---- the peer's grammar ---------------------------------------------------------
HasEnd(s) == \E i \in DOMAIN s : s[i].t = "end"
NextToks(s) ==
  IF s = <<>> THEN {Tok("sl", k, 0) : k \in fam.sl}
  ELSE IF ~HasEnd(s) THEN
    LET hs == HdrToks(s)
        nh == Len(SelectSeq(hs, LAMBDA k : k.t = "h"))
        cls == SelectSeq(hs, IsCLTok)
    IN (IF nh < fam.maxh THEN {Tok("h", k, 0) : k \in fam.hk} ELSE {})
       \cup (IF cls = <<>> THEN {Tok("cl", v, nm) : v \in fam.cl, nm \in fam.nm}
             ELSE IF Len(cls) = 1 THEN {Tok("cl", v, cls[1].b) : v \in {w \in AllCLVals : <<cls[1].a, w>> \in fam.dups}}
             ELSE {})
       \cup {Tok("end", 0, 0)}
  ELSE LET nb == Len(BodyOf(s)) IN
       IF nb >= fam.maxb THEN {}
       ELSE IF fam.bypos THEN {Tok("b", 97 + nb, 0)} ELSE {Tok("b", x, 0) : x \in fam.alpha}

FragCuts(k, s) == LET L == Len(TokBytes(k)) IN
                  IF k.t \in fam.fragall /\ Len(HdrToks(s)) < fam.fragdepth THEN 1..(L - 1)
                  ELSE {1, L - 2, L - 1} \cap (1..(L - 1))
\* proper, non-empty prefixes of the next token (as bytes: equal prefixes coincide), or nothing
FragSet(s) == {<<>>} \cup UNION {{SubSeq(TokBytes(k), 1, j) : j \in FragCuts(k, s)} : k \in NextToks(s)}

\* ---- client designs: the answer at EOF ("close") or at the timeout ("stall") --------
Err == [k |-> "err", status |-> 0, hdrs |-> <<>>, body |-> <<>>]
Bad(kind) == [k |-> kind, status |-> 0, hdrs |-> <<>>, body |-> <<>>]
Ok(st, hs, bd) == [k |-> "ok", status |-> st, hdrs |-> hs, body |-> bd]

CComplete == cph = "body"
CStatus == IF csl = 0 THEN NULL ELSE SLTab[csl].code
CHdrs == WfHdrSeq(clines)
CLToks == SelectSeq(clines, IsCLTok)
FirstCL == IF CLToks = <<>> THEN NULL ELSE CLToks[1].a
FirstTerm(b) == LET P == {i \in 1..(Len(b) - 3) : SubSeq(b, i, i + 3) = TERM} IN IF P = {} THEN 0 ELSE MinOf(P)

\* the suggested fix: the first Content-Length must parse and the body must have that many bytes
DecEnforce(end) ==
  IF end = "stall" \/ ~CComplete \/ CStatus = NULL THEN Err
  ELSE IF FirstCL = NULL THEN Ok(CStatus, CHdrs, cbd)
  ELSE IF FirstCL \in {GARB, OVF} THEN Err
  ELSE IF Len(cbd) < CLNum(FirstCL) THEN Err
  ELSE Ok(CStatus, CHdrs, cbd)

\* the unchanged tree: read_to_end, split at the first CRLFCRLF, second token of the first
\* line is the status, Content-Length never looked at
DecAsBuilt(end) ==
  IF end = "stall" \/ ~CComplete THEN Err
  ELSE LET miss == SLTab[csl].missing
           st == IF miss THEN (IF clines = <<>> THEN NULL ELSE LineNum(clines[1])) ELSE CStatus
           hs == IF miss /\ clines # <<>> THEN WfHdrSeq(Tail(clines)) ELSE CHdrs
       IN IF st = NULL THEN Err ELSE Ok(st, hs, cbd)

\* a client that reads exactly Content-Length bytes (answers as soon as it has them)
DecTruncate(end) ==
  IF ~CComplete \/ CStatus = NULL THEN Err
  ELSE IF FirstCL = NULL THEN (IF end = "stall" THEN Err ELSE Ok(CStatus, CHdrs, cbd))
  ELSE IF FirstCL \in {GARB, OVF} THEN Err
  ELSE IF Len(cbd) >= CLNum(FirstCL) THEN Ok(CStatus, CHdrs, SubSeq(cbd, 1, CLNum(FirstCL)))
  ELSE Err

\* a client that accepts only the canonical shape
DecStrict(end) ==
  IF end = "stall" \/ ~CComplete \/ CStatus = NULL THEN Err
  ELSE IF \E i \in DOMAIN clines : ~IsWfTok(clines[i]) THEN Err
  ELSE IF Len(CLToks) # 1 THEN Err
  ELSE IF FirstCL < 0 \/ FirstCL # Len(cbd) THEN Err
  ELSE Ok(CStatus, CHdrs, cbd)

\* mutants of enforce (what the check is meant to catch)
Mut(v, end) ==
  LET e == DecEnforce(end) IN
  CASE v = "m_status200" ->      \* a missing / garbled status line is taken for 200
         IF end = "close" /\ CComplete /\ CStatus = NULL
            /\ (FirstCL = NULL \/ (FirstCL \notin {GARB, OVF} /\ Len(cbd) >= CLNum(FirstCL)))
         THEN Ok(200, CHdrs, cbd) ELSE e
    [] v = "m_short" ->          \* loses the last body byte
         IF e.k = "ok" /\ Len(e.body) > 0 THEN Ok(e.status, e.hdrs, SubSeq(e.body, 1, Len(e.body) - 1)) ELSE e
    [] v = "m_bodyterm" ->       \* stops the body at the first CRLFCRLF inside it
         IF e.k = "ok" /\ FirstTerm(e.body) > 0 THEN Ok(e.status, e.hdrs, SubSeq(e.body, 1, FirstTerm(e.body) - 1)) ELSE e
    [] v = "m_notimeout" ->      \* no overall timeout
         IF end = "stall" THEN Bad("hang") ELSE e
    [] v = "m_panic" ->          \* unwrap() on a malformed header line
         IF CComplete /\ (\E i \in DOMAIN clines : ~IsWfTok(clines[i])) THEN Bad("panic") ELSE e
    [] v = "m_drophdr" ->        \* loses the last header
         IF e.k = "ok" /\ Len(e.hdrs) > 0 THEN Ok(e.status, SubSeq(e.hdrs, 1, Len(e.hdrs) - 1), e.body) ELSE e
    [] v = "m_halfheader" ->     \* a half-written header block is a zero-length success
         IF end = "close" /\ cph = "headers" /\ CStatus # NULL THEN Ok(CStatus, CHdrs, <<>>) ELSE e
    [] OTHER -> e

Decide(v, end) == CASE v = "enforce" -> DecEnforce(end)
                    [] v = "as_built" -> DecAsBuilt(end)
                    [] v = "truncate" -> DecTruncate(end)
                    [] v = "strict" -> DecStrict(end)
                    [] OTHER -> Mut(v, end)

\* ---- actions ------------------------------------------------------------------------
NoResult == [v \in Designs |-> Err]
Init == /\ fam \in Fams
        /\ sent = <<>> /\ frag = <<>> /\ chan = "open"
        /\ cph = "status" /\ csl = 0 /\ clines = <<>> /\ cbd = <<>>
        /\ done = FALSE /\ result = NoResult

\* the client consumes one complete token (what read() hands it, at token grain)
ClientRecv(k) ==
  CASE k.t = "sl" -> cph' = "headers" /\ csl' = k.a /\ UNCHANGED <<clines, cbd>>
    [] k.t \in {"h", "cl"} -> clines' = Append(clines, k) /\ UNCHANGED <<cph, csl, cbd>>
    [] k.t = "end" -> cph' = "body" /\ UNCHANGED <<csl, clines, cbd>>
    [] OTHER -> cbd' = Append(cbd, k.a) /\ UNCHANGED <<cph, csl, clines>>

SendStatus == /\ chan = "open" /\ sent = <<>>
              /\ \E k \in NextToks(sent) : sent' = Append(sent, k) /\ ClientRecv(k)
              /\ UNCHANGED <<fam, frag, chan, done, result>>
SendHeader == /\ chan = "open" /\ sent # <<>> /\ ~HasEnd(sent)
              /\ \E k \in {x \in NextToks(sent) : x.t = "h"} : sent' = Append(sent, k) /\ ClientRecv(k)
              /\ UNCHANGED <<fam, frag, chan, done, result>>
SendContentLength ==
              /\ chan = "open" /\ sent # <<>> /\ ~HasEnd(sent)
              /\ \E k \in {x \in NextToks(sent) : x.t = "cl"} : sent' = Append(sent, k) /\ ClientRecv(k)
              /\ UNCHANGED <<fam, frag, chan, done, result>>
SendEnd ==    /\ chan = "open" /\ sent # <<>> /\ ~HasEnd(sent)
              /\ LET k == Tok("end", 0, 0) IN sent' = Append(sent, k) /\ ClientRecv(k)
              /\ UNCHANGED <<fam, frag, chan, done, result>>
SendBodyByte == /\ chan = "open" /\ HasEnd(sent)
              /\ \E k \in NextToks(sent) : sent' = Append(sent, k) /\ ClientRecv(k)
              /\ UNCHANGED <<fam, frag, chan, done, result>>

\* the peer closes, possibly in the middle of the next token; the client sees EOF and answers
Close == /\ chan = "open"
         /\ LET r == [v \in Designs |-> Decide(v, "close")] IN
            \E f \in FragSet(sent) : frag' = f /\ result' = r
         /\ chan' = "closed" /\ done' = TRUE
         /\ UNCHANGED <<fam, sent, cph, csl, clines, cbd>>

\* the peer goes silent without closing ...
StallOK == IF sent = <<>> THEN 1 \in fam.stallsl ELSE sent[1].a \in fam.stallsl
Stall == /\ chan = "open" /\ StallOK
         /\ \E f \in (IF fam.stallfrags THEN FragSet(sent) ELSE {<<>>}) : frag' = f
         /\ chan' = "stalled"
         /\ UNCHANGED <<fam, sent, cph, csl, clines, cbd, done, result>>
\* ... and the client's overall timeout fires
Timeout == /\ chan = "stalled" /\ ~done
           /\ done' = TRUE
           /\ result' = [v \in Designs |-> Decide(v, "stall")]
           /\ UNCHANGED <<fam, sent, frag, chan, cph, csl, clines, cbd>>

Next == SendStatus \/ SendHeader \/ SendContentLength \/ SendEnd \/ SendBodyByte \/ Close \/ Stall \/ Timeout
Spec == Init /\ [][Next]_vars

\* ---- the observation of the wire (independent of the client variables) -----------------
CLNumsOf(hs) == {CLNum(hs[j].a) : j \in {i \in DOMAIN hs : hs[i].t = "cl" /\ hs[i].a \notin {GARB, OVF}}}
CLBadOf(hs) == \E j \in DOMAIN hs : hs[j].t = "cl" /\ hs[j].a \in {GARB, OVF}
Obs == LET hs == HdrToks(sent)
           miss == sent # <<>> /\ SLTab[sent[1].a].missing /\ hs # <<>>
           rest == IF miss THEN Tail(hs) ELSE <<>>
       IN [hc |-> HasEnd(sent),
           status |-> IF sent = <<>> THEN NULL ELSE SLTab[sent[1].a].code,
           hdrs |-> WfHdrSeq(hs),
           clnums |-> CLNumsOf(hs),
           clbad |-> CLBadOf(hs),
           allwf |-> \A j \in DOMAIN hs : IsWfTok(hs[j]),
           body |-> BodyOf(sent),
           end |-> IF chan = "stalled" THEN "stall" ELSE "close",
           alt |-> IF miss THEN LineNum(hs[1]) ELSE NULL,
           althdrs |-> WfHdrSeq(rest), altclnums |-> CLNumsOf(rest), altclbad |-> CLBadOf(rest)]

\* ---- properties ---------------------------------------------------------------------
TypeOK == /\ chan \in {"open", "closed", "stalled"} /\ cph \in {"status", "headers", "body"}
          /\ done \in BOOLEAN /\ (done => chan # "open")
          /\ (frag # <<>> => chan # "open" /\ ~HasEnd(sent))
\* the client's view is the wire's content (the accumulate part is faithful)
ViewOK == /\ CComplete = HasEnd(sent) /\ clines = HdrToks(sent) /\ cbd = BodyOf(sent)
          /\ (sent # <<>> => csl = sent[1].a)
\* THE invariant: every conforming design's answer is allowed by the contract
Conforms == done => LET o == Obs IN \A v \in Conforming : Allowed(o, result[v], {})
\* the clauses of the property, readable one by one (implied by Conforms)
NoShortBody == done => LET p == PinnedCL(Obs) IN \A v \in Conforming :
                 (result[v].k = "ok" /\ p # NULL) => Len(result[v].body) >= p
FramedOrRejected == done => LET o == Obs IN \A v \in Conforming :
                 result[v].k = "ok" => (HasEnd(sent) /\ frag = <<>> /\ result[v].status = o.status /\ o.status # NULL)
NoPanicNoHang == done => \A v \in Conforming : result[v].k \in {"ok", "err"}

\* ---- case emission --------------------------------------------------------------------
\* the Ok shapes the contract allows under deviation set D, in a form the driver can match
\* by plain membership: status, headers to be included, allowed bodies
DBodies(w, D) == {b \in BodyChoices(w) : "ignore_cl" \in D \/ PinnedCL(w) = NULL \/ Len(b) >= PinnedCL(w)}
\* a deviation set that does not change the view adds nothing over the smaller set
Relevant(o, D) == "hdr_as_status" \in D => View(o, D) # o
HasEntry(o, D) == o.hc /\ Relevant(o, D) /\ View(o, D).status # NULL /\ DBodies(View(o, D), D) # {}
Entry(o, D) == LET w == View(o, D) IN [d |-> D, status |-> w.status, hdrs |-> w.hdrs, bodies |-> DBodies(w, D)]
Matches(r, e) == r.status = e.status /\ HdrsIncluded(e.hdrs, r.hdrs) /\ r.body \in e.bodies
\* the emitted entries say exactly what Allowed says (checked on every design's answer, mutants included)
EntriesSound == done => LET o == Obs
                            es == [E \in SUBSET Devs |-> IF HasEntry(o, E) THEN {Entry(o, E)} ELSE {}]
                        IN \A v \in Designs, D \in SUBSET Devs :
                  Allowed(o, result[v], D) <=>
                    (result[v].k = "err" \/ (result[v].k = "ok" /\ \E E \in SUBSET D : \E e \in es[E] : Matches(result[v], e)))

Brief(r) == [k |-> r.k, status |-> r.status, body |-> r.body, nh |-> Len(r.hdrs)]
Emit == done => LET o == Obs IN
                EmitCase([fam |-> fam.name, bytes |-> Flatten(sent) \o frag,
                          end |-> o.end,
                          o |-> o,
                          entries |-> {Entry(o, D) : D \in {E \in SUBSET Devs : HasEntry(o, E)}},
                          canon |-> Canonical(o),
                          kills |-> {v \in Others : ~Allowed(o, result[v], {})},
                          pa |-> Brief(Decide("as_built", o.end)),
                          pe |-> Brief(Decide("enforce", o.end)),
                          toks |-> [i \in DOMAIN sent |-> <<sent[i].t, sent[i].a, sent[i].b>>],
                          nfrag |-> Len(frag)])
====
