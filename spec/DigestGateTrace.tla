---- MODULE DigestGateTrace ----
(***************************************************************************)
(* C14 trace validation: one line = one fragment exchange on the real code *)
(*   [cid, kind, init, work, n, idx, tamper, outcome, ids, init_ids,       *)
(*    init_has, digest_eq, probe, ran_sql]                                 *)
(* init / work are the footers of the two table copies as read back from   *)
(* disk; the request carried the digest the real initiator context         *)
(* computed (xor `tamper`); outcome is what the public execute_fragment    *)
(* did on the worker's context.                                            *)
(* Accepted iff the gate held: the fragment answered only if both copies   *)
(* have the same split-relevant content, the digest was the initiator's    *)
(* and the shard index was in range.                                       *)
(* Fidelity only (DRIFT): a refusal although the copies agree; an answer   *)
(* over other rows than the initiator attributes to that shard (C13's      *)
(* business when the copies agree).                                        *)
(***************************************************************************)
EXTENDS Naturals, Integers, Sequences, FiniteSets, TLC, Json, IOUtils

MIN == 4194304
MAX == 67108864
SPN == 32
INSTANCE SplitsOps

Rec == ndJsonDeserialize(IOEnv.TRACE)
VARIABLE l

GateOk(r) ==
  /\ r.outcome \in {"answered", "refused", "panic"}     \* a panic did not answer (reported as drift)
  /\ (r.outcome = "answered" \/ r.ran_sql = 1) =>      \* ran_sql: the fragment's statement was executed (its own error surfaced)
        /\ SameContent(r.init, r.work)          \* no difference in names, layout, row counts, byte sizes
        /\ r.tamper = 0                         \* the worker computed exactly the initiator's digest
        /\ r.idx >= 0 /\ r.idx < r.n            \* shard index in range

FalseRefusal(r) == r.outcome = "refused" /\ r.probe = 0 /\ SameContent(r.init, r.work) /\ r.tamper = 0 /\ r.idx >= 0 /\ r.idx < r.n
OtherRows(r) == r.outcome = "answered" /\ r.probe = 0 /\ (r.init_has = 0 \/ r.ids # r.init_ids)

TInit == l = 1
Exchange == /\ l <= Len(Rec)
            /\ GateOk(Rec[l])
            /\ FalseRefusal(Rec[l]) => EmitTag("DRIFT", [line |-> l, what |-> "false-refusal"])
            /\ Rec[l].outcome = "panic" => EmitTag("DRIFT", [line |-> l, what |-> "panic"])
            /\ OtherRows(Rec[l]) => EmitTag("DRIFT", [line |-> l, what |-> "other-rows"])
            /\ l' = l + 1
TNext == Exchange
Accepted == LET d == TLCGet("stats").diameter - 1 IN
            IF d = Len(Rec) THEN EmitTag("ACCEPT", [n |-> d])
            ELSE EmitTag("REJECT", [line |-> d + 1, cid |-> Rec[d + 1].cid]) /\ FALSE
====
