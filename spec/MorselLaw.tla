---- MODULE MorselLaw ----
(***************************************************************************)
(* X03 (parent C07) — the merge law of the morsel aggregation consumer.    *)
(*                                                                         *)
(* Morsel.tla proves that the work queue hands every row group to exactly  *)
(* one worker, i.e. that the per-thread partial states are built over a    *)
(* PARTITION of the table chosen by the scheduler (some parts empty: a     *)
(* worker that found the queue empty still contributes its empty state).   *)
(* This module states what the consumer needs on top of that:              *)
(*                                                                         *)
(*   for every table, every assignment of its rows to P partial states     *)
(*   and every order in which the partial states are merged into a fresh   *)
(*   final state (execute_morsel_aggregation / merge_states_to_batches:    *)
(*   `for state in states { final_state.merge(&state) }`),                 *)
(*   the answer shown equals the sequential fold of the table, which       *)
(*   equals the SQL reading of the grouped aggregate.                      *)
(*                                                                         *)
(* One action per implementation step: Fill = the parallel scan phase      *)
(* (each partial folds its own rows, row order inside a partial = table    *)
(* order), MergeOne(p) = one `final_state.merge(&state)` call.             *)
(* Mutant selects a seeded mistake of MergeAcc/MergeState that TLC must    *)
(* refute (cfg files MorselLaw_mut_*.cfg).                                 *)
(***************************************************************************)
EXTENDS MorselAggOps, FiniteSets

CONSTANTS MaxN,      \* rows in the table: 0..MaxN
          P,         \* number of partial states (threads)
          NKeys,     \* non-NULL group keys 1..NKeys
          NVals,     \* non-NULL values 1..NVals
          WithNull,  \* TRUE: NULL is also a key and a value
          Mutant,    \* "none" | "MinOverwrite" | "AvgOfAvgs" | "SumSeenLost" | "NullKeyDropped"
          EmitCases  \* TRUE: keep the merge order and print one case per (table, assignment, order)

KeyDom == (1..NKeys) \cup (IF WithNull THEN {NULL} ELSE {})
ValDom == (1..NVals) \cup (IF WithNull THEN {NULL} ELSE {})
RowDom == {<<k, v>> : k \in KeyDom, v \in ValDom}
Parts == 1..P

VARIABLES stage, n, table, assign, parts, pending, final, order
vars == <<stage, n, table, assign, parts, pending, final, order>>

RowsOf(tb, asg, S) == LET idx == SelectSeq([i \in DOMAIN tb |-> i], LAMBDA i : asg[i] \in S)
                      IN [j \in DOMAIN idx |-> tb[idx[j]]]

\* the table is chosen by Init (many initial states: TLC's workers share them), the assignment by Fill
Init == /\ stage = "fill" /\ n \in 0..MaxN /\ table \in [1..n -> RowDom]
        /\ assign = <<>> /\ parts = <<>> /\ pending = {} /\ final = EmptyState /\ order = <<>>

Fill == /\ stage = "fill"
        /\ \E asg \in [1..n -> Parts] :
             /\ assign' = asg
             /\ parts' = [p \in Parts |-> FoldRows(EmptyState, RowsOf(table, asg, {p}))]
        /\ pending' = Parts /\ final' = EmptyState /\ order' = <<>>
        /\ stage' = "merge" /\ UNCHANGED <<n, table>>

MergeOne(p) == /\ stage = "merge" /\ p \in pending
               /\ final' = MergeState(Mutant, final, parts[p])
               /\ pending' = pending \ {p}
               /\ order' = IF EmitCases THEN Append(order, p) ELSE order
               /\ UNCHANGED <<stage, n, table, assign, parts>>

Next == Fill \/ \E p \in Parts : MergeOne(p)
Spec == Init /\ [][Next]_vars

Merged == Parts \ pending
Done == stage = "merge" /\ pending = {}

\* ---- the law ----------------------------------------------------------
\* after any prefix of merges the final state shows the fold of exactly the rows of the merged partials
PrefixLaw == stage = "merge" => SameAnswer(final, FoldRows(EmptyState, RowsOf(table, assign, Merged)))
\* and at the end: the sequential fold of the table, in any merge order
Law == Done => SameAnswer(final, FoldRows(EmptyState, table))
\* the sequential fold is the SQL answer
FoldIsSql == (stage = "merge" /\ pending = Parts) => SameAnswer(FoldRows(EmptyState, table), SqlAnswer(table))
\* algebra of the correct merge on every pair / triple of reachable partial states
Algebra == (stage = "merge" /\ pending = Parts) =>
  /\ \A p \in Parts : MergeState("none", EmptyState, parts[p]) = parts[p] /\ MergeState("none", parts[p], EmptyState) = parts[p]
  /\ \A p, q \in Parts : MergeState("none", parts[p], parts[q]) = MergeState("none", parts[q], parts[p])
  /\ \A p, q, r \in Parts : MergeState("none", MergeState("none", parts[p], parts[q]), parts[r])
                            = MergeState("none", parts[p], MergeState("none", parts[q], parts[r]))
\* vacuity: an empty partial, a NULL key and a NULL value are among the explored cases (checked by the driver on the emitted cases)

Emit == (EmitCases /\ Done) =>
          EmitCase([rows |-> table, assign |-> assign, order |-> order, np |-> P,
                    exp |-> ShowState(FoldRows(EmptyState, table)), got |-> ShowState(final)])
====
