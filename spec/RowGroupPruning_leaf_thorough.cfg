CONSTANTS Profiles = {"i32.small", "i32.edge", "i64.small", "i64.edge", "i64.big53", "i64.wrap32", "f64.zeros", "f64.plain", "str.uni", "str.long", "date.small", "date.edge"}
          Family = "leaf"
          MaxRows = 3
          Impl = "asbuilt"
          Strict = FALSE
          EmitOn = TRUE
          FlipOps = {"eq", "ne", "lt", "le", "gt", "ge"}
          SecLits = {0, 1, 2, 3, 4, 5}
          BtwToks = {1, 2, 4}
          InToks = {0, 2, 3, 5}
          Depth2 = FALSE
INIT Init
NEXT Next
INVARIANT PruneSound
INVARIANT AllTrueSound
INVARIANT StatsAreBounds
INVARIANT Emit
CHECK_DEADLOCK FALSE
