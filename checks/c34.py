"""C34 — Flight and HTTP return the same answer (FrontDoor.tla, harness node.rs).

See lib/frontdoor.py for the machinery shared with C35.  Here every request goes through BOTH doors of the same real
node in the same node state - POST /sql?format=arrow and GetFlightInfo + DoGet (arrow_flight::FlightClient over
tonic) - or through Flight alone with a ticket the client replayed, forged, truncated, replaced, enlarged beyond
1 MiB, re-versioned (0, 2, none) or given an unknown mode.  Result sizes 0, 1, 4096, 4097 and 10^4 rows.
"""
import copy, json, os, random
import vlib, frontdoor as fd
from vlib import ToolError

LEVEL = "model_checking"
EPS = ["flight", "both"]
MUTANTS = ["doget_mode_auto", "no_version_check", "gfi_executes", "trailer_last_slice"]
REFUSED = ["malformed", "notjson", "oversized", "v0", "v2", "nov", "badmode"]
REQUIRED = ["flight_answer", "flight_more_than_4096_rows", "flight_empty_result", "flight_distributed", "flight_error",
            "answer_auto_distributed", "answer_auto_local", "answer_force_distributed", "answer_off_local",
            "sql_refused_loading", "sql_refused_failed", "failure_after_decision_is_an_error",
            "env:LoadDone", "env:LoadFail", "env:Resolve", "env:Tick", "env:ProbeUp", "env:ProbeDown", "env:PeerDies"] + ["ticket_refused_" + t for t in REFUSED]
ALL_SIZES = [0, 1, 4096, 4097, 10000]
SIZES = {
    "quick": dict(eps=EPS, sizes_mc=ALL_SIZES, sizes_mut=[1, 4097], sizes_emit=ALL_SIZES, mutants=MUTANTS, per_state=5, walks=50, walk_depth=14, jobs=6, probing=60),
    "thorough": dict(eps=EPS, sizes_mc=ALL_SIZES, sizes_mut=[1, 4097], sizes_emit=ALL_SIZES, mutants=MUTANTS, per_state=40, walks=1200, walk_depth=24,
                     jobs=8, npeers_mc=3, probing=400, states3=1200, per_state3=10),
}
WHAT = "C34 Flight vs HTTP"


def run(ctx):
    P = dict(SIZES[ctx.tier], what=WHAT, required_tags=REQUIRED)
    fd.run_family(ctx, P)
    ctx.set("rule", "A case is (node state, statement, mode, ticket treatment): the node state is reached by a TLC-emitted environment history "
            "(one per reachable state of FrontDoor.tla, 2 peers; plus seeded random walks), the request comes from the spec's alphabet: "
            "'both' = the same statement and mode through POST /sql and through GetFlightInfo + DoGet, 'flight' = DoGet with a replayed / "
            "forged / malformed / non-JSON / > 1 MiB / v=0 / v=2 / no-version / unknown-mode ticket; statements of every class incl. results of "
            "0, 1, 4096, 4097 and 10^4 rows. distinct = hash of (observed node state, endpoint, mode, statement, ticket treatment, peers dying "
            "while pending); non-trivial = the node is not loaded, or has a peer in its view, or the ticket was tampered with, or a peer dies "
            "while the request is pending. evaluations = steps executed on real nodes.")
    ctx.assumptions += [
        "contract (VIOLATION): one door answers iff the other does; when both answer: the same x-qe-distributed / trailer 'distributed', "
        "schemas equal in names and types, the same rows (sequence under ORDER BY, bag otherwise) and the same row count; a Flight answer "
        "carries exactly one message with app_metadata, it is the last one, and its 'rows' equals the rows streamed; a local Flight answer "
        "streams exactly the rows a plain ExecutionContext returns; malformed / non-JSON / oversized / v != 1 / version-less / unknown-mode "
        "tickets are refused and leave queries_total untouched on every node; GetFlightInfo leaves queries_total untouched on every node",
        "fidelity (drift note, exit 0): which gRPC code a refusal carries (InvalidArgument / NotFound / Unavailable / Unimplemented / Internal "
        "vs HTTP 400 / 503 / 501), the 4096-row slice bound, that a replayed ticket gives the same answer, FlightInfo.schema vs the streamed schema",
        "an empty statement sent to a node that is not ready is refused by both doors with different classes (HTTP 503, Flight "
        "InvalidArgument): the property does not pin the class",
        "Flight stops with the shutdown signal while HTTP keeps serving for the drain window: Flight is not exercised on a draining node",
        "two executions of a distributed statement are compared with each other; their equality with the single-node answer is C09's",
    ]


def replay(ctx, obj):
    fd.replay_case(ctx, obj, WHAT)


def selftest(ctx):
    ok = True

    def expect(name, cond):
        nonlocal ok
        print(f"selftest {name}: {'detected' if cond else 'NOT DETECTED'}")
        ok = ok and cond

    rng = random.Random(9)
    res = fd.emit_states(ctx, eps=EPS, sizes=ALL_SIZES)
    vlib.tlc_must_pass(res, "state emission")
    reqs = fd.alphabet(EPS, ALL_SIZES)
    pick = [c for c in res.cases if c["s"]["load"] == "loaded" and c["s"]["view"] == ["up", "up"] and c["s"]["alive"] == [True, True] and not c["s"]["draining"]][:1]
    pick += [c for c in res.cases if c["s"]["load"] == "loaded" and not c["s"]["resolved"] and not c["s"]["draining"]][:1]
    hs = fd.histories_from_states(ctx, pick, reqs, 70, rng, dies_prob=0.0)
    outs, _ = fd.replay_with_retry(ctx, hs, "st_base", jobs=2)
    c0 = vlib.Ctx(ctx.pid, ctx.tier, ctx.seed, LEVEL)
    n = fd.judge(c0, outs, hs, "st-control", WHAT)
    expect("control: unmodified observations are accepted", n == len(hs) and not c0.violations)

    def rejected(mut_outs, clause, tag):
        c1 = vlib.Ctx(ctx.pid, ctx.tier, ctx.seed, LEVEL)
        fd.judge(c1, mut_outs, hs, tag, WHAT, budget=40)
        return any(clause in v["case"]["reject"].get("clauses", []) for v in c1.violations)

    def mutate(pred, change):
        m = copy.deepcopy(outs)
        for o in m:
            for s in o["steps"]:
                if s["a"] == "Req" and "flight" in s.get("obs", {}) and pred(s, s["obs"]):
                    change(s["obs"])
                    return m
        raise ToolError("selftest: no suitable observation")

    okboth = lambda s, o: s["ep"] == "both" and o["http"]["status"] == 200 and o["flight"]["dg"].get("code") == "ok"
    expect("a different distribution decision on the two doors is rejected",
           rejected(mutate(okboth, lambda o: o["flight"]["dg"].update(dist=1 - o["flight"]["dg"]["dist"])), "doors_disagree_on_decision", "st-dec"))
    expect("a trailer whose row count is not the rows streamed is rejected",
           rejected(mutate(lambda s, o: okboth(s, o) and o["flight"]["rows_body"] > 4096, lambda o: o["flight"]["dg"].update(trailer_rows=o["flight"]["rows_body"] - 4096)),
                    "trailer_row_count", "st-trailer"))
    expect("a second metadata message is rejected",
           rejected(mutate(okboth, lambda o: o["flight"]["dg"].update(trailers=2)), "one_trailer_and_last", "st-two"))
    expect("a trailer that is not the last message is rejected",
           rejected(mutate(okboth, lambda o: o["flight"]["dg"].update(trailer_last=0)), "one_trailer_and_last", "st-last"))
    expect("different schemas on the two doors are rejected",
           rejected(mutate(okboth, lambda o: o["cross"].update(schema_eq=0)), "doors_disagree_on_schema", "st-schema"))
    expect("Flight answering where HTTP refuses is rejected",
           rejected(mutate(okboth, lambda o: o["http"].update(status=400)), "doors_disagree_on_outcome", "st-outcome"))
    expect("an accepted version-2 ticket is rejected",
           rejected(mutate(lambda s, o: s["tamper"] == "v2", lambda o: o["flight"]["dg"].update(code="ok", trailers=1, trailer_last=1, dist=0)),
                    "bad_ticket_accepted", "st-v2"))
    expect("an executed oversized ticket is rejected",
           rejected(mutate(lambda s, o: s["tamper"] == "oversized", lambda o: o["flight"].update(dg_selfq=1)), "bad_ticket_executed", "st-big"))
    expect("GetFlightInfo executing the statement is rejected",
           rejected(mutate(okboth, lambda o: o["flight"].update(gfi_selfq=1)), "get_flight_info_executed", "st-gfi"))
    for how, clause in (("frow", "doors_disagree_on_rows"), ("trailer", "trailer_row_count")):
        o2, _ = fd.replay(ctx, hs[:1], "st_" + how, jobs=1, corrupt=how)
        c1 = vlib.Ctx(ctx.pid, ctx.tier, ctx.seed, LEVEL)
        fd.judge(c1, o2, hs[:1], "st-" + how, WHAT, budget=2)
        got = sorted({c for v in c1.violations for c in v["case"]["reject"].get("clauses", [])})
        expect(f"harness corruption '{how}' is rejected ({got})", clause in got)
    for m in MUTANTS:
        r = fd.model_check(ctx, m, workers=1, eps=fd.MUTANT_EPS[m], sizes=[1, 4097], fmts=["arrow"], mutant=m)
        cl = sorted({c for k, d in r.prints if k == "VIOLATED" for c in d["clauses"]})
        expect(f"design mutant {m} violates the contract ({cl})", r.violated == "Contract" and bool(cl))
    print("selftest C34:", "all corruptions detected" if ok else "FAILED")
    return 0 if ok else 1
