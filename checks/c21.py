"""C21 — Aggregates follow SQL NULL and empty-input rules (SqlSem.tla as the oracle)."""
import sqlprop, sqlcheck
LEVEL = "model_checking"

def run(ctx):
    for fam in ['agg']:
        sqlprop.laws(ctx, f"SqlLaws_{fam}_{ctx.tier}.cfg")
    sqlprop.run_sql_property(ctx, corpus=['agg', 'big', 'aggwide', 'noalias'], seeded=[('single', {'group': True, 'having': True, 'boolops': False, 'group_p': 0.9, 'group_keys_nonnull': True, 'nonnull_col_p': 0.5})], quick_n=250, seeded_quick=250, cfgs=[sqlprop.cfg('mem1'), sqlprop.cfg('mem_b3', batches=3), sqlprop.cfg('mem_b14', batches=14, keep_empty=True), sqlprop.cfg('pq_2f_rg2', layout='parquet', files=2, rg=2), sqlprop.cfg('pq_rg1', layout='parquet', files=1, rg=1)],
        rule='Grouped and global COUNT/SUM/AVG/MIN/MAX/COUNT(DISTINCT) over nullable int/double/string/date columns, NULL keys, empty inputs, HAVING, LEFT JOIN all-NULL groups.')

def replay(ctx, obj):
    sqlcheck.replay_sql(ctx, obj)

def selftest(ctx):
    return sqlprop.selftest(ctx, ['agg'])
