"""C21 — Aggregates follow SQL NULL and empty-input rules (SqlSem.tla as the oracle)."""
import sqlprop, sqlcheck
LEVEL = "model_checking"

def run(ctx):
    for fam in ['agg']:
        sqlprop.laws(ctx, f"SqlLaws_{fam}_{ctx.tier}.cfg")
    sqlprop.run_sql_property(ctx, corpus=['agg'], seeded=[('single', {'group': True, 'having': True, 'boolops': False, 'group_p': 0.9, 'group_keys_nonnull': True, 'nonnull_col_p': 0.5})], quick_n=400, seeded_quick=250,
        rule='Grouped and global COUNT/SUM/AVG/MIN/MAX/COUNT(DISTINCT) over nullable int/double/string/date columns, NULL keys, empty inputs, HAVING, LEFT JOIN all-NULL groups.')

def replay(ctx, obj):
    sqlcheck.replay_sql(ctx, obj)

def selftest(ctx):
    return sqlprop.selftest(ctx, ['agg'])
