"""C26 — window functions match their SQL definition (SqlSem.WinVals as the oracle)."""
import sqlprop, sqlcheck
LEVEL = "model_checking"

def run(ctx):
    sqlprop.run_sql_property(ctx, corpus=["window"], seeded=[], quick_n=500, cfgs=[sqlprop.cfg("mem1"), sqlprop.cfg("mem3", batches=3),
                             sqlprop.cfg("pq_2f_rg2", layout="parquet", files=2, rg=2)],
        rule="ROW_NUMBER, RANK, DENSE_RANK, PERCENT_RANK, CUME_DIST, NTILE, LAG/LEAD (offset, default), FIRST/LAST/NTH_VALUE and "
             "COUNT/SUM/MIN/MAX over PARTITION BY, multi-key ORDER BY with ties and NULLS FIRST/LAST, default / ROWS (n PRECEDING..n FOLLOWING) / "
             "RANGE (UNBOUNDED/CURRENT ROW) frames incl. empty frames, 1-2 windows per SELECT, over tables of 0-6 rows in 1 and 3 batches and Parquet; "
             "order-sensitive functions are generated with a total order per partition (unique tiebreak key), peer-insensitive ones with ties.")

def replay(ctx, obj):
    sqlcheck.replay_sql(ctx, obj)

def selftest(ctx):
    return sqlprop.selftest(ctx, [])
