"""C17 — an Iceberg snapshot reads exactly its live data files (Iceberg.tla).

(M)  TLC explores every history of valid Iceberg commits within the bound (append, file removal,
     manifest compaction, metadata rewrite / rollback / expiry, hint write, and the refusable ones:
     delete file, non-Parquet file, remote URI on a data file / manifest / manifest list, empty
     snapshot) and checks the design: status bookkeeping keeps exactly the logical content live,
     DELETED never live, rows served = logical content, what must be refused is refused, the
     current metadata file is defined, time travel is unaffected by later actions.
(R)  every reachable directory is emitted with, per open target (current, each snapshot ever
     created, one unknown id), the SET of outcomes the property allows; the harness writes the
     directory for real (Parquet, Avro manifests / manifest lists with the optional summary counts
     absent / truthful / null, metadata JSON, version-hint.text)
     and opens it with ExecutionContext::register_iceberg + SELECT * / SELECT COUNT(*).

contract (VIOLATION): wrong row bag / wrong COUNT(*); refusal where rows are demanded; rows where
     refusal is demanded; panic.
fidelity (notes only): error class and text, the stage at which a refusal surfaces, which of several
     equally-new metadata files is picked, what a never-written table or a DELETED entry naming an
     unreadable object does (lenient in the spec).
"""
import collections
import copy
import json
import os
import re

import vlib
from vlib import run_tlc, tlc_must_pass, qev, write_ndjson, read_ndjson, chash

LEVEL = "model_checking"
WHY = {0: "rows", 1: "unknown_snapshot", 2: "no_live_data_file", 3: "delete_file", 4: "non_parquet",
       5: "remote_uri", 6: "never_written"}
ACTIONS = ["append", "remove", "rewrite_manifests", "rewrite_metadata", "rollback", "expire", "write_hint",
           "add_delete_file", "add_non_parquet", "remote_data", "remote_manifest", "remote_mlist", "empty_snapshot"]
# names under which TLC's -coverage reports the sub-actions of Next
TLC_ACTIONS = ["AppendFiles", "RemoveAny", "RewriteManifests", "RewriteMetadata", "MetadataRewrites", "WriteHint", "AddDeleteFile",
               "AddNonParquet", "UseRemoteUri", "EmptySnapshot"]


# --------------------------------------------------------------------------------------------
# cases

def directory_of(case):
    """The part of a case that defines the on-disk table (no expectations)."""
    return {k: case[k] for k in ("scheme", "hint", "manifests", "snapshots", "metas", "variant") if k in case}


def prepare(cases):
    """Dedupe by directory, attach the concretisation variant (content-derived, so stable across runs)."""
    seen, out = set(), []
    for c in cases:
        c = dict(c)
        c.pop("variant", None)
        h = chash(directory_of(c))
        if h in seen:
            continue
        seen.add(h)
        c["variant"] = int(h, 16) % 12
        c["opens"] = sorted(c["opens"], key=lambda o: o["target"])
        out.append(c)
    return out


def run_harness(ctx, cases, tag, keep=False):
    inp = os.path.join(ctx.work, f"{tag}.in.ndjson")
    outp = os.path.join(ctx.work, f"{tag}.out.ndjson")
    write_ndjson(inp, cases)
    args = ["iceberg-replay", inp, outp, os.path.join(ctx.work, "tables"), "8" if ctx.tier == "quick" else "12"]
    if keep:
        args.append("keep")
    p = qev(args, timeout=3000, env={"QE_IPC_CACHE": "0", "RAYON_NUM_THREADS": "4"}, check=False)
    if p.returncode != 0:
        vlib.log(p.stderr[-3000:])
        raise vlib.ToolError(f"iceberg-replay exited {p.returncode} (materialiser problem, not a verdict)")
    outs = read_ndjson(outp)
    if len(outs) != len(cases):
        raise vlib.ToolError("iceberg-replay lost cases")
    return outs


# --------------------------------------------------------------------------------------------
# judge

def judge_open(exp, obs):
    """exp = {target, accept:[outcome..]}, obs = harness observation.  Returns None or a reason."""
    acc = exp["accept"]
    oc = obs["outcome"]
    if oc == "panic":
        return "reader panicked: " + str(obs.get("msg", ""))[:200]
    may_refuse = any(a["refuse"] == 1 or a["lenient"] == 1 for a in acc)
    row_alts = [a for a in acc if a["refuse"] == 0]
    if oc == "refuse":
        if may_refuse:
            return None
        return (f"refused ({obs.get('class')} at {obs.get('stage')}: {str(obs.get('msg'))[:160]}) where the snapshot's live files "
                f"{row_alts[0]['files']} must be served")
    if oc == "rows":
        got = sorted(obs.get("rows", []))
        if not row_alts:
            return f"served rows {got} where refusal is demanded ({', '.join(WHY[a['why']] for a in acc)})"
        for a in row_alts:
            if got == sorted(a["rows"]):
                if obs.get("ybad", 0) != 0:
                    return f"column y of the served rows is not the written one (x={got})"
                if obs.get("count") != len(got):
                    return f"SELECT COUNT(*) = {obs.get('count')} but SELECT * returned {len(got)} rows"
                return None
        return f"served rows {got}, live files {[a['files'] for a in row_alts]} hold {[sorted(a['rows']) for a in row_alts]}"
    return f"unintelligible observation {oc}"


def judge_case(rec):
    """-> list of (target, why)."""
    bad = []
    obs = {o["target"]: o for o in rec["obs"]}
    for e in rec["opens"]:
        o = obs.get(e["target"])
        if o is None:
            raise vlib.ToolError("harness did not open a target")
        why = judge_open(e, o)
        if why:
            bad.append((e["target"], why))
    return bad


def nontrivial(case):
    if len(case["hist"]) < 2:
        return False
    for e in case["opens"]:
        for a in e["accept"]:
            if a["refuse"] == 0 or a["why"] in (2, 3, 4, 5):
                return True
    return False


def account(ctx, recs, stats):
    """Judge records, feed violations, collect vacuity/fidelity statistics."""
    for r in recs:
        ctx.add("evaluations", len(r["opens"]))
        for a in r["hist"]:
            stats["actions"][a] += 1
        stats["scheme"][r["scheme"]] += 1
        if r["hint"]:
            stats["hint"]["present"] += 1
            if r["hint"] != len(r["metas"]):
                stats["hint"]["stale"] += 1
        if len(r["cands"]) > 1:
            stats["tied_metadata"] += 1
        for m in r["manifests"]:
            stats["uri_manifest"][m["uri"]] += 1
            for e in m["entries"]:
                stats["uri_data"][e["uri"]] += 1
                stats["status"][e["status"]] += 1
        for s in r["snapshots"]:
            stats["uri_mlist"][s["uri"]] += 1
            forms = {c["c"] for c in s["counts"]}
            for c in s["counts"]:
                stats["count_form"][c["c"]] += 1
            if forms == {1, 2}:
                stats["count_mixed_lists"] += 1
        obs = {o["target"]: o for o in r["obs"]}
        for e in r["opens"]:
            o = obs[e["target"]]
            stats["observed"][o["outcome"]] += 1
            for a in e["accept"]:
                stats["expected"][WHY[a["why"]] + ("(lenient)" if a["lenient"] else "")] += 1
            if o["outcome"] == "refuse":
                stats["refusal_class"][f"{WHY[e['accept'][0]['why']]}->{o.get('class')}@{o.get('stage')}"] += 1
            if len(e["accept"]) > 1:
                stats["targets_with_choice"] += 1
        for (t, why) in judge_case(r):
            case = {k: v for k, v in r.items() if k != "obs"}
            ctx.violation({"case": case, "target": t, "observed": obs[t]}, f"hist={r['hist']} open({t}): {why}")


def vacuity(ctx, stats, need_tie):
    missing = [a for a in ACTIONS if stats["actions"][a] == 0]
    for f in range(5):
        if stats["uri_data"][f] == 0 or (f < 4 and stats["uri_manifest"][f] == 0) or (f < 4 and stats["uri_mlist"][f] == 0):
            missing.append(f"uri form {f}")
    if stats["uri_manifest"][4] == 0 or stats["uri_mlist"][4] == 0:
        missing.append("remote manifest / manifest-list uri")
    for s in range(3):
        if stats["status"][s] == 0:
            missing.append(f"entry status {s}")
    for w in ("rows", "unknown_snapshot", "no_live_data_file", "delete_file", "non_parquet", "remote_uri"):
        if stats["expected"][w] == 0:
            missing.append(f"expected outcome {w}")
    for f in range(3):
        if stats["count_form"][f] == 0:
            missing.append(f"manifest-list summary counts form {f} (0 absent, 1 truthful, 2 null)")
    if stats["count_mixed_lists"] == 0:
        missing.append("manifest list mixing truthful and null summary counts")
    if stats["hint"]["stale"] == 0:
        missing.append("stale version-hint")
    if need_tie and stats["tied_metadata"] == 0:
        missing.append("tied last-updated-ms")
    if stats["observed"]["rows"] == 0 or stats["observed"]["refuse"] == 0:
        missing.append("observed rows/refuse")
    if missing:
        raise vlib.ToolError(f"vacuity: never exercised: {missing}")


def new_stats():
    return {"actions": collections.Counter(), "scheme": collections.Counter(), "hint": collections.Counter(),
            "tied_metadata": 0, "uri_manifest": collections.Counter(), "uri_data": collections.Counter(),
            "uri_mlist": collections.Counter(), "status": collections.Counter(), "observed": collections.Counter(),
            "expected": collections.Counter(), "refusal_class": collections.Counter(), "targets_with_choice": 0,
            "count_form": collections.Counter(), "count_mixed_lists": 0}


def tlc_cases(ctx, cfg, label, **kw):
    res = run_tlc("Iceberg", cfg, workers=8, timeout=3000, **kw)
    tlc_must_pass(res, f"Iceberg/{cfg}")
    ctx.tlc_stats(res, label)
    return res


def check_coverage(ctx, res, what):
    cov = collections.Counter()
    for m in re.finditer(r"^<(\w+) line \d+, col \d+ to line \d+, col \d+ of module Iceberg[^>]*>: (\d+):(\d+)", res.out, re.M):
        cov[m.group(1)] += int(m.group(3))
    ctx.cov.setdefault("tlc_subaction_coverage", {})[what] = dict(cov)
    zero = [a for a in TLC_ACTIONS if cov.get(a, 0) == 0]
    if zero:
        raise vlib.ToolError(f"{what}: actions never taken according to TLC coverage: {zero}")


# --------------------------------------------------------------------------------------------

def run(ctx):
    quick = ctx.tier == "quick"
    stats = new_stats()
    # (M)+(R) exhaustive family: every reachable directory is a case
    res = tlc_cases(ctx, "Iceberg_quick.cfg" if quick else "Iceberg_thorough.cfg",
                    "Iceberg: all histories in bound, design invariants + TimeTravelStable, one CASE per reachable directory",
                    coverage=not quick)
    if not quick:
        check_coverage(ctx, res, "Iceberg_thorough")
    if len(res.cases) != res.distinct:
        raise vlib.ToolError(f"TLC reported {res.distinct} states but {len(res.cases)} CASE lines were parsed")
    exhaustive = prepare(res.cases)
    del res
    # (M) deeper / wider, design only
    for cfg, label in ([("Iceberg_quick_deep.cfg", "Iceberg design only: one more commit than the replayed family")] if quick else
                       [("Iceberg_thorough_deep.cfg", "Iceberg design only: histories of 5 actions"),
                        ("Iceberg_thorough_wide.cfg", "Iceberg design only: 4 data files, ties on every commit, all 12 styles")]):
        r2 = tlc_cases(ctx, cfg, label, coverage=not quick)
        if not quick:
            check_coverage(ctx, r2, cfg)
    # (R) longer histories by simulation (4 files, ties on every commit, all styles), seeded
    sim = run_tlc("Iceberg", "Iceberg_sim.cfg", workers=1, timeout=3000, simulate=100 if quick else 1500, depth=8, seed=ctx.seed)
    if sim.error or sim.violated:
        tlc_must_pass(sim, "Iceberg/simulate")
    m = re.search(r"The number of states generated: (\d+)", sim.out)
    if not m:
        vlib.log(sim.out[-3000:])
        raise vlib.ToolError("TLC simulation did not report its state count")
    sim.generated = int(m.group(1))
    sim.distinct = len({chash(directory_of(c)) for c in sim.cases})
    ctx.tlc_stats(sim, "Iceberg -simulate: random histories of up to 6 actions, invariants on every state, CASE per state")
    seen = {chash(directory_of(c)) for c in exhaustive}
    simulated = [c for c in prepare(sim.cases) if chash(directory_of(c)) not in seen]
    ctx.set("cases_exhaustive_family", len(exhaustive))
    ctx.set("cases_simulated_new", len(simulated))
    allc = exhaustive + simulated
    if len(exhaustive) < 1000 or len(simulated) < 50:
        raise vlib.ToolError("too few cases emitted")

    outs = run_harness(ctx, allc, "cases")
    account(ctx, outs, stats)
    vacuity(ctx, stats, need_tie=True)

    nt = {chash(directory_of(c)) for c in allc if nontrivial(c)}
    ctx.set("distinct_nontrivial", len(nt))
    ctx.set("traces_validated_against_impl", len(outs))
    ctx.set("exhaustive", True)
    ctx.set("stats", {k: (dict(v) if isinstance(v, collections.Counter) else v) for k, v in stats.items()})
    for c in (allc[3], allc[len(exhaustive) // 2], allc[len(exhaustive) - 1], allc[-1]):
        ctx.sample({"hist": c["hist"], "scheme": c["scheme"], "hint": c["hint"], "metas": c["metas"],
                    "opens": [{"target": o["target"], "accept": [(WHY[a["why"]], a["files"]) for a in o["accept"]]} for o in c["opens"]]})
    ctx.set("rule", "A case is one reachable table directory of Iceberg.tla (TLC state: manifests with per-entry status/content/format/URI form, "
            "snapshots, metadata files, version hint) with, per open target (current, every snapshot ever created, one unknown id), the set of "
            "outcomes the property allows. The exhaustive family is every directory reachable in <=3 (quick) / <=4 (thorough) actions under 4 "
            "URI-rotation x naming styles; simulation adds longer histories (<=6 actions, 4 files, ties on every commit, 12 styles). Each case is "
            "written to disk and opened by the real reader once per target. Non-trivial = distinct directory after >=2 actions with at least one "
            "target that must serve rows or be refused for emptiness / delete file / non-Parquet / remote URI.")
    ctx.assumptions += [
        "Parquet/Avro/metadata-JSON writers of the harness are trusted to materialise the model directory (arrow, parquet, apache-avro crates)",
        "equal last-updated-ms without a hint: any of the newest metadata files may be used (the property does not pin the tie-break)",
        "never-written table, and DELETED entries naming a delete file / non-Parquet file / remote URI: refusal or the exact live rows are both accepted",
        "manifest-list summary counts are advisory: absent, truthful and null (unknown) forms are written, never untruthful non-null ones",
        "a file with both a live and a DELETED entry inside one snapshot is not a valid history and is not generated",
        "error class/text and the stage at which a refusal surfaces are fidelity, recorded under stats.refusal_class",
    ]


def replay(ctx, obj):
    c = obj["case"]["case"]
    t = obj["case"]["target"]
    rec = run_harness(ctx, [c], "replay", keep=True)[0]
    ctx.add("evaluations", len(c["opens"]))
    ctx.set("distinct_nontrivial", 1 if nontrivial(c) else 0)
    ctx.sample({"hist": c["hist"], "obs": rec["obs"]})
    obs = {o["target"]: o for o in rec["obs"]}
    # every target of the case is re-judged (the recorded one is `t`)
    for (tt, why) in judge_case(rec):
        ctx.violation({"case": c, "target": tt, "observed": obs[tt]}, f"hist={c['hist']} open({tt}): {why}")
    ctx.set("replayed_target", t)


# --------------------------------------------------------------------------------------------
# selftest: corrupted expectations, corrupted directories and simulated reader mutants must all be caught

def meta_name(scheme, i):
    if scheme == 0:
        return "v%d.metadata.json" % (7 + i)
    uu = ["9c12f2a4", "1b7d0c3e", "e4a1b2c3", "5a6b7c8d", "0f1e2d3c", "c0ffee00", "77777777", "2468ace0"][i % 8]
    return "%05d-%s" % ((i - 1) if scheme == 1 else (90 - i), uu)


def rows_of(f):
    return {1: [1], 2: [1, 2], 3: [3], 4: [2, 4]}.get(f, [f * 10])


def sim_reader(case, target, mut=None):
    """A reference reader over the model directory, optionally with one seeded bug (what a code mutation would do,
    given how the harness lays the directory out).  Returns ("refuse",) or ("rows", sorted rows)."""
    metas, snaps, mans = case["metas"], case["snapshots"], case["manifests"]
    idx = list(range(1, len(metas) + 1))
    if case["hint"] and mut != "ignore_hint":
        mi = case["hint"]
    elif mut == "meta_by_name":
        mi = max(idx, key=lambda i: meta_name(case["scheme"], i))
    else:
        mi = max(idx, key=lambda i: (metas[i - 1]["ts"], meta_name(case["scheme"], i)))
    M = metas[mi - 1]
    if target == 0:
        s = M["cur"]
        if mut == "current_is_newest_snapshot" and M["snaps"]:
            s = max(M["snaps"], key=lambda j: (snaps[j - 1]["ts"], j))
        if s == 0:
            return ("refuse",)
    elif target in M["snaps"]:
        s = target
    elif mut == "unknown_falls_back" and M["cur"]:
        s = M["cur"]
    else:
        return ("refuse",)
    sn = snaps[s - 1]
    remote_ok = mut == "s3_relative"
    if sn["uri"] == 4 and not remote_ok:
        return ("refuse",)
    files = set()
    cform = {c["m"]: c["c"] for c in sn.get("counts", [])}
    for m in sn["mlist"]:
        man = mans[m - 1]
        if mut in ("skip_zero_count_manifests", "skip_zero_count_manifests_v1names") and cform.get(m, 1) != 0:
            # reads added+existing summary counts, null as 0, and skips the manifest when the sum is 0
            v1_table = case["variant"] % 2 == 1 and not any(e["content"] != 0 for mm in mans for e in mm["entries"])
            if v1_table == (mut == "skip_zero_count_manifests_v1names"):
                live_n = sum(1 for e in man["entries"] if e["status"] != 2)
                if cform[m] == 2 or live_n == 0:
                    continue
        if man["uri"] == 4 and not remote_ok:
            return ("refuse",)
        for e in man["entries"]:
            if e["status"] == 2 and mut != "include_deleted":
                continue
            if e["status"] == 0 and mut == "skip_existing":
                continue
            if e["content"] != 0 and mut != "accept_delete_files":
                return ("refuse",)
            if e["format"] != 0 and mut != "ignore_format":
                return ("refuse",)
            if e["uri"] == 4 and not remote_ok:
                return ("refuse",)
            files.add(e["file"])
    if mut == "scan_data_dir":
        files = {e["file"] for m in mans for e in m["entries"]} | {99.9}
    if not files:
        return ("refuse",)
    return ("rows", sorted(x for f in files for x in ([999] if f == 99.9 else rows_of(f))))


MUTANTS = ["include_deleted", "meta_by_name", "ignore_hint", "unknown_falls_back", "accept_delete_files", "s3_relative",
           "ignore_format", "current_is_newest_snapshot", "skip_existing", "scan_data_dir",
           "skip_zero_count_manifests", "skip_zero_count_manifests_v1names"]


def as_obs(t, r):
    if r[0] == "refuse":
        return {"target": t, "outcome": "refuse", "class": "sim", "stage": "open", "msg": "sim"}
    return {"target": t, "outcome": "rows", "rows": r[1], "ybad": 0, "count": len(r[1])}


def selftest(ctx):
    res = run_tlc("Iceberg", "Iceberg_quick.cfg", workers=8, timeout=1500)
    tlc_must_pass(res, "Iceberg_quick")
    cases = prepare(res.cases)
    ok = True

    def expect(name, cond, detail=""):
        nonlocal ok
        print(f"selftest {name}: {'detected' if cond else 'NOT DETECTED'} {detail}")
        ok = ok and cond

    # a case with a removed file, and one with a stale hint whose choice matters
    removed = next(c for c in cases if c["hist"] == ["append", "remove"] and any(a["refuse"] == 0 and len(a["rows"]) >= 1 for a in c["opens"][0]["accept"])
                   and any(e["status"] == 2 for m in c["manifests"] for e in m["entries"]))
    stale = next(c for c in cases if c["hist"] == ["append", "write_hint", "append"])
    refused = next(c for c in cases if c["hist"] == ["append", "add_delete_file"])
    base = run_harness(ctx, [removed, stale, refused], "selftest-base")
    expect("baseline (uncorrupted cases accepted)", all(not judge_case(r) for r in base))

    # 1. corrupt an expected bag
    c1 = copy.deepcopy(base[0]); c1["opens"][0]["accept"][0]["rows"].append(2)
    expect("expected bag corrupted (+1 row)", bool(judge_case(c1)))
    c2 = copy.deepcopy(base[0]); c2["opens"][0]["accept"] = [{"refuse": 1, "why": 2, "lenient": 0, "files": [], "rows": []}]
    expect("expected rows -> refuse", bool(judge_case(c2)))
    c3 = copy.deepcopy(base[2]); c3["opens"][0]["accept"] = [{"refuse": 0, "why": 0, "lenient": 0, "files": [1], "rows": [1]}]
    expect("expected refuse -> rows", bool(judge_case(c3)))
    c4 = copy.deepcopy(base[0]); c4["obs"][0]["rows"] = c4["obs"][0]["rows"][:-1]
    expect("observed row dropped", bool(judge_case(c4)))
    c5 = copy.deepcopy(base[0]); c5["obs"][0]["count"] += 1
    expect("observed COUNT(*) off by one", bool(judge_case(c5)))

    # 2. corrupt the DIRECTORY handed to the real engine, keep the expectation: the real reader must now disagree
    d1 = copy.deepcopy(removed)
    for m in d1["manifests"]:
        for e in m["entries"]:
            if e["status"] == 2:
                e["status"] = 0
    d2 = copy.deepcopy(stale); d2["hint"] = 0
    d3 = copy.deepcopy(refused)
    for m in d3["manifests"]:
        for e in m["entries"]:
            e["content"] = 0
    outs = run_harness(ctx, [d1, d2, d3], "selftest-dir")
    expect("directory: DELETED entry resurrected on disk", bool(judge_case(outs[0])), str(outs[0]["obs"][0].get("rows")))
    expect("directory: version-hint.text not written", bool(judge_case(outs[1])), str(outs[1]["obs"][0].get("rows")))
    expect("directory: delete file written as data file", bool(judge_case(outs[2])), str(outs[2]["obs"][0].get("rows")))

    # 3. the reference reader agrees with the real engine on every case; each seeded reader bug is caught by the case set
    allo = run_harness(ctx, cases, "selftest-all")
    dis = 0
    for r in allo:
        obs = {o["target"]: o for o in r["obs"]}
        for e in r["opens"]:
            s = sim_reader(r, e["target"])
            o = obs[e["target"]]
            if (s[0] != o["outcome"]) or (s[0] == "rows" and s[1] != sorted(o["rows"])):
                dis += 1
    expect("reference reader == real engine on all %d cases" % len(allo), dis == 0, f"({dis} disagreements)")
    for mut in MUTANTS:
        n = 0
        for c in cases:
            rec = dict(c); rec["obs"] = [as_obs(e["target"], sim_reader(c, e["target"], mut)) for e in c["opens"]]
            if judge_case(rec):
                n += 1
        expect(f"seeded reader bug '{mut}'", n > 0, f"(flagged on {n} of {len(cases)} cases)")
    return 0 if ok else 1
