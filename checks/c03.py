"""C03 — optimization never changes a query's answer.

Every statement of the corpus is executed (a) unoptimized, (b) through the production optimizer, over memory
and over Parquet (statistics-driven rules only fire with footer statistics), and (c) with each rule alone and with
prefixes of the production order applied by the harness through Optimizer::with_rules; EVERY outcome is judged by
TLC against SqlSem.tla, so a rewrite that changes rows is caught whichever rule did it."""
import sqlprop, sqlcheck, optprop
LEVEL = "model_checking"


def run(ctx):
    cfgs = [sqlprop.cfg("mem_prod"), sqlprop.cfg("mem_noopt", opt="none"),
            sqlprop.cfg("pq_prod", **optprop.PQ), sqlprop.cfg("pq_noopt", opt="none", **optprop.PQ)] + optprop.rule_cfgs()[1:-2]
    obs = optprop.fired_observer(ctx)
    sqlprop.run_sql_property(ctx, corpus=["optshapes", "optshapes2", "cjoins", "subq", "subq2", "cte2", "samecols"], seeded=[], cfgs=cfgs, quick_n=35, thorough_n=700, cross=obs,
        rule="Corpus statements (incl. the shapes each statistics-driven / decorrelation rule targets: unique and NON-unique keys whose "
             "value range exceeds the row count, linear SUM factors over fan-out joins, dual non-negative int keys with negatives/NULLs, "
             "HAVING totals, semi joins above inner joins, correlated EXISTS / NOT IN / scalar aggregates, OR of conjunctions, outer-join "
             "filters) run unoptimized, through the production optimizer (memory and Parquet), with each rule alone and with prefixes "
             "of the production order; all outcomes judged by TLC against SqlSem.")
    optprop.require_fired(ctx, ["PredicatePushdown", "JoinReorder", "SubqueryDecorrelation", "GroupKeyReduction", "PackedGroupKeys",
                                "PackedJoinKeys", "ProjectionPushdown", "DeriveOrPredicates", "ConstantFolding"])


def replay(ctx, obj):
    sqlcheck.replay_sql(ctx, obj)


def selftest(ctx):
    return sqlprop.selftest(ctx, [])
