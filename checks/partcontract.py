"""C07, operator partition contract — spec/PartitionContract.tla (M) + harness/src/optree.rs (R).

TLC enumerates operator trees x leaf rows x every split of the rows into partitions and batches, proves on the
model that driving all declared root partitions (in any order) yields an answer the partition-free semantics
allows, and emits every finished run.  Each emitted run is rebuilt from the engine's PUBLIC operator
constructors over a fixed-partition leaf and every declared partition of the real root is executed (ascending,
descending, concurrently in one task, concurrently in spawned tasks; RAYON_NUM_THREADS 1/2/4/8 by shard).
Implementation profiles: 0 = SortExec / HashAggregateExec / HashJoinExec on every case; 1 = ExternalSortExec /
SpillableHashAggregateExec / SpillableHashJoinExec with the default budget and 2 = the same with a 1-byte
budget (spilled sort / aggregate paths) on every third applicable case, and on every case that has the shape
of an open finding.  A join node with the spill flag always is a SpillableHashJoinExec whose budget is the
size of its largest build batch (spill path: partition 0 answers everything).

    run_partition_contract(ctx)        called from checks/c07.py
    selftest_partition_contract(ctx)   corrupts expectations / records and requires rejection
    replay_partition_contract(ctx, o)  re-executes the case of a replay file
    python3 checks/partcontract.py quick|thorough|selftest      standalone (evidence under ctx.work only)

Contract (VIOLATION): a declared partition errors / panics / hangs; the collected bag is not one the model
allows; an ordered root is out of key order; a node accepts the partition one past its declared count.
A wrong bag that is EQUALLY wrong when all rows of every leaf sit in one batch of one partition is not a
partitioning effect (it belongs to the SQL-semantics properties): recorded as drift, exit 0.
Fidelity (notes only): declared partition counts and leaf-partition open counts differ from the model.

Integration (checks/c07.py): call run_partition_contract(ctx) from run(), selftest_partition_contract(ctx)
from selftest() (returns 0/1), and route replay files whose obj["case"].get("kind") == "partition_contract"
to replay_partition_contract(ctx, obj).  Numeric evidence keys are ADDED (ctx.add), details are under
coverage["partition_contract"].
"""
import concurrent.futures as cf
import copy
import hashlib
import json
import os
import re
import subprocess
import sys
import threading
import time

if __name__ == "__main__":
    sys.path.insert(0, os.path.join(os.path.dirname(os.path.dirname(os.path.abspath(__file__))), "lib"))
import vlib

NULL = vlib.NULL
MODES = ("asc", "desc", "join", "spawn")
K_JOIN = "C07/outer-join-build-without-batches"
K_SORT = "C07/spilled-sort-merge-nulls-last"
K_RX = "C07/aggregate-fallback-reexecutes-join"
NSHARDS = {"quick": 16, "thorough": 120}   # qev processes; a case's shard (and so its thread count) is a function of its content
GRID = 97              # every GRID-th record is returned in full and re-judged here
RAYON = ("1", "2", "4", "8")
_CASE = re.compile(r'^<<"CASE", (".*")>>$')


# ------------------------------------------------------------------ TLC, streamed
def stream_tlc(ctx, cfg, tag, sink, *, workers=8, timeout=3000, coverage=False):
    """Like vlib.run_tlc, but CASE lines go to `sink` one by one instead of into memory."""
    meta = os.path.join(vlib.WORK, "tlc", f"{tag}-{os.getpid()}-{int(time.time() * 1000) % 100000}")
    os.makedirs(meta, exist_ok=True)
    cmd = ["tlc", "-workers", str(workers), "-metadir", meta, "-noGenerateSpecTE", "-config", cfg]
    if coverage:
        cmd += ["-coverage", "1"]
    cmd += ["PartitionContract.tla"]
    env = dict(os.environ)
    env["JAVA_TOOL_OPTIONS"] = "-Xss256m"
    res = vlib.TlcResult()
    res.cmd = " ".join(cmd)
    t0 = time.time()
    p = subprocess.Popen(cmd, cwd=vlib.SPEC, env=env, stdout=subprocess.PIPE, stderr=subprocess.STDOUT, text=True, bufsize=1 << 20)
    killed = []
    timer = threading.Timer(timeout, lambda: (killed.append(1), p.kill()))
    timer.start()
    rest = []
    n = 0
    try:
        for line in p.stdout:
            m = _CASE.match(line.rstrip("\n"))
            if m:
                sink(json.loads(json.loads(m.group(1))))
                n += 1
            else:
                rest.append(line)
        p.wait()
    finally:
        timer.cancel()
        import shutil
        shutil.rmtree(meta, ignore_errors=True)
    if killed:
        raise vlib.ToolError(f"TLC PartitionContract/{cfg} timed out after {timeout}s")
    res.out = "".join(rest)
    res.wall = time.time() - t0
    vlib._parse_tlc(res.out, res)
    res.ncases = n
    return res


# ------------------------------------------------------------------ cases
def ops_of(t, acc=None):
    acc = set() if acc is None else acc
    acc.add(t["op"])
    for k in t.get("kids", []):
        ops_of(k, acc)
    return acc


def nodes_of(t, out=None):
    out = [] if out is None else out
    out.append(t)
    for k in t.get("kids", []):
        nodes_of(k, out)
    return out


def profiles(t, cid, every, dev=()):
    """0 plain operators; 1 spillable operators, default budget; 2 spillable sort/aggregate under a 1-byte budget.
    The spillable profiles cost 5-15 ms per case (threads, spill files): they rotate over the enumeration,
    each applicable case getting profile p when (cid + p) % every == 0 (cid: a hash of the case, so the choice
    does not depend on the order in which TLC's workers emit)."""
    ops = ops_of(t)
    pr = [0]
    if ops & {"sort", "agg", "join"} and ((cid + 1) % every == 0 or dev):     # shapes of open findings: never rotated away
        pr.append(1)
    if ops & {"sort", "agg"} and ((cid + 2) % every == 0 or dev):
        pr.append(2)
    return pr


def describe(t):
    if t["op"] == "leaf":
        return "leaf" + json.dumps(t["parts"], separators=(",", ":")).replace(str(NULL), "N")
    return f"{t['op']}({t['a']},{t['b']})[" + ",".join(describe(k) for k in t["kids"]) + "]"


def skeleton(t):
    if t["op"] == "leaf":
        return "leaf"
    return f"{t['op']}({t['a']},{t['b']})[" + ",".join(skeleton(k) for k in t["kids"]) + "]"


def trivial_split(t):
    """the same tree and rows with all rows of every leaf in ONE batch of ONE partition"""
    t = copy.deepcopy(t)
    for n in nodes_of(t):
        if n["op"] == "leaf":
            n["parts"] = [[[r for p in n["parts"] for b in p for r in b]]]
    return t


class Feeder:
    """turns TLC cases into harness cases (one per applicable implementation profile), sharded on disk"""

    def __init__(self, ctx, tag, every, nshards):
        self.ctx, self.tag, self.every = ctx, tag, every
        self.dir = os.path.join(ctx.work, "partcontract")
        os.makedirs(self.dir, exist_ok=True)
        for old in os.listdir(self.dir):
            if old.startswith(tag + ".") and old.endswith(".ndjson"):
                os.remove(os.path.join(self.dir, old))
        self.shards = [os.path.join(self.dir, f"{tag}.{i:03d}.in.ndjson") for i in range(nshards)]
        self.files = [open(p, "w") for p in self.shards]
        self.ncases = 0
        self.nharness = 0
        self.digests = set()
        self.nontrivial = 0
        self.fam = {}
        self.feat = {k: 0 for k in (
            "op:leaf-root", "op:filter", "op:project", "op:limit", "op:sort", "op:agg", "op:union", "op:join",
            "join:inner", "join:left", "join:right", "join:full", "join:semi", "join:anti", "join:build_right", "join:spill",
            "root_partitions>=2", "root_partitions>=3", "leaf_partition_without_batches", "empty_batch", "partition_of_several_batches",
            "ordered_root", "several_answers_allowed", "shape:jz", "shape:sn", "shape:rx", "depth>=2", "depth>=3", "leaves>=2", "leaves>=3")}
        self.samples = []

    def close(self):
        for f in self.files:
            f.close()
        self.files = []
        self.samples = [s for _, s in sorted(self.samples, key=lambda x: x[0])[:3]]

    def features(self, c):
        ft = self.feat
        t = c["t"]
        ns = nodes_of(t)
        if t["op"] == "leaf":
            ft["op:leaf-root"] += 1
        for o in ops_of(t) - {"leaf"}:
            ft["op:" + o] += 1
        for n in ns:
            if n["op"] == "join":
                ft["join:" + ("inner", "left", "right", "full", "semi", "anti")[n["a"]]] += 1
                if n["b"] % 2 == 1:
                    ft["join:build_right"] += 1
                if n["b"] // 2 == 1:
                    ft["join:spill"] += 1
        leaves = [n for n in ns if n["op"] == "leaf"]
        if c["np"] >= 2:
            ft["root_partitions>=2"] += 1
        if c["np"] >= 3:
            ft["root_partitions>=3"] += 1
        if any(p == [] for l in leaves for p in l["parts"]):
            ft["leaf_partition_without_batches"] += 1
        if any(b == [] for l in leaves for p in l["parts"] for b in p):
            ft["empty_batch"] += 1
        if any(len(p) >= 2 for l in leaves for p in l["parts"]):
            ft["partition_of_several_batches"] += 1
        if c["ord"] == 1:
            ft["ordered_root"] += 1
        if len(c["acc"]) > 1:
            ft["several_answers_allowed"] += 1
        for d in c.get("dev", []):
            ft["shape:" + d] += 1

        def depth(n):
            return 0 if n["op"] == "leaf" else 1 + max(depth(k) for k in n["kids"])
        d = depth(t)
        if d >= 2:
            ft["depth>=2"] += 1
        if d >= 3:
            ft["depth>=3"] += 1
        if len(leaves) >= 2:
            ft["leaves>=2"] += 1
        if len(leaves) >= 3:
            ft["leaves>=3"] += 1
        rows = sum(len(b) for l in leaves for p in l["parts"] for b in p)
        return rows >= 1 and any(len(l["parts"]) >= 2 or any(len(p) >= 2 for p in l["parts"]) for l in leaves)

    def __call__(self, c):
        cid = self.ncases
        self.ncases += 1
        self.fam[c["fam"]] = self.fam.get(c["fam"], 0) + 1
        nt = self.features(c)
        dg = hashlib.blake2b(json.dumps(c["t"], sort_keys=True).encode(), digest_size=8).digest()
        h = int.from_bytes(dg, "big")
        if dg not in self.digests:
            self.digests.add(dg)
            if nt:
                self.nontrivial += 1
        if h % 1009 == 7 and nt:      # a few samples, chosen by content
            self.samples.append((h, {"tree": describe(c["t"]), "allowed_answers": c["acc"][:3], "root_partitions": c["np"], "family": c["fam"]}))
            self.samples = sorted(self.samples, key=lambda x: x[0])[:3]
        f = self.files[h % len(self.files)]
        for prof in profiles(c["t"], h, self.every, c.get("dev", [])):
            hc = {"id": cid * 4 + prof, "prof": prof, "t": c["t"], "acc": c["acc"], "ord": c["ord"], "np": c["np"],
                  "lu": c["lu"], "dev": c.get("dev", []), "fam": c["fam"]}
            f.write(json.dumps(hc, separators=(",", ":")) + "\n")
            self.nharness += 1


# ------------------------------------------------------------------ replay on the real operators
def run_shards(ctx, shards, grid=GRID, par=8):
    def one(i_path):
        i, path = i_path
        outp = path.replace(".in.ndjson", ".out.ndjson")
        vlib.qev(["optree-replay", path, outp, os.path.dirname(path), str(grid)], timeout=6000,
                 env={"RAYON_NUM_THREADS": RAYON[i % len(RAYON)]})
        return outp
    with cf.ThreadPoolExecutor(max_workers=par) as ex:
        return list(ex.map(one, list(enumerate(shards))))


def bag_key(rows):
    return sorted(tuple(r) for r in rows)


def judge(case, rec):
    """The contract, restated over one harness record.  Returns a list of anomalies (kind, detail)."""
    out = []
    if "build_panic" in rec:
        return [("error", {"where": "constructor", "err": rec["build_panic"], "panic": 1})]
    acc = [bag_key(b) for b in case["acc"]]
    for m in rec["modes"]:
        rows, failed = [], False
        for pi, p in enumerate(m["parts"]):
            if p.get("tool"):
                raise vlib.ToolError(f"optree harness could not read a result: {p.get('err')}")
            if p["ok"] != 1:
                failed = True
                out.append(("error", {"mode": m["m"], "partition": pi, "err": p.get("err", ""), "panic": p.get("panic", 0), "hang": p.get("hang", 0)}))
            else:
                rows += p["rows"]
        if failed:
            continue
        if bag_key(rows) not in acc:
            out.append(("bag", {"mode": m["m"], "got": bag_key(rows)}))
        elif case["ord"] == 1 and any(rows[i][0] > rows[i + 1][0] for i in range(len(rows) - 1)):
            out.append(("order", {"mode": m["m"], "got": rows}))
    for g in rec.get("guard", []):
        out.append(("guard", g))
    return out


def fidelity(case, rec, notes):
    if rec.get("np") != case["np"]:
        notes["declared_root_partitions_differ_from_model"] = notes.get("declared_root_partitions_differ_from_model", 0) + 1
    uses = rec["uses"] if "uses" in rec else rec["modes"][0]["uses"]
    if uses != case["lu"]:
        notes["leaf_partition_open_counts_differ_from_model"] = notes.get("leaf_partition_open_counts_differ_from_model", 0) + 1
    if any(x >= 2 for u in uses for x in u):
        notes["leaf_partition_opened_twice"] = notes.get("leaf_partition_opened_twice", 0) + 1


def known_class(case, anomalies):
    """exact shapes of the open findings; anything else stays a violation"""
    kinds = {k for k, _ in anomalies}
    dev = set(case.get("dev", []))
    if kinds == {"error"} and "jz" in dev and all("number of columns" in d.get("err", "") and not d.get("panic") and not d.get("hang") for _, d in anomalies):
        return K_JOIN
    if kinds <= {"bag", "order"} and case["prof"] == 2 and "sn" in dev:
        return K_SORT
    if kinds == {"bag"} and case["prof"] == 2 and "rx" in dev:
        return K_RX
    return None


def short(case, rec, anomalies):
    obs = {}
    if "modes" in rec:
        obs = {m["m"]: [(p["rows"] if p["ok"] == 1 else {"err": p.get("err", "")[:160], "panic": p.get("panic", 0)}) for p in m["parts"]] for m in rec["modes"]}
    return {"kind": "partition_contract", "tree": describe(case["t"]), "case": {k: case[k] for k in ("t", "acc", "ord", "prof", "np", "lu", "dev", "fam")},
            "observed": obs, "guard": rec.get("guard", []), "anomalies": [[k, d] for k, d in anomalies][:6]}


def why_text(case, anomalies):
    k, d = anomalies[0]
    impl = ("plain operators", "spillable operators", "spillable operators under a 1-byte budget")[case["prof"]]
    if k == "error":
        return (f"a declared output partition cannot be executed ({impl}): partition {d.get('partition')} driven {d.get('mode')} "
                f"{'panicked' if d.get('panic') else 'hung' if d.get('hang') else 'failed'}: {d.get('err', '')[:200]}  tree {describe(case['t'])[:300]}")
    if k == "bag":
        return (f"driving every declared partition ({d['mode']}, {impl}) gives {json.dumps(d['got'])[:300]} which is none of the "
                f"{len(case['acc'])} answers the model allows for the union of the inputs, e.g. {json.dumps(case['acc'][0])[:300]}  tree {describe(case['t'])[:300]}")
    if k == "order":
        return f"the sorted root returns its rows out of key order ({d['mode']}, {impl}): {json.dumps(d['got'])[:300]}  tree {describe(case['t'])[:300]}"
    return f"{d.get('node')} accepted execute({d.get('declared')}) although it declares {d.get('declared')} partitions ({d.get('what')})  tree {describe(case['t'])[:300]}"


def collect(ctx, shards, outs, stats, notes):
    """reads the harness records; returns [(case, rec, anomalies)] for every record that is not accepted"""
    bad = []
    for path, outp in zip(shards, outs):
        recs = {}
        npass = 0
        with open(outp) as f:
            for line in f:
                r = json.loads(line)
                if r.get("pass") == 1:
                    npass += 1
                else:
                    recs[r["id"]] = r
        stats["abbreviated_pass"] += npass
        nlines = 0
        with open(path) as f:
            for line in f:
                nlines += 1
                m = re.search(r'"id":\s*(\d+)', line)      # the only "id" of a case line
                if not m or int(m.group(1)) not in recs:
                    continue
                case = json.loads(line)
                rec = recs.pop(case["id"])
                an = judge(case, rec)
                stats["rejudged_in_full"] += 1
                if "rp" in rec and (rec["rp"] == 1) != (not an):
                    raise vlib.ToolError(f"the harness judge and the check's judge disagree on case {case['id']}: rust pass={rec['rp']} python anomalies={an[:2]}")
                if "modes" in rec:
                    fidelity(case, rec, notes)
                if an:
                    bad.append((case, rec, an))
        if recs:
            raise vlib.ToolError(f"{len(recs)} harness records have no case in {path}")
        if nlines == 0:
            continue
        stats["records"] += nlines
    return bad


def split_independent(ctx, bad, tag):
    """For wrong-answer anomalies: is the answer equally wrong with every leaf in one batch of one partition?
    Returns the set of case ids for which it is (drift: not a partitioning effect)."""
    cand = [(c, r, a) for c, r, a in bad if {k for k, _ in a} <= {"bag", "order"}]
    if not cand:
        return set()
    d = os.path.join(ctx.work, "partcontract")
    path = os.path.join(d, f"{tag}.trivial.in.ndjson")
    with open(path, "w") as f:
        for c, _, _ in cand:
            tc = dict(c)
            tc["t"] = trivial_split(c["t"])
            f.write(json.dumps(tc, separators=(",", ":")) + "\n")
    outp = run_shards(ctx, [path], grid=1, par=1)[0]
    recs = {r["id"]: r for r in vlib.read_ndjson(outp)}
    indep = set()
    for c, r, a in cand:
        tr = recs.get(c["id"])
        if not tr or "modes" not in tr:
            continue
        ta = judge(c, tr)
        tk = {k for k, _ in ta}
        if not ta or not tk <= {"bag", "order"}:
            continue
        got = {json.dumps(d["got"]) for k, d in a if k == "bag"}
        tgot = {json.dumps(d["got"]) for k, d in ta if k == "bag"}
        if ("bag" in tk) == bool(got) and (not got or (len(got) == 1 and got == tgot)) and ({k for k, _ in a} == tk):
            indep.add(c["id"])
    return indep


def settle(ctx, bad, tag, pc):
    indep = split_independent(ctx, bad, tag)
    for case, rec, an in bad:
        fid = known_class(case, an)
        if fid and ctx.is_known(fid):
            ctx.known(fid, {"tree": describe(case["t"])[:400], "implementation_profile": case["prof"], "anomaly": [an[0][0], {k: v for k, v in an[0][1].items() if k != "got"}]})
            pc["known"][fid] = pc["known"].get(fid, 0) + 1
        elif case["id"] in indep:
            pc["drift_not_a_partitioning_effect"] += 1
            key = f"{skeleton(case['t'])} profile {case['prof']}"
            if key not in pc["drift_by_shape"] and len(pc["drift_examples"]) < 12:
                pc["drift_examples"].append({"tree": describe(case["t"])[:300], "profile": case["prof"], "got": an[0][1].get("got"), "allowed": case["acc"][:2]})
            pc["drift_by_shape"][key] = pc["drift_by_shape"].get(key, 0) + 1
        else:
            ctx.violation(short(case, rec, an), why_text(case, an))


# ------------------------------------------------------------------ entry points
def run_partition_contract(ctx):
    t0 = time.time()
    quick = ctx.tier == "quick"
    feeder = Feeder(ctx, ctx.tier, 3, NSHARDS[ctx.tier])
    res = stream_tlc(ctx, f"PartitionContract_{ctx.tier}.cfg", "C07-partcontract", feeder, workers=8, timeout=3000, coverage=False)
    feeder.close()
    vlib.tlc_must_pass(res, "PartitionContract")
    ctx.tlc_stats(res, f"PartitionContract.tla ({ctx.tier}): operational partition semantics of every tree x rows x split stays inside the partition-free "
                       f"semantics; no declared partition refused; nothing executed twice; {feeder.ncases} finished runs emitted")
    t_tlc = time.time() - t0
    if feeder.ncases < (5000 if quick else 100000):
        raise vlib.ToolError(f"PartitionContract emitted only {feeder.ncases} cases")
    # vacuity: the three actions are taken on every path to a finished run; what can silently go missing is a
    # KIND of case, so every feature counter of the emitted cases has to be non-zero
    need = [k for k, v in feeder.feat.items() if v == 0 and not (quick and k in ("depth>=3", "leaves>=3"))]
    if need:
        raise vlib.ToolError(f"PartitionContract: no emitted case exercises {need}")
    outs = run_shards(ctx, feeder.shards)
    stats = {"records": 0, "abbreviated_pass": 0, "rejudged_in_full": 0}
    notes = {}
    bad = collect(ctx, feeder.shards, outs, stats, notes)
    if stats["records"] != feeder.nharness:
        raise vlib.ToolError(f"harness answered {stats['records']} of {feeder.nharness} cases")
    pc = {"known": {}, "drift_not_a_partitioning_effect": 0, "drift_examples": [], "drift_by_shape": {}}
    settle(ctx, bad, ctx.tier, pc)
    for fid, shape in ((K_JOIN, "shape:jz"), (K_SORT, "shape:sn"), (K_RX, "shape:rx")):
        if ctx.is_known(fid) and feeder.feat[shape] > 0 and fid not in pc["known"]:
            ctx.notes.append(f"open finding {fid} did not reproduce on any of the {feeder.feat[shape]} cases of its shape (fixed?)")
    ctx.add("evaluations", feeder.nharness)
    ctx.add("traces_validated_against_impl", feeder.nharness - len(bad))
    ctx.add("distinct_nontrivial", feeder.nontrivial)
    for s in feeder.samples:
        ctx.sample({"partition_contract_case": s}, cap=9)
    pc.update({
        "tlc_cases": feeder.ncases, "distinct_cases": len(feeder.digests), "distinct_nontrivial": feeder.nontrivial,
        "cases_per_family": feeder.fam, "features_of_emitted_cases": feeder.feat,
        "harness_cases": feeder.nharness,
        "records_abbreviated_by_harness_judge": stats["abbreviated_pass"], "records_rejudged_in_full": stats["rejudged_in_full"],
        "not_accepted": len(bad), "fidelity_notes": notes,
        "wall_s": {"tlc": round(t_tlc, 1), "total": round(time.time() - t0, 1)},
        "rule": "TLC enumerates operator trees (families d1u/d1b/d1p/wide/big/uu/ub and, thorough, d1c/ bu/uuu/uub/ubu/bb: depth <= 3 over "
                "Filter, Project, Limit(skip,fetch), Sort(fetch), HashAggregate(grouped/global), Union, HashJoin(Inner/Left/Right/Full/Semi/Anti, "
                "build_right, spill path) over 1-3 fixed-partition leaves), every assignment of keys {NULL,1,2} to <= 2-5 rows per leaf, and every cut "
                "of each leaf's rows into 1..3 contiguous partitions with coarse / one-row / all batch compositions incl. partitions without batches "
                "and empty batches.  Each finished run is replayed on the real operators under up to 3 implementation profiles, 4 drive modes and a "
                "guard probe of every node.  distinct_nontrivial = distinct (tree, split) with >= 1 row in which some leaf has >= 2 partitions or some "
                "partition >= 2 batches.",
    })
    ctx.set("partition_contract", pc)
    if notes:
        ctx.notes.append(f"partition contract, fidelity only: {notes}")
    if pc["drift_not_a_partitioning_effect"]:
        ctx.notes.append(f"partition contract: {pc['drift_not_a_partitioning_effect']} answers differ from the model identically under the one-batch "
                         f"one-partition split (not a partitioning effect; see partition_contract.drift_examples)")
    ctx.assumptions += [
        "partition contract: root partitions are driven as whole-partition executions (any order / concurrently); interleavings INSIDE tokio and rayon are sampled by the 4 drive modes and 4 thread counts, not enumerated",
        "partition contract: LIMIT over an unordered input pins the row count and sub-bag-ness only; over a sorted input the window up to ties of the key",
        "partition contract: out-of-range execute(partition) must be refused (plan.rs check_partition contract)",
    ]
    return pc


def replay_partition_contract(ctx, obj):
    case = dict(obj["case"]["case"])
    case["id"] = 0
    d = os.path.join(ctx.work, "partcontract")
    os.makedirs(d, exist_ok=True)
    path = os.path.join(d, "replay.000.in.ndjson")
    vlib.write_ndjson(path, [case])
    stats = {"records": 0, "abbreviated_pass": 0, "rejudged_in_full": 0}
    bad = collect(ctx, [path], run_shards(ctx, [path], grid=1, par=1), stats, {})
    pc = {"known": {}, "drift_not_a_partitioning_effect": 0, "drift_examples": [], "drift_by_shape": {}}
    settle(ctx, bad, "replay", pc)
    ctx.add("evaluations")
    ctx.add("distinct_nontrivial", 1)
    ctx.sample({"partition_contract_case": describe(case["t"])})


# ------------------------------------------------------------------ selftest
N = NULL


def _leaf(parts):
    return {"op": "leaf", "parts": parts}


def _n(op, a, b, *kids):
    return {"op": op, "a": a, "b": b, "kids": list(kids)}


def selftest_cases():
    l1 = _leaf([[[[1, 11], [2, 12]]], [[[N, 13]], [[2, 14]]]])
    l2 = _leaf([[[[2, 21]]], [], [[[1, 22], [N, 23]]]])
    cs = [
        # LIMIT 1 OFFSET 1 over two partitions: one row, any row
        dict(t=_n("limit", 1, 1, l1), acc=[[[1, 11]], [[2, 12]], [[N, 13]], [[2, 14]]], ord=0, np=1, lu=[[1, 0]], prof=0),
        # UNION ALL keeps every row of every partition of both inputs
        dict(t=_n("union", 0, 0, l1, l2), acc=[[[1, 11], [2, 12], [N, 13], [2, 14], [2, 21], [1, 22], [N, 23]]], ord=0, np=1, lu=[[1, 1], [1, 1, 1]], prof=0),
        # LEFT JOIN, build = left, three probe partitions: the unmatched build row exactly once
        dict(t=_n("join", 1, 0, l1, l2), acc=[[[1, 11, 1, 22], [2, 12, 2, 21], [2, 14, 2, 21], [N, 13, N, N]]], ord=0, np=3, lu=[[1, 1], [1, 1, 1]], prof=0),
        # ORDER BY c1 LIMIT 2 (top-k inside the sort)
        dict(t=_n("sort", 2, 0, l1), acc=[[[N, 13], [1, 11]]], ord=1, np=1, lu=[[1, 1]], prof=0),
        # GROUP BY c1 through the spillable (fused streaming) aggregate
        dict(t=_n("agg", 1, 0, l1), acc=[[[N, 1, 13], [1, 1, 11], [2, 2, 26]]], ord=0, np=1, lu=[[1, 1]], prof=1),
        # pass-through partitioning
        dict(t=_n("filter", 0, 0, l1), acc=[[[2, 12], [2, 14]]], ord=0, np=2, lu=[[1, 1]], prof=0),
    ]
    for i, c in enumerate(cs):
        c.update(id=i, dev=[], fam="selftest")
    return cs


def selftest_partition_contract(ctx):
    d = os.path.join(ctx.work, "partcontract")
    os.makedirs(d, exist_ok=True)

    def harness(cases, tag, grid):
        path = os.path.join(d, f"selftest-{tag}.000.in.ndjson")
        vlib.write_ndjson(path, cases)
        return vlib.read_ndjson(run_shards(ctx, [path], grid=grid, par=1)[0])

    cases = selftest_cases()
    recs = harness(cases, "orig", 1)
    missed = 0
    for c, r in zip(cases, recs):
        an = judge(c, r)
        if an or r.get("rp") != 1:
            print(f"selftest: an unmodified case is rejected: {describe(c['t'])[:120]} {an[:1]}")
            missed += 1
    # (1) corrupted expectations: both judges must reject
    muts = []
    c = copy.deepcopy(cases[1]); c["acc"][0].pop()
    muts.append(("expected bag lost a row (the real union returns one more)", c))
    c = copy.deepcopy(cases[2]); c["acc"][0].append([N, 13, N, N])
    muts.append(("expected bag has the unmatched build row twice", c))
    c = copy.deepcopy(cases[0]); c["acc"] = [[[1, 11], [2, 12]]]
    muts.append(("expected LIMIT answer has two rows", c))
    c = copy.deepcopy(cases[3]); c["acc"] = [[[1, 11], [2, 12]]]
    muts.append(("expected top-2 is not the first two keys", c))
    c = copy.deepcopy(cases[4]); c["acc"][0][2] = [2, 1, 12]
    muts.append(("expected aggregate merged only one partition's state", c))
    mrecs = harness([dict(c, id=i) for i, (_, c) in enumerate(muts)], "mut", 0)
    for (why, c), r in zip(muts, mrecs):
        rust_rejects = r.get("pass") != 1 and r.get("rp") == 0
        py_rejects = bool(judge(c, r)) if "modes" in r else False
        ok = rust_rejects and py_rejects
        print(f"selftest: {'rejected' if ok else 'ACCEPTED (binding lost)'}: {why}  [harness judge={'reject' if rust_rejects else 'accept'}, check judge={'reject' if py_rejects else 'accept'}]")
        missed += 0 if ok else 1
    # (2) corrupted records: the check's judge must reject
    rmuts = []
    r = copy.deepcopy(recs[1]); r["modes"][0]["parts"][0]["rows"].pop()
    rmuts.append(("a row of the union lost", cases[1], r))
    r = copy.deepcopy(recs[2]); r["modes"][2]["parts"][2]["rows"].pop()
    rmuts.append(("a row lost in the concurrent drive only", cases[2], r))
    r = copy.deepcopy(recs[2]); r["modes"][1]["parts"][0]["rows"].append([N, 13, N, N])
    rmuts.append(("unmatched build row emitted by a second probe partition", cases[2], r))
    r = copy.deepcopy(recs[5]); r["modes"][0]["parts"][1] = {"ok": 1, "rows": [], "nb": 0}
    rmuts.append(("second declared partition answered with an empty stream", cases[5], r))
    r = copy.deepcopy(recs[5]); r["modes"][3]["parts"][1] = {"ok": 0, "err": "Internal error: Filter: partition 1 out of range (output_partitions=1)", "panic": 0}
    rmuts.append(("a declared partition refused", cases[5], r))
    r = copy.deepcopy(recs[3]); r["modes"][0]["parts"][0]["rows"].reverse()
    rmuts.append(("sorted root out of order", cases[3], r))
    r = copy.deepcopy(recs[0]); r["guard"] = [{"node": "Limit", "declared": 1, "what": "accepted"}]
    rmuts.append(("out-of-range partition answered with a stream", cases[0], r))
    r = copy.deepcopy(recs[0]); r["modes"][0]["parts"][0]["rows"] = [[1, 11], [1, 11]]
    rmuts.append(("LIMIT returned a row twice (not a sub-bag, wrong count)", cases[0], r))
    for why, c, r in rmuts:
        ok = bool(judge(c, r))
        print(f"selftest: {'rejected' if ok else 'ACCEPTED (binding lost)'}: {why}")
        missed += 0 if ok else 1
    # (3) the known-finding classifier is narrow: the same anomaly without the shape flag is NOT a known finding
    c = dict(cases[2], dev=[]); an = [("error", {"err": "Arrow error: number of columns(2) must match number of fields(4) in schema", "panic": 0})]
    if known_class(c, an) is not None or known_class(dict(c, dev=["jz"]), an) != K_JOIN or known_class(dict(c, dev=["jz"]), an + [("bag", {"got": []})]) is not None:
        print("selftest: known-finding classifier is not narrow")
        missed += 1
    else:
        print("selftest: rejected: a column-count error outside the listed shape / mixed with a wrong answer is not classified as the known finding")
    # (4) the model itself: a spec in which LIMIT applies fetch per partition must be refuted by TLC
    missed += _selftest_spec_mutants(ctx)
    return 1 if missed else 0


SPEC_MUTANTS = [
    ("LimitExec forwards `partition` to a multi-partition child while declaring 1 (rows lost)",
     'LimWalk(K(1), KN(1), KL(1), sp, 0, Max2(1, OutParts(K(1), KL(1), sp)), 0, 0, t, st)', 'LimWalk(K(1), KN(1), KL(1), sp, 0, 1, 0, 0, t, st)'),
    ("UnionExec drops the last partition of its last input",
     'LET r2 == DrainAll(K(2), KN(2), KL(2), sp, r1.st)', 'LET r2 == Drain(K(2), KN(2), KL(2), sp, 0, OutParts(K(2), KL(2), sp) - 1, r1.st)'),
    ("hash join emits unmatched build rows once per probe partition",
     'tail == IF buildKept /\\ done = OutParts(t, lb, sp)', 'tail == IF buildKept'),
    ("LIMIT counters restart in every partition (fetch per partition)",
     'r2 == LimWalk(t, nid, lb, sp, q + 1, n, lp.sk, lp.fe, lim, r.st)', 'r2 == LimWalk(t, nid, lb, sp, q + 1, n, 0, 0, lim, r.st)'),
    ("out-of-range partition answered with an empty stream",
     'IF p >= OutParts(t, lb, sp) THEN ErrR(st0)', 'IF p >= OutParts(t, lb, sp) THEN OkR(<<>>, st0)'),
]


def _selftest_spec_mutants(ctx):
    """mutate the OPERATIONAL half of the spec the way the seeded code mutations would; TLC must find a counterexample"""
    import shutil
    d = os.path.join(ctx.work, "partcontract", "mutants")
    shutil.rmtree(d, ignore_errors=True)
    os.makedirs(d)
    src = open(os.path.join(vlib.SPEC, "PartitionContract.tla")).read()
    shutil.copy(os.path.join(vlib.SPEC, "VerifIO.tla"), d)
    cfg = ('CONSTANTS Families = {"d1u", "d1p"}\n Tier = "quick"\n MaxKey = 2\nINIT Init\nNEXT Next\nINVARIANT NoError\nINVARIANT AnswerAllowed\n'
           'INVARIANT Sorted\nINVARIANT GuardRejects\nINVARIANT ConsumedOnce\nCHECK_DEADLOCK FALSE\n')

    def one(i):
        why, a, b = SPEC_MUTANTS[i]
        if src.count(a) != 1:
            return why, None, "anchor text not found exactly once"
        md = os.path.join(d, f"m{i}")
        os.makedirs(md)
        shutil.copy(os.path.join(d, "VerifIO.tla"), md)
        open(os.path.join(md, "PartitionContract.tla"), "w").write(src.replace(a, b))
        open(os.path.join(md, "m.cfg"), "w").write(cfg)
        res = vlib.run_tlc("PartitionContract", "m.cfg", spec_dir=md, workers=2, timeout=1200, tag=f"C07-pcmut{i}")
        return why, res.violated, (res.error or "")[:200]
    missed = 0
    with cf.ThreadPoolExecutor(max_workers=5) as ex:
        for why, violated, err in ex.map(one, range(len(SPEC_MUTANTS))):
            ok = violated in ("AnswerAllowed", "ConsumedOnce", "GuardRejects", "NoError")
            print(f"selftest: {'rejected' if ok else 'ACCEPTED (binding lost)'}: spec mutant: {why}  [TLC: {'invariant ' + violated + ' violated' if violated else 'no counterexample ' + err}]")
            missed += 0 if ok else 1
    return missed


# ------------------------------------------------------------------ standalone driver (does NOT write evidence/C07.json)
def main(argv):
    what = argv[1] if len(argv) > 1 else "quick"
    seed = int(os.environ.get("VERIF_SEED", "1") or 1)
    tier = what if what in ("quick", "thorough") else "quick"
    ctx = vlib.Ctx("C07", tier, seed, "model_checking")
    ctx.work = os.path.join(ctx.work, "standalone")
    os.makedirs(ctx.work, exist_ok=True)
    t0 = time.time()
    try:
        if "--no-build" not in argv:
            vlib.build_harness()
        if what == "selftest":
            return selftest_partition_contract(ctx)
        if what == "replay":
            replay_partition_contract(ctx, json.load(open(argv[2])))
        else:
            run_partition_contract(ctx)
    except vlib.ToolError as e:
        print(f"TOOL-ERROR property=C07 (partition contract): {e}", file=sys.stderr)
        return 2
    ev = {"property_id": "C07", "tier": tier, "seed": seed, "level": "model_checking", "coverage": dict(ctx.cov, known_findings_matched=ctx.known_hits, notes=ctx.notes),
          "assumptions": ctx.assumptions, "wall_s": round(time.time() - t0, 2), "violations": len(ctx.violations)}
    path = os.path.join(ctx.work, "partcontract-evidence.json")
    with open(path, "w") as f:
        json.dump(ev, f, indent=1, sort_keys=True, default=str)
    for fid, h in sorted(ctx.known_hits.items()):
        print(f"KNOWN-FINDING: property=C07 {fid} x{h['count']} e.g. {json.dumps(h['example'], default=str)[:300]}")
    for i, v in enumerate(ctx.violations[:20]):
        rp = os.path.join(ctx.work, f"violation-{i}.json")
        json.dump({"property": "C07", "tier": tier, "seed": seed, **v}, open(rp, "w"), indent=1, default=str)
        print(f"VIOLATION property=C07 replay={rp}")
        vlib.log(f"  why: {v['why'][:500]}")
    vlib.log(f"[partcontract] evidence at {path}; wall {time.time() - t0:.1f}s; violations {len(ctx.violations)}")
    return 1 if ctx.violations else 0


if __name__ == "__main__":
    sys.exit(main(sys.argv))
