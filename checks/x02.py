"""X02 — stand-alone wrapper of the sub-model "DistPlan" (parent property C09): ./check X02 --tier quick|thorough|--selftest

Evidence of X-ids goes to work/evidence_extra/X02.json.  Inside the parent check the lead calls distplan.run_sub(ctx).
"""
import distplan

LEVEL = "model_checking"


def run(ctx):
    distplan.run_sub(ctx)
    ctx.set("rule", "X02 alone: " + ctx.cov["distplan"]["rule"])
    ctx.cov.setdefault("distinct_nontrivial", 0)
    ctx.cov.setdefault("evaluations", 0)
    ctx.cov.setdefault("traces_validated_against_impl", 0)


def replay(ctx, obj):
    distplan.replay_sub(ctx, obj)


def selftest(ctx):
    return distplan.selftest_sub(ctx)
