"""X03 — stand-alone wrapper of the sub-model "Morsel" (parent property C07): ./check X03 --tier quick|thorough|--selftest

Evidence of X-ids goes to work/evidence_extra/X03.json.  Inside the parent check the lead calls morsel.run_sub(ctx).
"""
import morsel

LEVEL = "model_checking"


def run(ctx):
    morsel.run_sub(ctx)
    ctx.set("rule", "X03 alone: " + ctx.cov["morsel"]["rule"])
    ctx.cov.setdefault("distinct_nontrivial", 0)
    ctx.cov.setdefault("evaluations", 0)
    ctx.cov.setdefault("traces_validated_against_impl", 0)


def replay(ctx, obj):
    morsel.replay_sub(ctx, obj)


def selftest(ctx):
    return morsel.selftest_sub(ctx)
