"""X03 "Morsel" — sub-model of C07: the morsel-driven parallel Parquet path.

    run_sub(ctx)        model + conformance, called inside the parent check (C07) or by checks/x03.py
    replay_sub(ctx, o)  re-run one replay file produced here (o["case"]["kind"] == "morsel")
    selftest_sub(ctx)   binding demonstration: 0 = every corruption and every seeded model mistake is rejected

(M) spec/Morsel.tla      the shared object of ParallelParquetSource (Mutex<VecDeque> work queue, AtomicUsize completed)
                         and the worker loop, one action per atomic step, W workers x R row groups, with pruning /
                         all-true flags / read errors; exactly-once hand-out, progress bounds / honesty / monotonicity,
                         rows delivered = table at quiescence, under every interleaving.
    spec/MorselLaw.tla   every table x every assignment of rows to partial aggregation states x every merge order
                         shows the sequential fold = the SQL answer (COUNT, COUNT-star, SUM with NULL-when-empty,
                         MIN, MAX, AVG as sum+count; NULL keys and values, empty partials).
    seeded mistakes TLC must refute: SplitPop, CompleteOnHandout, TornComplete (protocol), MinOverwrite, AvgOfAvgs,
    SumSeenLost, NullKeyDropped (merge).
(R) harness/src/morsel.rs on REAL multi-file, multi-row-group Parquet tables written for the run:
    a  every TLC-emitted schedule replayed with W real threads, one public call per step (get_work / read_row_group /
       complete_work), progress() after each step; result, rows and progress must be the model's at every step
    b  free-running real threads (worker loop, and pure get_work hammering) on sources with 1..64 row groups; the
       per-thread ticketed histories are validated by TLC (spec/MorselTrace.tla: linearizability against the object
       of Morsel.tla, exactly-once, union of rows = table, progress = total)
    c  read_all_parallel / read_and_process under RAYON_NUM_THREADS 1/2/4/16 (separate processes), with projection and
       pushed filters, against the generated table (and an independent sequential read of the files)
    d  aggregation: TLC law cases on real AggregationStates (any batching, any merge order); partial states over real
       row groups in any assignment / merge order vs the sequential fold; execute_morsel_aggregation and
       MorselAggregateExec under the four thread counts; all against an independent evaluation of the aggregate.

Contract (VIOLATION): a schedule step whose result / rows / progress differs from the model; a history TLC cannot
linearize; rows delivered by the parallel read differ from the table (from the engine's own filter applied to the
independent read when a filter is pushed); progress() not (total, total) after a complete read; an aggregate whose
answer differs between two assignments / merge orders / thread counts of the same input.  An aggregate that is EQUALLY
different from the reference in every configuration (including the sequential fold) is not a parallelism effect: drift
note (C21's business).  Known finding C07/morsel-allnull-key-lost-on-rehash is classified by its exact shape.
"""
import collections
import concurrent.futures as cf
import copy
import json
import os
import random
import shutil
import sys
import time

if __name__ == "__main__":
    sys.path.insert(0, os.path.join(os.path.dirname(os.path.dirname(os.path.abspath(__file__))), "lib"))
import vlib
from vlib import run_tlc, tlc_must_pass, qev, write_ndjson, read_ndjson, NULL

KIND = "morsel"
F_ALLNULL = "C07/morsel-allnull-key-lost-on-rehash"
COLS = ["id", "k", "g", "v", "s", "f"]
RAYON = ("1", "2", "4", "16")
AGGS = [["count", "v"], ["count", "1"], ["sum", "v"], ["min", "v"], ["max", "v"], ["avg", "v"], ["sum", "f"], ["min", "s"], ["max", "s"]]
LAW_AGGS = [["count", "v"], ["count", "1"], ["sum", "v"], ["min", "v"], ["max", "v"], ["avg", "v"]]
GBS = [[], ["k"], ["g"], ["s"], ["k", "g"], ["s", "g"], ["k", "s"]]

PROTO_MUTANTS = [("Morsel", "Morsel_mut_SplitPop.cfg", "ExactlyOnce", "front() and pop_front() in two critical sections: a row group handed out twice, another lost"),
                 ("Morsel", "Morsel_mut_CompleteOnHandout.cfg", "ProgressHonest", "completed counted at hand-out: progress() claims row groups nobody has read"),
                 ("Morsel", "Morsel_mut_TornComplete.cfg", "AtQuiescence|Monotone", "complete_work as load + store: lost update, progress never reaches total"),
                 ("Morsel", "Morsel_mut_MinOverwrite.cfg", "AggAtEnd", "merge overwrites MIN with the other state's MIN (worker loop + merge phase)")]
LAW_MUTANTS = [("MorselLaw", "MorselLaw_mut_MinOverwrite.cfg", "PrefixLaw|Law", "merge overwrites MIN instead of combining"),
               ("MorselLaw", "MorselLaw_mut_AvgOfAvgs.cfg", "PrefixLaw|Law", "AVG merged as the average of two averages"),
               ("MorselLaw", "MorselLaw_mut_SumSeenLost.cfg", "PrefixLaw|Law", "SUM's saw-a-value flag overwritten: an all-NULL partial merged last turns the SUM into NULL"),
               ("MorselLaw", "MorselLaw_mut_NullKeyDropped.cfg", "PrefixLaw|Law", "merge skips the other state's NULL-key group")]


# =====================================================================================  tables
def str_of(code, smode):
    return ("Supplier#%09d" % code) if smode == "long" else ("s%d" % code)


def gen_table(rng, tid, layout, *, rows=(1, 3), nullp=0.2, smode="short", fnull=True, nkeys=4, gkeys=3, first_id=1):
    """layout = row groups per file; returns the table spec (rows = [id, k, g, v, s, f4])"""
    files, nid = [], first_id
    for nrg in layout:
        rgs = []
        for _ in range(nrg):
            rg = []
            for _ in range(rng.randint(*rows)):
                pick = lambda hi: NULL if rng.random() < nullp else rng.randrange(hi)
                rg.append([nid, pick(nkeys), pick(gkeys), pick(10), pick(4), NULL if (fnull and rng.random() < nullp) else rng.randrange(41)])
                nid += 1
            rgs.append(rg)
        files.append(rgs)
    return {"tid": tid, "files": files, "smode": smode}


def table_rgs(t):
    return [rg for f in t["files"] for rg in f]


def table_rows(t):
    return [r for rg in table_rgs(t) for r in rg]


def layouts_of(r):
    """a few ways to spread r row groups over files"""
    out = [[r]]
    if r >= 2:
        out.append([1] * r)
        out.append([r // 2, r - r // 2])
    if r >= 3:
        out.append([1, r - 2, 1])
    return out


class Tables:
    """real Parquet tables of one run, under a directory nobody has used before"""

    def __init__(self, ctx, tag):
        self.ctx = ctx
        self.root = os.path.join(ctx.work, f"mt-{tag}-{os.getpid()}-{int(time.time() * 1000)}")
        self.specs = {}
        self.paths = {}

    def add(self, spec):
        self.specs[spec["tid"]] = spec

    def write(self):
        todo = [dict(s, dir=os.path.join(self.root, s["tid"])) for tid, s in self.specs.items() if tid not in self.paths]
        if not todo:
            return
        os.makedirs(self.root, exist_ok=True)
        inp, outp = os.path.join(self.root, f"mk{len(self.paths)}.in"), os.path.join(self.root, f"mk{len(self.paths)}.out")
        write_ndjson(inp, todo)
        qev(["morsel-mk", inp, outp], timeout=1800)
        for r in read_ndjson(outp):
            self.paths[r["tid"]] = r["paths"]
            if r["nrg"] != [len(f) for f in self.specs[r["tid"]]["files"]]:
                raise vlib.ToolError(f"table {r['tid']}: row-group layout on disk {r['nrg']} differs from the spec")

    def cleanup(self):
        shutil.rmtree(self.root, ignore_errors=True)


def sweep_old(ctx):
    for n in os.listdir(ctx.work):
        if n.startswith("mt-"):
            shutil.rmtree(os.path.join(ctx.work, n), ignore_errors=True)


def run_harness_sharded(ctx, sub, cases, tag, procs):
    """the same, over `procs` harness processes; records come back in case order"""
    procs = max(1, min(procs, len(cases) // 50 or 1))
    if procs == 1:
        return run_harness(ctx, sub, cases, tag)
    chunks = [cases[i::procs] for i in range(procs)]
    with cf.ThreadPoolExecutor(max_workers=procs) as ex:
        outs = list(ex.map(lambda k: run_harness(ctx, sub, chunks[k], f"{tag}.{k}"), range(procs)))
    recs = [None] * len(cases)
    for k, out in enumerate(outs):
        recs[k::procs] = out
    return recs


def run_harness(ctx, sub, cases, tag, env=None, timeout=3000):
    inp, outp = os.path.join(ctx.work, f"morsel-{tag}.in.ndjson"), os.path.join(ctx.work, f"morsel-{tag}.out.ndjson")
    write_ndjson(inp, cases)
    p = qev([sub, inp, outp], timeout=timeout, env=env, check=False)
    if p.returncode != 0:
        vlib.log(p.stderr[-3000:])
        raise vlib.ToolError(f"qev {sub} exited {p.returncode} (harness crash; panics of the code under test are caught and recorded)")
    recs = read_ndjson(outp)
    if len(recs) != len(cases):
        raise vlib.ToolError(f"qev {sub} returned {len(recs)} records for {len(cases)} cases")
    return recs


def vcase(sub, table, case, **more):
    c = {"kind": KIND, "sub": sub, "table": {"files": table["files"], "smode": table.get("smode", "short"), "tid": "replay"},
         "case": {k: v for k, v in case.items() if k != "paths"}}
    c.update(more)
    return c


# =====================================================================================  reference semantics (python)
def cell_val(c):
    """harness cell -> python value (None = NULL; floats exact)"""
    if isinstance(c, dict):
        return c["q"] / 4.0 if "q" in c else float(c["x"])
    if c == NULL:
        return None
    return c


def norm_rows(rows):
    out = [tuple(cell_val(c) for c in r) for r in rows]
    out.sort(key=lambda r: json.dumps(r))
    return out


def row_value(row, col, smode):
    v = row[COLS.index(col)]
    if v == NULL:
        return None
    if col == "s":
        return str_of(v, smode)
    if col == "f":
        return v / 4.0
    return v


def lit_value(col, l):
    return l / 4.0 if col == "f" else l


def eval_filter(p, row, smode):
    """SQL three-valued: True / False / None"""
    if p["k"] == "and":
        a, b = eval_filter(p["a"], row, smode), eval_filter(p["b"], row, smode)
        if a is False or b is False:
            return False
        if a is None or b is None:
            return None
        return True
    x = row_value(row, p["c"], smode)
    if x is None:
        return None
    if p["k"] == "btw":
        return lit_value(p["c"], p["l"]) <= x <= lit_value(p["c"], p["h"])
    l = lit_value(p["c"], p["l"])
    return {"eq": x == l, "ne": x != l, "lt": x < l, "le": x <= l, "gt": x > l, "ge": x >= l}[p["op"]]


def expected_scan(table, proj, filt):
    smode = table.get("smode", "short")
    cols = sorted(set(proj)) if proj is not None else list(range(len(COLS)))
    out = []
    for r in table_rows(table):
        if filt is not None and eval_filter(filt, r, smode) is not True:
            continue
        out.append(tuple(row_value(r, COLS[i], smode) for i in cols))
    out.sort(key=lambda r: json.dumps(r))
    return out


def expected_agg(rows, gb, aggs, smode, filt=None):
    groups = collections.OrderedDict()
    for r in rows:
        if filt is not None and eval_filter(filt, r, smode) is not True:
            continue
        groups.setdefault(tuple(row_value(r, g, smode) for g in gb), []).append(r)
    if not gb and not groups:
        groups[()] = []
    out = []
    for key, rs in groups.items():
        res = list(key)
        for fn, col in aggs:
            vals = [1] * len(rs) if col == "1" else [v for v in (row_value(r, col, smode) for r in rs) if v is not None]
            if fn == "count":
                res.append(len(vals))
            elif fn == "sum":
                res.append((float(sum(vals)) if col == "f" else sum(vals)) if vals else None)
            elif fn == "min":
                res.append(min(vals) if vals else None)
            elif fn == "max":
                res.append(max(vals) if vals else None)
            elif fn == "avg":
                res.append(sum(vals) / len(vals) if vals else None)
        out.append(tuple(res))
    out.sort(key=lambda r: json.dumps(r))
    return out


def agg_outcome(o):
    """harness {"rows"|"err"|"panic"} -> ("rows", normalized) | ("err", text)"""
    if "rows" in o:
        return ("rows", norm_rows(o["rows"]))
    return ("err", o.get("err") or ("panic: " + o.get("panic", "")))


def allnull_shape(a, b, ngb):
    """the two answers differ ONLY in the one group whose key is NULL in all of >= 2 group columns (the group is missing
    on one side, or it shows the aggregates of a part of its rows); every other group is identical"""
    if ngb < 2 or a[0] != "rows" or b[0] != "rows":
        return False
    isnull = lambda r: all(x is None for x in r[:ngb])
    ra, rb = [r for r in a[1] if not isnull(r)], [r for r in b[1] if not isnull(r)]
    na, nb = [r for r in a[1] if isnull(r)], [r for r in b[1] if isnull(r)]
    return ra == rb and na != nb and len(na) <= 1 and len(nb) <= 1


# =====================================================================================  (M) TLC
def tlc_jobs(tier):
    t = tier
    jobs = [("Morsel", f"Morsel_{t}.cfg", "proto", "worker loop x work queue, no filter: every interleaving" + (" (+ partial aggregation states merged in any order)" if t == "quick" else "")),
            ("Morsel", f"Morsel_filter_{t}.cfg", "proto", "pruned row groups, all-true flags, row filter, read errors: every sound pruning decision x every interleaving"),
            ("Morsel", f"Morsel_sched_{t}.cfg", "sched", "schedules emitted for replay on the real source"),
            ("MorselLaw", f"MorselLaw_{t}.cfg", "law", "merge law: every table x assignment to partial states x merge order")]
    if tier == "thorough":
        jobs += [("Morsel", "Morsel_agg_thorough.cfg", "proto", "worker loop + per-worker partial aggregation states merged in any order"),
                 ("Morsel", "Morsel_sched2_thorough.cfg", "sched", "schedules: 2 workers x 4 row groups"),
                 ("MorselLaw", "MorselLaw_wide_thorough.cfg", "lawwide", "merge law, 4 rows x 3 partial states"),
                 ("Morsel", "Morsel_live_thorough.cfg", "live", "weak fairness of the workers: every run reaches quiescence")]
    return jobs


NEED_ACTIONS = {"proto": ["Get", "Read", "Complete", "Observe"], "sched": ["Get", "Read", "Complete"], "law": ["Fill", "MergeOne"]}


def run_models(ctx, pool):
    quick = ctx.tier == "quick"

    def one(j):
        last = None
        for attempt in range(2):       # work/tlc metadirs are shared and sometimes removed under a running TLC
            last = run_tlc(j[0], j[1], workers=2 if quick else 4, timeout=3000, heap="4g", tag=f"{ctx.pid}-{j[1][:-4]}", coverage=not quick)
            if not (last.error and "pool file" in str(last.error)):
                break
        return j, last
    futs = [pool.submit(one, j) for j in tlc_jobs(ctx.tier)]
    if not quick:
        futs_neg = [pool.submit(lambda j=j: (j, run_tlc(j[0], j[1], workers=2, timeout=1800, heap="2g", tag=f"{ctx.pid}-{j[1][:-4]}"))) for j in PROTO_MUTANTS + LAW_MUTANTS]
    else:
        futs_neg = []
    return futs, futs_neg


def collect_models(ctx, futs, futs_neg):
    out = {"sched": [], "law": []}
    for f in futs:
        (mod, cfg, fam, label), res = f.result()
        tlc_must_pass(res, cfg)
        ctx.tlc_stats(res, f"{cfg}: {label}")
        if ctx.tier != "quick":
            need = list(NEED_ACTIONS.get(fam, []))
            if "filter" in cfg:
                need += ["ReadFail"]
            if "agg" in cfg:
                need += ["MergeOne"]
            for a in need:
                if res.coverage and res.coverage.get(a, 0) == 0:
                    raise vlib.ToolError(f"{cfg}: action {a} never taken")
        if fam in ("sched", "law"):
            if not res.cases:
                raise vlib.ToolError(f"{cfg} emitted no cases")
            for c in res.cases:
                c["src"] = cfg
            out[fam] += res.cases
    bad = 0
    for f in futs_neg:
        (mod, cfg, inv, label), res = f.result()
        ctx.tlc_stats(res, f"{cfg}: expected violation of {inv} — {label}")
        if res.violated not in inv.split("|"):
            vlib.log(f"[{KIND}] {cfg}: expected {inv} to be refuted, got violated={res.violated} error={str(res.error)[:200]}")
            bad += 1
    if bad:
        raise vlib.ToolError(f"{bad} seeded model mistakes were not refuted by TLC")
    if futs_neg:
        ctx.set("morsel_model_mutants_refuted", len(futs_neg))
    for fam in out:      # TLC's workers print in a schedule-dependent order
        out[fam].sort(key=lambda c: json.dumps(c, sort_keys=True))
    return out


# =====================================================================================  (a) schedules
def prepare_sched(ctx, rng, cases, tables, limit):
    if len(cases) > limit:          # a VERIF_SEED-chosen sample, the same share for every emitting configuration
        by_src = collections.OrderedDict()
        for c in cases:
            by_src.setdefault(c["src"], []).append(c)
        cases = []
        for src, lst in by_src.items():
            rng.shuffle(lst)
            cases += lst[:max(1, limit // len(by_src))]
        cases.sort(key=lambda c: json.dumps(c, sort_keys=True))
    by_r = {}
    items = []
    for i, c in enumerate(cases):
        r = c["total"]
        if c["kept"] != list(range(1, r + 1)):
            raise vlib.ToolError("schedule cases are emitted without pruning")
        if r not in by_r:
            by_r[r] = []
            for j, lay in enumerate(layouts_of(r)):
                t = gen_table(rng, f"sch{r}x{j}", lay, rows=(1, 2))
                tables.add(t)
                by_r[r].append(t)
        t = by_r[r][i % len(by_r[r])]
        items.append({"model": c, "table": t, "h": {"cid": f"sc{i}", "w": c["w"], "steps": [s[:2] for s in c["steps"]]}})
    return items


def judge_sched(item, rec):
    """-> (contract violations, fidelity differences) of the real source on this schedule.
    Contract (X03 / C07): a row group is handed out at most once, None only when every row group has been handed out,
    read_row_group delivers the rows of the row group the thread was given, progress() = (number of complete_work calls so
    far, total) with total = the number of row groups.  Fidelity: WHICH row group a get_work returns (the model is FIFO)."""
    m, t = item["model"], item["table"]
    rgs = table_rgs(t)
    r = m["total"]
    if "err" in rec and not rec.get("res"):
        return [f"source could not be built: {rec['err']}"], []
    why, fid = [], []
    if rec["p0"] != [0, r] or rec["total_work"] != r:
        why.append(f"before the first call progress() = {rec['p0']}, total_work() = {rec['total_work']}, expected (0, {r})")
    held, handed, completes = {}, set(), 0
    for i, st in enumerate(m["steps"]):
        if i >= len(rec["res"]):
            why.append(f"step {i + 1}: not executed ({rec.get('err')})")
            break
        w, op, res, prog = st
        got, pc, pt, ids = rec["res"][i]
        if op == 1:
            if got != res:
                fid.append(f"step {i + 1}: get_work() on thread {w} returned row group {got}, model {res}")
            if got > 0:
                if got in handed or got > r:
                    why.append(f"step {i + 1}: get_work() returned row group {got} (handed out before: {sorted(handed)}, {r} row groups)")
                held[w] = got
                handed.add(got)
            elif got == 0:
                if len(handed) < r:
                    why.append(f"step {i + 1}: get_work() returned None although only {sorted(handed)} of {r} row groups were handed out")
            else:
                why.append(f"step {i + 1}: get_work() failed")
        elif op == 2:
            want = sorted(x[0] for x in rgs[held[w] - 1]) if held.get(w) else None
            if want is None:
                fid.append(f"step {i + 1}: the model reads on thread {w}, which holds nothing in the real run")
            elif sorted(ids) != want or got != len(want):
                why.append(f"step {i + 1}: read_row_group on thread {w} delivered ids {ids}, row group {held.get(w)} holds {want}")
        elif op == 3:
            completes += 1
        if [pc, pt] != [completes, r]:
            why.append(f"step {i + 1}: progress() = ({pc}, {pt}) after {completes} complete_work calls over {r} row groups")
        if completes != prog:
            raise vlib.ToolError("schedule case: the model's progress is not its number of complete steps")
        if len(why) > 4:
            break
    if "err" in rec:
        why.append(f"call failed: {rec['err']}")
    return why, fid


def run_sched(ctx, items, tables, tag="sched"):
    if not items:
        return 0
    for x in items:
        x["h"]["paths"] = tables.paths[x["table"]["tid"]]
    recs = run_harness_sharded(ctx, "morsel-sched", [x["h"] for x in items], tag, 8)
    nontrivial = set()
    for x, rec in zip(items, recs):
        ctx.add("evaluations")
        ctx.add("morsel_schedules_replayed")
        ctx.add("morsel_schedule_steps", len(x["model"]["steps"]))
        why, fid = judge_sched(x, rec)
        if why:
            ctx.violation(vcase("sched", x["table"], x["h"], model=x["model"]), f"schedule {x['h']['cid']} ({x['model']['src']}): " + "; ".join(why[:3]))
        elif fid:
            ctx.add("morsel_schedule_fidelity_differences")
            if len(ctx.notes) < 10:
                ctx.notes.append(f"morsel schedule {x['h']['cid']}: hand-out order differs from the model (FIFO): {fid[0][:200]}")
        workers_used = {s[0] for s in x["model"]["steps"] if s[1] == 1 and s[2] > 0}
        if len(workers_used) >= 2:
            nontrivial.add(vlib.chash(x["model"]["steps"]))
    ctx.add("traces_validated_against_impl", len(recs))
    return len(nontrivial)


# =====================================================================================  (b) free-running histories
def prepare_free(ctx, rng, tables, quick):
    sizes = [1, 2, 3, 8, 33, 64] if quick else [1, 2, 3, 4, 5, 6, 7, 8, 12, 16, 24, 33, 48, 64]
    threads = [2, 4, 8, 16]
    reps = 1 if quick else 2
    items = []
    for r in sizes:
        lay = rng.choice(layouts_of(r))
        t = gen_table(rng, f"fr{r}", lay, rows=(1, 2))
        tables.add(t)
        for rep in range(reps):
            for k, nt in enumerate(threads if not quick else [threads[(sizes.index(r) + j) % 4] for j in range(2)]):
                for mode in ("loop", "hammer"):
                    items.append({"table": t, "h": {"cid": f"fr{r}-{nt}-{mode}-{rep}-{k}", "threads": nt, "mode": mode, "prog_every": 1 + (rep + k) % 3}})
    return items


def history_line(item, rec):
    rgs = table_rgs(item["table"])
    calls = [[{k: c[k] for k in ("op", "s", "e", "r", "c", "t", "ids")} for c in th] for th in rec["calls"]]
    return {"cid": rec["cid"], "T": rec["T"], "R": rec["R"], "mode": rec["mode"], "rows": [sorted(x[0] for x in rg) for rg in rgs], "calls": calls, "fin": rec["fin"]}


def history_contract(line):
    """order-free reading of one recorded history: what X03 / C07 pins, whatever the linearization.  -> [why]"""
    why = []
    R = line["R"]
    calls = [(ti, c) for ti, th in enumerate(line["calls"]) for c in th]
    gets = [c["r"] for _, c in calls if c["op"] == 1 and c["r"] != 0]
    cnt = collections.Counter(gets)
    dup = sorted(r for r, n in cnt.items() if n > 1)
    lost = sorted(set(range(1, R + 1)) - set(cnt))
    if dup:
        why.append(f"row groups handed out more than once: {dup[:5]}")
    if lost:
        why.append(f"row groups never handed out: {lost[:5]}")
    if any(r < 0 or r > R for r in gets):
        why.append("get_work returned something that is not a row group of the table")
    reads = collections.Counter()
    for ti, th in enumerate(line["calls"]):
        for ci, c in enumerate(th):
            if c["op"] != 2:
                continue
            reads[c["r"]] += 1
            if not (1 <= c["r"] <= R) or sorted(c["ids"]) != line["rows"][c["r"] - 1]:
                why.append(f"read_row_group of row group {c['r']} delivered {c['ids'][:6]}, the table holds {line['rows'][c['r'] - 1][:6] if 1 <= c['r'] <= R else None}")
            if line["mode"] == 1 and not (ci > 0 and th[ci - 1]["op"] == 1 and th[ci - 1]["r"] == c["r"]):
                why.append(f"thread {ti + 1} read row group {c['r']} it was not handed")
    if any(reads[r] != 1 for r in range(1, R + 1)) or sum(reads.values()) != R:
        why.append(f"rows delivered are not the table: row groups read {sorted(reads.elements())[:12]} of 1..{R}")
    comps = [c for _, c in calls if c["op"] == 3]
    progs = [c for _, c in calls if c["op"] == 4]
    for p in progs:
        lo = sum(1 for c in comps if c["e"] < p["s"])
        hi = sum(1 for c in comps if c["s"] < p["e"])
        if p["t"] != R or not (lo <= p["c"] <= hi) or p["c"] > R:
            why.append(f"progress() = ({p['c']}, {p['t']}) while between {lo} and {hi} of {R} complete_work calls had happened")
    for a in progs:
        for b in progs:
            if a["e"] < b["s"] and a["c"] > b["c"]:
                why.append(f"progress() went back from {a['c']} to {b['c']}")
    if line["fin"] != [len(comps), R] or len(comps) != R:
        why.append(f"after the run progress() = {line['fin']} with {len(comps)} complete_work calls over {R} row groups")
    return why[:6]


def validate_histories(ctx, lines, name):
    """TLC decides; a rejected history is set aside and the rest is validated again.  Returns [(line, reject info)]"""
    rejected = []
    lines = list(lines)
    for rnd in range(6):
        if not lines:
            break
        path = os.path.join(ctx.work, f"morsel-trace-{name}.ndjson")
        write_ndjson(path, lines)
        ok, rej, res = vlib.validate_trace("MorselTrace", "MorselTrace.cfg", path, timeout=3000, tag=f"{ctx.pid}-{name}", heap="4g")
        ctx.tlc_stats(res, f"trace validation MorselTrace ({len(lines)} histories)")
        if ok:
            ctx.add("trace_events_validated", sum(len(t) for l in lines for t in l["calls"]))
            break
        i = rej["line"] - 1
        if not (0 <= i < len(lines)):
            raise vlib.ToolError(f"MorselTrace rejected at an impossible place: {rej}")
        rejected.append((lines[i], rej))
        ctx.add("trace_events_validated", sum(len(t) for l in lines[:i] for t in l["calls"]))
        lines = lines[i + 1:]
    ctx.add("traces_validated_against_impl", 1)
    return rejected


def with_paths(items, tables):
    for x in items:
        x["h"]["paths"] = tables.paths[x["table"]["tid"]]
    return [x["h"] for x in items]


def run_free(ctx, items, tables, recs=None):
    if recs is None:
        recs = run_harness(ctx, "morsel-free", with_paths(items, tables), "free")
    lines, by_cid = [], {}
    overlap = 0
    for x, rec in zip(items, recs):
        ctx.add("evaluations")
        by_cid[rec["cid"]] = x
        if "err" in rec:
            ctx.violation(vcase("free", x["table"], x["h"], history=rec), f"free-running {rec['cid']}: {rec['err']}")
            continue
        errs = [c["err"] for th in rec["calls"] for c in th if "err" in c]
        if errs:
            ctx.violation(vcase("free", x["table"], x["h"], history=rec), f"free-running {rec['cid']}: read_row_group failed: {errs[0]}")
            continue
        gets = sorted(((c["s"], c["e"]) for th in rec["calls"][:x["h"]["threads"]] for c in th if c["op"] == 1))
        if any(gets[i + 1][0] < gets[i][1] for i in range(len(gets) - 1)):
            overlap += 1
        lines.append(history_line(x, rec))
    ctx.add("morsel_histories_recorded", len(lines))
    ctx.add("morsel_histories_with_overlapping_get_work", overlap)
    rejected = {line["cid"]: rej for line, rej in validate_histories(ctx, lines, "free")}
    for line in lines:
        x = by_cid[line["cid"]]
        broken = history_contract(line)
        rej = rejected.get(line["cid"])
        if broken:
            ctx.violation(vcase("free", x["table"], x["h"], history=line),
                          f"history {line['cid']} ({line['T']} threads, {line['R']} row groups): " + "; ".join(broken[:3]) +
                          (f"; TLC: only {rej['linearized']} of {rej['of']} calls can be linearized" if rej else "; TLC accepted the history (judges disagree)"))
        elif rej:
            # exactly-once, rows and progress are intact but the calls are not a linearizable run of the FIFO object of Morsel.tla
            ctx.add("morsel_histories_not_linearizable_contract_intact")
            if len(ctx.notes) < 10:
                ctx.notes.append(f"morsel history {line['cid']}: not a behaviour of Morsel.tla's FIFO object (only {rej['linearized']} of {rej['of']} calls linearized) although hand-out, rows and progress are intact")
    nontrivial = {l["cid"] for l in lines if l["R"] >= 2 and sum(1 for th in l["calls"] if any(c["op"] == 1 and c["r"] > 0 for c in th)) >= 2}
    return len(nontrivial), overlap


# =====================================================================================  (c) read_all_parallel / read_and_process
def gen_filters(rng):
    fs = [None,
          {"k": "cmp", "c": "v", "op": rng.choice(["gt", "ge", "lt", "le", "eq", "ne"]), "l": rng.randrange(10)},
          {"k": "cmp", "c": "id", "op": rng.choice(["gt", "le"]), "l": rng.randrange(1, 30)},
          {"k": "btw", "c": "id", "l": rng.randrange(1, 12), "h": rng.randrange(12, 40)},
          {"k": "cmp", "c": "f", "op": rng.choice(["ge", "lt"]), "l": rng.randrange(41)},
          {"k": "cmp", "c": "s", "op": "eq", "l": str_of(rng.randrange(4), "short")},
          {"k": "cmp", "c": "k", "op": rng.choice(["eq", "ne", "ge"]), "l": rng.randrange(4)},
          {"k": "and", "a": {"k": "cmp", "c": "id", "op": "gt", "l": rng.randrange(1, 10)}, "b": {"k": "cmp", "c": "v", "op": "le", "l": rng.randrange(10)}},
          {"k": "cmp", "c": "id", "op": "gt", "l": 100000},       # prunes every row group
          {"k": "cmp", "c": "id", "op": "ge", "l": 0}]            # proven true for every row group
    return fs


def prepare_readall(ctx, rng, tables, quick):
    items = []
    shapes = [(1, [1]), (2, [2]), (3, [1, 2]), (5, [2, 3]), (8, [3, 1, 4]), (12, [12]), (20, [7, 6, 7])] if quick else \
             [(1, [1]), (2, [2]), (2, [1, 1]), (3, [1, 2]), (4, [4]), (5, [2, 3]), (8, [3, 1, 4]), (12, [12]), (16, [4] * 4), (20, [7, 6, 7]), (40, [13, 14, 13]), (64, [32, 32])]
    projs = [None, [0], [0, 3], [0, 1, 4, 5]]
    n = 0
    for ti, (r, lay) in enumerate(shapes):
        for rep in range(1 if quick else 2):
            t = gen_table(rng, f"ra{ti}_{rep}", lay, rows=(1, 4))
            tables.add(t)
            fs = gen_filters(rng)
            picks = [(None, None, "all"), (None, None, "process")]
            for f in (fs[1:] if not quick else rng.sample(fs[1:-2], 2) + fs[-2:]):
                picks.append((rng.choice(projs), f, rng.choice(["all", "process"])))
            for p in projs[1:]:
                picks.append((p, None, rng.choice(["all", "process"])))
            if len(lay) >= 2:      # fault: one file of a private copy disappears after the source was built
                for mode in ("all", "process"):
                    items.append({"table": t, "h": {"cid": f"ra{n}", "proj": None, "filter": None, "mode": mode, "vanish": rng.randrange(len(lay))}})
                    n += 1
            for proj, f, mode in picks:
                if f is not None and proj is not None:
                    # the pushed filter's columns must be readable whatever the output projection is; keep the id
                    proj = sorted(set(proj) | {0})
                items.append({"table": t, "h": {"cid": f"ra{n}", "proj": proj, "filter": f, "mode": mode}})
                n += 1
    return items


def judge_readall(item, recs_by_t):
    """returns (violations [why], drifts [why], facts)"""
    t, h = item["table"], item["h"]
    want = expected_scan(t, h["proj"], h["filter"])
    nrg = len(table_rgs(t))
    viol, drift, facts = [], [], collections.Counter()
    answers = {}
    for T, rec in recs_by_t.items():
        if "panic" in rec:
            viol.append(f"RAYON_NUM_THREADS={T}: panic: {rec['panic'][:200]}")
            continue
        if "err" in rec:
            viol.append(f"RAYON_NUM_THREADS={T}: error: {rec['err'][:200]}")
            continue
        g = rec["got"]
        if "vanish" in h:
            # a permitted outcome is an explicit error (Morsel.tla, AtFailure: progress stays short of the total);
            # an answer must be the whole table (the fault did not take effect), never a part of it
            if "call_err" in g:
                facts["fault_erred"] += 1
                if g["p1"][0] >= g["total"] or g["p1"][1] != g["total"]:
                    viol.append(f"RAYON_NUM_THREADS={T}: the read failed ({g['call_err'][:80]}) but progress() = {g['p1']} claims everything was read")
            elif norm_rows(g["rows"]) != want:
                viol.append(f"RAYON_NUM_THREADS={T}: a file vanished and {h['mode']} silently answered {len(g['rows'])} of {len(want)} rows")
            else:
                facts["fault_without_effect"] += 1
            continue
        if "call_err" in g:
            viol.append(f"RAYON_NUM_THREADS={T}: error: {g['call_err'][:200]}")
            continue
        rows = norm_rows(g["rows"])
        answers[T] = rows
        indep = norm_rows(rec["indep"]) if "indep" in rec else None
        if h["filter"] is None:
            if indep is not None and indep != want:
                raise vlib.ToolError(f"{h['cid']}: the independent read of the written files is not the generated table")
            if rows != want:
                viol.append(f"RAYON_NUM_THREADS={T}: {h['mode']} delivered {len(rows)} rows, the table has {len(want)}: missing {[r for r in want if r not in rows][:3]} unexpected {[r for r in rows if r not in want][:3]}")
        else:
            if indep is None:
                drift.append(f"the engine's own evaluator failed on the independent read: {rec.get('indep_err')}")
            elif rows != indep:
                viol.append(f"RAYON_NUM_THREADS={T}: {h['mode']} with pushed filter {json.dumps(h['filter'])} delivered {len(rows)} rows, the filter applied to the independent read gives {len(indep)}: "
                            f"missing {[r for r in indep if r not in rows][:3]} unexpected {[r for r in rows if r not in indep][:3]}")
            elif rows != want:
                drift.append(f"filter {json.dumps(h['filter'])}: morsel path and the engine's evaluator agree ({len(rows)} rows) but the SQL reading gives {len(want)}")
        if g["p0"] != [0, g["total"]] or g["p1"] != [g["total"], g["total"]] or g["work_left"]:
            viol.append(f"RAYON_NUM_THREADS={T}: progress {g['p0']} -> {g['p1']} with total_work {g['total']}, work left: {g['work_left']}")
        if g["total"] > nrg or (h["filter"] is None and g["total"] != nrg):
            viol.append(f"RAYON_NUM_THREADS={T}: total_work() = {g['total']}, the files hold {nrg} row groups")
        if h["mode"] == "process":
            if g["threads"] > int(T) + 1 or (T == "1" and g["threads"] > 1):
                drift.append(f"RAYON_NUM_THREADS={T}: {g['threads']} distinct threads ran the processor")
            if g["threads"] >= 2:
                facts["multi_thread_runs"] += 1
        if h["filter"] is not None:
            facts["pushed" if g["pushed"] else "not_pushed"] += 1
            if g["total"] < nrg:
                facts["pruned_runs"] += 1
    if len({json.dumps(a) for a in answers.values()}) > 1:
        viol.append(f"answers differ between thread counts: { {T: len(a) for T, a in answers.items()} }")
    return viol, drift, facts


def start_per_thread_count(ctx, pool, sub, cases, tag):
    def one(T):
        return T, run_harness(ctx, sub, cases, f"{tag}-t{T}", env={"RAYON_NUM_THREADS": T})
    return [pool.submit(one, T) for T in RAYON]


def run_per_thread_count(ctx, pool, sub, cases, tag):
    return dict(f.result() for f in start_per_thread_count(ctx, pool, sub, cases, tag))


def run_readall(ctx, pool, items, tables, by_t=None):
    if by_t is None:
        by_t = run_per_thread_count(ctx, pool, "morsel-readall", with_paths(items, tables), "readall")
    facts = collections.Counter()
    nontrivial = set()
    for i, x in enumerate(items):
        viol, drift, f = judge_readall(x, {T: by_t[T][i] for T in RAYON})
        facts.update(f)
        ctx.add("evaluations", len(RAYON))
        for why in viol[:2]:
            ctx.violation(vcase("readall", x["table"], x["h"]), f"{x['h']['cid']}: {why}")
        for why in drift[:1]:
            ctx.add("morsel_reference_drift")
            if len(ctx.notes) < 10:
                ctx.notes.append(f"morsel {x['h']['cid']}: {why[:300]}")
        if len(table_rgs(x["table"])) >= 2:
            nontrivial.add(vlib.chash([x["table"]["files"], x["h"]["proj"], x["h"]["filter"], x["h"]["mode"]]))
    ctx.add("traces_validated_against_impl", len(items) * len(RAYON))
    return len(nontrivial), facts


# =====================================================================================  (d) aggregation
def split_batches(rng, rows):
    """any batching of a partial's rows, empty batches included"""
    out, cur = [], []
    for r in rows:
        cur.append(r)
        if rng.random() < 0.5:
            out.append(cur)
            cur = []
            if rng.random() < 0.15:
                out.append([])
    if cur or not out or rng.random() < 0.2:
        out.append(cur)
    return out


def prepare_law(ctx, rng, cases, limit):
    if len(cases) > limit:
        keep = cases[:]
        rng.shuffle(keep)
        # every emitted case has the same shape class; make sure the interesting ones are in
        cases = sorted(keep[:limit], key=lambda c: json.dumps(c, sort_keys=True))
    items = []
    ktypes = ["i64", "i32", "utf8", "utf8long"]
    for i, c in enumerate(cases):
        np_ = c["np"]
        parts = [[r for r, a in zip(c["rows"], c["assign"]) if a == p] for p in range(1, np_ + 1)]
        h = {"cid": f"lw{i}", "kind": "law", "ktype": ktypes[i % 4], "gb": ["k"], "aggs": LAW_AGGS,
             "parts": [split_batches(rng, p) for p in parts], "order": c["order"], "seq": split_batches(rng, c["rows"])}
        items.append({"model": c, "h": h})
    return items


def law_expected(c, ktype):
    """TLC's ShowState rows -> normalized answer rows for LAW_AGGS"""
    out = []
    for k, cnt, star, sm, mn, mx, as_, ac in c["exp"]:
        key = None if k == NULL else (str_of(k, "long" if ktype == "utf8long" else "short") if ktype.startswith("utf8") else k)
        nn = lambda x: None if x == NULL else x
        out.append((key, cnt, star, nn(sm), nn(mn), nn(mx), (as_ / ac) if ac else None))
    out.sort(key=lambda r: json.dumps(r))
    return out


def show_diff(a, b, na="first", nb="second"):
    """the rows two outcomes do not share"""
    if a[0] != "rows" or b[0] != "rows":
        return f"{na}: {a[1][:200] if a[0] == 'err' else str(len(a[1])) + ' rows'}; {nb}: {b[1][:200] if b[0] == 'err' else str(len(b[1])) + ' rows'}"
    ca, cb = collections.Counter(a[1]), collections.Counter(b[1])
    return f"only in {na}: {list((ca - cb).elements())[:4]}; only in {nb}: {list((cb - ca).elements())[:4]}"


def judge_pair(par, seq, want, ngb):
    """-> ("ok"|"violation"|"known"|"drift", why)"""
    if par == seq:
        if par[0] == "rows" and par[1] != want:
            return "drift", "parallel and sequential fold agree but differ from the reference: " + show_diff(par, ("rows", want), "engine", "reference")
        if par[0] == "err":
            return "drift", f"both fail: {par[1][:160]}"
        return "ok", None
    why = "merged partial states and the sequential fold differ: " + show_diff(par, seq, "merged", "sequential")
    if allnull_shape(par, seq, ngb):
        return "known", why
    return "violation", why


def run_law(ctx, items):
    if not items:
        return 0
    recs = run_harness_sharded(ctx, "morsel-agg", [x["h"] for x in items], "law", 6)
    nontrivial = set()
    for x, rec in zip(items, recs):
        ctx.add("evaluations")
        ctx.add("morsel_law_cases_replayed")
        want = law_expected(x["model"], x["h"]["ktype"])
        verdict, why = judge_pair(agg_outcome(rec["par"]), agg_outcome(rec["seq"]), want, 1)
        if verdict == "violation":
            ctx.violation({"kind": KIND, "sub": "law", "case": x["h"], "model": x["model"]}, f"law case {x['h']['cid']} ({x['h']['ktype']} key): {why}")
        elif verdict == "drift":
            ctx.add("morsel_reference_drift")
            if len(ctx.notes) < 10:
                ctx.notes.append(f"morsel law {x['h']['cid']} ({x['h']['ktype']}): {why[:300]}")
        # fidelity only: the engine always merges into a FRESH state; a partial state that processed batches itself is not a
        # valid accumulator for merge() (its ScalarValue -> slot map is empty while its raw-key map is not)
        if "used" in rec and agg_outcome(rec["used"]) != agg_outcome(rec["seq"]) and len([p for p in x["h"]["parts"] if any(p)]) >= 2:
            ctx.add("morsel_merge_into_used_state_differs")
        if len([p for p in x["h"]["parts"] if any(p)]) >= 2:
            nontrivial.add(vlib.chash([x["model"]["rows"], x["model"]["assign"], x["model"]["order"]]))
    ctx.add("traces_validated_against_impl", len(recs))
    return len(nontrivial)


def prepare_agg(ctx, rng, tables, quick):
    """states cases (any assignment / merge order over real row groups) and entry-point cases (thread counts)"""
    shapes = [[2], [1, 2], [4], [3, 3], [8], [5, 6, 5]] if quick else [[1], [2], [1, 1], [1, 2], [4], [2, 2], [3, 3], [8], [4, 4, 4], [5, 6, 5], [16], [12, 12]]
    states, entries = [], []
    n = 0
    for ti, lay in enumerate(shapes):
        for rep in range(1 if quick else 3):
            smode = "long" if (ti + rep) % 3 == 2 else "short"
            t = gen_table(rng, f"ag{ti}_{rep}", lay, rows=(1, 4), smode=smode, nullp=[0.2, 0.35, 0.0][(ti + rep) % 3])
            tables.add(t)
            r = sum(lay)
            for gb in (GBS if not quick else rng.sample(GBS, 4)):
                filt = rng.choice([None, None, {"k": "cmp", "c": "v", "op": "ge", "l": rng.randrange(6)}, {"k": "cmp", "c": "id", "op": "le", "l": rng.randrange(2, 30)}])
                for _ in range(2 if quick else 4):
                    np_ = rng.choice([1, 2, 3, 4])
                    assign = [rng.randrange(np_) for _ in range(r)]
                    order = list(range(np_))
                    rng.shuffle(order)
                    states.append({"table": t, "h": {"cid": f"st{n}", "kind": "states", "gb": gb, "aggs": AGGS, "filter": filt, "assign": assign, "order": order, "np": np_}})
                    n += 1
                for api in ("exec_fn", "operator"):
                    entries.append({"table": t, "h": {"cid": f"en{n}", "kind": "entry", "api": api, "gb": gb, "aggs": AGGS if api == "operator" else AGGS[:7], "filter": filt}})
                    n += 1
    # around the perfect-hash capacity (256 slots): every partial state stays below it, their union does not
    for rep in range(1 if quick else 3):
        t = gen_table(rng, f"agmid{rep}", [4, 4] if quick else [6, 6], rows=(15, 30), nkeys=40, gkeys=10, nullp=0.1)
        tables.add(t)
        r = len(table_rgs(t))
        for gb in (["k", "g"], ["k", "s"], ["k"]):
            for _ in range(2 if quick else 4):
                np_ = rng.choice([2, 3, 4])
                assign = [rng.randrange(np_) for _ in range(r)]
                order = list(range(np_))
                rng.shuffle(order)
                states.append({"table": t, "h": {"cid": f"st{n}", "kind": "states", "gb": gb, "aggs": AGGS, "filter": None, "assign": assign, "order": order, "np": np_}})
                n += 1
            entries.append({"table": t, "h": {"cid": f"en{n}", "kind": "entry", "api": "operator", "gb": gb, "aggs": AGGS, "filter": None}})
            n += 1
    # the shard merge above 65536 groups (merge_states_groupkey / merge_raw_states_to_batches)
    if not quick:
        big = {"tid": "agbig", "smode": "short", "files": [[[[i * 4 + j + 1, (i * 4 + j) % 70001, (i + j) % 3, (i * 7 + j) % 10, j % 4, (i + j) % 41] for j in range(4)] for i in range(k * 4500, (k + 1) * 4500)] for k in range(4)]}
        tables.add(big)
        for gb in (["id"], ["k"], ["id", "g"]):
            entries.append({"table": big, "h": {"cid": f"en{n}", "kind": "entry", "api": "operator", "gb": gb, "aggs": [["count", "v"], ["sum", "v"], ["sum", "f"], ["max", "v"]], "filter": None}})
            n += 1
    return states, entries


def has_allnull_row(table, gb, filt):
    smode = table.get("smode", "short")
    return len(gb) >= 2 and any(all(row_value(r, g, smode) is None for g in gb) for r in table_rows(table) if filt is None or eval_filter(filt, r, smode) is True)


def report_known(ctx, item, why):
    ex = {"case": item["h"]["cid"], "gb": item["h"]["gb"], "why": why[:300]}
    if ctx.is_known(F_ALLNULL):
        ctx.known(F_ALLNULL, ex)
    else:
        ctx.violation(vcase("agg", item["table"], item["h"]), f"{item['h']['cid']}: {why}")


def run_states(ctx, items, tables, tag="states", recs=None):
    if not items:
        return 0, collections.Counter()
    if recs is None:
        recs = run_harness(ctx, "morsel-agg", with_paths(items, tables), tag)
    nontrivial, facts = set(), collections.Counter()
    for x, rec in zip(items, recs):
        ctx.add("evaluations")
        h, t = x["h"], x["table"]
        want = expected_agg(table_rows(t), h["gb"], h["aggs"], t.get("smode", "short"), h["filter"])
        verdict, why = judge_pair(agg_outcome(rec["par"]), agg_outcome(rec["seq"]), want, len(h["gb"]))
        facts[verdict] += 1
        if verdict == "known" and not has_allnull_row(t, h["gb"], h["filter"]):
            verdict = "violation"
        if verdict == "violation":
            ctx.violation(vcase("agg", t, h), f"{h['cid']} GROUP BY {h['gb']} over {len(table_rgs(t))} row groups, assignment {h['assign']}, merge order {h['order']}: {why}")
        elif verdict == "known":
            report_known(ctx, x, f"GROUP BY {h['gb']}, assignment {h['assign']}, merge order {h['order']}: {why}")
        elif verdict == "drift":
            if has_allnull_row(t, h["gb"], h["filter"]) and allnull_shape(agg_outcome(rec["par"]), ("rows", want), len(h["gb"])):
                facts["allnull_lost_everywhere"] += 1      # same shape, lost on both sides: not visible as a difference here
            else:
                ctx.add("morsel_reference_drift")
                if len(ctx.notes) < 10:
                    ctx.notes.append(f"morsel {h['cid']} GROUP BY {h['gb']}: {why[:300]}")
        if h["np"] >= 2 and len(set(h["assign"])) >= 2:
            nontrivial.add(vlib.chash([t["files"], h["gb"], h["filter"], h["assign"], h["order"]]))
    ctx.add("traces_validated_against_impl", len(recs))
    return len(nontrivial), facts


def run_entries(ctx, pool, items, tables, by_t=None):
    if not items:
        return 0, collections.Counter()
    if by_t is None:
        by_t = run_per_thread_count(ctx, pool, "morsel-agg", with_paths(items, tables), "entry")
    nontrivial, facts = set(), collections.Counter()
    for i, x in enumerate(items):
        h, t = x["h"], x["table"]
        want = expected_agg(table_rows(t), h["gb"], h["aggs"], t.get("smode", "short"), h["filter"])
        outs = {T: agg_outcome(by_t[T][i]["got"]) for T in RAYON}
        ctx.add("evaluations", len(RAYON))
        distinct = {json.dumps(o) for o in outs.values()}
        ngb = len(h["gb"])
        if len(distinct) > 1:
            ref = outs[RAYON[0]]
            shapes = [allnull_shape(ref, o, ngb) for o in outs.values() if o != ref]
            why = f"{h['api']} GROUP BY {h['gb']} answers differently under different thread counts: " + "; ".join(f"T={T} vs T={RAYON[0]}: {show_diff(o, ref, 'T=' + T, 'T=' + RAYON[0])}" for T, o in outs.items() if o != ref)
            if all(shapes) and has_allnull_row(t, h["gb"], h["filter"]):
                report_known(ctx, x, why)
                facts["known"] += 1
            else:
                ctx.violation(vcase("agg", t, h), f"{h['cid']}: {why[:900]}")
        else:
            o = outs[RAYON[0]]
            if o[0] == "rows" and o[1] == want:
                facts["ok"] += 1
            elif o[0] == "rows" and has_allnull_row(t, h["gb"], h["filter"]) and allnull_shape(o, ("rows", want), ngb):
                facts["allnull_lost_everywhere"] += 1
            else:
                facts["drift"] += 1
                ctx.add("morsel_reference_drift")
                if len(ctx.notes) < 10:
                    ctx.notes.append(f"morsel {h['cid']} {h['api']} GROUP BY {h['gb']} filter {h['filter']}: every thread count gives the same answer, which differs from the reference: " + show_diff(o, ("rows", want), "engine", "reference")[:400])
        if len(table_rgs(t)) >= 2:
            nontrivial.add(vlib.chash([t["files"] if len(table_rows(t)) < 200 else t["tid"], h["gb"], h["filter"], h["api"]]))
    ctx.add("traces_validated_against_impl", len(items) * len(RAYON))
    return len(nontrivial), facts


# =====================================================================================  run
def run_sub(ctx):
    quick = ctx.tier == "quick"
    rng = random.Random(ctx.seed * 1000003 + 703)
    sweep_old(ctx)
    tables = Tables(ctx, "run")
    t0 = time.time()
    with cf.ThreadPoolExecutor(max_workers=16) as pool:
        futs, futs_neg = run_models(ctx, pool)
        # conformance parts that do not need TLC's output run while TLC works
        free_items = prepare_free(ctx, rng, tables, quick)
        ra_items = prepare_readall(ctx, rng, tables, quick)
        st_items, en_items = prepare_agg(ctx, rng, tables, quick)
        tables.write()
        # every harness process is started now; verdicts (and the trace-validating TLC) are taken on this thread
        f_free = pool.submit(run_harness, ctx, "morsel-free", with_paths(free_items, tables), "free")
        f_ra = start_per_thread_count(ctx, pool, "morsel-readall", with_paths(ra_items, tables), "readall")
        f_st = pool.submit(run_harness, ctx, "morsel-agg", with_paths(st_items, tables), "states")
        f_en = start_per_thread_count(ctx, pool, "morsel-agg", with_paths(en_items, tables), "entry")
        n_free, overlap = run_free(ctx, free_items, tables, recs=f_free.result())
        n_ra, ra_facts = run_readall(ctx, pool, ra_items, tables, by_t=dict(f.result() for f in f_ra))
        n_st, st_facts = run_states(ctx, st_items, tables, recs=f_st.result())
        n_en, en_facts = run_entries(ctx, pool, en_items, tables, by_t=dict(f.result() for f in f_en))
        t1 = time.time()
        emitted = collect_models(ctx, futs, futs_neg)
        t2 = time.time()
        sched_items = prepare_sched(ctx, rng, emitted["sched"], tables, 400 if quick else 6000)
        tables.write()
        n_sched = run_sched(ctx, sched_items, tables)
        law_items = prepare_law(ctx, rng, emitted["law"], 1500 if quick else 30000)
        n_law = run_law(ctx, law_items)
    tables.cleanup()
    ctx.add("distinct_nontrivial", n_free + n_ra + n_st + n_en + n_sched + n_law)
    ctx.set("morsel", {
        "cases_from_tlc": {k: len(v) for k, v in emitted.items()},
        "schedules_replayed": len(sched_items), "law_cases_replayed": len(law_items),
        "free_histories": len(free_items), "free_histories_with_overlapping_get_work": overlap,
        "readall_cases": len(ra_items), "readall_facts": dict(ra_facts),
        "agg_states_cases": len(st_items), "agg_states_verdicts": dict(st_facts),
        "agg_entry_cases": len(en_items), "agg_entry_verdicts": dict(en_facts),
        "nontrivial": {"free": n_free, "readall": n_ra, "agg_states": n_st, "agg_entry": n_en, "sched": n_sched, "law": n_law},
        "thread_counts": list(RAYON),
        "wall": {"conformance_before_tlc_s": round(t1 - t0, 1), "waiting_for_tlc_s": round(t2 - t1, 1), "replay_of_tlc_cases_s": round(time.time() - t2, 1)},
        "rule": "distinct_nontrivial adds: schedules in which >= 2 real threads were handed a row group; free-running histories with >= 2 row groups and >= 2 threads "
                "that were handed work; (table, projection, filter, mode) scans over >= 2 row groups; (table, grouping, filter, assignment, merge order) aggregations "
                "with >= 2 non-empty partial states; entry-point aggregations over >= 2 row groups; law cases with >= 2 non-empty partial states."})
    if sched_items:
        ctx.sample({"morsel_schedule": sched_items[len(sched_items) // 2]["model"]})
    if law_items:
        ctx.sample({"morsel_law_case": {k: law_items[len(law_items) // 2]["model"][k] for k in ("rows", "assign", "order", "exp")}})
    # vacuity
    problems = []
    if overlap == 0:
        problems.append("no free-running history had two overlapping get_work calls")
    if ra_facts.get("multi_thread_runs", 0) == 0:
        problems.append("read_and_process never ran its processor on two threads")
    if ra_facts.get("fault_erred", 0) == 0:
        problems.append("the vanished-file fault never produced an error")
    if ra_facts.get("pushed", 0) == 0 or ra_facts.get("pruned_runs", 0) == 0:
        problems.append("no pushed filter / no pruned row group was exercised")
    if not any(len(set(x["h"]["assign"])) >= 2 for x in st_items):
        problems.append("no aggregation case with two non-empty partial states")
    laws = emitted["law"]
    if not any(any(r[0] == NULL for r in c["rows"]) for c in laws) or not any(any(r[1] == NULL for r in c["rows"]) for c in laws) \
            or not any(len(set(c["assign"])) < c["np"] for c in laws):
        problems.append("the law cases lack a NULL key, a NULL value or an empty partial state")
    if problems:
        if quick:
            ctx.notes.append("morsel (quick) vacuity: " + "; ".join(problems))
        else:
            raise vlib.ToolError("morsel vacuity: " + "; ".join(problems))
    ctx.assumptions += [
        "morsel: the pruner and the all-true proof are assumed sound in Morsel.tla (C05's property); the harness judges pushed filters against the engine's own evaluator on an "
        "independent read and records a disagreement with the SQL reading as drift",
        "morsel: read_row_group is modelled as one step without shared effects; schedules are driven at call granularity (the code has no sync point inside get_work / complete_work, "
        "each is a single lock section / fetch_add)",
        "morsel: float inputs are multiples of 1/4 so that SUM/AVG are exact in every summation order; integer keys never take the value -1 "
        "(the NULL/-1 conflation of the raw key encoding is finding C07/sig:null-key-vs-minus-one)"]


# =====================================================================================  replay
def replay_sub(ctx, obj):
    c = obj["case"]
    sub = c["sub"]
    tables = Tables(ctx, "replay")
    with cf.ThreadPoolExecutor(max_workers=4) as pool:
        if sub == "law":
            item = {"model": c["model"], "h": c["case"]}
            run_law(ctx, [item])
            ctx.set("distinct_nontrivial", 1)
            return
        t = dict(c["table"], tid="replay")
        tables.add(t)
        tables.write()
        item = {"table": t, "h": dict(c["case"])}
        try:
            if sub == "sched":
                item["model"] = c["model"]
                run_sched(ctx, [item], tables, tag="replay")
            elif sub == "free":
                if "history" in c and "calls" in c["history"] and "rows" in c["history"]:
                    for line, rej in validate_histories(ctx, [c["history"]], "replay-recorded"):
                        ctx.violation(c, f"the recorded history is not a behaviour of Morsel.tla: {rej}")
                run_free(ctx, [item], tables)
            elif sub == "readall":
                run_readall(ctx, pool, [item], tables)
            elif sub == "agg":
                if item["h"]["kind"] == "states":
                    run_states(ctx, [item], tables, tag="replay")
                else:
                    run_entries(ctx, pool, [item], tables)
            else:
                raise vlib.ToolError(f"unknown morsel replay kind {sub}")
        finally:
            tables.cleanup()
    ctx.set("distinct_nontrivial", 1)


# =====================================================================================  selftest
def selftest_sub(ctx):
    bad = 0
    rng = random.Random(7)
    say = lambda ok, what: print(f"selftest: {'rejected' if ok else 'ACCEPTED (binding lost)'}: {what}")
    # (1) seeded model mistakes are refuted by TLC
    with cf.ThreadPoolExecutor(max_workers=4) as pool:
        for (mod, cfg, inv, label), res in pool.map(lambda j: (j, run_tlc(j[0], j[1], workers=2, timeout=1800, heap="2g", tag=f"{ctx.pid}-st-{j[1][:-4]}")), PROTO_MUTANTS + LAW_MUTANTS):
            ok = res.violated in inv.split("|")
            print(f"selftest: {'refuted' if ok else 'NOT REFUTED'} by TLC ({cfg}, {res.violated}): {label}")
            bad += 0 if ok else 1
    tables = Tables(ctx, "selftest")
    try:
        t = gen_table(rng, "st", [2, 3], rows=(2, 3), nullp=0.2)
        tables.add(t)
        tables.write()
        paths = tables.paths["st"]
        # (2) recorded histories: the unmodified one is accepted, corrupted ones are rejected by TLC
        item = {"table": t, "h": {"cid": "st-free", "threads": 4, "mode": "loop", "prog_every": 1, "paths": paths}}
        rec = run_harness(ctx, "morsel-free", [item["h"]], "st-free")[0]
        line = history_line(item, rec)
        if validate_histories(ctx, [line], "st-ok"):
            print("selftest: the unmodified recorded history is NOT accepted")
            bad += 1

        def first(l, pred):
            for ti, th in enumerate(l["calls"]):
                for ci, c in enumerate(th):
                    if pred(c):
                        return ti, ci
            raise vlib.ToolError("selftest: no such call in the recorded history")
        muts = []
        l = copy.deepcopy(line); ti, ci = first(l, lambda c: c["op"] == 1 and c["r"] > 0); del l["calls"][ti][ci:ci + 3]
        muts.append((l, "a hand-out event (get_work + its read + complete) dropped from the history: a row group nobody was given"))
        l = copy.deepcopy(line); ti, ci = first(l, lambda c: c["op"] == 1 and c["r"] == 2); l["calls"][ti][ci]["r"] = 1; l["calls"][ti][ci + 1]["r"] = 1; l["calls"][ti][ci + 1]["ids"] = l["rows"][0]
        muts.append((l, "a hand-out duplicated: two threads were given row group 1, nobody row group 2"))
        l = copy.deepcopy(line); ti, ci = first(l, lambda c: c["op"] == 2 and len(c["ids"]) >= 2); l["calls"][ti][ci]["ids"] = l["calls"][ti][ci]["ids"][:-1]
        muts.append((l, "a row count corrupted: read_row_group delivered one row less than the row group holds"))
        l = copy.deepcopy(line); ti, ci = first(l, lambda c: c["op"] == 4 and c["c"] >= 1); l["calls"][ti][ci]["c"] = l["R"] + 1
        muts.append((l, "progress() above total_work()"))
        l = copy.deepcopy(line); l["fin"] = [l["R"] - 1, l["R"]]
        muts.append((l, "progress() short of the total after every thread finished"))
        l = copy.deepcopy(line); ti, ci = first(l, lambda c: c["op"] == 3); del l["calls"][ti][ci]
        muts.append((l, "a complete_work call lost (progress readings no longer explained)"))
        with cf.ThreadPoolExecutor(max_workers=6) as pool:
            verdicts = list(pool.map(lambda iw: bool(validate_histories(ctx, [iw[1][0]], f"st-mut{iw[0]}")), enumerate(muts)))
        for (l, what), ok in zip(muts, verdicts):
            ok2 = bool(history_contract(l))
            print(f"selftest: {'rejected by TLC' if ok else 'ACCEPTED by TLC (binding lost)'} and {'by the contract reading' if ok2 else 'NOT by the contract reading'}: {what}")
            bad += 0 if (ok and ok2) else 1
        if history_contract(line):
            print(f"selftest: the unmodified history breaks the contract reading: {history_contract(line)}")
            bad += 1
        # (3) schedule replay: a corrupted expectation is noticed
        model = {"w": 2, "kept": [1, 2, 3, 4, 5], "total": 5, "src": "selftest",
                 "steps": [[1, 1, 1, 0], [2, 1, 2, 0], [2, 2, 2, 0], [1, 2, 1, 0], [2, 3, 0, 1], [1, 3, 0, 2], [2, 1, 3, 2], [1, 1, 4, 2], [2, 2, 3, 2], [2, 3, 0, 3]]}
        sitem = {"model": model, "table": t, "h": {"cid": "st-sched", "w": 2, "steps": [s[:2] for s in model["steps"]], "paths": paths}}
        srec = run_harness(ctx, "morsel-sched", [sitem["h"]], "st-sched")[0]
        if any(judge_sched(sitem, srec)):
            print(f"selftest: the unmodified schedule is NOT accepted: {judge_sched(sitem, srec)}")
            bad += 1
        r2 = copy.deepcopy(srec); r2["res"][1][0] = 1
        ok = bool(judge_sched(sitem, r2)[0]); say(ok, "schedule replay: the second get_work hands out row group 1 again"); bad += 0 if ok else 1
        r2 = copy.deepcopy(srec); r2["res"][4][1] = 2
        ok = bool(judge_sched(sitem, r2)[0]); say(ok, "schedule replay: progress() = 2 after the first complete_work"); bad += 0 if ok else 1
        r2 = copy.deepcopy(srec); r2["res"][2][3] = r2["res"][2][3][:-1]
        ok = bool(judge_sched(sitem, r2)[0]); say(ok, "schedule replay: a row missing from what read_row_group delivered"); bad += 0 if ok else 1
        r2 = copy.deepcopy(srec); r2["res"][6][0] = 0
        ok = bool(judge_sched(sitem, r2)[0]); say(ok, "schedule replay: get_work returns None while three row groups are still queued"); bad += 0 if ok else 1
        m2 = copy.deepcopy(model); m2["steps"][1][2] = 3
        w_, f_ = judge_sched(dict(sitem, model=m2), srec)
        ok = (not w_) and bool(f_); print(f"selftest: {'noted as fidelity only' if ok else 'MISCLASSIFIED'}: schedule replay: the model expects another (valid) hand-out order"); bad += 0 if ok else 1
        # (4) parallel read: a lost row / a lying progress is noticed
        ritem = {"table": t, "h": {"cid": "st-ra", "proj": None, "filter": None, "mode": "process", "paths": paths}}
        rr = run_harness(ctx, "morsel-readall", [ritem["h"]], "st-ra", env={"RAYON_NUM_THREADS": "4"})[0]
        if judge_readall(ritem, {"4": rr})[0]:
            print(f"selftest: the unmodified parallel read is NOT accepted: {judge_readall(ritem, {'4': rr})[0]}")
            bad += 1
        r2 = copy.deepcopy(rr); r2["got"]["rows"].pop()
        ok = bool(judge_readall(ritem, {"4": r2})[0]); say(ok, "parallel read: one row lost"); bad += 0 if ok else 1
        r2 = copy.deepcopy(rr); r2["got"]["rows"].append(r2["got"]["rows"][0])
        ok = bool(judge_readall(ritem, {"4": r2})[0]); say(ok, "parallel read: one row delivered twice"); bad += 0 if ok else 1
        r2 = copy.deepcopy(rr); r2["got"]["p1"][0] -= 1
        ok = bool(judge_readall(ritem, {"4": r2})[0]); say(ok, "parallel read: progress() short of the total at the end"); bad += 0 if ok else 1
        # (5) aggregation: a wrong merged state is noticed, the known shape is told apart from anything else
        want = expected_agg(table_rows(t), ["k"], AGGS, "short")
        good = ("rows", want)
        wrong = ("rows", [tuple(list(want[0][:1]) + [want[0][1] + 1] + list(want[0][2:]))] + want[1:])
        ok = judge_pair(wrong, good, want, 1)[0] == "violation"; say(ok, "aggregation: merged COUNT off by one against the sequential fold"); bad += 0 if ok else 1
        ok = judge_pair(("rows", want[1:]), good, want, 1)[0] == "violation"; say(ok, "aggregation: a group lost by the merge (single grouping column: not the known shape)"); bad += 0 if ok else 1
        w2 = [(None, None, 1), (1, 2, 3)]
        ok = judge_pair(("rows", w2[1:]), ("rows", w2), w2, 2)[0] == "known" and judge_pair(("rows", w2[:1]), ("rows", w2), w2, 2)[0] == "violation" \
            and judge_pair(("rows", [(None, None, 2), (1, 2, 3)]), ("rows", w2), w2, 2)[0] == "known" and judge_pair(("rows", [(None, None, 1), (1, 2, 4)]), ("rows", w2), w2, 2)[0] == "violation"
        say(ok, "aggregation: only the loss of the all-NULL key group of a multi-column GROUP BY is classified as the known finding"); bad += 0 if ok else 1
    finally:
        tables.cleanup()
    return 1 if bad else 0

