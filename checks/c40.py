"""C40 — CLI output formats round-trip the result (Csv.tla / CsvTrace.tla).

(M)  TLC: the ideal writer is accepted by the RFC 4180 / RFC 8259 reader machines for every table in the
     bound and reads back as the displayed cells / same values; each listed deviation breaks that somewhere.
(R)  every TLC-emitted table (+ seeded larger ones) is printed by the real OutputFormatter (the working
     tree's src/cli/output.rs compiled into the harness) and read back by a Rust port of the machines;
     a sample is also loaded into the real shell binary (`repl`, `.mode csv|json`) over piped stdin.
(V)  the captured characters are handed to TLC (CsvTrace.tla, one action per character); TLC's verdict is
     the verdict, and must agree with the Rust port on every record it sees.
"""
import copy, json, os, random, re, subprocess, threading
import vlib
from vlib import run_tlc, tlc_must_pass, qev, write_ndjson, read_ndjson

LEVEL = "model_checking"
DEVS = ["csv-bare-cr-unquoted", "csv-header-unquoted", "json-control-chars-raw", "json-key-unescaped",
        "json-nonfinite-number-raw"]
CSV_DEVS, JSON_DEVS = DEVS[:2], DEVS[2:]
QE_CLI = os.path.join(vlib.HARNESS, "target", "debug", "qe_cli")
ACTIONS = ["Choose", "CsvComma", "CsvDquote", "CsvCr", "CsvLf", "CsvOther", "JsonWs", "JsonDquote", "JsonBackslash",
           "JsonControl", "JsonDigit", "JsonPunct", "JsonOther"]
SPECIAL = {44, 34, 13, 10, 9, 92}


def open_devs(ctx):
    return [d for d in DEVS if ctx.is_known(f"C40/{d}")]


def cps(s):
    return [ord(c) for c in s]


def txt(c):
    return "".join(chr(x) for x in c)


# ---------------------------------------------------------------- expectations (mirror of Csv.tla)
def display(v):
    return [] if v["k"] == 0 else v["s"]


def expect_csv(case):
    return [case["hdr"]] + [[display(v) for v in row] for row in case["rows"]]


def num_canon(tok):
    s = txt(tok)
    neg = s.startswith("-")
    body = s[1:] if neg else s
    parts = re.split("[eE]", body, maxsplit=1)
    mant = parts[0]
    expv = 0
    if len(parts) > 1:
        e = parts[1]
        eneg = e.startswith("-")
        ed = e[1:] if e[:1] in "+-" else e
        val = 0
        for ch in ed:
            val = min(val * 10 + (ord(ch) - 48), 100000)
        expv = -val if eneg else val
    ip, _, fr = mant.partition(".")
    digs = ip + fr
    nz = [i for i, ch in enumerate(digs) if ch != "0"]
    if not nz:
        return [0, 0]
    return [1 if neg else 0, len(ip) + expv - nz[0]] + cps(digs[nz[0]:nz[-1] + 1])


def norm(v):
    if v["k"] == 2:
        if txt(v["s"]) in ("NaN", "inf", "-inf"):
            return (0, ())
        return (2, tuple(num_canon(v["s"])))
    return (v["k"], tuple(v["s"]))


NUMTOK = re.compile(r"-?[0-9]+(\.[0-9]+)?([eE][+-]?[0-9]+)?$")


def csv_cell_ok(v, cell):
    if v["k"] == 2 and txt(v["s"]) not in ("NaN", "inf", "-inf"):
        return bool(NUMTOK.match(txt(cell))) and num_canon(cell) == num_canon(v["s"])
    return cell == display(v)


def csv_rows_ok(hdr, rows, got):
    if len(got) != len(rows) + 1 or got[0] != hdr:
        return False
    return all(len(g) == len(r) and all(csv_cell_ok(v, c) for v, c in zip(r, g)) for r, g in zip(rows, got[1:]))


def judge(case, fmt, side, rows=None):
    """None if the output round-trips, else a reason."""
    rows = case["rows"] if rows is None else rows
    if "panic" in side:
        return "formatter panicked / failed: " + str(side["panic"])[:200]
    if side.get("utf8") == 0:
        return "output is not valid UTF-8"
    if fmt == 1:
        if side["mode"] != "RecordEnd":
            return f"CSV is malformed under RFC 4180 (reader left {side['from']} at character {side['bad_at']})"
        exp = [case["hdr"]] + [[display(v) for v in row] for row in rows]
        if not csv_rows_ok(case["hdr"], rows, side["rows"]):
            return f"CSV reads back as {[[txt(c) for c in r] for r in side['rows']]!r}, displayed cells are {[[txt(c) for c in r] for r in exp]!r}"
        return None
    if side["mode"] == "Unsupported":
        return "unsupported"
    if side["mode"] != "Done":
        return f"JSON is malformed under RFC 8259 (reader left {side['from']} at character {side['bad_at']})"
    if len(side["objs"]) != len(rows):
        return f"JSON has {len(side['objs'])} objects for {len(rows)} rows"
    for o, row in zip(side["objs"], rows):
        got = {(tuple(m["key"]), norm(m["val"])) for m in o}
        exp = {(tuple(h), norm(v)) for h, v in zip(case["hdr"], row)}
        if len(o) != len(case["hdr"]) or got != exp:
            return f"JSON object reads back as {sorted((txt(k), v) for k, v in got)!r}, expected {sorted((txt(k), v) for k, v in exp)!r}"
    return None


# ---------------------------------------------------------------- cases beyond the TLC family
def V(k, s):
    return {"k": k, "s": cps(s)}


NULLV = {"k": 0, "s": []}


def py_float_token(x):
    """the shortest round-trip decimal of x in positional notation (what Rust's Display prints): 87.0 -> 87, 1e-7 -> 0.0000001"""
    from decimal import Decimal
    x = float(x)
    t = format(Decimal(repr(x)), "f")
    if "." in t:
        t = t.rstrip("0").rstrip(".")
    if t in ("", "-"):
        t += "0"
    return t


def hand_cases():
    S = lambda s: V(1, s)
    N = lambda s: V(2, s)
    out = [
        {"hdr": [cps("a"), cps("b")], "types": [1, 2], "rows": []},                       # header only
        {"hdr": [cps("i"), cps("u"), cps("j")], "types": [2, 7, 6],
         "rows": [[N("-9223372036854775808"), N("18446744073709551615"), N("-2147483648")],
                  [N("9223372036854775807"), N("0"), NULLV]]},
        {"hdr": [cps("f"), cps("g")], "types": [3, 8],
         "rows": [[N(py_float_token(1e300)), N("1.5")], [N(py_float_token(5e-324)), N("0.1")], [N("-0"), NULLV],
                  [N("0.30000000000000004"), N("-340282350000000000000000000000000000000")],
                  [N("123456789.125"), N("16777216")]]},
        {"hdr": [cps("f")], "types": [3], "rows": [[N("inf")], [N("NaN")], [N("2.5")]]},
        {"hdr": [cps("s")], "types": [1], "rows": [[S("\U0001F600 \u2028 \ufeff\x7f")], [S("\x00")], [S(' a ')], [S('"')], [S('""')], [S('","')],
                                                     [S("line1\r\nline2")], [S("tab\there")], [S("back\\slash\\n")], [S("'single'")], [S("")], [NULLV]]},
        {"hdr": [cps("s"), cps("t")], "types": [5, 1], "rows": [[S("x" * 120 + ',"\n\r\t\\é\x01' * 20), S("NULL")], [S("null"), S("true")]]},
        {"hdr": [cps("b"), cps("c")], "types": [4, 4], "rows": [[V(3, "true"), NULLV], [V(3, "false"), V(3, "true")], [NULLV, NULLV]]},
        {"hdr": [cps("col one"), cps("Col.Two"), cps("c-3")], "types": [1, 2, 3], "rows": [[S("v"), N("1"), N("2.25")]] * 3},
        {"hdr": [cps("kéy"), cps("\U0001F600")], "types": [1, 1], "rows": [[S("é"), S("中文")]]},
    ]
    out += [dict(c, split=1) for c in out if len(c["rows"]) >= 2]
    return out


def random_cases(seed, n):
    rng = random.Random(seed)
    wide = [97, 98, 32, 44, 34, 10, 13, 9, 92, 233, 1, 0, 0x1f, 0x7f, 0x2028, 0x1F600, 39, 59, 123, 125, 91, 93, 58, 47, 0x4e2d]
    mild = [97, 98, 99, 95, 32, 49]
    def rstr(alpha, lo, hi):
        return [rng.choice(alpha) for _ in range(rng.randint(lo, hi))]
    out = []
    for _ in range(n):
        nc, nr = rng.randint(1, 4), rng.randint(0, 5)
        names = []
        while len(names) < nc:
            nm = rstr(wide if rng.random() < 0.25 else mild, 1, 4)
            if nm not in names:
                names.append(nm)
        types = [rng.choice([1, 1, 1, 2, 3, 4, 5]) for _ in range(nc)]
        rows = []
        for _ in range(nr):
            row = []
            for t in types:
                if rng.random() < 0.15:
                    row.append(NULLV)
                elif t in (1, 5):
                    row.append({"k": 1, "s": rstr(wide, 0, 6)})
                elif t == 2:
                    row.append(V(2, str(rng.choice([0, 1, -1, 42, -12, rng.randint(-2**63, 2**63 - 1)]))))
                elif t == 3:
                    x = rng.choice([0.0, 1.5, -0.25, 87.0, 1e-7, 1e21, 123.456, rng.uniform(-1e6, 1e6), rng.uniform(-1, 1) * 10 ** rng.randint(-30, 30)])
                    row.append(V(2, py_float_token(x)))
                else:
                    row.append(V(3, rng.choice(["true", "false"])))
            rows.append(row)
        c = {"hdr": names, "types": types, "rows": rows}
        if nr >= 2 and rng.random() < 0.3:
            c["split"] = 1
        out.append(c)
    return out


def nontrivial(case):
    cells = list(case["hdr"]) + [v["s"] for row in case["rows"] for v in row if v["k"] == 1]
    return any((x in SPECIAL or x < 32 or x > 126) for c in cells for x in c)


# ---------------------------------------------------------------- running things
def replay_cases(ctx, cases, tag):
    inp = os.path.join(ctx.work, f"{tag}.in.ndjson")
    outp = os.path.join(ctx.work, f"{tag}.out.ndjson")
    write_ndjson(inp, cases)
    qev(["output-replay", inp, outp], timeout=1800)
    outs = read_ndjson(outp)
    if len(outs) != len(cases):
        raise vlib.ToolError("output-replay lost cases")
    return outs


def tlc_judge(ctx, items, opened, tag, stepwise=0):
    """items: [(case, fmt, chars)] -> [(verdict, info)] by CsvTrace.tla.  The first `stepwise` items are consumed one
    TLC action per character, the others by folding the same step operator inside one action."""
    if not items:
        return [], vlib.TlcResult()
    path = os.path.join(ctx.work, f"{tag}.trace.ndjson")
    write_ndjson(path, [{"open": opened}] + [{"fmt": f, "sw": 1 if i < stepwise else 0, "hdr": c["hdr"], "rows": c["rows"], "chars": ch}
                                           for i, (c, f, ch) in enumerate(items)])
    res = run_tlc("CsvTrace", "CsvTrace.cfg", workers=1, timeout=3000, env={"TRACE": path}, deque=True, heap="6g", tag=f"C40-{tag}")
    if res.error or not res.ok:
        vlib.log(res.out[-4000:])
        raise vlib.ToolError(f"CsvTrace did not complete: {str(res.error)[:300]}")
    out = {}
    done = False
    for k, r in res.prints:
        if k == "DONE":
            done = r["lines"] == len(items) + 1
        elif k in ("ACCEPT", "KNOWN", "REJECT"):
            out[r["line"] - 2] = (k, r)
    if not done or len(out) != len(items):
        vlib.log(res.out[-3000:])
        raise vlib.ToolError(f"CsvTrace judged {len(out)} of {len(items)} outputs")
    return [out[i] for i in range(len(items))], res


def shell_route(ctx, cases, tag):
    """Load each case as a Parquet file into the real shell and capture what `.mode csv|json` prints.
    Returns [(case, fmt, chars)] for the statements that produced output, and counters."""
    if not os.path.exists(QE_CLI):
        raise vlib.ToolError("qe_cli (the working tree's CLI built by the harness) is missing")
    inp = os.path.join(ctx.work, f"{tag}.in.ndjson")
    pdir = os.path.join(ctx.work, f"{tag}.pq")
    write_ndjson(inp, cases)
    qev(["output-parquet", inp, pdir], timeout=900)
    lines = []
    for i in range(len(cases)):
        lines += [f".load {pdir}/t{i}.parquet t{i}", ".mode csv", ".format", f"SELECT * FROM t{i}", ".format",
                  ".mode json", ".format", f"SELECT * FROM t{i}", ".format"]
    lines.append(".quit")
    env = dict(os.environ, HOME=ctx.work, RUST_LOG="error")
    try:
        p = subprocess.run([QE_CLI, "repl"], input=("\n".join(lines) + "\n").encode(), stdout=subprocess.PIPE,
                           stderr=subprocess.PIPE, timeout=1800, env=env, cwd=ctx.work)
    except subprocess.TimeoutExpired:
        raise vlib.ToolError("the shell did not finish the script")
    try:
        so = p.stdout.decode("utf-8")
    except UnicodeDecodeError:
        raise vlib.ToolError("shell stdout is not UTF-8")
    got = []
    skipped = 0
    for f, name in ((1, "csv"), (2, "json")):
        sent = f"Current output format: {name}\nAvailable formats: table, csv, json, vertical\n\n"
        pieces = so.split(sent)
        # pieces[2k+1] is what statement k printed between its two sentinels
        stm = pieces[1::2]
        if len(stm) < len(cases):
            raise vlib.ToolError(f"shell transcript has {len(stm)} {name} statements for {len(cases)} cases: {p.stderr.decode(errors='replace')[-600:]}")
        for i, c in enumerate(cases):
            m = re.search(r"\((\d+) rows in [0-9.]+ms\)\n\n$", stm[i])
            if not m:
                skipped += 1       # the statement failed (stderr) - not this property's business
                continue
            got.append((c, f, cps(stm[i][:m.start()]), i))
    return got, skipped, p.stderr.decode(errors="replace")


def parse_outputs(ctx, items, tag):
    inp = os.path.join(ctx.work, f"{tag}.pin.ndjson")
    outp = os.path.join(ctx.work, f"{tag}.pout.ndjson")
    write_ndjson(inp, [{"fmt": f, "chars": ch} for _, f, ch, *_ in items])
    qev(["output-parse", inp, outp], timeout=900)
    return read_ndjson(outp)


def slim_case(c):
    return {k: c[k] for k in ("hdr", "types", "rows", "split") if k in c}


def settle(ctx, judged, verdicts, opened, source):
    """judged: [(case, fmt, side, why)], verdicts from TLC in the same order. TLC decides; the Rust port must agree."""
    for (case, fmt, side, why), (v, info) in zip(judged, verdicts):
        py_ok = why is None
        if py_ok != (v == "ACCEPT"):
            raise vlib.ToolError(f"reader models disagree on {json.dumps(slim_case(case))[:300]} fmt={fmt}: Rust port says {why}, TLC says {v} {info}")
        if v == "ACCEPT":
            continue
        ex = {"format": "csv" if fmt == 1 else "json", "source": source, "output": txt(side.get("chars", []))[:160],
              "case": slim_case(case), "why": why[:240]}
        if v == "KNOWN":
            for d in info["devs"]:
                ctx.known(f"C40/{d}", ex)
        else:
            ctx.violation({"case": slim_case(case), "fmt": fmt, "source": source,
                           "observed": side.get("chars", side.get("panic"))}, why)


def run(ctx):
    t = ctx.tier
    opened = open_devs(ctx)
    # ---- (M): ideal writer vs reader machines over the whole family; deviations must break it
    box = {}
    def kill():
        box["kill"] = run_tlc("Csv", "Csv_kill.cfg", workers=2, timeout=1800, tag="C40-kill", coverage=(t == "thorough"))
    th = threading.Thread(target=kill)
    th.start()
    res = run_tlc("Csv", f"Csv_{t}.cfg", workers=6, timeout=3000, heap="8g", tag="C40-main", coverage=(t == "thorough"))
    th.join()
    tlc_must_pass(res, "Csv (ideal writer)")
    ctx.tlc_stats(res, "Csv: ideal writer accepted by the CSV/JSON reader machines for every table in the bound (RoundTrip) + case emission")
    kres = box["kill"]
    tlc_must_pass(kres, "Csv (deviating writers)")
    ctx.tlc_stats(kres, "Csv: each listed deviation of the writer breaks the round trip (kill matrix)")
    kills = {}
    for k, r in kres.prints:
        if k == "KILL":
            kills[r["dev"][0]] = kills.get(r["dev"][0], 0) + 1
    for d in DEVS:
        if not kills.get(d):
            raise vlib.ToolError(f"deviation {d} never breaks the round trip in the model (vacuous)")
    ctx.set("model_deviations_rejected", kills)
    if t == "thorough":
        cov = dict(kres.coverage)
        for a, n in res.coverage.items():
            cov[a] = cov.get(a, 0) + n
        for a in ACTIONS:
            if cov.get(a, 0) == 0:
                raise vlib.ToolError(f"action {a} of Csv.tla was never taken")
        ctx.set("tlc_action_coverage", {a: cov[a] for a in ACTIONS})
    cases = res.cases
    if len(cases) < 1000:
        raise vlib.ToolError("Csv emitted too few cases")
    n_tlc = len(cases)
    extra = hand_cases() + random_cases(ctx.seed, 150 if t == "quick" else 3000)
    allc = cases + extra
    rng = random.Random(ctx.seed)
    # ---- (R) primary route: the real OutputFormatter
    outs = replay_cases(ctx, allc, "cases")
    failing, extras_ok, passing = [], [], []
    for i, r in enumerate(outs):
        for fmt, key in ((1, "csv"), (2, "json")):
            side = r[key]
            why = judge(r, fmt, side)
            ctx.add("evaluations")
            if why == "unsupported":
                raise vlib.ToolError("the JSON writer emitted a nested value; the reader model does not cover it")
            if "panic" in side or side.get("utf8") == 0:
                ctx.violation({"case": slim_case(r), "fmt": fmt, "source": "formatter", "observed": side}, why)
                continue
            (failing if why else extras_ok if i >= n_tlc else passing).append((r, fmt, side, why, "formatter"))
    ctx.set("formatter_outputs", 2 * len(outs))
    ctx.set("formatter_outputs_failing", len(failing))
    # ---- (R) secondary route: the real shell binary over piped stdin
    pool = [c for c in cases if all(len(h) > 0 for h in c["hdr"])]
    rng.shuffle(pool)
    sample = pool[:40 if t == "quick" else 500] + [c for c in hand_cases() if c["rows"] and "split" not in c][:6]
    got, skipped, stderr = shell_route(ctx, sample, "shell")
    if len(got) < len(sample):      # of 2 * len(sample) statements
        raise vlib.ToolError(f"the shell answered only {len(got)} of {2 * len(sample)} statements: {stderr[-500:]}")
    sides = parse_outputs(ctx, got, "shell")
    # the shell's SELECT * may name the columns t.c: both namings are the "displayed" header
    qual = [dict(c, hdr=[cps(f"t{i}.") + h for h in c["hdr"]]) for i, c in enumerate(sample)]
    ref = replay_cases(ctx, sample + qual, "shellref")
    shell = []
    same = nq = 0
    for (c, fmt, chars, i), side in zip(got, sides):
        ctx.add("evaluations")
        key = "csv" if fmt == 1 else "json"
        cand = [(c, ref[i]), (qual[i], ref[len(sample) + i])]
        verdicts_ = []
        for cc, rr in cand:
            why = judge(cc, fmt, side)
            if why and len(cc["rows"]) == 2 and judge(cc, fmt, side, rows=cc["rows"][::-1]) is None:
                ctx.notes.append("fidelity: the shell returned the two rows of a table in the other order")
                cc, why = dict(cc, rows=cc["rows"][::-1]), None
            verdicts_.append((cc, why, rr[key].get("chars") == chars))
        # prefer a naming under which the output round-trips; else the one whose formatter output it equals; else qualified
        pick = next((v for v in verdicts_ if v[1] is None), None) or next((v for v in verdicts_ if v[2]), None) or verdicts_[1]
        same += 1 if pick[2] else 0
        nq += 1 if pick[0] is not c and pick[0]["hdr"] != c["hdr"] else 0
        shell.append((pick[0], fmt, side, pick[1], "shell"))
    ctx.set("shell_statements_captured", len(got))
    ctx.set("shell_statements_skipped_engine_error", skipped)
    ctx.set("shell_outputs_identical_to_formatter", same)
    ctx.set("shell_outputs_with_qualified_column_names", nq)
    if same < len(got) // 2:
        ctx.notes.append(f"fidelity: only {same} of {len(got)} shell outputs are byte-identical to OutputFormatter::write on the same table")
    # ---- (V): TLC reads the real characters.  Every failing output, every extra case, every shell output;
    # of the passing TLC-family outputs a sample in quick, all in thorough.  The first ones one action per character.
    if t == "quick":
        rng.shuffle(passing)
        passing = passing[:500]
    a, b, c3 = (30, 40, 30) if t == "quick" else (300, 800, 400)
    step = shell[:a] + failing[:b] + passing[:c3]
    rest = shell[a:] + failing[b:] + passing[c3:] + extras_ok
    judged = step + rest
    verdicts, tres = tlc_judge(ctx, [(c, f, sd["chars"]) for c, f, sd, _, _ in judged], opened, "outputs", stepwise=len(step))
    ctx.tlc_stats(tres, f"CsvTrace: {len(judged)} real outputs (formatter and shell) read by the reference machines, {len(step)} of them one state per character")
    for src in ("formatter", "shell"):
        idx = [k for k, j in enumerate(judged) if j[4] == src]
        settle(ctx, [judged[k][:4] for k in idx], [verdicts[k] for k in idx], opened, src)
    # ---- evidence
    nt = {vlib.chash(slim_case(c)) for c in allc if nontrivial(c)}
    ctx.set("distinct_nontrivial", len(nt))
    ctx.set("cases_from_tlc", n_tlc)
    ctx.set("cases_extra", len(extra))
    ctx.set("traces_validated_against_impl", len(judged))
    ctx.set("outputs_read_one_state_per_character", len(step))
    ctx.set("exhaustive", True)
    ctx.set("rule", "TLC enumerates every cell string of length <= MaxLen over {a , \" LF CR TAB \\ e-acute 0x01} as a data cell in the "
            "first/middle/last/only column (first or last row) or as a column NAME, next to filler columns of integers, floats (incl. 87.0, "
            "1e-7, NaN, -inf), booleans, NULLs, '' and the strings NULL/null in Utf8/LargeUtf8 columns; plus hand-picked edge tables and seeded "
            "random tables (<= 4 columns x 5 rows, astral/control/NUL characters, i64/u64 extremes, split batches). Every table is printed as "
            "CSV and JSON by the real formatter (and a sample by the real shell); non-trivial = a distinct table with a comma, quote, CR, LF, "
            "TAB, backslash, control or non-ASCII character in a cell or column name.")
    for c in cases[:2] + cases[len(cases) // 2: len(cases) // 2 + 2] + extra[4:5]:
        ctx.sample({"hdr": [txt(h) for h in c["hdr"]], "types": c["types"],
                    "rows": [[None if v["k"] == 0 else txt(v["s"]) for v in row] for row in c["rows"]]})
    ctx.assumptions += [
        "a CSV record may end in LF or CRLF and the last line break may be missing (the shell writes LF); TEXTDATA is extended to control and non-ASCII characters",
        "NULL is displayed as an empty unquoted CSV field (indistinguishable from an empty string: not a round-trip failure of the displayed text) and as JSON null",
        "numbers are compared by decimal value (87 = 87.0 = 8.7e1) in both formats; a non-finite float has no JSON number and must be printed as null; \\u escapes of surrogate pairs are not combined (the shell writes non-ASCII raw)",
        "column names are distinct (duplicate JSON keys are outside the model); nested/list/date/decimal columns are not explored",
        "the shell route loads tables from Parquet and accepts the engine's qualified column names (t.c) as the displayed header; tables with an empty column name are left to the formatter route"]


def replay(ctx, obj):
    c = obj["case"]
    case, fmt = c["case"], c["fmt"]
    r = replay_cases(ctx, [case], "replay")[0]
    side = r["csv" if fmt == 1 else "json"]
    why = judge(r, fmt, side)
    ctx.add("evaluations"); ctx.set("distinct_nontrivial", 1); ctx.sample({"case": case, "fmt": fmt, "output": txt(side.get("chars", []))})
    if "panic" in side or side.get("utf8") == 0:
        ctx.violation(c, why)
        return
    verdicts, tres = tlc_judge(ctx, [(r, fmt, side["chars"])], open_devs(ctx), "replay")
    ctx.tlc_stats(tres, "replay")
    settle(ctx, [(r, fmt, side, why)], verdicts, open_devs(ctx), c.get("source", "formatter"))


# ---------------------------------------------------------------- selftest
def selftest(ctx):
    S = lambda s: V(1, s)
    base = [{"hdr": [cps("a"), cps("b"), cps("c")], "types": [1, 2, 3], "rows": [[S('x,"y"\n'), V(2, "7"), V(2, "1.5")], [NULLV, NULLV, V(2, "-0.25")]]},
            {"hdr": [cps("a")], "types": [1], "rows": [[S("p\rq")], [S("z")]]},
            {"hdr": [cps("a"), cps("b")], "types": [1, 4], "rows": [[S("plain"), V(3, "true")]]}]
    outs = replay_cases(ctx, base, "selftest")
    fails = []

    def both(tag, case, fmt, chars, opened, want):
        side = parse_outputs(ctx, [(case, fmt, chars)], tag)[0]
        why = judge(case, fmt, side)
        (v, info), = tlc_judge(ctx, [(case, fmt, chars)], opened, tag)[0]
        if v != want or (why is None) != (v == "ACCEPT"):
            fails.append(f"{tag}: wanted {want}, TLC said {v} {info}, Rust port said {why}")

    o0, o1, o2 = outs
    none = []
    allopen = list(DEVS)
    # the real outputs of the two well-behaved tables are accepted (if the tree has the CR defect, table 1 is KNOWN only when listed)
    both("st-ok-csv", base[2], 1, o2["csv"]["chars"], none, "ACCEPT")
    both("st-ok-json", base[2], 2, o2["json"]["chars"], none, "ACCEPT")
    both("st-ok-csv0", base[0], 1, o0["csv"]["chars"], none, "ACCEPT")
    # 1. an expected cell that differs from what was printed
    wrong = copy.deepcopy(base[2]); wrong["rows"][0][0] = S("plaim")
    both("st-cell", wrong, 1, o2["csv"]["chars"], allopen, "REJECT")
    both("st-cellj", wrong, 2, o2["json"]["chars"], allopen, "REJECT")
    # 2. quotes not doubled
    both("st-noquote2", base[0], 1, cps('a,b,c\n"x,"y"\n",7,1.5\n,,-0.25\n'), allopen, "REJECT")
    # 3. NULL printed as the string NULL / null in CSV
    both("st-nullstr", base[0], 1, cps(txt(o0["csv"]["chars"]).replace("\n,,", "\nNULL,NULL,")), allopen, "REJECT")
    # 4. JSON number printed as a string; null printed as "null"
    j0 = txt(o0["json"]["chars"])
    both("st-numstr", base[0], 2, cps(j0.replace('"b": 7', '"b": "7"')), allopen, "REJECT")
    both("st-nullj", base[0], 2, cps(j0.replace('"a": null', '"a": "null"')), allopen, "REJECT")
    # 5. a trailing comma on a record; a dropped character; a missing closing bracket
    both("st-trail", base[2], 1, cps("a,b\nplain,true,\n"), allopen, "REJECT")
    both("st-drop", base[2], 1, o2["csv"]["chars"][:-3] + o2["csv"]["chars"][-2:], allopen, "REJECT")
    both("st-cut", base[2], 2, o2["json"]["chars"][:-2], allopen, "REJECT")
    # 6. a bare CR written unquoted: KNOWN only while the finding is open, and only for exactly that output
    bare = cps("a\np\rq\nz\n")
    both("st-cr-open", base[1], 1, bare, [DEVS[0]], "KNOWN")
    both("st-cr-closed", base[1], 1, bare, none, "REJECT")
    both("st-cr-other", base[1], 1, cps("a\np\rq\nZ\n"), allopen, "REJECT")
    both("st-cr-quoted", base[1], 1, cps('a\n"p\rq"\nz\n'), none, "ACCEPT")
    # 7. raw newline inside a JSON string: KNOWN only when listed
    rawj = cps('[\n  {"a": "x,\\"y\\"\n", "b": 7, "c": 1.5},\n  {"a": null, "b": null, "c": -0.25}\n]\n')
    both("st-ctl-open", base[0], 2, rawj, [DEVS[2]], "KNOWN")
    both("st-ctl-closed", base[0], 2, rawj, none, "REJECT")
    if fails:
        for f in fails:
            print("selftest FAILED:", f)
        return 1
    print("selftest ok: wrong cells, undoubled quotes, NULL-as-text, number-as-string, trailing comma, dropped characters and "
          "unlisted deviations were rejected by both TLC and the Rust port; listed deviations classify only their exact output")
    return 0
