"""C08 — Running out of memory budget never changes an answer (configuration matrix judged by SqlSem.tla)."""
import sqlprop, sqlcheck
LEVEL = "model_checking"


def run(ctx):
    sqlprop.run_sql_property(ctx, corpus=['big', 'order', 'agg', 'spilljoin'], seeded=[], cfgs=sqlprop.MEMORY, quick_n=70, thorough_n=1200,
        envs=None, cross=None,
        rule='Each corpus case is run under memory limits of 16 B, 256 B, 4 KiB, 64 KiB and unlimited (memory and Parquet layouts, multi-batch inputs so sorts, aggregations and joins take their spill paths); an outcome must be an answer allowed by SqlSem or an explicit error, never different rows.')

    import spillmodel
    spillmodel.run_spill_model(ctx)


def replay(ctx, obj):
    import spillmodel
    if spillmodel.is_spill_replay(obj):
        return spillmodel.replay_spill_model(ctx, obj)
    sqlcheck.replay_sql(ctx, obj)

def selftest(ctx):
    import spillmodel
    return spillmodel.selftest_spill_model(ctx) or sqlprop.selftest(ctx, [])
