"""C38 — vector distance functions compute their formulas (VecDist.tla / VecDistTrace.tla)."""
import concurrent.futures as cf
import copy, json, os
import vlib
from vlib import run_tlc, tlc_must_pass, qev, write_ndjson, read_ndjson, validate_records

LEVEL = "exploration"
KINDS = ("l2", "cos", "sim", "dot")
FIT = (1 << 31) - 1
CASE_KEYS = ("dim", "rows", "off", "len", "mode", "q", "dim2", "rows2", "off2", "path")


# ------------------------------------------------------------------ exact-integer restatement of VecDist!CallOk
def dot(a, b):
    return sum(x * y for x, y in zip(a, b))


def l2sq(a, b):
    return sum((x - y) * (x - y) for x, y in zip(a, b))


def value_ok(kind, L, D, na, nb, m, m2):
    if kind == "l2":
        return m >= 0 and abs(m2 - L * 10000) <= L + 1
    if kind == "dot":
        return abs(m - D * 10000) <= abs(D) + 1
    if na * nb == 0:
        return m2 <= 10001
    f = (D * D * 10000) // (na * nb)
    sign = (D <= 0 or m >= 0) and (D >= 0 or m <= 0) and (D != 0 or abs(m) <= 1)
    return f - 3 <= m2 <= f + 4 and sign


def col_of(r):
    return r["rows"][r["off"]:r["off"] + r["len"]]


def others_of(r):
    if r["mode"] == "lit":
        return [r["q"]] * r["len"], len(r["q"])
    return r["rows2"][r["off2"]:r["off2"] + r["len"]], r["dim2"]


def isnull(v):
    return not isinstance(v, list) or len(v) == 0


def judge(r):
    """Returns (why | None, drift_count)."""
    col = col_of(r)
    oth, d2 = others_of(r)
    drift = 0
    for kind in KINDS:
        o = r["out"][kind]
        if o["k"] == "panic":
            return f"{kind}: kernel panicked: {o.get('msg', '')[:100]}", drift
        if r["dim"] != d2:
            if len(col) > 0 and o["k"] != "err":
                return f"{kind}: dimension mismatch ({r['dim']} vs {d2}) did not raise an error", drift
            continue
        if o["k"] != "ok":
            return f"{kind}: equal dimensions but the call failed: {o.get('msg', '')[:120]}", drift
        if len(o["rows"]) != len(col):
            return f"{kind}: {len(o['rows'])} results for {len(col)} rows", drift
        for i, (a, b) in enumerate(zip(col, oth)):
            nul, fin, m, m2 = o["rows"][i][:4]
            if isnull(a) or isnull(b):
                if nul != 1:
                    return f"{kind}: row {i} has a NULL vector but the result is not NULL (m={m})", drift
                continue
            if nul != 0:
                return f"{kind}: row {i} is NULL for non-NULL vectors", drift
            if fin != 1:
                return f"{kind}: row {i} is not finite", drift
            L, D, na, nb = l2sq(a, b), dot(a, b), dot(a, a), dot(b, b)
            if not value_ok(kind, L, D, na, nb, m, m2):
                return (f"{kind}: row {i} a={a[:8]}.. b={b[:8]}.. reported m={m} m2={m2}, formula gives "
                        f"l2^2={L} dot={D} |a|^2={na} |b|^2={nb}"), drift
            if kind in ("cos", "sim") and na * nb == 0 and m != 0:
                drift += 1
    return None, drift


def trace_rec(r):
    """Uniform record for VecDistTrace (fields TLC does not use are zeroed so that they fit 32 bits)."""
    t = {k: r[k] for k in ("dim", "off", "len", "mode", "q", "dim2", "off2")}
    t["rows"] = [v if isinstance(v, list) else [] for v in r["rows"]]
    t["rows2"] = [v if isinstance(v, list) else [] for v in r["rows2"]]
    out = {}
    for kind in KINDS:
        o = r["out"][kind]
        rows = []
        for row in o.get("rows", []):
            nul, fin, m, m2 = row[:4]
            if kind == "l2":
                rows.append([nul, fin, min(m, 10 ** 9), m2, 0])
            elif kind == "dot":
                rows.append([nul, fin, m, 0, 0])
            else:
                rows.append([nul, fin, m, m2, 0])
        out[kind] = {"k": o["k"], "rows": rows}
    t["out"] = out
    return t


def fits(r):
    """Every integer TLC sees or computes for this record stays inside 32 bits."""
    t = trace_rec(r)
    for kind in KINDS:
        for row in t["out"][kind]["rows"]:
            if any(abs(x) > FIT for x in row):
                return False
    col = col_of(r)
    oth, d2 = others_of(r)
    if r["dim"] != d2:
        return True
    for a, b in zip(col, oth):
        if isnull(a) or isnull(b):
            continue
        L, D, na, nb = l2sq(a, b), dot(a, b), dot(a, a), dot(b, b)
        if L * 10000 + L + 1 > FIT or abs(D) * 10000 + abs(D) + 1 > FIT or D * D * 10000 > FIT or na * nb > FIT:
            return False
    return True


def judge_all(ctx, recs, name):
    """Python exact judge on every record + TLC (VecDistTrace) on every record that fits 32-bit integers;
    the two must agree.  Returns list of (record, why)."""
    bad = []
    verdict = {}
    drift = 0
    for i, r in enumerate(recs):
        why, d = judge(r)
        drift += d
        verdict[i] = why
    fit_idx = [i for i, r in enumerate(recs) if fits(r)]
    trs = [trace_rec(recs[i]) for i in fit_idx]
    back = {id(t): i for t, i in zip(trs, fit_idx)}
    rej = validate_records(ctx, "VecDistTrace", "VecDistTrace.cfg", trs, name=name, max_rejects=6, timeout=3000, heap="6g")
    rejected = {back[id(t)] for t in rej}
    py_bad_fit = [i for i in fit_idx if verdict[i]]
    # TLC stops after max_rejects rejections; up to there the two judges must name the same records
    if (len(py_bad_fit) <= 6 and rejected != set(py_bad_fit)) or not rejected <= set(py_bad_fit):
        raise vlib.ToolError(f"TLC and the exact-integer judge disagree: tlc rejects {sorted(rejected)[:5]}, python {py_bad_fit[:5]}")
    for i, r in enumerate(recs):
        if verdict[i]:
            bad.append((r, verdict[i]))
    ctx.add("records_judged_by_tlc", len(fit_idx))
    ctx.add("records_judged_by_exact_integers_only", len(recs) - len(fit_idx))
    if drift:
        ctx.add("zero_norm_convention_drift", drift)
        ctx.notes.append(f"fidelity: {drift} zero-norm cosine results differ from the code's convention (similarity 0)")
    return bad


def case_of(r):
    return {k: r[k] for k in CASE_KEYS if k in r}


def run(ctx):
    quick = ctx.tier == "quick"
    cfgs = [(f"VecDist_pairs_{ctx.tier}.cfg", "every pair of vectors of dimension 1..3/4 over -2..2"),
            (f"VecDist_nulls_{ctx.tier}.cfg", "5-row columns: NULL rows at every position, every slice, literals incl. wrong widths, second columns")]

    def one(c):
        return c, run_tlc("VecDist", c[0], workers=(3 if quick else 8), timeout=3000, heap="6g", tag="C38-" + c[0][:-4])
    with cf.ThreadPoolExecutor(max_workers=2) as ex:
        results = list(ex.map(one, cfgs))
    cases = []
    for (cfg, label), res in results:
        tlc_must_pass(res, cfg)
        ctx.tlc_stats(res, f"{cfg}: identities + tolerance laws on {label}")
        if len(res.cases) < 100:
            raise vlib.ToolError(f"{cfg} emitted only {len(res.cases)} cases")
        cases += res.cases
    # the same cases through SQL (SELECT f(v, ..) FROM t) for a deterministic subset
    sqlc = []
    for i, c in enumerate(cases):
        if c["fam"] == "nulls" and i % (9 if quick else 3) == 0 or c["fam"] == "pairs" and i % (10 if quick else 4) == 0:
            d = dict(c)
            d["path"] = "sql"
            sqlc.append(d)
    allc = cases + sqlc
    inp = os.path.join(ctx.work, "cases.ndjson")
    outp = os.path.join(ctx.work, "cases.out.ndjson")
    write_ndjson(inp, allc)
    qev(["vecdist-replay", inp, outp], timeout=3000)
    recs = read_ndjson(outp)
    if len(recs) != len(allc):
        raise vlib.ToolError("vecdist-replay returned a different number of records")
    # spec's own expectation must agree with the exact-integer restatement (guards the Python judge)
    for r in recs[:: max(1, len(recs) // 400)]:
        col = col_of(r)
        oth, d2 = others_of(r)
        exp = r["exp"]
        if (exp["err"] == 1) != (r["dim"] != d2):
            raise vlib.ToolError("spec expectation and judge disagree on dimension mismatch")
        for e, a, b in zip(exp["rows"], col, oth):
            want = [1, 0, 0, 0, 0] if isnull(a) or isnull(b) else [0, l2sq(a, b), dot(a, b), dot(a, a), dot(b, b)]
            if e != want:
                raise vlib.ToolError(f"spec expectation {e} != exact restatement {want}")
    # random larger dimensions (8-lane chunk boundaries), recorded from the real kernels
    rnd = os.path.join(ctx.work, "random.ndjson")
    qev(["vecdist-record", str(ctx.seed), str(160 if quick else 2500), rnd], timeout=3000)
    rrecs = read_ndjson(rnd)
    bad = judge_all(ctx, recs + rrecs, "calls")
    for r, why in bad:
        ctx.violation(case_of(r), why)
    # evidence + vacuity
    feats = {"null_rows": 0, "sliced_offset": 0, "dimension_mismatch_error": 0, "zero_norm": 0, "column_vs_column": 0,
             "sql_path": 0, "dim_not_multiple_of_8_above_8": 0, "dim_multiple_of_8": 0, "dim_384_plus": 0}
    pairs = set()
    evals = 0
    for r in recs + rrecs:
        col = col_of(r)
        oth, d2 = others_of(r)
        if r["off"] > 0 and r["len"] > 0:
            feats["sliced_offset"] += 1
        if r["mode"] == "col":
            feats["column_vs_column"] += 1
        if r.get("path") == "sql":
            feats["sql_path"] += 1
        if r["dim"] != d2:
            if r["len"] > 0 and all(r["out"][k]["k"] == "err" for k in KINDS):
                feats["dimension_mismatch_error"] += 1
            continue
        if r["dim"] > 8 and r["dim"] % 8:
            feats["dim_not_multiple_of_8_above_8"] += 1
        if r["dim"] % 8 == 0:
            feats["dim_multiple_of_8"] += 1
        if r["dim"] >= 384:
            feats["dim_384_plus"] += 1
        for a, b in zip(col, oth):
            evals += 4
            if isnull(a) or isnull(b):
                feats["null_rows"] += 1
                continue
            if dot(a, a) * dot(b, b) == 0:
                feats["zero_norm"] += 1
            elif a != b:
                pairs.add(vlib.chash([a, b]))
    for k, v in feats.items():
        if v == 0:
            raise vlib.ToolError(f"no evaluated call exercised {k}")
    ctx.set("real_features", feats)
    ctx.set("evaluations", evals)
    ctx.set("distinct_nontrivial", len(pairs))
    ctx.add("traces_validated_against_impl", 0)
    ctx.set("exhaustive", True)
    for r in (recs[3], recs[len(recs) // 2], rrecs[0]):
        s = case_of(r)
        s["rows"] = s["rows"][:3]
        s["rows2"] = s["rows2"][:2]
        s = json.loads(json.dumps(s))
        for key in ("rows", "rows2"):
            s[key] = [v[:6] if isinstance(v, list) else v for v in s[key]]
        s["q"] = s["q"][:6]
        s["out_l2"] = r["out"]["l2"].get("rows", r["out"]["l2"]["k"])[:2] if isinstance(r["out"]["l2"].get("rows"), list) else r["out"]["l2"]["k"]
        ctx.sample(s)
    ctx.set("rule", "TLC (VecDist.tla) enumerates every pair of integer vectors of dimension 1..3 (quick) / 1..4 (thorough) over -2..2 and, for "
            "5-row columns, every set of NULL rows, every slice (offset, length), literals of the right and of wrong widths and second columns with "
            "their own NULLs/offsets; it checks the polarization identity, Cauchy-Schwarz, symmetry and that the stated tolerance admits the exact "
            "value and rejects the nearest wrong ones. Every case is executed on the real distance_column / distance_columns (and a subset through "
            "SQL) for all four functions; random columns of dimension 7..33, 384, 385, 1023, 1024 are recorded as well. Every call is judged by "
            "TLC (VecDistTrace.tla recomputes the integer identities from the recorded inputs). distinct_nontrivial = distinct ordered pairs of "
            "non-NULL, non-zero, different vectors of equal dimension whose four results were judged.")
    ctx.assumptions += [
        "inputs are small integers, so every f32 partial sum is exact; results are compared through round(x*10^4) and round(x^2*10^4) within the "
        "relative tolerance 10^-4 written in VecDist.tla (float rounding on non-integral inputs is out of reach of TLA+)",
        "zero-norm cosine: the formula is 0/0 and no document pins a value; the contract is a finite value in range, the code's convention "
        "(similarity 0) is fidelity",
        "a dimension mismatch on an empty column is not pinned (no pair exists); distance_columns on columns of different LENGTH is not pinned",
        "records with |dot| > 463 (cosine) exceed TLC's 32-bit integers and are judged by the exact-integer restatement in this check, which is "
        "cross-checked against TLC on all records that fit"]


def replay(ctx, obj):
    c = obj["case"]
    inp = os.path.join(ctx.work, "replay.ndjson")
    outp = os.path.join(ctx.work, "replay.out.ndjson")
    write_ndjson(inp, [c])
    qev(["vecdist-replay", inp, outp])
    recs = read_ndjson(outp)
    for r, why in judge_all(ctx, recs, "replay1"):
        ctx.violation(case_of(r), why)
    ctx.add("evaluations", 4 * c["len"])
    ctx.set("distinct_nontrivial", 1)
    ctx.sample(case_of(recs[0]))


def selftest(ctx):
    base = [
        {"dim": 3, "rows": [[1, 2, 2], [], [0, 0, 0], [2, -1, 0], [1, 1, 1]], "off": 1, "len": 4, "mode": "lit", "q": [1, 0, 2],
         "dim2": 0, "rows2": [], "off2": 0, "path": "api"},
        {"dim": 9, "rows": [[1, 0, 0, 0, 0, 0, 0, 0, 2], [0, 1, 0, 0, 0, 0, 0, 0, 1]], "off": 0, "len": 2, "mode": "col", "q": [],
         "dim2": 9, "rows2": [[2, 0, 0, 0, 0, 0, 0, 0, 1], [1, 1, 0, 0, 0, 0, 0, 1, 1], []], "off2": 0, "path": "api"},
        {"dim": 2, "rows": [[1, 2]], "off": 0, "len": 1, "mode": "lit", "q": [1, 2, 3], "dim2": 0, "rows2": [], "off2": 0, "path": "api"},
    ]
    inp = os.path.join(ctx.work, "selftest.ndjson")
    outp = os.path.join(ctx.work, "selftest.out.ndjson")
    write_ndjson(inp, base)
    qev(["vecdist-replay", inp, outp])
    recs = read_ndjson(outp)
    if judge_all(ctx, recs, "selftest-orig"):
        print("selftest: the unmodified records are rejected")
        return 1
    muts = []
    t = copy.deepcopy(recs[0]); t["out"]["l2"]["rows"][0] = [0, 1, 0, 0, 0]
    muts.append(("NULL row reported as 0.0", t))
    t = copy.deepcopy(recs[0]); t["off"] = 0
    muts.append(("slice offset ignored (results belong to other rows)", t))
    t = copy.deepcopy(recs[1]); t["rows"][0][8] = 0; t["rows"][1][8] = 0
    muts.append(("8-lane remainder skipped (ninth component not accumulated)", t))
    t = copy.deepcopy(recs[0]); t["out"]["cos"]["rows"][1][1] = 0
    muts.append(("cosine of a zero vector is NaN", t))
    t = copy.deepcopy(recs[0]); r3 = t["out"]["sim"]["rows"][3]; r3[2] = -r3[2]
    muts.append(("cosine similarity with the wrong sign", t))
    t = copy.deepcopy(recs[2])
    for k in KINDS:
        t["out"][k] = {"k": "ok", "rows": [[0, 1, 0, 0, 0]]}
    muts.append(("dimension mismatch answered instead of rejected", t))
    t = copy.deepcopy(recs[1]); t["out"]["dot"]["rows"][0][2] += 10000
    muts.append(("dot product off by one", t))
    missed = 0
    for why, t in muts:
        pj, _ = judge(t)
        rej = validate_records(ctx, "VecDistTrace", "VecDistTrace.cfg", [trace_rec(t)], name="selftest-mut")
        ok = bool(rej) and pj is not None
        print(f"selftest: {'rejected' if ok else 'ACCEPTED (binding lost)'}: {why}  [tlc={'reject' if rej else 'accept'}, exact={pj}]")
        missed += 0 if ok else 1
    return 1 if missed else 0
