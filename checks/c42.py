"""C42 — CPU lists parse to the set they denote (CpuList.tla)."""
import json, os
import vlib
from vlib import run_tlc, tlc_must_pass, qev, write_ndjson, read_ndjson, validate_records

LEVEL = "model_checking"
MAXU = -1  # token for usize::MAX


def workers_cases():
    vals = [0, 1, 2, 3, 4, 5, MAXU]
    return [{"w": w, "m": m} for w in vals for m in vals]


def judge_workers(r):
    big = 1 << 62
    cv = lambda v: big if v < 0 else v
    if "panic" in r:
        return "panic: " + r["panic"]
    w, m, x = cv(r["w"]), cv(r["m"]), cv(r["r"])
    if not (x >= 1 and x <= max(m, 1) and x <= max(w, 1)):
        return f"workers_for({r['w']},{r['m']})={r['r']} outside 1..max(m,1) / above max(w,1)"
    return None


def replay_cases(ctx, cases, tag):
    inp = os.path.join(ctx.work, f"{tag}.in.ndjson")
    outp = os.path.join(ctx.work, f"{tag}.out.ndjson")
    write_ndjson(inp, cases)
    qev(["cpulist-replay", inp, outp])
    return read_ndjson(outp)


def run(ctx):
    cfg = "CpuList_quick.cfg" if ctx.tier == "quick" else "CpuList_thorough.cfg"
    res = run_tlc("CpuList", cfg, workers=4, timeout=1500)
    tlc_must_pass(res, "CpuList")
    ctx.tlc_stats(res, "CpuList: all lists within bounds; lemmas + case emission")
    cases = res.cases
    if len(cases) < 1000:
        raise vlib.ToolError("CpuList emitted too few cases")
    outs = replay_cases(ctx, cases, "lists")
    nontrivial = set()
    for r in outs:
        ctx.add("evaluations")
        if "panic" in r:
            ctx.violation({"kind": "list", "s": r["s"], "expect": r["expect"]}, f"parser panicked on {r['s']!r}: {r['panic']}")
        elif r["got"] != r["expect"]:
            ctx.violation({"kind": "list", "s": r["s"], "expect": r["expect"], "got": r["got"]},
                          f"parse({r['s']!r}) = {r['got']} but the list denotes {r['expect']}")
        if len(r["expect"]) >= 2:
            nontrivial.add(r["s"])
    for c in cases[:3] + cases[-2:]:
        ctx.sample(c)
    wouts = replay_cases(ctx, workers_cases(), "workers")
    for r in wouts:
        ctx.add("evaluations")
        why = judge_workers(r)
        if why:
            ctx.violation({"kind": "workers", "w": r["w"], "m": r["m"]}, why)
    # (V) random larger lists, through the hook and through Topology::from_sysfs, judged by TLC
    n = 400 if ctx.tier == "quick" else 5000
    tr = os.path.join(ctx.work, "rec.ndjson")
    qev(["cpulist-record", str(ctx.seed), str(n), tr])
    recs = read_ndjson(tr)
    for r in recs:
        if r["ev"] == "parse" and len(r["got"]) >= 2:
            nontrivial.add(r["s"])
    rej = validate_records(ctx, "CpuListTrace", "CpuListTrace.cfg", recs)
    for r in rej:
        ctx.violation({"kind": "trace", "rec": r}, f"recorded call not explained by CpuList contract: {json.dumps(r)[:300]}")
    ctx.add("evaluations", len(recs))
    ctx.set("distinct_nontrivial", len(nontrivial))
    ctx.set("rule", "TLC enumerates every list of <=MaxParts parts (singletons, ranges incl. reversed/overlapping, junk tokens, "
            "whitespace variants, trailing newline) over ids 0..MaxCpu and renders its text; non-trivial = distinct text denoting >=2 cpus. "
            "Random larger lists are recorded from the real parser (hook and Topology::from_sysfs) and trace-validated.")
    ctx.set("exhaustive", True)
    ctx.assumptions += ["rendering of structured parts to text in the random driver is trusted (TLC renders the exhaustive family itself)"]


def replay(ctx, obj):
    c = obj["case"]
    if c["kind"] == "list":
        r = replay_cases(ctx, [{"s": c["s"], "expect": c["expect"]}], "replay")[0]
        ctx.add("evaluations"); ctx.set("distinct_nontrivial", 1); ctx.sample(r)
        if "panic" in r or r.get("got") != r["expect"]:
            ctx.violation(c, f"parse({c['s']!r}) -> {r.get('got', r.get('panic'))}, expected {r['expect']}")
    elif c["kind"] == "workers":
        r = replay_cases(ctx, [{"w": c["w"], "m": c["m"]}], "replay")[0]
        ctx.add("evaluations"); ctx.sample(r)
        why = judge_workers(r)
        if why:
            ctx.violation(c, why)
    else:
        rej = validate_records(ctx, "CpuListTrace", "CpuListTrace.cfg", [c["rec"]])
        ctx.sample(c["rec"])
        if rej:
            ctx.violation(c, "recorded call not explained by CpuList contract")
