"""C35 — the SQL front door decides and encodes consistently (FrontDoor.tla, harness node.rs).

See lib/frontdoor.py for the machinery shared with C34.  Here: POST /sql (modes auto/force/off/unknown, formats
arrow/json/csv/unknown, statements of every class), POST /fragment, GET /readyz, GET /healthz, on a real node whose
tables are loading / loaded / failed to load, whose discovery has or has not resolved, with 0..2 peers it believes
unknown / up / down that are alive or dead (also dying while the request is pending), draining or not.
"""
import copy, json, os, random
import vlib, frontdoor as fd
from vlib import ToolError

LEVEL = "model_checking"
EPS = ["sql", "fragment", "readyz", "healthz"]
MUTANTS = ["auto_fallback", "force_local", "fragment_before_load", "ready_ignores_drain", "count_down_peers"]
REQUIRED = ["sql_refused_loading", "sql_refused_failed", "fragment_refused_loading", "fragment_refused_failed", "fragment_answered",
            "answer_auto_distributed", "answer_auto_local", "answer_force_distributed", "answer_off_local", "gather_distributed",
            "decoded_arrow", "decoded_json", "decoded_csv", "fragments_seen_on_peers", "failure_after_decision_is_an_error",
            "auto_meets_dead_peer", "readyz_200", "readyz_503", "readyz_503_draining",
            "env:LoadDone", "env:LoadFail", "env:Resolve", "env:Tick", "env:ProbeUp", "env:ProbeDown", "env:PeerDies", "env:Drain"]
SIZES = {
    "quick": dict(eps=EPS, sizes_mc=[0, 1], sizes_mut=[1], sizes_emit=[0, 1, 48], mutants=MUTANTS, per_state=4, walks=60, walk_depth=16, jobs=6, probing=60),
    "thorough": dict(eps=EPS, sizes_mc=[0, 1, 48, 4097], sizes_mut=[0, 1], sizes_emit=[0, 1, 48, 4097], mutants=MUTANTS, per_state=60, walks=1500,
                     walk_depth=24, jobs=8, npeers_mc=3, probing=400, states3=1500, per_state3=14),
}
WHAT = "C35 front door"


def run(ctx):
    P = dict(SIZES[ctx.tier], what=WHAT, required_tags=REQUIRED)
    fd.run_family(ctx, P)
    ctx.set("rule", "A case is (node state, request): the node state is reached by a TLC-emitted environment history (one per reachable "
            "state of FrontDoor.tla over load x draining x resolved x per-peer view x per-peer liveness, 2 peers; plus seeded random walks "
            "that interleave requests with LoadDone/LoadFail/Resolve/Tick/ProbeUp/ProbeDown/PeerDies/Drain), the request is drawn from the "
            "spec's alphabet (endpoint x mode x format x statement class, concrete SQL and query-string spelling chosen from VERIF_SEED). "
            "distinct = hash of (observed node state, endpoint, mode, format, statement, peers dying while pending); non-trivial = the node "
            "is not loaded (gating) or has at least one peer in its view (the decision depends on membership) or a peer dies while the "
            "request is pending. evaluations = steps executed on real nodes.")
    ctx.assumptions += [
        "contract (VIOLATION): no 200 on /sql or /fragment before the tables are loaded; /readyz is 200 iff loaded, resolved and not draining "
        "(the anchor's NodeState::ready); off => local; auto distributes only statements labelled exactly-mergeable with >= 2 members up, "
        "otherwise answers locally with x-qe-distributed-skipped; force never answers locally; a decision to distribute that meets a dead "
        "peer never yields a local answer; a 200 body decodes (Arrow IPC / JSON / RFC 4180 CSV) to exactly the rows a plain ExecutionContext "
        "returns for the same SQL (local answers) and to as many rows as x-qe-rows says; a local answer sends no fragment, a distributed "
        "answer with a live peer up sends at least one",
        "fidelity (drift note, exit 0): status codes of refusals, the loading/failed wording, that auto DOES distribute every mergeable shape, "
        "unknown mode/format => 400, CSV header names, which error a failed fan-out reports",
        "class labels of the statement catalogue are the property's reading of 'exactly-mergeable'; the engine's own plan_distributed / "
        "plan_gather verdicts are compared with them at start-up (mismatch = tool error)",
        "CSV cannot distinguish NULL from the empty string: they are identified when CSV bodies are compared",
        "a distributed answer that differs from the single-node answer is C09's finding: counted as foreign, not judged here",
        "membership is driven through the node's public Membership (the calls the discovery loop makes) and through set_peers + the real "
        "loop (Tick); the node state used for judging is the one the public accessors show when the request is sent",
    ]


def replay(ctx, obj):
    fd.replay_case(ctx, obj, WHAT)


def selftest(ctx):
    ok = True

    def expect(name, cond):
        nonlocal ok
        print(f"selftest {name}: {'detected' if cond else 'NOT DETECTED'}")
        ok = ok and cond

    rng = random.Random(5)
    res = fd.emit_states(ctx, eps=EPS, sizes=[0, 1, 48])
    vlib.tlc_must_pass(res, "state emission")
    reqs = fd.alphabet(EPS, [0, 1, 48])
    pick = [c for c in res.cases if c["s"]["load"] == "loaded" and c["s"]["view"] == ["up", "up"] and c["s"]["alive"] == [True, True] and not c["s"]["draining"]][:1]
    pick += [c for c in res.cases if c["s"]["load"] == "loading" and c["s"]["resolved"]][:1]
    pick += [c for c in res.cases if c["s"]["load"] == "loaded" and c["s"]["draining"] and c["s"]["resolved"]][:1]
    hs = fd.histories_from_states(ctx, pick, reqs, 40, rng, dies_prob=0.0)
    outs, _ = fd.replay_with_retry(ctx, hs, "st_base", jobs=3)
    c0 = vlib.Ctx(ctx.pid, ctx.tier, ctx.seed, LEVEL)
    n = fd.judge(c0, outs, hs, "st-control", WHAT)
    expect("control: unmodified observations are accepted", n == len(hs) and not c0.violations)

    def rejected(mut_outs, clause, tag):
        c1 = vlib.Ctx(ctx.pid, ctx.tier, ctx.seed, LEVEL)
        fd.judge(c1, mut_outs, hs, tag, WHAT, budget=40)
        return any(clause in v["case"]["reject"].get("clauses", []) for v in c1.violations)

    def mutate(pred, change):
        m = copy.deepcopy(outs)
        for o in m:
            for s in o["steps"]:
                if s["a"] == "Req" and "http" in s.get("obs", {}) and pred(s, s["obs"]["http"], s["obs"]):
                    change(s["obs"]["http"])
                    return m
        raise ToolError("selftest: no suitable observation")

    # 1. corrupt an observed decision / header
    expect("an auto answer reported as distributed for a gather-only statement is rejected",
           rejected(mutate(lambda s, h, o: s["ep"] == "sql" and s["mode"] == "auto" and s["cls"] == "gather" and h["status"] == 200, lambda h: h.update(dist=1)),
                    "auto_distributed_unmergeable_or_alone", "st-dist"))
    expect("an auto local answer without a reason is rejected",
           rejected(mutate(lambda s, h, o: s["ep"] == "sql" and s["mode"] == "auto" and h["status"] == 200 and h["dist"] == 0, lambda h: h.update(reason=0)),
                    "auto_local_without_reason", "st-reason"))
    expect("a force answer reported local is rejected",
           rejected(mutate(lambda s, h, o: s["ep"] == "sql" and s["mode"] == "force" and h["status"] == 200, lambda h: h.update(dist=0)),
                    "force_answered_locally", "st-force"))
    expect("a 200 from a node that is still loading is rejected",
           rejected(mutate(lambda s, h, o: s["ep"] == "sql" and o["load"] == "loading" and h["status"] == 503, lambda h: h.update(status=200, dist=0, reason=1)),
                    "answered_before_load", "st-load"))
    expect("a /fragment answer from a node that is still loading is rejected",
           rejected(mutate(lambda s, h, o: s["ep"] == "fragment" and o["load"] == "loading", lambda h: h.update(status=200)),
                    "fragment_before_load", "st-frag"))
    expect("readyz 200 while draining is rejected",
           rejected(mutate(lambda s, h, o: s["ep"] == "readyz" and o["draining"] == 1, lambda h: h.update(status=200)),
                    "readyz_iff_loaded_resolved_not_draining", "st-ready"))
    expect("a wrong x-qe-rows is rejected",
           rejected(mutate(lambda s, h, o: s["ep"] == "sql" and h["status"] == 200 and h["dist"] == 0 and h["rows_hdr"] > 1, lambda h: h.update(rows_hdr=h["rows_hdr"] - 1)),
                    "row_count_header", "st-rows"))
    expect("a local answer that used the peers is rejected",
           rejected(mutate(lambda s, h, o: s["ep"] == "sql" and h["status"] == 200 and h["dist"] == 0 and s["cnt"] == 1, lambda h: h.update(frags=2)),
                    "local_answer_used_peers", "st-frags"))
    # 2. corrupt a decoded row / drop one (inside the harness, before the comparison with the engine's rows)
    for how, clause in (("row", "body_rows_differ_from_engine"), ("droprow", "body_row_count_differs_from_header")):
        o2, _ = fd.replay(ctx, hs[:1], "st_" + how, jobs=1, corrupt=how)
        c1 = vlib.Ctx(ctx.pid, ctx.tier, ctx.seed, LEVEL)
        fd.judge(c1, o2, hs[:1], "st-" + how, WHAT, budget=2)
        expect(f"harness corruption '{how}' of a decoded body is rejected ({clause})",
               any(clause in v["case"]["reject"].get("clauses", []) for v in c1.violations))
    # 3. the model rejects every design mutant
    for m in MUTANTS:
        r = fd.model_check(ctx, m, workers=1, eps=fd.MUTANT_EPS[m], sizes=[0, 1], mutant=m)
        cl = sorted({c for k, d in r.prints if k == "VIOLATED" for c in d["clauses"]})
        expect(f"design mutant {m} violates the contract ({cl})", r.violated == "Contract" and bool(cl))
    print("selftest C35:", "all corruptions detected" if ok else "FAILED")
    return 0 if ok else 1
