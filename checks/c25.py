"""C25 — ORDER BY, LIMIT and OFFSET mean what they say (SqlSem.tla as the oracle)."""
import sqlprop, sqlcheck
LEVEL = "model_checking"

def run(ctx):
    for fam in ['ord']:
        sqlprop.laws(ctx, f"SqlLaws_{fam}_{ctx.tier}.cfg")
    sqlprop.run_sql_property(ctx, corpus=['order', 'topk', 'limoff'], seeded=[('single', {'order_p': 1.0, 'boolops': False, 'max_rows': 6})], quick_n=300, seeded_quick=250, cfgs=[sqlprop.cfg('mem1'), sqlprop.cfg('mem_b3', batches=3), sqlprop.cfg('pq_2f_rg2', layout='parquet', files=2, rg=2), sqlprop.cfg('mem_256B_b2', batches=2, mem_limit=256)],
        rule='multi-key ORDER BY over nullable int/double/string/date columns with ties, ASC/DESC, NULLS FIRST/LAST/default, LIMIT 0..5 and OFFSET 0..4, ORDER BY columns outside the SELECT list; tie-tolerant acceptance (AcceptOrdered).')

def replay(ctx, obj):
    sqlcheck.replay_sql(ctx, obj)

def selftest(ctx):
    return sqlprop.selftest(ctx, ['ord'])
