"""C33 — memory pool accounting is exact under concurrency (MemoryPool.tla).

(M) TLC explores the state graph of the pool at the grain of its atomics (2..3 threads,
    history hidden by a VIEW) and checks Exact / NoUnderflow / CondGrant / Quiescent.
(R) TLC emits behaviours (all complete interleavings of small families + random walks of
    3 threads x 3 operations); `qev pool-replay` executes each one with real threads on the
    real MemoryPool under a deterministic scheduler driven by the sync points in memory.rs
    and compares used()/outcomes/size()s with the spec state after every step.
(V) Observed scheduled runs and unscheduled multi-thread stress runs (barriers) are recorded
    and validated by TLC against MemoryPoolTrace.tla.

contract  = what the statement pins, judged on OBSERVED values only: used() == sum of live
            size()s (mod 2^64, and as a natural number whenever the true sum fits), a
            try_allocate that returned Some leaves used() <= limit, all dropped => 0.
fidelity  = the real step is not the spec's step but the contract holds on what was
            observed (e.g. None where the model grants): "spec drift" note, exit 0.
binding   = a sync point missing / extra / renamed: tool error (exit 2), never a verdict.
"""
import concurrent.futures as cf
import json
import os
import random
import re

import vlib
from vlib import run_tlc, tlc_must_pass, qev, write_ndjson, read_ndjson, validate_records, ToolError

LEVEL = "model_checking"
A_LOAD, A_CAS, A_SPUR, A_ALLOC, A_GROW, A_SHRINK, A_DROP = 1, 2, 3, 4, 5, 6, 7
ACTIONS = ["TryLoadGiveUp", "TryLoadCont", "TryCasOk", "TryCasFailRetry", "TryCasFailGiveUp",
           "TryCasSpurious", "Alloc", "ResizeGrow", "ResizeShrink", "Drop"]
TOYS = ["toctou", "hoist", "nostore", "storefirst", "droporig", "satsub"]
# Debug knob for demonstrating the violation path end to end: VERIF_C33_IMPL=toy:toctou runs the
# whole check against the harness' seeded-bug mirror of the pool instead of the real one.
# Never set by the registered commands; recorded in evidence when used.
IMPL = os.environ.get("VERIF_C33_IMPL", "real")


# ------------------------------------------------------------------------------------------
# TLC helpers

def tlc_parallel(jobs):
    """jobs: list of (label, module, cfg, kwargs).  Independent TLC runs, concurrently (JVM
    start-up dominates the small ones)."""
    with cf.ThreadPoolExecutor(max_workers=max(1, len(jobs))) as ex:
        futs = [ex.submit(run_tlc, m, c, tag=f"C33-{i}-{c[:-4]}", **kw) for i, (_, m, c, kw) in enumerate(jobs)]
        return [f.result() for f in futs]


def sim_states(res):
    m = re.search(r"The number of states generated: (\d+)", res.out)
    return int(m.group(1)) if m else 0


def check_action_coverage(res, what):
    """per-action transition counts from TLC's -coverage output (the LAST report; TLC prints
    interim ones and vlib sums them).  An action never taken = vacuous exploration."""
    cov = {}
    for m in re.finditer(r"^<(\w+) line \d+, col \d+ to line \d+, col \d+ of module MemoryPool>: (\d+):(\d+)", res.out, re.M):
        k = m.group(1)
        cov[k[2:] if k.startswith("Do") else k] = int(m.group(3))
    missing = [a for a in ACTIONS if cov.get(a, 0) == 0]
    if missing:
        raise ToolError(f"{what}: spec actions never taken: {missing} (vacuous exploration)")
    res.coverage = {}
    return {a: cov[a] for a in ACTIONS}


def expect_model_violation(res, cfg, allowed):
    if res.error:
        raise ToolError(f"TLC error in sanity variant {cfg}: {res.error[:300]}")
    if res.violated not in allowed:
        raise ToolError(f"sanity variant {cfg}: expected a violation of {allowed}, TLC reported {res.violated!r} "
                        "(the model cannot see this bug class)")


# ------------------------------------------------------------------------------------------
# behaviours

def beh_key(c):
    return json.dumps([c["max"], c["nt"], c["steps"]], separators=(",", ":"))


def classify(c):
    """measured features of one behaviour"""
    steps = c["steps"]
    f = {"interleaved": False, "cas_fail_retry": 0, "cas_fail_giveup": 0, "cas_ok": 0, "load_giveup": 0,
         "alloc": 0, "grow": 0, "shrink": 0, "drop": 0, "wrap": False, "over_limit": False}
    open_try = {}  # thread -> index of its load
    for i, (t, a, x, y, ok, u) in enumerate(steps):
        if u < 0 or (a in (A_LOAD, A_ALLOC) and x < 0) or (a in (A_GROW, A_SHRINK) and y < 0):
            f["wrap"] = True
        if c["max"] >= 0 and (u < 0 or u > c["max"]):
            f["over_limit"] = True
        if a == A_LOAD:
            if ok == 2:
                open_try[t] = i
            else:
                f["load_giveup"] += 1
        elif a == A_CAS:
            j = open_try.get(t)
            if j is not None and any(steps[k][0] != t for k in range(j + 1, i)):
                f["interleaved"] = True
            if ok == 2:
                f["cas_fail_retry"] += 1
            else:
                open_try.pop(t, None)
                f["cas_ok" if ok == 1 else "cas_fail_giveup"] += 1
        elif a == A_ALLOC:
            f["alloc"] += 1
        elif a == A_GROW:
            f["grow"] += 1
        elif a == A_SHRINK:
            f["shrink"] += 1
        elif a == A_DROP:
            f["drop"] += 1
    return f


def run_replay(ctx, path_in, path_out, *, impl=None, trace=None, lanes=None, timeout=3000):
    impl = impl or IMPL
    if impl != "real":
        ctx.set("impl_under_test", impl)
    args = ["pool-replay", path_in, path_out, "--impl", impl, "--lanes", str(lanes or min(12, os.cpu_count() or 4))]
    if trace:
        args += ["--trace", trace]
    qev(args, timeout=timeout)
    return read_ndjson(path_out)


def obs_records(trace):
    return [r for r in trace if r["ev"] in ("begin", "obs")]


def tlc_rejects(ctx, recs, name):
    rej = validate_records(ctx, "MemoryPoolTrace", "MemoryPoolTrace.cfg", recs, name=name, max_rejects=0)
    return rej


def judge_results(ctx, cases, outs, label, tlc_confirm=3):
    """classify the harness' per-behaviour results; returns number accepted"""
    ok = 0
    confirmed = 0
    for c, r in zip(cases, outs):
        st = r["status"]
        if st == "ok":
            ok += 1
            continue
        if st in ("binding_lost", "error"):
            raise ToolError(f"{label}: {st} at step {r.get('at')}: {r.get('why')} -- behaviour {beh_key(c)[:400]} "
                            "(sync points in memory.rs no longer match MemoryPool.tla's actions, or harness problem)")
        case = {"kind": "behaviour", "max": c["max"], "nt": c["nt"], "steps": c["steps"]}
        if r.get("contract"):
            # the property's predicates fail on the observed values; TLC re-judges them
            if confirmed < tlc_confirm:
                confirmed += 1
                if not tlc_rejects(ctx, obs_records(r["trace"]), "confirm"):
                    raise ToolError(f"{label}: harness reports a contract breach TLC does not confirm: {r['contract']}")
            ctx.violation(case, f"{'real MemoryPool' if IMPL == 'real' else IMPL} under the schedule of this behaviour, step {r['at'] + 1}: {r['contract']}")
        else:
            ctx.add("spec_drift")
            note = f"spec drift ({label}) step {r['at'] + 1}: {r['why']} -- contract holds on observed values"
            if len(ctx.notes) < 10:
                ctx.notes.append({"note": note, "case": case})
            vlib.log("[C33] " + note)
    return ok


# ------------------------------------------------------------------------------------------
# (V) stress

def stress(ctx, tag, seed, nt, rounds, ops, mode, mx, impl=None):
    impl = impl or IMPL
    path = os.path.join(ctx.work, f"stress-{tag}.ndjson")
    args = ["pool-stress", str(seed), str(nt), str(rounds), str(ops), mode, str(mx), path]
    if impl != "real":
        args += ["--impl", impl]
    qev(args, timeout=1200)
    return read_ndjson(path)


def ule(a, b):
    """unsigned <= on window representatives (MemoryPool!ULe)"""
    return a == b or ((a < b) if (a >= 0) == (b >= 0) else a >= 0)


def judge_stress_reject(ctx, r, params):
    """one record of a stress trace that MemoryPoolTrace rejected"""
    case = {"kind": "stress", "params": params, "rec": r}
    if r["ev"] == "barrier":
        obs = [{"ev": "obs", "u": r["u"], "live": r["live"], "max": params["max"], "grant": 0, "idle": 1}]
        if tlc_rejects(ctx, obs, "confirm"):
            ctx.violation(case, f"unscheduled stress ({params}): at a barrier used()={r['u']} but the live size()s are {r['live']}")
        else:
            ctx.add("spec_drift")
            ctx.notes.append({"note": "stress barrier: observed size()s differ from the requested sizes but used() equals their sum", "rec": r})
    elif r["ev"] == "sop" and r.get("tryonly") == 1 and (
            not ule(r["o"], params["max"]) or (r["k"] == A_LOAD and r["ok"] == 1 and not ule(r["x"], params["max"]))):
        o = "a value far outside the window (underflow?)" if r["o"] == vlib.NULL else r["o"]
        ctx.violation(case, f"unscheduled try-only stress ({params}): thread {r['t']} observed used()={o} above the limit "
                            f"{params['max']}, or was granted more than the limit: {json.dumps(r)}")
    else:
        raise ToolError(f"stress trace record not consumable by MemoryPoolTrace: {json.dumps(r)[:300]}")


def validate_segments(ctx, recs, name, budget=4):
    """TLC-validate a concatenation of recorded runs (each starts with `begin`).  After a
    rejection the rest of that run is skipped (its state is no longer defined) and validation
    goes on with the next run.  Returns the rejected records (the same objects)."""
    rejected = []
    while recs and len(rejected) < budget:
        rej = validate_records(ctx, "MemoryPoolTrace", "MemoryPoolTrace.cfg", recs, name=name, max_rejects=0)
        if not rej:
            break
        rejected.append(rej[0])
        i = next(k for k, x in enumerate(recs) if x is rej[0])
        j = next((k for k in range(i + 1, len(recs)) if recs[k]["ev"] == "begin"), len(recs))
        recs = recs[j:]
    return rejected


def judge_stress(ctx, recs, params, name):
    rej = validate_segments(ctx, recs, name)
    for r in rej:
        judge_stress_reject(ctx, r, params)
    return rej


# ------------------------------------------------------------------------------------------

def generate(ctx, tier, families, sim_walks, sim_procs):
    """run the (M) configs, the sanity variants and the emission configs concurrently"""
    q = tier == "quick"
    jobs = []
    if q:
        jobs.append(("M: state graph 2 threads x 2 ops, limits {0,3,MAX}, sizes {0,1,2,MAX,limit}", "MemoryPool", "MemoryPool_quick.cfg",
                     dict(workers=4, coverage=True, timeout=1200)))
    else:
        jobs.append(("M: state graph 3 threads x 2 ops (symmetry), limits {0,3,MAX}, sizes {0,1,2,MAX,limit}", "MemoryPoolMC", "MemoryPool_thorough.cfg",
                     dict(workers=6, coverage=True, timeout=3000, heap="8g")))
        jobs.append(("M: state graph 2 threads x 3 ops (symmetry)", "MemoryPoolMC", "MemoryPool_thorough2.cfg",
                     dict(workers=4, coverage=True, timeout=3000, heap="6g")))
    n_m = len(jobs)
    jobs.append(("sanity: load-check-fetch_add variant", "MemoryPool", "MemoryPool_toctou.cfg", dict(workers=1, timeout=600)))
    if not q:
        jobs.append(("sanity: limit checked only before the CAS loop", "MemoryPool", "MemoryPool_hoist.cfg", dict(workers=1, timeout=600)))
        jobs.append(("sanity: resize without storing the size (Exact)", "MemoryPool", "MemoryPool_nostore.cfg", dict(workers=1, timeout=600)))
        jobs.append(("sanity: resize without storing the size (NoUnderflow)", "MemoryPool", "MemoryPool_nostore_uflow.cfg", dict(workers=1, timeout=600)))
    n_s = len(jobs)
    for fam in families:
        jobs.append((f"R: all complete behaviours, family {fam}", "MemoryPool", f"MemoryPool_enum_{tier}_{fam}.cfg",
                     dict(workers=2 if q else 4, timeout=3000, heap="4g" if q else "10g")))
    n_e = len(jobs)
    per = (sim_walks + sim_procs - 1) // sim_procs
    for k in range(sim_procs):
        jobs.append((f"R: random walks 3 threads x 3 ops #{k}", "MemoryPool", "MemoryPool_sim.cfg",
                     dict(workers=1, simulate=per, depth=200, seed=ctx.seed * 1000 + k, timeout=3000)))
    res = tlc_parallel(jobs)
    # (M)
    for (label, m, c, _), r in zip(jobs[:n_m], res[:n_m]):
        tlc_must_pass(r, c)
        cov = check_action_coverage(r, c)
        ctx.tlc_stats(r, label)
        ctx.cov.setdefault("spec_action_transitions", {})[c] = cov
    # sanity variants must be caught by the model
    allowed = {"MemoryPool_toctou.cfg": ("NoBadGrant", "CondGrant", "TryOnlyBounded"),
               "MemoryPool_hoist.cfg": ("NoBadGrant", "CondGrant", "TryOnlyBounded"),
               "MemoryPool_nostore.cfg": ("Exact",), "MemoryPool_nostore_uflow.cfg": ("NoUnderflow",)}
    for (label, m, c, _), r in zip(jobs[n_m:n_s], res[n_m:n_s]):
        expect_model_violation(r, c, allowed[c])
        ctx.cov.setdefault("model_sanity_variants", {})[c] = f"violates {r.violated} as required"
    # (R) emission
    cases, seen = [], set()
    fam_counts = {}
    for (label, m, c, _), r in zip(jobs[n_s:n_e], res[n_s:n_e]):
        tlc_must_pass(r, c)
        ctx.tlc_stats(r, label)
        if not r.cases:
            raise ToolError(f"{c} emitted no behaviour")
        fam_counts[c] = len(r.cases)
        for x in r.cases:
            k = beh_key(x)
            if k not in seen:
                seen.add(k)
                cases.append(x)
        r.cases = []
    n_enum = len(cases)
    walks = 0
    for (label, m, c, _), r in zip(jobs[n_e:], res[n_e:]):
        if r.error or r.violated or not r.ok:
            vlib.log(r.out[-3000:])
            raise ToolError(f"simulation {label} failed: {r.violated or r.error}")
        ctx.add("states", sim_states(r))
        ctx.add("transitions", sim_states(r))
        ctx.cov.setdefault("tlc_runs", []).append({"what": label, "states_checked": sim_states(r), "behaviours": len(r.cases),
                                                    "wall_s": round(r.wall, 1), "cmd": r.cmd})
        walks += len(r.cases)
        for x in r.cases:
            k = beh_key(x)
            if k not in seen:
                seen.add(k)
                cases.append(x)
        r.cases = []
    if walks == 0:
        raise ToolError("simulation emitted no behaviour")
    ctx.set("behaviours_enumerated", n_enum)
    ctx.set("behaviours_from_walks", len(cases) - n_enum)
    ctx.set("enumeration_families", fam_counts)
    return cases


def run(ctx):
    q = ctx.tier == "quick"
    cases = generate(ctx, ctx.tier, ["a", "b", "c"], 1500 if q else 150000, 1 if q else 6)
    # ---- (R) replay on the real pool
    feats = {"interleaved": 0, "cas_fail_retry": 0, "cas_fail_giveup": 0, "cas_ok": 0, "load_giveup": 0, "alloc": 0,
             "grow": 0, "shrink": 0, "drop": 0, "wrap": 0, "over_limit": 0}
    steps = 0
    for c in cases:
        f = classify(c)
        steps += len(c["steps"])
        for k, v in f.items():
            feats[k] += int(v)
    inp = os.path.join(ctx.work, "beh.in.ndjson")
    outp = os.path.join(ctx.work, "beh.out.ndjson")
    write_ndjson(inp, cases)
    outs = run_replay(ctx, inp, outp)
    if len(outs) != len(cases):
        raise ToolError("pool-replay returned a different number of results")
    ok = judge_results(ctx, cases, outs, "replay")
    ctx.set("evaluations", len(cases))
    ctx.set("steps_replayed_on_real_pool", steps)
    ctx.set("behaviours_matching_spec_at_every_step", ok)
    ctx.set("spurious_cas_failures_observed", sum(r.get("spurious", 0) for r in outs))
    ctx.set("replayed_step_classes", feats)
    ctx.set("distinct_nontrivial", feats["interleaved"])
    for need in ("interleaved", "cas_fail_retry", "cas_fail_giveup", "cas_ok", "load_giveup", "alloc", "grow", "shrink", "drop", "wrap", "over_limit"):
        if feats[need] == 0:
            raise ToolError(f"no replayed behaviour exercises '{need}' (vacuous replay set)")
    rnd = random.Random(ctx.seed)
    inter = [c for c in cases if classify(c)["interleaved"]] if len(cases) < 50000 else [c for c in cases[:50000] if classify(c)["interleaved"]]
    for c in rnd.sample(inter, min(4, len(inter))) + cases[-2:]:
        ctx.sample({"max": c["max"], "threads": c["nt"], "steps_t_a_x_y_ok_used": c["steps"]})
    # ---- (V) observed scheduled runs, judged by TLC step by step
    k = 150 if q else 1500
    sample = rnd.sample(cases, min(k, len(cases)))
    sinp = os.path.join(ctx.work, "obs.in.ndjson")
    write_ndjson(sinp, sample)
    souts = run_replay(ctx, sinp, os.path.join(ctx.work, "obs.out.ndjson"), trace="all")
    # (behaviours that diverged were judged above; here TLC re-judges the ones the harness accepted)
    recs = [r for o in souts if o["status"] == "ok" for r in o["trace"]]
    # ---- (V) unscheduled stress with barriers
    plans = ([("tryonly", 4, 12, 5, 8), ("mixed", 4, 12, 5, 8)] if q else
             [("tryonly", 16, 60, 8, 8), ("tryonly", 16, 40, 8, 0), ("tryonly", 8, 40, 8, 3), ("mixed", 16, 60, 8, 8),
              ("wrap", 16, 40, 8, -1), ("mixed", 3, 80, 10, 3)])
    sops = 0
    origin = {}
    for i, (mode, nt, rounds, ops, mx) in enumerate(plans):
        params = {"mode": mode, "threads": nt, "rounds": rounds, "ops": ops, "max": mx, "seed": ctx.seed + i}
        srecs = stress(ctx, f"{i}", ctx.seed + i, nt, rounds, ops, mode, mx)
        sops += sum(1 for r in srecs if r["ev"] == "sop")
        ctx.add("barriers_checked", sum(1 for r in srecs if r["ev"] == "barrier"))
        for r in srecs:
            origin[id(r)] = params
        recs += srecs
    # one TLC run judges everything recorded from the real pool (segments start with `begin`)
    rej = validate_segments(ctx, recs, "observed")
    bad_plans = set()
    for r in rej:
        if id(r) in origin:
            bad_plans.add(json.dumps(origin[id(r)]))
            judge_stress_reject(ctx, r, origin[id(r)])
        else:
            # the harness comparison accepted this step (judge_results above) but TLC does not: the two judges disagree
            raise ToolError(f"observed step accepted by the harness comparison but rejected by MemoryPoolTrace: {json.dumps(r)[:300]}")
    stress_ok = len(plans) - len(bad_plans)
    ctx.set("stress_ops_recorded", sops)
    ctx.set("stress_traces_accepted", stress_ok)
    # behaviours the real pool followed step by step + stress traces TLC accepted
    ctx.set("traces_validated_against_impl", ok + stress_ok)
    ctx.add("evaluations", sops)
    ctx.set("exhaustive", True)
    ctx.set("rule",
            "TLC (a) explores the complete state graph of MemoryPool.tla (one action per atomic access of `used`, history hidden) and "
            "(b) enumerates EVERY complete behaviour (all interleavings, canonical thread naming and final-drop order) of the families "
            + ("a: 2 threads x 2 ops from {try,resize,drop}, sizes {2,3}, limit 3; b: 3 threads x 1 op, all kinds, sizes {2,3}, limit 3; "
               "c: 2 threads x 1 op, all kinds, sizes {0,1,2,MAX,limit}, limits {0,3,MAX}" if q else
               "a: 2 threads x 2 ops, all kinds, sizes {1,2,3}, limit 3; b: 3 threads x 1 op, all kinds, sizes {1,2,MAX,limit}, limits {3,MAX}; "
               "c: 2 threads x 2 ops, all kinds, sizes {2,MAX}, limit usize::MAX (wrap-around)")
            + ", plus seeded random walks of 3 threads x 3 ops over all sizes/limits (sampled, not exhaustive). Each behaviour is executed by real "
              "threads on the real MemoryPool under the sync-point scheduler; evaluations = behaviours executed + stress operations. "
              "distinct_nontrivial = distinct behaviours (hash of limit + step list) in which a step of another thread falls between the load "
              "and the final CAS of some try_allocate, i.e. two threads interleave inside one operation.")
    ctx.assumptions += [
        "usize arithmetic is modelled on window representatives (-k = usize::MAX-(k-1)); values farther than 2^30 from 0 / 2^64 are unrepresentable and treated as mismatches",
        "when callers force the true sum of live sizes past usize::MAX, the contract is equality mod 2^64 (the statement's 'returns to zero when all are dropped' needs it); a borrow after such a forced carry is not counted as underflow",
        "the scheduler owns the interleaving only at the six sync points of memory.rs; code between two sync points of one thread is one atomic spec action (it touches `used` once)",
        "compare_exchange_weak spurious failures cannot be forced on this hardware; the spec allows them (TryCasSpurious, covered in (M)) and the harness tolerates them",
        "Relaxed/SeqCst ordering effects beyond sequential consistency of the single counter are not modelled (single atomic location: coherence makes every execution SC for it)",
    ]


# ------------------------------------------------------------------------------------------

def replay(ctx, obj):
    c = obj["case"]
    if c["kind"] == "behaviour":
        case = {"max": c["max"], "nt": c["nt"], "steps": c["steps"]}
        inp = os.path.join(ctx.work, "replay.in.ndjson")
        write_ndjson(inp, [case])
        r = run_replay(ctx, inp, os.path.join(ctx.work, "replay.out.ndjson"), trace="all", lanes=1)[0]
        ctx.set("evaluations", 1)
        ctx.set("distinct_nontrivial", int(classify(case)["interleaved"]))
        ctx.sample({"behaviour": case, "result": {k: r[k] for k in r if k != "trace"}})
        # TLC judges the observed run: first as spec steps (fidelity + contract), then contract only
        srej = tlc_rejects(ctx, [x for x in r["trace"] if x["ev"] != "obs"], "replay-steps")
        orej = tlc_rejects(ctx, obs_records(r["trace"]), "replay-obs")
        if r["status"] in ("binding_lost", "error"):
            raise ToolError(f"replay: {r['status']}: {r.get('why')}")
        if orej or r.get("contract"):
            ctx.violation(c, f"step {r.get('at', -1) + 1}: {r.get('contract') or 'TLC rejects observation ' + json.dumps(orej[0])}")
        elif srej or r["status"] != "ok":
            ctx.notes.append({"note": "spec drift: observed run is not a behaviour of MemoryPool.tla but the contract holds", "why": r.get("why")})
    else:
        p = c["params"]
        hit = False
        for k in range(3):
            recs = stress(ctx, "replay", p["seed"] + k, p["threads"], p["rounds"], p["ops"], p["mode"], p["max"])
            ctx.add("evaluations", sum(1 for r in recs if r["ev"] == "sop"))
            if judge_stress(ctx, recs, p, "replay-stress"):
                hit = True
                break
        ctx.sample({"stress": p, "rejected_record": c.get("rec"), "reproduced": hit})
        ctx.set("distinct_nontrivial", 1)


# ------------------------------------------------------------------------------------------

def selftest(ctx):
    """corrupt expectations / observations / hooks and require the machinery to notice"""
    bad = []

    def check(name, cond, detail=""):
        print(f"selftest {name}: {'pass' if cond else 'FAIL'} {detail}")
        if not cond:
            bad.append(name)

    cases = generate(ctx, "quick", ["a", "b", "c"], 600, 1)
    inp = os.path.join(ctx.work, "st.in.ndjson")
    outp = os.path.join(ctx.work, "st.out.ndjson")
    # pick an interleaved behaviour with a failed CAS
    pick = next(c for c in cases if classify(c)["interleaved"] and classify(c)["cas_fail_retry"] and classify(c)["cas_ok"])
    # 0. unmodified: accepted
    write_ndjson(inp, [pick])
    r = run_replay(ctx, inp, outp, trace="all", lanes=1)[0]
    check("baseline behaviour accepted", r["status"] == "ok", beh_key(pick)[:200])
    good_trace = r["trace"]
    # 1. wrong expected `used` in the behaviour
    c1 = json.loads(json.dumps(pick))
    i = max(k for k, s in enumerate(c1["steps"]) if s[1] == A_CAS and s[4] == 1)
    c1["steps"][i][5] += 1
    write_ndjson(inp, [c1])
    r = run_replay(ctx, inp, outp, lanes=1)[0]
    check("wrong expected used", r["status"] == "diverged" and r["at"] == i and not r.get("contract"), r.get("why", ""))
    # 2. wrong expected outcome (None where the pool grants)
    c2 = json.loads(json.dumps(pick))
    c2["steps"][i][4] = 0
    write_ndjson(inp, [c2])
    r = run_replay(ctx, inp, outp, lanes=1)[0]
    check("wrong expected outcome", r["status"] == "diverged" and r["at"] == i, r.get("why", ""))
    # 3. a spec step removed: the thread is then at another sync point than the spec says -> binding lost
    c3 = json.loads(json.dumps(pick))
    j = next(k for k, s in enumerate(c3["steps"]) if s[1] == A_LOAD and s[4] == 2)
    del c3["steps"][j]
    write_ndjson(inp, [c3])
    r = run_replay(ctx, inp, outp, lanes=1)[0]
    check("dropped step (sync-point sequence differs)", r["status"] in ("binding_lost", "diverged"), f"{r['status']}: {r.get('why', '')}")
    # 4. observed trace corrupted -> TLC rejects at that line
    t4 = json.loads(json.dumps(good_trace))
    li = max(k for k, x in enumerate(t4) if x["ev"] == "step" and x["ok"] == 1)
    t4[li]["u"] += 1
    rej = tlc_rejects(ctx, t4, "st-step")
    check("corrupted observed used() in a step record", bool(rej) and rej[0] == t4[li], json.dumps(rej[:1]))
    lj = next(k for k, x in enumerate(good_trace) if x["ev"] == "step" and x["u"] != 0)   # first step that moves `used`
    t5 = [x for k, x in enumerate(good_trace) if k != lj]
    rej = tlc_rejects(ctx, t5, "st-drop")
    check("observed step record dropped", bool(rej), json.dumps(rej[:1])[:200])
    t6 = json.loads(json.dumps(obs_records(good_trace)))
    t6[-1]["u"] = 1
    rej = tlc_rejects(ctx, t6, "st-obs")
    check("non-zero used() after all dropped", bool(rej), json.dumps(rej[:1]))
    # 5. seeded bugs in a toy mirror of the pool (same sync points), same behaviours, same judge
    write_ndjson(inp, cases)
    outs = run_replay(ctx, inp, outp, impl="toy:correct")
    check("toy:correct accepted everywhere", all(o["status"] == "ok" for o in outs))
    for toy in TOYS:
        outs = run_replay(ctx, inp, outp, impl="toy:" + toy)
        hits = [(c, o) for c, o in zip(cases, outs) if o["status"] == "diverged" and o.get("contract")]
        lost = [o for o in outs if o["status"] in ("binding_lost", "error")]
        confirmed = bool(hits) and bool(tlc_rejects(ctx, obs_records(hits[0][1]["trace"]), "st-toy"))
        check(f"toy:{toy} contract breach", confirmed and not lost,
              f"{len(hits)}/{len(cases)} behaviours; e.g. {hits[0][1]['contract'] if hits else ''}")
    # 6. the model sees the bug classes (TLC on the Buggy variants)
    res = tlc_parallel([("", "MemoryPool", c, dict(workers=1, timeout=600)) for c in
                        ("MemoryPool_toctou.cfg", "MemoryPool_nostore.cfg", "MemoryPool_nostore_uflow.cfg", "MemoryPool_hoist.cfg")])
    check("model: load-check-fetch_add violates NoBadGrant/CondGrant", res[0].violated in ("NoBadGrant", "CondGrant", "TryOnlyBounded"), str(res[0].violated))
    check("model: resize without store violates Exact", res[1].violated == "Exact", str(res[1].violated))
    check("model: resize without store violates NoUnderflow", res[2].violated == "NoUnderflow", str(res[2].violated))
    check("model: limit check hoisted out of the CAS loop violates NoBadGrant/CondGrant", res[3].violated in ("NoBadGrant", "CondGrant", "TryOnlyBounded"), str(res[3].violated))
    # 7. stress trace: corrupted barrier / over-limit observation rejected; seeded TOCTOU under real concurrency (informational)
    recs = stress(ctx, "st", ctx.seed, 4, 6, 5, "tryonly", 8)
    check("stress trace accepted", not tlc_rejects(ctx, recs, "st-stress"))
    s1 = json.loads(json.dumps(recs))
    b = next(k for k, x in enumerate(s1) if x["ev"] == "barrier" and x["u"] > 0)
    s1[b]["u"] -= 1
    rej = tlc_rejects(ctx, s1, "st-stress")
    check("stress barrier used() corrupted", bool(rej) and rej[0]["ev"] == "barrier")
    s2 = json.loads(json.dumps(recs))
    k2 = next(k for k, x in enumerate(s2) if x["ev"] == "sop")
    s2[k2]["o"] = 9
    rej = tlc_rejects(ctx, s2, "st-stress")
    check("stress try-only observation above the limit", bool(rej) and rej[0]["ev"] == "sop")
    over = 0
    for k in range(5):
        t = stress(ctx, "st-toy", ctx.seed + k, 16, 30, 10, "tryonly", 8, impl="toy:toctou")
        over += sum(1 for x in t if x["ev"] == "sop" and x["o"] > 8)
    print(f"selftest info: unscheduled 16-thread try-only stress on toy:toctou observed used() > limit {over} times (probabilistic, not gating)")
    print("selftest C33:", "OK" if not bad else f"FAILED {bad}")
    return 0 if not bad else 1
