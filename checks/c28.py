"""C28 — Each CTE reference yields that CTE's rows (SqlSem.tla as the oracle)."""
import sqlprop, sqlcheck
LEVEL = "model_checking"

def run(ctx):
    for fam in []:
        sqlprop.laws(ctx, f"SqlLaws_{fam}_{ctx.tier}.cfg")
    sqlprop.run_sql_property(ctx, corpus=['cte', 'cte2'], seeded=[('joins', {'cte': True, 'cte_p': 1.0, 'derived': True})], quick_n=250, thorough_n=800, seeded_quick=250,
        rule='WITH clauses of 1-2 CTEs (the second may reference the first) referenced 0-3 times in joins, plus derived tables; answers defined by substitution in SqlSem (WithEnv).')

def replay(ctx, obj):
    sqlcheck.replay_sql(ctx, obj)

def selftest(ctx):
    return sqlprop.selftest(ctx, [])
