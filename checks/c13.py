"""C13 — shard scans reassemble the table exactly (SqlSem.tla judges the union of all shard answers)."""
import sqlprop, sqlcheck
LEVEL = "model_checking"

PQ = dict(layout="parquet")
CFGS = [
    dict(name="whole_table", files=2, rg=3, **PQ),
    dict(name="n1_cut1", files=1, rg=4, shard_union={"table": "t0", "nodes": 1, "cut": 1, "seed": 1}, **PQ),
    dict(name="n2_cut1", files=2, rg=3, shard_union={"table": "t0", "nodes": 2, "cut": 1, "seed": 2}, **PQ),
    dict(name="n3_cut2", files=2, rg=3, shard_union={"table": "t0", "nodes": 3, "cut": 2, "seed": 3}, **PQ),
    dict(name="n4_cut3", files=3, rg=2, shard_union={"table": "t0", "nodes": 4, "cut": 3, "seed": 4}, **PQ),
    dict(name="n8_cut1", files=1, rg=8, shard_union={"table": "t0", "nodes": 8, "cut": 1, "seed": 5}, **PQ),
    dict(name="n3_whole_rg", files=3, rg=1, shard_union={"table": "t0", "nodes": 3, "cut": 1000, "seed": 6}, **PQ),
    # hive-style tables: every file has the SAME name in its own directory (explicit file list), one row group per file cut into
    # sub-row-group ranges, so that ranges of different files continue each other under the canonical (name, row group, offset) order
    dict(name="samename_n1_cut2", files=2, rg=1000, same_names=True, shard_union={"table": "t0", "nodes": 1, "cut": 2, "seed": 7}, **PQ),
    dict(name="samename_n2_cut1", files=3, rg=1000, same_names=True, shard_union={"table": "t0", "nodes": 2, "cut": 1, "seed": 8}, **PQ),
    dict(name="samename_n3_cut2", files=2, rg=2, same_names=True, shard_union={"table": "t0", "nodes": 3, "cut": 2, "seed": 9}, **PQ),
]


def cross(cases, outs, cfgs):
    byid = {c["id"]: c for c in cases}
    extra = []
    for o in outs:
        for i, m in enumerate(o["meta"]):
            sh = m.get("shards")
            if sh and sh.get("shards_exposing_whole_files", 0) > 0:
                extra.append((byid[o["id"]], i, "shard-exposes-whole-files", f"{sh['shards_exposing_whole_files']} shard providers return parquet_files()"))
            if o["outs"][0]["k"] == "rows" and o["outs"][i]["k"] == "err":
                extra.append((byid[o["id"]], i, "shard-scan-error", o["outs"][i].get("msg", "")[:160]))
    return extra


def run(ctx):
    sqlprop.run_sql_property(ctx, corpus=["scan"], seeded=[], cfgs=CFGS, quick_n=250, thorough_n=1500, cross=cross,
        rule="Single-table projection/filter statements (no aggregation, ordering or DISTINCT, so the union of per-shard answers must be the whole "
             "answer) over tables of <=8 rows in 1-3 Parquet files; the enumerated splits are re-cut into sub-row-group ranges of 1/2/3 rows, assigned "
             "to 1..8 shards by an arbitrary (seeded random) partition, each shard context is built by the coordinator's own shard_context and runs the "
             "statement through SQL (pushed filter + projection); TLC judges the concatenation of all shard answers against SqlSem; a shard provider "
             "exposing whole files is flagged.")


def replay(ctx, obj):
    sqlcheck.replay_sql(ctx, obj)


def selftest(ctx):
    return sqlprop.selftest(ctx, [])
