"""C37 — vector encodings round-trip and SIMD kernels match Arrow (VecEnc.tla)."""
import concurrent.futures as cf
import copy, json, os
import vlib
from vlib import run_tlc, tlc_must_pass, qev, write_ndjson, read_ndjson

LEVEL = "exploration"
NULL = vlib.NULL
TYPES = ("i32", "i64", "f64", "utf8", "bool")
CMP = {"eq": lambda x, y: x == y, "ne": lambda x, y: x != y, "lt": lambda x, y: x < y, "le": lambda x, y: x <= y,
       "gt": lambda x, y: x > y, "ge": lambda x, y: x >= y}
ARITH = {"add": lambda x, y: x + y, "mul": lambda x, y: x * y}
FINDINGS = {
    "C37/constant-drops-validity": "encode_optimal picks Constant from the storage / first element and decode() returns an array without the NULLs",
    "C37/encode-unsupported-type": "encode_optimal errors or panics for Int32 (and 1-element Boolean) arrays",
    "C37/filter-drops-nulls": "filter_simd drops selected NULL elements where Arrow's filter keeps them",
    "C37/compare-ignores-nulls": "compare_simd compares the storage under NULLs and returns a non-NULL truth value",
    "C37/arith-ignores-nulls": "add_simd / multiply_simd compute on the storage under NULLs and return non-NULL results",
    "C37/sum-empty-zero": "sum_simd returns 0 for an empty / all-NULL array where Arrow's sum returns NULL",
    "C37/kernel-unsupported-type": "filter/compare/add/multiply/sum reject Int32 (and Utf8/Boolean for compare, Utf8 for filter) where the Arrow kernel answers",
}


def backing(slots, off, n):
    return [(s if s >= 0 else -s - 1) for s in slots[off:off + n]]


def classify(c, r):
    """None = implementation agrees with Arrow; else (why, finding_id | None)."""
    op, t, got = r["op"], r["t"], r["got"]
    if r.get("c"):          # compact record: the implementation failed, Arrow == spec was established by the harness
        want = None
    else:
        arrow, exp = r["arrow"], r["exp"]
        if arrow["k"] != "ok" or arrow["v"] != exp:
            raise vlib.ToolError(f"spec and Arrow disagree (spec bug): case {json.dumps(c)[:300]} op={op} type={t} arrow={arrow} spec={exp}")
        want = arrow["v"]
    if got["k"] == "ok" and got["v"] == want:
        return None
    n = c["len"]
    if got["k"] in ("err", "panic"):
        msg = got.get("msg", "")
        if op == "rt":
            if t == "i32" or (t == "bool" and n <= 1):
                return f"encode_optimal {got['k']}: {msg[:90]}", "C37/encode-unsupported-type"
            return f"encode_optimal/decode {got['k']} on {t}: {msg[:120]}", None
        unsupported = {"filter": ("i32", "utf8"), "add": ("i32",), "mul": ("i32",), "sum": ("i32",)}.get(op, ("i32", "utf8", "bool"))
        if got["k"] == "err" and t in unsupported and "nsupported" in msg:
            return f"{op}_simd rejects {t}: {msg[:80]}", "C37/kernel-unsupported-type"
        return f"{op} {got['k']} on {t}: {msg[:120]}", None
    g = got["v"]
    if op == "rt":
        # Constant chosen for an array that holds NULLs (so it is not one repeated value, or it is all NULL) and an
        # all-valid array comes back: constant detection looks at the storage / the first element and forgets validity
        if r.get("enc") == "Constant" and NULL in want and len(g) == len(want) and all(x != NULL for x in g):
            return f"decode(encode_optimal(a)) = {g[:8]} but a = {want[:8]} (Constant chosen, NULLs became values)", "C37/constant-drops-validity"
        return f"decode(encode_optimal(a)) = {g[:10]} but a = {want[:10]} (encoding {r.get('enc')})", None
    if op == "filter":
        if NULL in want and g == [x for x in want if x != NULL]:
            return f"filter = {g[:8]}, Arrow = {want[:8]} (selected NULLs dropped)", "C37/filter-drops-nulls"
        return f"filter = {g[:10]}, Arrow = {want[:10]}", None
    if op == "sum":
        if want == [NULL] and g == [0]:
            return "sum of no non-NULL element = 0, Arrow = NULL", "C37/sum-empty-zero"
        return f"sum = {g}, Arrow = {want}", None
    if op in CMP or op in ARITH:
        a, b = backing(c["base"], c["off"], n), backing(c["bbase"], c["boff"], n)
        f = CMP.get(op) or ARITH[op]
        raw = [int(f(x, y)) for x, y in zip(a, b)]
        if NULL in want and g == raw:
            return (f"{op} = {g[:8]}, Arrow = {want[:8]} (validity ignored)",
                    "C37/compare-ignores-nulls" if op in CMP else "C37/arith-ignores-nulls")
        return f"{op} = {g[:10]}, Arrow = {want[:10]}", None
    return f"{op} = {g[:10]}, Arrow = {want[:10]}", None


def replay_cases(ctx, cases, tag, types=None):
    inp = os.path.join(ctx.work, f"{tag}.in.ndjson")
    outp = os.path.join(ctx.work, f"{tag}.out.ndjson")
    write_ndjson(inp, cases)
    qev(["ffi-replay", inp, outp] + ([",".join(types)] if types else []), timeout=3000)
    recs = read_ndjson(outp)
    if not recs or "summary" not in recs[-1]:
        raise vlib.ToolError("ffi-replay wrote no summary line")
    return recs[:-1], recs[-1]


def judge_records(ctx, cases, recs):
    drift = 0
    for r in recs:
        c = cases[r["i"]]
        if r.get("tydrift"):
            drift += 1
        res = classify(c, r)
        if res is None:
            continue
        why, fid = res
        case = {"case": c, "t": r["t"], "op": r["op"]}
        if fid and ctx.is_known(fid):
            ctx.known(fid, {"case": {k: c[k] for k in c if k not in ("exp",)}, "type": r["t"], "op": r["op"], "why": why})
            h = ctx.known_hits[fid]
            if h["example"]["case"]["len"] < 3 <= c["len"] <= 9:      # keep a more telling example than the 0/1-element one
                h["example"] = {"case": {k: c[k] for k in c if k not in ("exp",)}, "type": r["t"], "op": r["op"], "why": why}
        else:
            ctx.violation(case, f"[{r['t']}] {why}")
    return drift


def run(ctx):
    quick = ctx.tier == "quick"
    jobs = [(f"VecEnc_{ctx.tier}.cfg", "main"), ("VecEnc_mut_rle.cfg", "mut_rle"), ("VecEnc_mut_const.cfg", "mut_const")]

    def one(j):
        return j, run_tlc("VecEnc", j[0], workers=(4 if quick and j[1] == "main" else 2 if quick else 8), timeout=3300, heap="6g",
                          tag="C37-" + j[1], coverage=(not quick and j[1] == "main"))
    with cf.ThreadPoolExecutor(max_workers=3) as ex:
        results = {j[1]: res for j, res in ex.map(one, jobs)}
    res = results["main"]
    tlc_must_pass(res, "VecEnc")
    ctx.tlc_stats(res, "VecEnc: Fill/Encode/Decode step machine, RoundTrip for every applicable encoding, kernel laws, case emission")
    # kill matrix of the model: the invariant must catch the two encoder mutants
    for m in ("mut_rle", "mut_const"):
        r = results[m]
        if r.error:
            raise vlib.ToolError(f"TLC error in {m}: {r.error[:300]}")
        if r.violated != "RoundTrip":
            raise vlib.ToolError(f"model mutant {m} is not caught by RoundTrip (vacuous invariant)")
        ctx.tlc_stats(r, f"VecEnc mutant {m}: RoundTrip violated as required")
    if not quick:
        for act in ("Fill", "Encode", "Decode"):
            if res.coverage.get(act, 0) == 0:
                raise vlib.ToolError(f"VecEnc: action {act} never taken")
    cases = res.cases
    fams = {}
    for c in cases:
        fams[c["fam"]] = fams.get(c["fam"], 0) + 1
    for f in ("un", "untile", "fil", "filtile", "bin", "bintile"):
        if fams.get(f, 0) < 100:
            raise vlib.ToolError(f"VecEnc emitted only {fams.get(f, 0)} cases of family {f}")
    ctx.set("tlc_cases_by_family", fams)
    recs, summ = replay_cases(ctx, cases, "cases")
    drift = judge_records(ctx, cases, recs)
    # the same NULL-free cases once more as Float64 arrays whose values are pairwise distinct but closer to each other than
    # f64::EPSILON (model value x 1e-20): round trip, count, filter and the comparisons (no sum / add / multiply there)
    tiny = [c for c in cases if all(v >= 0 for v in c["base"]) and all(v >= 0 for v in c.get("bbase", []))]
    recs2, summ2 = replay_cases(ctx, tiny, "cases_f64e", types=["f64e"])
    drift += judge_records(ctx, tiny, recs2)
    ctx.set("evaluations_on_epsilon_close_float64", summ2["evals"])
    if summ2["evals"] < 200:
        raise vlib.ToolError("epsilon-close Float64 arrays not exercised")
    # evidence / vacuity
    ctx.set("evaluations", summ["evals"])
    ctx.set("evaluations_agreeing_with_arrow_and_spec", summ["agree"])
    ctx.set("evals_by_op", summ["by_op"])
    ctx.set("evals_by_type", summ["by_type"])
    ctx.set("encodings_chosen_by_encode_optimal", summ["encodings_chosen"])
    ctx.set("evals_on_sliced_arrays", summ["evals_on_sliced_arrays"])
    ctx.set("agreeing_by_op_and_type", summ["agree_by"])
    for e in ("Flat", "Constant", "RunLengthEncoded", "Dictionary"):
        if summ["encodings_chosen"].get(e, 0) == 0:
            raise vlib.ToolError(f"encode_optimal never chose {e}: the round trip of that encoding was not exercised")
    for L in ("7", "8", "9", "63", "64", "65"):
        if summ["evals_by_len"].get(L, 0) == 0:
            raise vlib.ToolError(f"no evaluation on arrays of length {L}")
    if summ["evals_on_sliced_arrays"] == 0 or any(summ["by_type"].get(t, 0) == 0 for t in TYPES):
        raise vlib.ToolError("sliced arrays / some element type not exercised")
    for op in ("rt", "count", "sum", "filter", "eq", "lt", "add", "mul"):
        if summ["agree_by"].get(f"{op}/i64", 0) == 0:
            raise vlib.ToolError(f"no Int64 evaluation of {op} agreed with Arrow: nothing is being compared")
    if drift:
        ctx.add("decode_type_drift", drift)
        ctx.notes.append(f"fidelity: {drift} round trips returned an equal array of another Arrow type (Dictionary<Int32, Utf8> for Utf8): "
                         "values and validity are equal, the type is not judged")
    nontriv = set()
    for c in cases:
        if c["len"] >= 2:
            nontriv.add(vlib.chash({k: c[k] for k in c if k != "exp"}))
    ctx.set("distinct_nontrivial", len(nontriv))
    ctx.set("traces_validated_against_impl", len(cases))
    ctx.set("exhaustive", True)
    for c in (cases[len(cases) // 7], cases[len(cases) // 2], cases[-3]):
        s = json.loads(json.dumps(c))
        s["base"] = s["base"][:12]
        for k in ("bbase", "mask"):
            if k in s:
                s[k] = s[k][:12]
        if len(json.dumps(s["exp"])) > 300:
            s["exp"] = "(long)"
        ctx.sample(s)
    for r in [x for x in recs if x.get("sample")][:3]:
        ctx.sample({"agreeing_evaluation": {k: r[k] for k in ("t", "op", "got", "arrow", "exp")}})
    ctx.set("rule", "TLC (VecEnc.tla) enumerates arrays as slot sequences (values 0..2, NULLs with two different stored values) with every "
            "slice (offset, length) up to 3 (quick) / 5 (thorough) slots, runs the Fill/Encode/Decode machine with every applicable model "
            "encoding (RoundTrip invariant; two encoder mutants must be caught), and emits each array, each (array, mask of every shape) and each "
            "pair of arrays with the expected view, sum, count, filter, six comparisons, add and multiply; tiled families repeat patterns of 1..3 "
            "slots to lengths 7, 8, 9, 63, 64, 65 behind slice offsets 0, 1, 3. Every case is concretized as Int32, Int64, Float64, Utf8 and "
            "Boolean arrays (Boolean: values 0/1 only; arithmetic and sum: numeric types only) and evaluated on the public arrow_ffi function "
            "AND the arrow::compute kernel; the spec's expectation must equal Arrow's on every evaluation (else tool error). "
            "distinct_nontrivial = distinct emitted cases with at least 2 elements.")
    ctx.assumptions += [
        "Arrow (arrow-rs 58) is the oracle the property names: contract = equality of values and validity with the arrow::compute result; "
        "the Arrow TYPE of decode()'s result is fidelity",
        "Float64 arrays carry integral values only: float rounding of sum_simd on non-integral data, NaN, -0.0, integer overflow and operands of "
        "different lengths or types are not explored",
        "filter_simd takes &[bool]; a mask with NULLs cannot be expressed through the public API",
        "which encoding is 'optimal' is not judged; every encoding the implementation chooses must round-trip"]


def replay(ctx, obj):
    cc = obj["case"]
    c = cc["case"]
    recs, summ = replay_cases(ctx, [c], "replay", [cc["t"]])
    ctx.set("evaluations", summ["evals"])
    ctx.set("distinct_nontrivial", 1)
    judge_records(ctx, [c], [r for r in recs if r["op"] == cc["op"]])
    ctx.sample({"case": c, "records": [r for r in recs if r["op"] == cc["op"]][:2]})


def selftest(ctx):
    missed = 0
    # 1. a corrupted expectation must be noticed (spec vs Arrow vs implementation are really compared)
    c = {"f": "un", "fam": "selftest", "base": [2, 1, 0, 2, 1], "off": 1, "len": 3, "exp": {"view": [1, 0, 2], "sum": 3, "count": 3}}
    recs, _ = replay_cases(ctx, [c], "st0", ["i64"])
    try:
        judge_records(ctx, [c], recs)
        ok0 = not ctx.violations and not [r for r in recs if not r.get("sample")]
    except vlib.ToolError:
        ok0 = False
    print(f"selftest: {'ok' if ok0 else 'FAILED'}: an Int64 sliced array round-trips, sums and counts like Arrow and the spec")
    missed += 0 if ok0 else 1
    bad = copy.deepcopy(c); bad["exp"]["sum"] = 4
    recs, _ = replay_cases(ctx, [bad], "st1", ["i64"])
    try:
        judge_records(ctx, [bad], recs)
        det = False
    except vlib.ToolError:
        det = True
    print(f"selftest: {'rejected' if det else 'ACCEPTED (binding lost)'}: expected sum corrupted (3 -> 4)")
    missed += 0 if det else 1
    # 2. simulated code mutations on recorded results: must be violations, not known findings
    fil = {"f": "fil", "fam": "selftest", "base": [2, 0, -2, 1, 2], "off": 1, "len": 4, "mask": [1, 1, 0, 1], "exp": [0, NULL, 2]}
    bn = {"f": "bin", "fam": "selftest", "base": [0, 1, 2, 1, 0, 1, 2, 1, 0], "off": 0, "len": 9, "bbase": [2, 1, 1, 1, 1, 1, 1, 1, 1, 1], "boff": 1,
          "exp": {"eq": [0, 1, 0, 1, 0, 1, 0, 1, 0], "ne": [1, 0, 1, 0, 1, 0, 1, 0, 1], "lt": [1, 0, 0, 0, 1, 0, 0, 0, 1], "le": [1, 1, 0, 1, 1, 1, 0, 1, 1],
                  "gt": [0, 0, 1, 0, 0, 0, 1, 0, 0], "ge": [0, 1, 1, 1, 0, 1, 1, 1, 0], "add": [1, 2, 3, 2, 1, 2, 3, 2, 1], "mul": [0, 1, 2, 1, 0, 1, 2, 1, 0]}}
    sm = {"f": "un", "fam": "selftest", "base": [1, -2, 2], "off": 0, "len": 3, "exp": {"view": [1, NULL, 2], "sum": 3, "count": 2}}
    muts = [
        ("RLE/flat decode ignoring the slice offset", c, {"i": 0, "t": "i64", "op": "rt", "enc": "RunLengthEncoded", "got": {"k": "ok", "v": [2, 1, 0]}, "arrow": {"k": "ok", "v": [1, 0, 2]}, "exp": [1, 0, 2]}),
        ("SIMD tail (len % 8) skipped in add", bn, {"i": 0, "t": "i64", "op": "add", "got": {"k": "ok", "v": [1, 2, 3, 2, 1, 2, 3, 2, 0]}, "arrow": {"k": "ok", "v": bn["exp"]["add"]}, "exp": bn["exp"]["add"]}),
        ("sum counting the storage under NULL slots", sm, {"i": 0, "t": "i64", "op": "sum", "got": {"k": "ok", "v": [4]}, "arrow": {"k": "ok", "v": [3]}, "exp": [3]}),
        ("count counting NULL slots", sm, {"i": 0, "t": "i64", "op": "count", "got": {"k": "ok", "v": [3]}, "arrow": {"k": "ok", "v": [2]}, "exp": [2]}),
        ("filter keeping an unselected element", fil, {"i": 0, "t": "i64", "op": "filter", "got": {"k": "ok", "v": [0, NULL, 1, 2]}, "arrow": {"k": "ok", "v": [0, NULL, 2]}, "exp": [0, NULL, 2]}),
        ("comparison wrong on valid elements", bn, {"i": 0, "t": "f64", "op": "lt", "got": {"k": "ok", "v": [1, 0, 0, 0, 1, 0, 0, 0, 0]}, "arrow": {"k": "ok", "v": bn["exp"]["lt"]}, "exp": bn["exp"]["lt"]}),
        ("constant decode with a wrong VALUE", {"f": "un", "fam": "selftest", "base": [1, 1, 1], "off": 0, "len": 3, "exp": {"view": [1, 1, 1], "sum": 3, "count": 3}},
         {"i": 0, "t": "i64", "op": "rt", "enc": "Constant", "got": {"k": "ok", "v": [2, 2, 2]}, "arrow": {"k": "ok", "v": [1, 1, 1]}, "exp": [1, 1, 1]}),
        ("constant decode of the wrong LENGTH", sm, {"i": 0, "t": "i64", "op": "rt", "enc": "Constant", "got": {"k": "ok", "v": [1, 1]}, "arrow": {"k": "ok", "v": [1, NULL, 2]}, "exp": [1, NULL, 2]}),
        ("panic in a supported kernel", sm, {"i": 0, "t": "i64", "op": "sum", "got": {"k": "panic", "msg": "index out of bounds"}, "arrow": {"k": "ok", "v": [3]}, "exp": [3]}),
    ]
    for why, case, rec in muts:
        res = classify(case, rec)
        ok = res is not None and res[1] is None
        print(f"selftest: {'rejected' if ok else 'ACCEPTED (binding lost)'}: {why}  [{res}]")
        missed += 0 if ok else 1
    # 3. the listed deviations are still classified as such (and only by their exact shape)
    recs, _ = replay_cases(ctx, [fil, sm], "st2", ["i64"])
    kinds = set()
    for r in recs:
        if r.get("sample"):
            continue
        res = classify([fil, sm][r["i"]], r)
        if res:
            kinds.add(res[1])
    print(f"selftest: deviations seen on the real code for the NULL-carrying cases: {sorted(str(k) for k in kinds)}")
    return 1 if missed else 0
