"""C20 — IPC sidecars are invisible and safe to build concurrently (Sidecar.tla, SidecarTrace.tla).

(M)  TLC explores Sidecar.tla — query threads of several PROCESSES running ensure_sidecar / build_sidecar /
     read_row_group, one action per filesystem step (= per sync point of storage/ipc_cache.rs), with
     remove_dir_all file by file — and checks: no query decodes a half-written file, none answers from an
     older version, none fails where the no-sidecar run answers, a fresh stamp means a complete directory,
     one builder per process.  All hold inside ONE process (the mutex path) and for the repaired design
     with a cross-process build lock; between processes `NoReaderError` is refuted for the design as built
     (known finding), and the four seeded protocol mutants are refuted as listed in the evidence.
(R)  Complete behaviours of the spec (random walks; remove_dir_all as one step, the grain a scheduler can
     force) are replayed by the cross-process scheduler (harness/src/sidecar.rs): real engine processes on
     real files, every thread parked at its sync point and released exactly when the behaviour says so;
     after every step the sidecar / staging directories are compared with the spec state, at the end every
     query's rows with the table.
(V)  Un-scheduled: 1..8 builder processes (QE_IPC_CACHE=1) + auto-mode readers + a QE_IPC_CACHE=0 process,
     several threads each, api queries and SQL statements on dictionary-eligible and plain tables; every
     answer must equal the no-sidecar answer; the sync points each process passed are validated by TLC
     against SidecarTrace.tla.

contract (VIOLATION): rows that are not the table's rows; an error/panic where the no-sidecar run answers —
     unless it is the listed cross-process window; a second builder inside one process / a row group opened
     before ensure_sidecar returned (trace).
fidelity (notes): directory states after a step, order of steps inside the private staging directory, what
     auto / off processes touch, the error text.
"""
import collections
import copy
import json
import os
import re
import shutil

import vlib
from vlib import tlc_must_pass, qev, write_ndjson, read_ndjson, chash
from vlib import run_tlc as _run_tlc_once


def run_tlc(*a, **kw):
    """TLC's state-pool files live under the shared work/tlc directory; if somebody else's clean-up removes them
    under a running TLC ('when reading pool file' / 'when writing the disk') the run is repeated once."""
    r = _run_tlc_once(*a, **kw)
    if r.error and re.search(r"StatePool|pool file|when writing the disk", r.error):
        vlib.log(f"[tlc] state-pool file lost under a running TLC ({kw.get('tag')}); repeating the run once")
        r = _run_tlc_once(*a, **kw)
    return r

LEVEL = "model_checking"
F_RACE = "C20/cross-process-remove-window"
STMTS = ["agg", "scan", "filter", "group"]
MODEL_OUT = {"ok": "ok", "parquet": "parquet", "error": "error"}

RGS = [[10, 11, 12], [13, 14]]          # the table of the scheduled replays: 2 row groups
OLD_RGS = [[1, 2], [3]]                 # the older version behind a stale sidecar


def _rgs(start, n, per):
    xs = list(range(start, start + n * per))
    return [xs[i * per:(i + 1) * per] for i in range(n)]


def _key(r):
    return json.dumps(r, separators=(",", ":"))


def table_rows(rgs):
    return sorted([[x, "k%d" % (x % 3), 10 * x] for g in rgs for x in g], key=_key)


def expected_stmt(rgs, kind):
    xs = [x for g in rgs for x in g]
    if kind == "agg":
        rows = [[len(xs), sum(xs), min(xs) * 10, max(xs) * 10]]
    elif kind == "scan":
        rows = [[x, "k%d" % (x % 3), 10 * x] for x in xs]
    elif kind == "filter":
        rows = [[x, 10 * x] for x in xs if x >= 25]
    else:
        rows = [["k%d" % m, len([x for x in xs if x % 3 == m]), sum(x for x in xs if x % 3 == m)]
                for m in range(3) if any(x % 3 == m for x in xs)]
    return sorted(rows, key=_key)


# --------------------------------------------------------------------------------------------
# (M) model runs

CFG = """CONSTANTS NProcs = {np}
          ThreadsPer = {per}
          AutoProcs = {auto}
          NRg = {nrg}
          Inits = {{0, 1, 2}}
          Variant = {var}
          AtomicRemove = {atomic}
          EmitOn = FALSE
          Sim = FALSE
INIT Init
NEXT NextAll
{invs}
CHECK_DEADLOCK FALSE
"""
SAFE = ["TypeOk", "NoPartialRead", "NoWrongAnswer", "MutualExclusion", "LockHeldWhileBuilding", "AutoNeverBuilds", "Quiescent", "NoDeadlock"]
ALL = SAFE + ["NoReaderError", "FreshMeansComplete"]
# seeded protocol mutants: (variant, layout, invariant that must be refuted)
MUTANTS = [(2, "x", "NoPartialRead", "built in the final directory (no staging + rename)"),
           (3, "in", "NoReaderError", "no fresh re-check under the in-process lock"),
           (4, "in", "NoWrongAnswer", "row groups read without the fresh check"),
           (1, "x", "FreshMeansComplete", ".complete written before the row groups (harmless inside one process: staging is private)")]
LAYOUT = {"in": dict(np=1, per=3, auto="{}"), "x": dict(np=3, per=1, auto="{3}")}


def write_cfg(ctx, name, invs, **kw):
    path = os.path.join(ctx.work, name)
    with open(path, "w") as f:
        f.write(CFG.format(invs="\n".join("INVARIANT " + i for i in invs), **kw))
    return path


def tlc_jobs(ctx, quick):
    """start every TLC run of the tier at once; returns the executor's futures by name"""
    from concurrent.futures import ThreadPoolExecutor
    w = 2 if quick else 6
    jobs = {
        "inproc": lambda: run_tlc("Sidecar", "Sidecar_quick.cfg" if quick else "Sidecar_thorough.cfg", workers=w, timeout=3000, coverage=not quick, tag="C20-in"),
        "xproc": lambda: run_tlc("Sidecar", "Sidecar_xproc_quick.cfg" if quick else "Sidecar_xproc_thorough.cfg", workers=w, timeout=3000, coverage=not quick, tag="C20-x"),
        "race": lambda: run_tlc("Sidecar", "Sidecar_asbuilt_race.cfg", workers=1, timeout=1500, tag="C20-race"),
    }
    for k, n in (("a", 60 if quick else 1500), ("b", 60 if quick else 1500), ("c", 40 if quick else 800)):
        jobs["sim_" + k] = (lambda k=k, n=n: run_tlc("Sidecar", f"Sidecar_sim_{k}.cfg", workers=1, timeout=3000, simulate=n, depth=300, seed=ctx.seed, tag="C20-sim" + k))
    if not quick:
        jobs["fix5"] = lambda: run_tlc("Sidecar", "Sidecar_fix5.cfg", workers=w, timeout=3000, tag="C20-fix5")
        for (var, lay, inv, _) in MUTANTS:
            cfg = write_cfg(ctx, f"mut{var}.cfg", ["TypeOk", inv], nrg=2, var=var, atomic="FALSE", **LAYOUT[lay])
            jobs[f"mut{var}"] = (lambda cfg=cfg, var=var: run_tlc("Sidecar", cfg, workers=2, timeout=1500, tag=f"C20-mut{var}"))
        cfg6 = write_cfg(ctx, "fix6.cfg", ["TypeOk", "NoReaderError"], nrg=2, var=6, atomic="FALSE", **LAYOUT["x"])
        jobs["fix6"] = lambda: run_tlc("Sidecar", cfg6, workers=2, timeout=1500, tag="C20-fix6")
    ex = ThreadPoolExecutor(max_workers=len(jobs) + 2)
    return ex, {k: ex.submit(f) for k, f in jobs.items()}


def sim_results(ctx, futs):
    cases = []
    for k in ("a", "b", "c"):
        s = futs["sim_" + k].result()
        if s.error or s.violated:
            tlc_must_pass(s, "simulate " + k)
        m = re.search(r"The number of states generated: (\d+)", s.out)
        s.generated = int(m.group(1)) if m else 0
        s.distinct = len({chash(c["steps"]) for c in s.cases})
        ctx.tlc_stats(s, f"Sidecar -simulate layout {k}: complete behaviours, safety invariants on every state, one CASE per behaviour")
        cases += s.cases
    return cases


ACTIONS = ["CheckFresh", "ParquetRead", "LockInProcess", "RecheckFresh", "MkStaging", "WriteRg", "WriteComplete", "RemoveFinal",
           "RemoveFinalFile", "RemoveFinalDir", "RenameStaging", "CleanupStaging", "OpenRg"]


def model_results(ctx, futs, quick):
    res = {k: f.result() for k, f in futs.items() if not k.startswith("sim_")}
    labels = [("inproc", "Sidecar as built, ONE process, file-by-file removal: every property incl. NoReaderError"),
              ("xproc", "Sidecar as built, several processes: no partial read, no wrong answer, one builder per process")]
    if not quick:
        labels.append(("fix5", "Sidecar with a cross-process build lock (repair): every property incl. NoReaderError"))
    for k, label in labels:
        tlc_must_pass(res[k], k)
        ctx.tlc_stats(res[k], label)
    if not quick:
        zero = [a for a in ACTIONS if res["inproc"].coverage.get(a, 0) + res["xproc"].coverage.get(a, 0) == 0]
        if zero:
            raise vlib.ToolError(f"TLC coverage: actions never taken in the exhaustive models: {zero}")
    r = res["race"]
    if r.error:
        tlc_must_pass(r, "race")
    ctx.tlc_stats(r, "Sidecar as built, 2 builder processes + auto reader: shortest counterexample to NoReaderError")
    if r.violated != "NoReaderError":
        raise vlib.ToolError("the as-built model no longer refutes NoReaderError between processes (spec and code diverged?)")
    ctx.set("asbuilt_race_counterexample_steps", len(re.findall(r"^State \d+:", r.out, re.M)) - 1)
    if not quick:
        kills = {}
        for (var, lay, inv, what) in MUTANTS:
            m = res[f"mut{var}"]
            if m.violated != inv:
                raise vlib.ToolError(f"protocol mutant {var} ({what}) is not refuted by {inv}")
            ctx.tlc_stats(m, f"Sidecar mutant {var}: {what} - refuted by {inv}")
            kills[what] = inv
        ctx.set("model_mutants_refuted", kills)
        f6 = res["fix6"]
        ctx.tlc_stats(f6, "Sidecar repair attempt 6 (never remove a fresh directory; check and removal not atomic)")
        ctx.notes.append(f"repair attempt 'check fresh before remove_dir_all' between processes: {'still refuted (' + f6.violated + '), the check and the removal are two steps' if f6.violated else 'holds'}")


# --------------------------------------------------------------------------------------------
# (R) scheduled replay

def sched_key(c):
    return chash({"np": c["nprocs"], "per": c["per"], "auto": c["auto"], "init": c["init"], "s": [[s["t"], s["a"]] for s in c["steps"]]})


def prepare(cases):
    seen, out = set(), []
    for c in cases:
        h = sched_key(c)
        if h in seen:
            continue
        seen.add(h)
        d = dict(c)
        d["id"] = h
        d["rgs"], d["old_rgs"], d["dict"] = RGS, OLD_RGS, int(h, 16) % 2
        out.append(d)
    return out


def run_orch(ctx, cases, tag, keep=False, parts=4):
    from concurrent.futures import ThreadPoolExecutor
    outs = [None] * len(cases)

    def one(part):
        idx = list(range(len(cases)))[part::parts]
        if not idx:
            return
        inp = os.path.join(ctx.work, f"{tag}.{part}.in.ndjson")
        outp = os.path.join(ctx.work, f"{tag}.{part}.out.ndjson")
        write_ndjson(inp, [cases[i] for i in idx])
        p = qev(["sidecar-orch", inp, outp, os.path.join(ctx.work, "files")] + (["keep"] if keep else []), timeout=3000, check=False)
        if p.returncode not in (0, 3):
            vlib.log(p.stderr[-3000:])
            raise vlib.ToolError(f"sidecar-orch exited {p.returncode}")
        rs = read_ndjson(outp)
        if len(rs) != len(idx):
            raise vlib.ToolError("sidecar-orch lost behaviours")
        for i, r in zip(idx, rs):
            outs[i] = r

    old = os.environ.pop("QE_IPC_CACHE", None)
    try:
        with ThreadPoolExecutor(max_workers=parts) as ex:
            for f in [ex.submit(one, p) for p in range(parts)]:
                f.result()
    finally:
        if old is not None:
            os.environ["QE_IPC_CACHE"] = old
    return outs


def proc_of(c, t):
    return (t - 1) // c["per"] + 1


def race_signature(c, t):
    """thread t's failing OpenRg lies after a RemoveFinal of ANOTHER PROCESS that came after t last learned the sidecar was usable"""
    steps = c["steps"]
    mine = [i for i, s in enumerate(steps) if s["t"] == t]
    opens = [i for i in mine if steps[i]["a"] == "OpenRg"]
    if not opens:
        return False
    fail = opens[-1]
    gates = [i for i in mine if i < fail and steps[i]["a"] in ("CheckFresh", "RecheckFresh", "RenameStaging", "CleanupStaging")]
    if not gates:
        return False
    gate = gates[-1]
    builders = {proc_of(c, s["t"]) for s in steps if s["a"] == "MkStaging"}
    return len(builders) >= 2 and any(gate < i < fail and s["a"] == "RemoveFinal" and proc_of(c, s["t"]) != proc_of(c, t) for i, s in enumerate(steps))


def shape(c):
    return (f"{c['nprocs']} process(es) x {c['per']} thread(s), auto={c['auto']}, init={('absent', 'fresh', 'stale')[c['init']]}: "
            + " ".join(f"{s['t']}:{s['a']}" for s in c["steps"]))


def judge_replay(ctx, cases, outs, stats):
    want = table_rows(RGS)
    for c, o in zip(cases, outs):
        if o.get("tool_error"):
            raise vlib.ToolError(f"scheduler problem: {o['tool_error']}")
        div = o.get("diverged")
        if div:
            stats["diverged"] += 1
            stats["diverged_examples"].append({"behaviour": shape(c)[:400], "at": div})
        for s in c["steps"]:
            stats["actions"][s["a"]] += 1
        stats["layouts"][f"{c['nprocs']}x{c['per']} auto={c['auto']} init={c['init']}"] += 1
        # fidelity: directory state after every step
        if not div:
            for s, ob in zip(c["steps"], o["obs"]):
                ctx.add("state_comparisons")
                if ob["final"] != s["final"] or sorted(ob.get("staging", s["staging"])) != sorted(s["staging"]):
                    if not ob.get("merged"):
                        stats["state_mismatch"] += 1
            if o["final"] != c["final"]:
                stats["state_mismatch"] += 1
            if o.get("staging_left"):
                stats["staging_left"] += 1
        # contract: every query's outcome
        for t, model in enumerate(c["out"], 1):
            ctx.add("evaluations")
            r = o["outs"].get(str(t))
            if r is None:
                raise vlib.ToolError("a query thread never reported")
            real = r["out"]
            stats["outcomes"][f"model {model} / real {real}"] += 1
            if real in ("ok", "parquet"):
                if r["rows"] != want:
                    ctx.violation({"kind": "replay", "case": c, "thread": t, "observed": r},
                                  f"{shape(c)[:600]}: query thread {t} returned rows that are not the table's ({str(r['rows'])[:120]})")
                elif model == "error" and not div:
                    stats["drift"]["model predicted a failing open, the query answered"] += 1
                continue
            # error / panic
            known = real == "error" and model == "error" and not div and race_signature(c, t) and "No such file" in str(r.get("err"))
            if known and ctx.is_known(F_RACE):
                ctx.known(F_RACE, {"behaviour": shape(c)[:700], "thread": t, "error": r.get("err")})
                stats["race_reproduced"] += 1
            else:
                ctx.violation({"kind": "replay", "case": c, "thread": t, "observed": r},
                              f"{shape(c)[:600]}: query thread {t} failed ({real}: {str(r.get('err'))[:160]}) where the no-sidecar run answers"
                              + ("" if not known else f" ({F_RACE} is not listed as open)"))


def nontrivial(c):
    """at least two threads are inside ensure_sidecar/read at the same time (their steps interleave)"""
    first, last = {}, {}
    for i, s in enumerate(c["steps"]):
        first.setdefault(s["t"], i)
        last[s["t"]] = i
    ts = list(first)
    return any(first[a] < first[b] < last[a] for a in ts for b in ts if a != b)


# --------------------------------------------------------------------------------------------
# (V) un-scheduled stress

def stress_configs(ctx, quick):
    cfgs = []
    tab = _rgs(10, 6, 4)
    big = _rgs(10, 24, 2)

    def add(**kw):
        d = dict(builders=0, readers=0, threads=2, iters=2, dict=1, rgs=tab, sql=True, init=0, rayon="2")
        d.update(kw)
        d["id"] = len(cfgs)
        cfgs.append(d)

    for d in (1, 0):
        add(builders=1, threads=4, iters=3, dict=d)                 # one process, four threads: the mutex path
        add(builders=0, readers=2, dict=d)                           # auto without a sidecar: never builds
        add(builders=1, readers=2, init=1, dict=d)                   # reused sidecar
    ks = (2, 8) if quick else (2, 3, 4, 5, 6, 7, 8)
    for k in ks:
        for d in ((k // 2) % 2,) if quick else (1, 0):
            add(builders=k, readers=2, threads=2, iters=2, dict=d)
            add(builders=k, readers=1, threads=1, iters=3, dict=d, rgs=big, sql=False)
    if not quick:
        for rep in range(6):
            add(builders=8, readers=2, threads=2, iters=3, dict=rep % 2, rgs=big, sql=rep % 3 == 0)
            add(builders=1, threads=4, iters=4, dict=rep % 2, rgs=big)
    return cfgs


MODE_CODE = {"0": 0, "1": 1, "auto": 2}


def window_hit(procs, me, t0, t1, slack=30_000_000):
    """does [t0, t1] meet another process's remove_final .. rename (+slack) window?"""
    for j, p in enumerate(procs):
        if j == me:
            continue
        start = None
        for e in sorted(p.get("log", []), key=lambda e: e["n"]):
            if e["p"] == "sidecar.remove_final":
                start = e["ts"]
            elif e["p"] == "sidecar.rename" and start is not None:
                if start <= t1 and t0 <= e["ts"] + slack:
                    return True
                start = None
    return False


def judge_stress(ctx, cfgs, outs, stats):
    traces = []
    for c, o in zip(cfgs, outs):
        want_api = table_rows(c["rgs"])
        want_sql = {k: expected_stmt(c["rgs"], k) for k in STMTS}
        procs = o["procs"]
        base = [p for p in procs if p.get("mode") == "0"]
        if any("tool_error" in p for p in procs) or not base:
            raise vlib.ToolError(f"stress config {c['id']}: a process did not report")
        label = f"stress: {c['builders']} builder process(es) + {c['readers']} auto reader(s) x {c['threads']} thread(s), dict={c['dict']}, {len(c['rgs'])} row groups, init={c['init']}"
        stats["stress_layouts"][f"b{c['builders']}/r{c['readers']}/t{c['threads']}/dict{c['dict']}/init{c['init']}"] += 1
        for j, p in enumerate(procs):
            stats["stress_procs"][p["mode"]] += 1
            for a in p["answers"]:
                if "api" in a:
                    ctx.add("evaluations")
                    r = a["api"]
                    stats["stress_api"][f"{p['mode']}:{r['out']}"] += 1
                    if r["out"] in ("ok", "parquet"):
                        if r["rows"] != want_api:
                            ctx.violation({"kind": "stress", "config": c, "proc": j, "mode": p["mode"], "observed": a},
                                          f"{label}: api query in a QE_IPC_CACHE={p['mode']} process returned other rows than the table's")
                        if p["mode"] == "0" and r["out"] != "parquet":
                            stats["drift"]["QE_IPC_CACHE=0 process read a sidecar"] += 1
                    else:
                        known = (c["builders"] >= 2 and r["out"] == "error" and "No such file" in str(r.get("err")) and "ts" in r
                                 and window_hit(procs, j, r["ts"] - 30_000_000, r["ts"]))
                        if known and ctx.is_known(F_RACE):
                            ctx.known(F_RACE, {"run": label, "mode": p["mode"], "error": r.get("err")})
                            stats["race_in_stress"] += 1
                        else:
                            ctx.violation({"kind": "stress", "config": c, "proc": j, "mode": p["mode"], "observed": a},
                                          f"{label}: api query failed in a QE_IPC_CACHE={p['mode']} process: {str(r.get('err'))[:200]}")
                else:
                    for k in STMTS:
                        ctx.add("evaluations")
                        r = a["sql"].get(k) if isinstance(a["sql"], dict) else None
                        if r is None:
                            raise vlib.ToolError(f"stress: no answer for statement {k}: {str(a)[:200]}")
                        if "rows" in r:
                            stats["stress_sql"][f"{p['mode']}:rows"] += 1
                            if r["rows"] != want_sql[k]:
                                ctx.violation({"kind": "stress", "config": c, "proc": j, "mode": p["mode"], "stmt": k, "observed": r},
                                              f"{label}: statement '{k}' in a QE_IPC_CACHE={p['mode']} process differs from the no-sidecar answer")
                        else:
                            stats["stress_sql"][f"{p['mode']}:error"] += 1
                            msg = str(r.get("err", r.get("panic")))
                            known = (c["builders"] >= 2 and "err" in r and "No such file" in msg and "t0" in r and window_hit(procs, j, r["t0"], r["t1"]))
                            if known and ctx.is_known(F_RACE):
                                ctx.known(F_RACE, {"run": label, "mode": p["mode"], "statement": k, "error": msg[:160]})
                                stats["race_in_stress"] += 1
                            else:
                                ctx.violation({"kind": "stress", "config": c, "proc": j, "mode": p["mode"], "stmt": k, "observed": r},
                                              f"{label}: statement '{k}' failed in a QE_IPC_CACHE={p['mode']} process: {msg[:200]}")
            # the process's trace
            traces.append({"p": "reset", "mode": MODE_CODE[p["mode"]], "nrg": len(c["rgs"]), "t": 0, "w": 0, "k": 0, "cfg": c["id"], "proc": j})
            for e in sorted(p["log"], key=lambda e: e["n"]):
                traces.append({"p": e["p"], "t": e["t"], "w": e["w"], "k": e["k"], "cfg": c["id"], "proc": j})
                stats["stress_points"][e["p"].split(".")[1]] += 1
        if o["final"]["complete"] == 2 or (o["final"]["exists"] == 1 and o["final"]["complete"] == 1 and len(o["final"]["rgs"]) != len(c["rgs"])):
            ctx.violation({"kind": "stress", "config": c, "final": o["final"]}, f"{label}: the sidecar left behind is stamped fresh but incomplete: {o['final']}")
    return traces


SAFETY_POINTS = ("sidecar.recheck_fresh", "sidecar.mk_staging", "sidecar.open_rg")


def validate_traces(ctx, traces, stats):
    rej = vlib.validate_records(ctx, "SidecarTrace", "SidecarTrace.cfg", traces, name="sidecar-trace", max_rejects=6)
    triage_rejects(ctx, rej, stats)
    return rej


def triage_rejects(ctx, rej, stats):
    for r in rej:
        if r["p"] in SAFETY_POINTS:
            ctx.violation({"kind": "trace", "rec": r},
                          f"process trace rejected at {r['p']} (thread {r['t']}): a second builder inside one process, a build without the re-check, or a row group opened before ensure_sidecar returned")
        else:
            stats["drift"][f"process trace deviates from SidecarTrace at {r['p']}"] += 1


# --------------------------------------------------------------------------------------------

def new_stats():
    d = {k: collections.Counter() for k in ("actions", "layouts", "outcomes", "drift", "stress_layouts", "stress_procs", "stress_api", "stress_sql", "stress_points")}
    d.update(diverged=0, diverged_examples=[], state_mismatch=0, staging_left=0, race_reproduced=0, race_in_stress=0)
    return d


def run_stress(ctx, cfgs, tag):
    inp = os.path.join(ctx.work, f"{tag}.in.ndjson")
    outp = os.path.join(ctx.work, f"{tag}.out.ndjson")
    write_ndjson(inp, cfgs)
    old = os.environ.pop("QE_IPC_CACHE", None)
    try:
        p = qev(["sidecar-stress", inp, outp, os.path.join(ctx.work, "files")], timeout=3000, check=False)
    finally:
        if old is not None:
            os.environ["QE_IPC_CACHE"] = old
    if p.returncode != 0:
        vlib.log(p.stderr[-3000:])
        raise vlib.ToolError(f"sidecar-stress exited {p.returncode}")
    outs = read_ndjson(outp)
    if len(outs) != len(cfgs):
        raise vlib.ToolError("sidecar-stress lost configurations")
    return outs


def run(ctx):
    from concurrent.futures import ThreadPoolExecutor
    quick = ctx.tier == "quick"
    stats = new_stats()
    cfgs = stress_configs(ctx, quick)
    # three pipelines run side by side: TLC design runs | TLC walks -> scheduled replay | stress -> trace validation
    ex, futs = tlc_jobs(ctx, quick)
    with ThreadPoolExecutor(max_workers=2) as side:
        def stress_line():
            souts = run_stress(ctx, cfgs, "stress")
            st2 = new_stats()
            c2 = vlib.Ctx(ctx.pid, ctx.tier, ctx.seed, LEVEL)
            c2.work = ctx.work
            traces = judge_stress(c2, cfgs, souts, st2)
            rej = vlib.validate_records(c2, "SidecarTrace", "SidecarTrace.cfg", traces, name="sidecar-trace", max_rejects=6)
            return souts, c2, st2, rej
        sfut = side.submit(stress_line)
        cases = prepare(sim_results(ctx, futs))
        if len(cases) < (100 if quick else 1500):
            raise vlib.ToolError(f"too few behaviours emitted ({len(cases)})")
        outs = run_orch(ctx, cases, "replay", parts=4 if quick else 6)
        judge_replay(ctx, cases, outs, stats)
        model_results(ctx, futs, quick)
        souts, c2, st2, rej = sfut.result()
    ex.shutdown()
    # fold the stress line's findings into this run's context
    ctx.violations += c2.violations
    for fid, h in c2.known_hits.items():
        for _ in range(h["count"]):
            ctx.known(fid, h["example"])
    for k, v in c2.cov.items():
        if k in ("evaluations", "states", "transitions", "traces_validated_against_impl", "trace_events_validated"):
            ctx.add(k, v)
        elif k == "tlc_runs":
            ctx.cov.setdefault("tlc_runs", []).extend(v)
    for k, v in st2.items():
        if isinstance(v, collections.Counter):
            stats[k].update(v)
        elif isinstance(v, int):
            stats[k] += v
    triage_rejects(ctx, rej, stats)
    shutil.rmtree(os.path.join(ctx.work, "files"), ignore_errors=True)

    # vacuity
    miss = [a for a in ACTIONS if a not in ("RemoveFinalFile", "RemoveFinalDir") and stats["actions"][a] == 0]
    for m in ("0", "1", "auto"):
        if stats["stress_procs"][m] == 0:
            miss.append(f"stress process mode {m}")
    for pt in ("check_fresh", "lock", "recheck_fresh", "mk_staging", "write_rg", "write_complete", "remove_final", "rename", "open_rg"):
        if stats["stress_points"][pt] == 0:
            miss.append(f"stress sync point {pt}")
    if stats["outcomes"]["model ok / real ok"] == 0 or stats["outcomes"]["model parquet / real parquet"] == 0:
        miss.append("replayed outcomes ok/parquet")
    if not any(c["init"] == 2 for c in cases) or not any(c["init"] == 1 for c in cases):
        miss.append("initial stale / fresh sidecar")
    if miss:
        raise vlib.ToolError(f"vacuity: never exercised: {miss}")
    if stats["diverged"]:
        if not ctx.violations:
            raise vlib.ToolError(f"binding lost: {stats['diverged']} behaviours left the spec's action sequence, e.g. {json.dumps(stats['diverged_examples'][0])[:500]}")
    nt = {c["id"] for c in cases if nontrivial(c)}
    ctx.set("behaviours_replayed", len(cases))
    ctx.set("behaviours_with_predicted_failing_open", sum(1 for c in cases if "error" in c["out"]))
    ctx.set("stress_runs", len(cfgs))
    ctx.set("distinct_nontrivial", len(nt))
    ctx.set("traces_validated_against_impl", len(cases) + sum(len(o["procs"]) for o in souts))
    ctx.set("exhaustive", True)
    ctx.set("stats", {k: (dict(v) if isinstance(v, collections.Counter) else v) for k, v in stats.items()})
    for c in (cases[0], cases[len(cases) // 2], cases[-1]):
        ctx.sample({"behaviour": shape(c)[:900], "model_outcomes": c["out"]})
    ctx.set("rule", "A case is one complete behaviour of Sidecar.tla - processes x query threads (2 builder processes x 2 threads; 2 builder processes + "
            "an auto-mode reader process; one process x 3 threads), an initial sidecar (absent / fresh / stale from an older version) and the interleaving of "
            "their filesystem steps (check, lock, re-check, staging, one write per row group, stamp, remove, rename, clean-up, one open per row group) - replayed "
            "by real processes parked at the engine's sync points. Non-trivial = distinct behaviour in which the steps of at least two query threads interleave. "
            "The exhaustive part is the TLC state graph of the same module (incl. file-by-file removal); replayed behaviours are seeded random walks. "
            "Un-scheduled runs (1-8 builder processes, auto readers, QE_IPC_CACHE=0 baseline, dictionary-eligible and plain tables) are judged by their answers and "
            "their per-process traces by SidecarTrace.tla.")
    ctx.assumptions += [
        "remove_dir_all is one step for the scheduler (the sync point sits before the call); the file-by-file window inside it is explored on the model only",
        "api queries (ensure_sidecar + read_row_group, the calls the scans make) carry the scheduled replays; SQL statements through ExecutionContext are used in the un-scheduled runs",
        "RAYON_NUM_THREADS=1 in scheduled processes so that row-group writes of one build arrive one at a time",
        "the known finding is recognised by shape: >= 2 builder PROCESSES, a 'No such file' failure of a reader that had passed the fresh check (or published itself) before another process's remove_dir_all and opened after it (un-scheduled runs: failure time inside another process's remove..rename window)",
    ]


def replay(ctx, obj):
    c = obj["case"]
    stats = new_stats()
    if c["kind"] == "replay":
        outs = run_orch(ctx, [c["case"]], "replay1", keep=True, parts=1)
        judge_replay(ctx, [c["case"]], outs, stats)
        ctx.sample({"behaviour": shape(c["case"])[:900], "outs": {t: v["out"] for t, v in outs[0]["outs"].items()}})
        ctx.set("distinct_nontrivial", 1 if nontrivial(c["case"]) else 0)
    elif c["kind"] == "stress":
        # un-scheduled: re-run the configuration a few times
        cfgs = [dict(c["config"], id=i) for i in range(5)]
        outs = run_stress(ctx, cfgs, "replay-stress")
        traces = judge_stress(ctx, cfgs, outs, stats)
        validate_traces(ctx, traces, stats)
        ctx.sample({"config": c["config"]})
        ctx.set("distinct_nontrivial", 1)
    else:
        rej = vlib.validate_records(ctx, "SidecarTrace", "SidecarTrace.cfg", [c["rec"]], name="replay-trace")
        ctx.sample(c["rec"])
        ctx.set("distinct_nontrivial", 1)
        if rej:
            ctx.violation(c, "recorded event not allowed by SidecarTrace")
    ctx.set("stats", {k: (dict(v) if isinstance(v, collections.Counter) else v) for k, v in stats.items()})
    shutil.rmtree(os.path.join(ctx.work, "files"), ignore_errors=True)


# --------------------------------------------------------------------------------------------
# selftest

def selftest(ctx):
    ok = True

    def expect(name, cond, detail=""):
        nonlocal ok
        print(f"selftest {name}: {'detected' if cond else 'NOT DETECTED'} {detail}")
        ok = ok and cond

    def sub():
        c2 = vlib.Ctx(ctx.pid, ctx.tier, ctx.seed, LEVEL)
        c2.work = ctx.work
        return c2

    sims = []
    for k in ("a", "b", "c"):
        s = run_tlc("Sidecar", f"Sidecar_sim_{k}.cfg", workers=1, timeout=1500, simulate=40, depth=300, seed=ctx.seed)
        sims += s.cases
    cases = prepare(sims)
    outs = run_orch(ctx, cases, "selftest", parts=4)
    c0 = sub()
    judge_replay(c0, cases, outs, new_stats())
    expect("baseline (unchanged tree: scheduled replays, no violation, no divergence)", not c0.violations and not any(o.get("diverged") for o in outs), f"({len(cases)} behaviours)")
    expect("the cross-process window is reproduced on real files", F_RACE in c0.known_hits, str(c0.known_hits.get(F_RACE, {}).get("count")))

    # 1. corrupt an observed row
    i = next(i for i, c in enumerate(cases) if "ok" in c["out"])
    o2 = copy.deepcopy(outs[i])
    t = str(cases[i]["out"].index("ok") + 1)
    o2["outs"][t]["rows"][0][0] += 1
    c1 = sub(); judge_replay(c1, [cases[i]], [o2], new_stats())
    expect("observed row corrupted", len(c1.violations) == 1)
    # 2. an error where the model predicts an answer
    o3 = copy.deepcopy(outs[i])
    o3["outs"][t] = {"out": "error", "err": "IO error: No such file or directory (os error 2)"}
    c1 = sub(); judge_replay(c1, [cases[i]], [o3], new_stats())
    expect("unexplained reader error", len(c1.violations) == 1)
    # 3. the known window inside ONE process is not excused
    j = next((j for j, c in enumerate(cases) if "error" in c["out"]), None)
    if j is not None:
        c4 = copy.deepcopy(cases[j]); c4["per"] = c4["nprocs"] * c4["per"]; c4["nprocs"] = 1
        c1 = sub(); judge_replay(c1, [c4], [outs[j]], new_stats())
        expect("reader error with a single builder process is not excused", len(c1.violations) >= 1)
        c1 = sub(); c1.findings = []; judge_replay(c1, [cases[j]], [outs[j]], new_stats())
        expect("window not listed as known -> violation", len(c1.violations) >= 1)
    # 4. a dropped schedule step makes the real processes leave the spec's sequence (binding lost)
    c5 = copy.deepcopy(cases[i]); k = next(k for k, s in enumerate(c5["steps"]) if s["a"] in ("LockInProcess", "OpenRg")); del c5["steps"][k]
    o5 = run_orch(ctx, [c5], "selftest-drop", parts=1)
    expect("dropped step -> divergence reported by the scheduler", bool(o5[0].get("diverged")))
    # 5. the real reader against a STALE sidecar whose stamp is forged to look fresh: rows of the older version must be flagged
    #    (what 'reading before / without the fresh check' would serve)
    stale = next((c for c in cases if c["init"] == 2), None)
    if stale is not None:
        c6 = copy.deepcopy(stale); c6["rgs"], c6["old_rgs"] = OLD_RGS, RGS      # the judge still expects RGS: the files now hold the other content
        o6 = run_orch(ctx, [c6], "selftest-swap", parts=1)
        c1 = sub(); judge_replay(c1, [stale], o6, new_stats())
        expect("real run over other content (rows of another version)", len(c1.violations) >= 1)
    # 6. traces: seeded protocol bugs in a recorded process log
    cfgs = [dict(builders=1, readers=0, threads=3, iters=2, dict=1, rgs=_rgs(10, 6, 4), sql=False, init=0, rayon="2", id=0)]
    souts = run_stress(ctx, cfgs, "selftest-stress")
    c1 = sub(); st = new_stats(); tr = judge_stress(c1, cfgs, souts, st)
    rej = validate_traces(c1, tr, st)
    expect("baseline trace accepted", not rej and not c1.violations)
    def mutate(f):
        t2 = copy.deepcopy(tr); f(t2); c = sub(); s = new_stats(); r = validate_traces(c, t2, s); return r, c, s
    def drop(point):
        def f(t2):
            k = next(k for k, e in enumerate(t2) if e["p"] == point and e["proc"] == 1); del t2[k]
        return f
    r, c, s = mutate(drop("sidecar.recheck_fresh"))
    expect("trace: re-check under the lock missing", bool(c.violations))
    def early_stamp(t2):
        k = next(k for k, e in enumerate(t2) if e["p"] == "sidecar.write_complete"); e = t2.pop(k)
        k2 = next(k for k, e in enumerate(t2) if e["p"] == "sidecar.write_rg"); t2.insert(k2, e)
    r, c, s = mutate(early_stamp)
    expect("trace: .complete stamped before the row groups", bool(r), "(fidelity note)")
    def two_builders(t2):
        k = next(k for k, e in enumerate(t2) if e["p"] == "sidecar.write_rg")
        other = next(t for t in (1, 2, 3) if t != t2[k]["t"])
        t2[k:k] = [dict(t2[k], p="sidecar.check_fresh", t=other, w=0), dict(t2[k], p="sidecar.lock", t=other, w=0), dict(t2[k], p="sidecar.recheck_fresh", t=other, w=0)]
    r, c, s = mutate(two_builders)
    expect("trace: second builder inside one process", bool(c.violations))
    def open_first(t2):
        k = next(k for k, e in enumerate(t2) if e["p"] == "sidecar.check_fresh" and e["proc"] == 1)
        t2.insert(k, dict(t2[k], p="sidecar.open_rg"))
    r, c, s = mutate(open_first)
    expect("trace: row group opened before the fresh check", bool(c.violations))
    # 7. the model refutes every seeded protocol mutant
    for (var, lay, inv, what) in MUTANTS:
        cfg = write_cfg(ctx, f"selftest-mut{var}.cfg", ["TypeOk", inv], nrg=2, var=var, atomic="FALSE", **LAYOUT[lay])
        m = run_tlc("Sidecar", cfg, workers=2, timeout=1500)
        expect(f"model: {what}", m.violated == inv, f"({inv})")
    shutil.rmtree(os.path.join(ctx.work, "files"), ignore_errors=True)
    return 0 if ok else 1
